package main

// C07 scope: module functions statically reachable from the entry points of
// DESIGN Appendix B, plus every module function or closure whose *value is
// created* inside a scope function (decode hooks, transformer callback,
// goroutine bodies, bound methods handed out as func values).

import (
	"go/types"
	"sort"
	"strings"

	"golang.org/x/tools/go/ssa"
)

// c07Entry names one entry point: package (relative), "Func" or "Type.Method".
type c07Entry struct{ Pkg, Name string }

// c07Entries is Appendix B. Unresolvable entries make the check UNDECIDED.
var c07Entries = []c07Entry{
	{"cron", "Parser.Parse"}, {"cron", "ParseStandard"}, {"cron", "SpecSchedule.Next"},
	{"cron", "ConstantDelaySchedule.Next"}, {"cron", "Every"}, {"cron", "NewParser"},
	{"time", "ParseISO8601Duration"}, {"time", "ParseDuration"}, {"time", "ParseTime"},
	{"crypto", "ParseKey"}, {"crypto", "SerializeKey"}, {"crypto", "Encrypt"}, {"crypto", "Decrypt"},
	{"crypto", "EncryptSymmetric"}, {"crypto", "DecryptSymmetric"}, {"crypto", "EncryptPublicKey"},
	{"crypto", "DecryptPrivateKey"}, {"crypto", "SignPrivateKey"}, {"crypto", "VerifyPublicKey"},
	{"crypto/pem", "DecodePEMCertificatesChain"}, {"crypto/pem", "DecodePEMCertificates"},
	{"crypto/pem", "DecodePEMPrivateKey"}, {"crypto/pem", "EncodePrivateKey"}, {"crypto/pem", "EncodeX509"},
	{"crypto/pem", "EncodeX509Chain"}, {"crypto/pem", "PublicKeysEqual"},
	{"crypto/aeskw", "Wrap"}, {"crypto/aeskw", "Unwrap"},
	{"crypto/padding", "PadPKCS7"}, {"crypto/padding", "UnpadPKCS7"},
	{"crypto/aescbcaead", "NewAESCBC128SHA256"}, {"crypto/aescbcaead", "NewAESCBC192SHA384"},
	{"crypto/aescbcaead", "NewAESCBC256SHA384"}, {"crypto/aescbcaead", "NewAESCBC256SHA512"},
	{"crypto/aescbcaead", "NewAESCBCAEAD"},
	// (the cipher.AEAD methods of the unexported type(s) these constructors
	// return are resolved by role: see c07AEADMethods)
	{"schemes/enc/v1", "Encrypt"}, {"schemes/enc/v1", "Decrypt"}, {"schemes/enc/v1", "Manifest.Validate"},
	{"schemes/enc/v1", "Cipher.Validate"}, {"schemes/enc/v1", "Cipher.UnmarshalJSON"}, {"schemes/enc/v1", "NewCipherFromID"},
	{"schemes/enc/v1", "Cipher.ID"}, {"schemes/enc/v1", "Cipher.MarshalJSON"},
	{"schemes/enc/v1", "KeyAlgorithm.Validate"}, {"schemes/enc/v1", "KeyAlgorithm.UnmarshalJSON"}, {"schemes/enc/v1", "NewKeyAlgorithmFromID"},
	{"schemes/enc/v1", "KeyAlgorithm.ID"}, {"schemes/enc/v1", "KeyAlgorithm.MarshalJSON"},
	{"metadata", "DecodeMetadata"}, {"metadata", "GetMetadataProperty"}, {"metadata", "GetMetadataPropertyWithMatchedKey"},
	{"metadata", "Properties.Decode"}, {"metadata", "Properties.GetProperty"}, {"metadata", "Properties.GetPropertyWithMatchedKey"},
	{"metadata", "Duration.UnmarshalJSON"}, {"metadata", "Duration.MarshalJSON"}, {"metadata", "Duration.ToISOString"}, {"metadata", "ByteSize.GetBytes"},
	{"config", "Decode"}, {"config", "Normalize"}, {"config", "PrefixedBy"},
	{"utils", "GetPEM"}, {"utils", "IsValidPEM"},
	{"streams", "UppercaseTransformer"}, {"streams", "RuneToUppercase"},
}

// c07MisuseEntries: the two other functions whose documented misuse panic the
// property's quantifier names. They are in scope for N1 only (the set of
// explicit panics must stay ⊆ the documented set); the other rules do not look
// at them because the property's input list does not.
var c07MisuseEntries = []c07Entry{
	{"ttlcache", "Cache.Set"},
	{"errors", "ErrorBuilder.Build"},
}

// c07Scope is the computed scope.
type c07Scope struct {
	P       *Prog
	In      map[*ssa.Function]bool   // module functions in scope
	Entry   map[*ssa.Function]bool   // the entry points themselves
	Why     map[*ssa.Function]string // one-step reason: "entry" | "called by X" | "value created in X"
	Callers map[*ssa.Function][]c07CallSite
	List    []*ssa.Function // deterministic order
	// HookCreated: function whose value is created in scope (may be invoked
	// by third-party code with arguments the module does not control).
	ValueCreated map[*ssa.Function]bool
}

// c07AEADMethods: Seal/Open/NonceSize/Overhead of every named type of package
// crypto/aescbcaead that implements crypto/cipher.AEAD — whatever the
// (unexported) type is called. No such type => UNDECIDED.
func c07AEADMethods(p *Prog) map[string][]*ssa.Function {
	out := map[string][]*ssa.Function{}
	pkg := p.Pkg("crypto/aescbcaead")
	cp := p.All["crypto/cipher"]
	if cp == nil {
		undecided("package crypto/cipher is not loaded")
	}
	tn, _ := cp.Types.Scope().Lookup("AEAD").(*types.TypeName)
	if tn == nil {
		undecided("crypto/cipher.AEAD no longer resolves")
	}
	iface, _ := tn.Type().Underlying().(*types.Interface)
	sc := pkg.Types.Scope()
	for _, nm := range sc.Names() {
		t, ok := sc.Lookup(nm).(*types.TypeName)
		if !ok || t.IsAlias() {
			continue
		}
		nt, ok := t.Type().(*types.Named)
		if !ok {
			continue
		}
		if _, isI := nt.Underlying().(*types.Interface); isI {
			continue
		}
		for _, rt := range []types.Type{nt, types.NewPointer(nt)} {
			if !types.Implements(rt, iface) {
				continue
			}
			for i := 0; i < iface.NumMethods(); i++ {
				m := iface.Method(i)
				sel := p.SSA.MethodSets.MethodSet(rt).Lookup(m.Pkg(), m.Name())
				if sel == nil {
					continue
				}
				if f := p.SSA.MethodValue(sel); f != nil && f.Blocks != nil && p.InModule(f) {
					out[m.Name()] = append(out[m.Name()], origin(f))
				}
			}
			break
		}
	}
	if len(out["Seal"]) == 0 || len(out["Open"]) == 0 {
		undecided("no type of crypto/aescbcaead implements cipher.AEAD (entry points Seal/Open unresolved)")
	}
	return out
}

func c07ResolveEntries(p *Prog, list []c07Entry) []*ssa.Function {
	var out []*ssa.Function
	if len(list) > 10 { // the main entry table (not the misuse-only one)
		ms := c07AEADMethods(p)
		for _, nm := range []string{"NonceSize", "Open", "Overhead", "Seal"} {
			out = append(out, ms[nm]...)
		}
	}
	for _, e := range list {
		fn := p.Func(e.Pkg, e.Name) // unresolved => UNDECIDED
		if fn.Blocks == nil {
			undecided("entry point %s.%s has no body", e.Pkg, e.Name)
		}
		out = append(out, origin(fn))
	}
	return out
}

func c07BuildScope(p *Prog, entries []*ssa.Function, fv *c07FV) *c07Scope {
	sc := &c07Scope{P: p, In: map[*ssa.Function]bool{}, Entry: map[*ssa.Function]bool{}, Why: map[*ssa.Function]string{},
		Callers: map[*ssa.Function][]c07CallSite{}, ValueCreated: map[*ssa.Function]bool{}}
	var work []*ssa.Function
	add := func(fn *ssa.Function, why string) {
		fn = origin(fn)
		if fn == nil || sc.In[fn] || !p.InModule(fn) || fn.Blocks == nil {
			return
		}
		sc.In[fn] = true
		sc.Why[fn] = why
		work = append(work, fn)
	}
	for _, fn := range entries {
		sc.Entry[fn] = true
		add(fn, "entry")
	}
	// through resolves synthetic wrappers (bound-method closures, thunks) to
	// the module functions they call.
	var through func(f *ssa.Function, depth int) []*ssa.Function
	through = func(f *ssa.Function, depth int) []*ssa.Function {
		f = origin(f)
		if f == nil {
			return nil
		}
		if p.InModule(f) {
			return []*ssa.Function{f}
		}
		if f.Synthetic == "" || depth > 3 || f.Blocks == nil {
			return nil
		}
		if !strings.Contains(f.Synthetic, "bound") && !strings.Contains(f.Synthetic, "thunk") && !strings.Contains(f.Synthetic, "wrapper") {
			return nil
		}
		var out []*ssa.Function
		allInstrs(f, func(in ssa.Instruction) {
			if ci, ok := in.(ssa.CallInstruction); ok {
				if g := staticCallee(ci); g != nil {
					out = append(out, through(g, depth+1)...)
				}
			}
		})
		return out
	}
	for len(work) > 0 {
		fn := work[0]
		work = work[1:]
		name := FuncName(p, fn)
		allInstrs(fn, func(in ssa.Instruction) {
			var calleeVal ssa.Value
			if ci, ok := in.(ssa.CallInstruction); ok {
				if g := staticCallee(ci); g != nil {
					for _, t := range through(g, 0) {
						sc.Callers[t] = append(sc.Callers[t], c07CallSite{Caller: fn, Instr: ci})
						add(t, "called by "+name)
					}
				}
				calleeVal = ci.Common().Value
				// calls through function values / module-declared interfaces whose
				// targets are visible (dispatch tables, func-typed fields, callbacks,
				// single-implementation seams)
				if fv != nil && staticCallee(ci) == nil {
					for _, t := range fv.DynTargets[ci] {
						add(t.Fn, "called through a function value or module interface by "+name)
					}
				}
			}
			for _, op := range in.Operands(nil) {
				if op == nil || *op == nil {
					continue
				}
				var f *ssa.Function
				switch v := (*op).(type) {
				case *ssa.Function:
					f = v
				case *ssa.MakeClosure:
					f, _ = v.Fn.(*ssa.Function)
				}
				if f == nil {
					continue
				}
				if *op == calleeVal {
					continue // plain call, handled above
				}
				for _, t := range through(f, 0) {
					sc.ValueCreated[t] = true
					add(t, "value created in "+name)
				}
			}
		})
	}
	for fn := range sc.In {
		sc.List = append(sc.List, fn)
	}
	sort.Slice(sc.List, func(i, j int) bool { return FuncName(p, sc.List[i]) < FuncName(p, sc.List[j]) })
	return sc
}

// c07IsInputFunc: the parameters of fn are (or may be) chosen by the caller of
// the library or by third-party code: exported entry points and functions
// whose value escapes as a func value.
func (sc *c07Scope) c07IsInputFunc(fn *ssa.Function) bool {
	return sc.Entry[fn] || sc.ValueCreated[fn] || isExportedFunc(fn)
}
