package main

// C02.H3 — the bytes the header reader read beyond the header are pushed back
// in front of the source: the push-back may be skipped only when that leftover
// (a slice buf[lo:hi] of the read buffer) is empty. A guard on another
// quantity — e.g. the size of the last read instead of the total — drops
// payload bytes whenever the header arrives in several reads: a short
// document then looks like a bare header and ends in a clean EOF.

import (
	"go/token"

	"golang.org/x/tools/go/ssa"
)

// c02Leftover finds the slice expression buf[lo:hi] (both bounds present)
// whose bytes end up in the reader that is put in front of the source by the
// push-back site `site`.
func c02Leftover(p *Prog, site *ssa.Call, isSrc func(ssa.Value) bool) *ssa.Slice {
	var found *ssa.Slice
	seen := map[ssa.Value]bool{}
	var walk func(v ssa.Value, depth int)
	walk = func(v ssa.Value, depth int) {
		if v == nil || seen[v] || depth > 8 || found != nil {
			return
		}
		seen[v] = true
		if isSrc(v) {
			return
		}
		switch x := v.(type) {
		case *ssa.Slice:
			if x.Low != nil && x.High != nil && c02IsByteSlice(x.Type()) {
				found = x
				return
			}
			// a variadic argument list, or a re-slice: look at what is stored in / sliced from it
			if al, ok := x.X.(*ssa.Alloc); ok {
				for _, rr := range refs(al) {
					if ia, ok := rr.(*ssa.IndexAddr); ok {
						for _, r2 := range refs(ia) {
							if st, ok := r2.(*ssa.Store); ok && st.Addr == ssa.Value(ia) {
								walk(st.Val, depth+1)
							}
						}
					}
				}
				return
			}
			walk(x.X, depth+1)
		case *ssa.MakeInterface:
			walk(x.X, depth+1)
		case *ssa.ChangeInterface:
			walk(x.X, depth+1)
		case *ssa.Phi:
			for _, e := range x.Edges {
				walk(e, depth+1)
			}
		case *ssa.Call:
			for _, a := range x.Call.Args {
				walk(a, depth+1)
			}
		case *ssa.MakeSlice, *ssa.Alloc:
			// a fresh buffer: what is copied into it
			for _, rr := range refs(v) {
				switch u := rr.(type) {
				case *ssa.Call:
					if builtinName(u) == "copy" && len(u.Call.Args) == 2 && c02SliceBase(u.Call.Args[0]) == v {
						walk(u.Call.Args[1], depth+1)
					}
				case *ssa.Slice:
					if u.X == v {
						for _, r2 := range refs(u) {
							if c, ok := r2.(*ssa.Call); ok && builtinName(c) == "copy" && len(c.Call.Args) == 2 && c.Call.Args[0] == ssa.Value(u) {
								walk(c.Call.Args[1], depth+1)
							}
						}
					}
				}
			}
		}
	}
	for _, a := range site.Call.Args {
		walk(a, 0)
	}
	return found
}

// c02CheckOverread judges the guards of the push-back sites of a header reader.
func c02CheckOverread(p *Prog, r *Report, fn *ssa.Function, name string) {
	rule := "C02.H3-header-overread-pushed-back"
	construct := name + " over-read bytes pushed back"
	ptrs, vals := c02SrcRoots(fn)
	isSrc := func(v ssa.Value) bool { return c02ContainsSrc(v, ptrs, vals, 0) }
	// push-back sites: a reader wrapper around the source that also gets other bytes, or a push-back helper
	var sites []*ssa.Call
	allInstrs(fn, func(in ssa.Instruction) {
		call, ok := in.(*ssa.Call)
		if !ok || call.Call.IsInvoke() {
			return
		}
		passesSrc := false
		for _, a := range call.Call.Args {
			if isSrc(a) {
				passesSrc = true
			}
			for _, pa := range ptrs {
				if a == ssa.Value(pa) {
					passesSrc = true
				}
			}
			// variadic readers
			if sl, ok := a.(*ssa.Slice); ok {
				if al, ok := sl.X.(*ssa.Alloc); ok {
					for _, rr := range refs(al) {
						if ia, ok := rr.(*ssa.IndexAddr); ok {
							for _, r2 := range refs(ia) {
								if st, ok := r2.(*ssa.Store); ok && st.Addr == ssa.Value(ia) && isSrc(st.Val) {
									passesSrc = true
								}
							}
						}
					}
				}
			}
		}
		if !passesSrc {
			return
		}
		switch {
		case callIs(call, "io", "", "MultiReader"):
			sites = append(sites, call)
		default:
			h := staticCallee(call)
			if h == nil || !p.InModule(h) || len(h.Blocks) == 0 {
				return
			}
			if c02ReadsGivenReaderD(h, 0, nil) {
				return // a read helper, not a push-back
			}
			sites = append(sites, call)
		}
	})
	if len(sites) == 0 {
		r.Trivial(rule, construct, p.Pos(fn.Pos()), "the header reader never puts bytes back in front of the source (nothing is read beyond the header, or the source is handed on as it is)")
		return
	}
	// success returns
	var okRets []*ssa.Return
	allInstrs(fn, func(in ssa.Instruction) {
		ret, ok := in.(*ssa.Return)
		if !ok || len(ret.Results) == 0 || (len(ret.Block().Preds) == 0 && ret.Block().Index != 0) {
			return
		}
		e := c02Ret(ret, len(ret.Results)-1)
		if c02XAllNil(e) || isNilConst(e) {
			okRets = append(okRets, ret)
		}
	})
	for _, site := range sites {
		left := c02Leftover(p, site, isSrc)
		if left == nil {
			r.Undecide("%s: the bytes put back in front of the source at %s are not visibly a slice buf[lo:hi] of the read buffer; whether everything read beyond the header is pushed back cannot be established", construct, p.Pos(site.Pos()))
			return
		}
		lo, hi := left.Low, left.High
		// the guards that decide whether the site runs but not whether the function succeeds
		var guards []DomCond
		for _, dc := range domConds(site.Block()) {
			specific := false
			for _, ret := range okRets {
				if !edgeDominatesRet(dc, ret) {
					specific = true
				}
			}
			if !specific {
				continue
			}
			// a guard whose other branch puts the bytes back in another way (e.g. without the source once it is
			// exhausted) does not skip the push-back: what is stored there is H2's business
			b := dc.If.Block()
			other := b.Succs[1]
			if !dc.Branch {
				other = b.Succs[0]
			}
			alt := false
			for blk := range reachableFrom(other, map[*ssa.BasicBlock]bool{site.Block(): true}) {
				for _, in := range blk.Instrs {
					switch x := in.(type) {
					case *ssa.Store:
						for _, pa := range ptrs {
							if x.Addr == ssa.Value(pa) {
								alt = true
							}
						}
					case *ssa.Call:
						for _, s2 := range sites {
							if s2 == x && s2 != site {
								alt = true
							}
						}
					}
				}
			}
			if !alt {
				guards = append(guards, dc)
			}
		}
		if len(guards) == 0 {
			r.OK(rule, construct, p.Pos(site.Pos()), "the push-back is not conditional on anything the success return is not")
			continue
		}
		for _, g := range guards {
			verdict, why := c02JudgeLeftoverGuard(g, lo, hi, left)
			switch verdict {
			case 1:
				r.OK(rule, construct, p.Pos(instrPos(g.If)), "the push-back is skipped only when the leftover slice is empty")
			case -1:
				r.Violation(rule, construct, p.Pos(instrPos(g.If)),
					"the push-back of the bytes read beyond the header is guarded by a test on "+why+" instead of on the size of the leftover itself: when the header arrives in several reads the test can fail although bytes were read beyond the header; they are dropped, and a short document (its whole payload in that read) then looks like a bare header — tampered, truncated or not, it ends in a clean EOF")
			default:
				r.Undecide("%s: the guard of the push-back at %s cannot be related to the bounds of the leftover slice (%s)", construct, p.Pos(instrPos(g.If)), why)
			}
		}
	}
}

// edgeDominatesRet: the guard edge dc also lies on every path to ret.
func edgeDominatesRet(dc DomCond, ret *ssa.Return) bool {
	b := dc.If.Block()
	to := b.Succs[0]
	if !dc.Branch {
		to = b.Succs[1]
	}
	return edgeDominates(b, to, ret.Block())
}

// c02JudgeLeftoverGuard: 1 = taking the other branch of g implies hi <= lo
// (the leftover is empty); -1 = g tests lo against a quantity that is only one
// addend of hi (the size of one read instead of the total); 0 = cannot relate.
func c02JudgeLeftoverGuard(g DomCond, lo, hi ssa.Value, left *ssa.Slice) (int, string) {
	cmp, ok := decodeCond(g.If.Cond, g.Branch)
	if !ok {
		return 0, "not a comparison"
	}
	strip := func(v ssa.Value) ssa.Value {
		for i := 0; i < 3; i++ {
			if cv, ok := v.(*ssa.Convert); ok {
				v = cv.X
				continue
			}
			break
		}
		return v
	}
	x, y, op := strip(cmp.X), strip(cmp.Y), cmp.Op
	// the taken branch (push back) must be implied by... rather: the skipped branch must imply hi <= lo,
	// i.e. the taken branch must hold whenever hi > lo. Forms of "taken": hi > lo, hi >= lo, hi != lo (and mirrored).
	isHiLo := func(a, b ssa.Value) bool { return a == hi && b == lo }
	switch {
	case isHiLo(x, y) && (op == token.GTR || op == token.GEQ || op == token.NEQ):
		return 1, ""
	case isHiLo(y, x) && (op == token.LSS || op == token.LEQ || op == token.NEQ):
		return 1, ""
	}
	// d = hi - lo compared with a constant; len(leftover) compared with a constant
	isLen := func(v ssa.Value) bool {
		if bo, ok := v.(*ssa.BinOp); ok && bo.Op == token.SUB && strip(bo.X) == hi && strip(bo.Y) == lo {
			return true
		}
		if c, ok := v.(*ssa.Call); ok && builtinName(c) == "len" && len(c.Call.Args) == 1 {
			if sl, ok := c.Call.Args[0].(*ssa.Slice); ok && (sl == left || (sl.Low == lo && sl.High == hi)) {
				return true
			}
		}
		return false
	}
	if isLen(x) {
		if k, ok := c02ConstInt(y, 0); ok && ((op == token.GTR && k <= 0) || (op == token.GEQ && k <= 1) || (op == token.NEQ && k == 0)) {
			return 1, ""
		}
	}
	if isLen(y) {
		if k, ok := c02ConstInt(x, 0); ok && ((op == token.LSS && k <= 0) || (op == token.LEQ && k <= 1) || (op == token.NEQ && k == 0)) {
			return 1, ""
		}
	}
	// a test of lo against one addend of hi
	addend := func(v ssa.Value) bool {
		phi, ok := hi.(*ssa.Phi)
		if !ok {
			return false
		}
		for _, e := range phi.Edges {
			if bo, ok := e.(*ssa.BinOp); ok && bo.Op == token.ADD {
				if (strip(bo.X) == ssa.Value(phi) && c02Carries(strip(bo.Y), v)) || (strip(bo.Y) == ssa.Value(phi) && c02Carries(strip(bo.X), v)) {
					return true
				}
				// the addend may itself be a loop-carried copy of the read count
				if ph, ok := v.(*ssa.Phi); ok {
					for _, e2 := range ph.Edges {
						if strip(bo.Y) == e2 || strip(bo.X) == e2 {
							return true
						}
					}
				}
			}
		}
		return false
	}
	other := ssa.Value(nil)
	switch {
	case x == lo:
		other = y
	case y == lo:
		other = x
	}
	if other != nil && other != hi && addend(other) {
		return -1, "the size of a single read (" + other.Name() + ", which is only added to the total)"
	}
	return 0, "it compares " + x.Name() + " with " + y.Name()
}
