package main

import (
	"fmt"
	"go/constant"
	"go/token"
	"go/types"
	"sort"
	"strings"

	"golang.org/x/tools/go/ssa"
)

// C06 — queue.Processor.
//
// The rules are stated over EVENTS of the mechanism (operations on the
// component lock, on the role-resolved channels, queue operations, wait-group
// operations, the callback) as they occur along the paths of the exported
// entry points and of the loop goroutine, with every same-package callee
// inlined (evx.go). Unexported names are not used as anchors: the constructs
// are resolved by ROLE from the exported type queue.Processor, its exported
// methods, field types and the standard-library functions they use.

func init() { register("C06", checkC06) }

// c06Prefix lets other properties (C10) run the queue rules under their own rule ids.
var c06Prefix = "C06."

// c06Roles: the constructs of events/queue resolved by role.
type c06Roles struct {
	p        *Prog
	rel      string
	pkg      string
	procT    string // pkgpath.Processor
	lockID   string
	wgID     string
	queue    FieldID
	queueT   string
	tokenCh  string // chanIdent of the running-token channel
	stopCh   string
	resetCh  string
	stopped  FieldID
	execFn   FieldID
	ops      map[*ssa.Function]string // queue methods: peek | pop | insert | remove | update
	enq      *ssa.Function
	deq      *ssa.Function
	closeFn  *ssa.Function
	t        *evFrames
	loops    []*evFrame // goroutine bodies that run the loop
	loopSnap map[*evFrame]*EvSnapshot
	// cbNoStopCheck: where the callback can run for an item for which, since it was peeked, no wait
	// listening for the stop signal was passed ("" = nowhere); loopItemsDone: that was evaluated
	cbNoStopCheck string
	loopItemsDone bool
	// goWithoutFlagUnderLock: a start of the loop goroutine not preceded by a read of the stopped flag under the lock
	goWithoutFlagUnderLock string
	isLoop                 map[*evFrame]bool
	names                  map[string]string
}

var c06RolesCache = map[*Prog]*c06Roles{}

func evFieldName(id string) string {
	if i := strings.LastIndex(id, "."); i >= 0 {
		return id[i+1:]
	}
	return id
}

func c06Resolve(c *Ctx) *c06Roles {
	if v, ok := c06RolesCache[c.P]; ok {
		return v
	}
	p := c.P
	ro := &c06Roles{p: p, rel: "events/queue", ops: map[*ssa.Function]string{}, loopSnap: map[*evFrame]*EvSnapshot{}, isLoop: map[*evFrame]bool{}}
	ro.pkg = p.ModPath + "/" + ro.rel
	named := p.Named(ro.rel, "Processor")
	ro.procT = ro.pkg + ".Processor"
	st := structOf(named)
	if st == nil {
		undecided("queue.Processor is not a struct")
	}
	// the queue type: the struct type of the package whose methods drive container/heap
	isHeapCall := func(ci ssa.CallInstruction) bool {
		obj := calleeObj(ci)
		return obj != nil && obj.Pkg() != nil && obj.Pkg().Path() == "container/heap"
	}
	usesHeap := map[string]bool{}
	for _, fn := range p.FuncsOfPkg(ro.rel) {
		if fn.Signature.Recv() != nil && structOf(fn.Signature.Recv().Type()) != nil && evReachesCall(p, fn, isHeapCall) {
			usesHeap[namedKey(fn.Signature.Recv().Type())] = true
		}
	}
	var chans []string
	one := func(cur *string, name, what string) {
		if *cur != "" {
			undecided("queue.Processor has more than one %s field (%s, %s): role not resolvable", what, evFieldName(*cur), name)
		}
		*cur = name
	}
	var lock, wg, stopped, execFn, queueF string
	var funcFields []FieldID
	// fields of Processor and of the sub-structs it groups its state into
	for _, f := range evFieldsDeep(ro.pkg, named, func(nk string) bool { return usesHeap[nk] }) {
		id := f.ID.Type + "." + f.ID.Field
		switch nk := namedKey(f.Type); {
		case nk == "sync.Mutex" || nk == "sync.RWMutex":
			one(&lock, id, "mutex")
		case nk == "sync.WaitGroup":
			one(&wg, id, "WaitGroup")
		case nk == "sync/atomic.Bool":
			one(&stopped, id, "atomic.Bool")
		case usesHeap[nk]:
			one(&queueF, id, "queue")
			ro.queueT = nk
		default:
			switch f.Type.Underlying().(type) {
			case *types.Chan:
				chans = append(chans, id)
			case *types.Signature:
				funcFields = append(funcFields, f.ID)
			}
		}
	}
	// the callback: the func-typed field that is handed in from outside (stored from a
	// parameter); other func-typed fields are seams assigned once to a known function
	for _, id := range funcFields {
		if _, seam := ro.seamField(id); seam && len(funcFields) > 1 {
			continue
		}
		one(&execFn, id.Type+"."+id.Field, "callback")
	}
	for what, v := range map[string]string{"mutex": lock, "WaitGroup": wg, "atomic.Bool flag": stopped, "callback": execFn, "queue": queueF} {
		if v == "" {
			undecided("queue.Processor has no %s field: role not resolvable", what)
		}
	}
	split := func(id string) FieldID {
		i := strings.LastIndex(id, ".")
		return FieldID{id[:i], id[i+1:]}
	}
	ro.lockID = lock
	ro.wgID = wg
	ro.stopped = split(stopped)
	ro.execFn = split(execFn)
	ro.queue = split(queueF)
	ro.enq = p.Func(ro.rel, "Processor.Enqueue")
	ro.deq = p.Func(ro.rel, "Processor.Dequeue")
	ro.closeFn = p.Func(ro.rel, "Processor.Close")

	// queue operations by what they do to the container/heap
	heapCall := func(name string) func(ssa.CallInstruction) bool {
		return func(ci ssa.CallInstruction) bool { return callIs(ci, "container/heap", "", name) }
	}
	for _, fn := range p.FuncsOfPkg(ro.rel) {
		if fn.Signature.Recv() == nil || namedKey(fn.Signature.Recv().Type()) != ro.queueT {
			continue
		}
		push, pop, rem, fix := evReachesCall(p, fn, heapCall("Push")), evReachesCall(p, fn, heapCall("Pop")), evReachesCall(p, fn, heapCall("Remove")), evReachesCall(p, fn, heapCall("Fix"))
		res := fn.Signature.Results()
		switch {
		case push && !pop && !rem:
			ro.ops[fn] = "insert"
		case pop && !push && !rem:
			ro.ops[fn] = "pop"
		case rem && !push && !pop:
			ro.ops[fn] = "remove"
		case fix:
			ro.ops[fn] = "update"
		case res.Len() == 2 && evIsBool(res.At(1).Type()) && fn.Signature.Params().Len() == 0:
			ro.ops[fn] = "peek"
		}
	}
	cnt := map[string]int{}
	for _, k := range ro.ops {
		cnt[k]++
	}
	for _, k := range []string{"peek", "pop", "insert"} {
		if cnt[k] != 1 {
			undecided("the %s operation of the queue type %s is not resolvable by role (%d candidates)", k, shortID(ro.queueT), cnt[k])
		}
	}

	// channels: stop = the one that is closed; token = the one Close sends on; reset = the remaining one
	isChan := map[string]bool{}
	for _, c := range chans {
		isChan["field:"+c] = true
	}
	chField := func(v ssa.Value) string {
		if id := chanIdent(v); isChan[id] {
			return id
		}
		return ""
	}
	closed, sentInClose := map[string]bool{}, map[string]bool{}
	for _, fn := range p.FuncsOfPkg(ro.rel) {
		for _, cl := range closeSites(fn) {
			if ci, ok := cl.Instr.(ssa.CallInstruction); ok {
				if id := chField(ci.Common().Args[0]); id != "" {
					closed[id] = true
				}
			}
		}
	}
	for _, fn := range evCalleeClosure(p, ro.closeFn) {
		if fn.Pkg == nil || fn.Pkg.Pkg.Path() != ro.pkg {
			continue
		}
		allInstrs(fn, func(in ssa.Instruction) {
			switch x := in.(type) {
			case *ssa.Send:
				if id := chField(x.Chan); id != "" {
					sentInClose[id] = true
				}
			case *ssa.Select:
				for _, s := range x.States {
					if s.Dir == types.SendOnly {
						if id := chField(s.Chan); id != "" {
							sentInClose[id] = true
						}
					}
				}
			}
		})
	}
	var others []string
	for _, name := range chans {
		id := "field:" + name
		switch {
		case closed[id] && !sentInClose[id]:
			one(&ro.stopCh, id, "closed (stop) channel")
		case sentInClose[id] && !closed[id]:
			one(&ro.tokenCh, id, "running-token channel (the one Close takes)")
		default:
			others = append(others, id)
		}
	}
	if ro.t == nil {
		ro.t = ro.newFrames()
	}
	if ro.stopCh != "" && ro.tokenCh == "" && len(others) == 2 {
		// Close does not touch the token: the running token is the channel whose successful
		// send guards every start of the loop goroutine
		tok := ro.tokenBySpawn(chans)
		var rest []string
		for _, id := range others {
			if id == tok {
				ro.tokenCh = id
			} else {
				rest = append(rest, id)
			}
		}
		others = rest
	}
	for _, id := range others {
		one(&ro.resetCh, id, "reset-signal channel")
	}
	if ro.stopCh == "" || ro.tokenCh == "" || ro.resetCh == "" {
		undecided("the stop / running-token / reset channels of queue.Processor are not resolvable by role (stop=%q token=%q reset=%q)", ro.stopCh, ro.tokenCh, ro.resetCh)
	}
	if ro.t == nil {
		ro.t = ro.newFrames()
	}
	c06RolesCache[p] = ro
	return ro
}

// tokenBySpawn: the channel field on which a send succeeded on every explored
// path of Enqueue that starts the loop goroutine.
func (ro *c06Roles) tokenBySpawn(chans []string) string {
	type st struct{ sent uint8 }
	bit := map[string]uint8{}
	for i, c := range chans {
		if i < 8 {
			bit["field:"+c] = 1 << uint(i)
		}
	}
	x := NewEvExplorer[st](ro.t)
	acc, n := uint8(0xff), 0
	x.Instr = func(cx *EvCtx[st], in ssa.Instruction, s st) (st, bool) {
		switch v := in.(type) {
		case *ssa.Send:
			s.sent |= bit[chanIdent(cx.Resolve(v.Chan).V)]
		case *ssa.Go:
			if gf := ro.t.GoFrame(cx.F, v); gf != nil && ro.runsLoop(gf, cx.Snapshot()) {
				acc &= s.sent
				n++
			}
		}
		return s, true
	}
	x.Select = func(cx *EvCtx[st], sel *ssa.Select, k int, s st) (st, bool) {
		if k >= 0 && sel.States[k].Dir == types.SendOnly {
			s.sent |= bit[chanIdent(cx.Resolve(sel.States[k].Chan).V)]
		}
		return s, true
	}
	x.Explore(ro.t.Root(ro.enq), st{})
	if n == 0 || x.Incomplete != "" {
		return ""
	}
	found := ""
	for id, b := range bit {
		if acc&b != 0 && id != ro.stopCh {
			if found != "" {
				return ""
			}
			found = id
		}
	}
	return found
}

// seamField: the func-typed field is assigned exactly once, to a function of
// the package (a seam through which code is invoked), as opposed to a callback
// supplied by the user.
func (ro *c06Roles) seamField(id FieldID) (evVal, bool) {
	if ro.t == nil {
		ro.t = ro.newFrames()
	}
	return ro.t.fieldFunc(id)
}

func (ro *c06Roles) newFrames() *evFrames {
	return newEvFrames(ro.p, func(fn *ssa.Function) bool {
		if fn.Pkg == nil || fn.Pkg.Pkg.Path() != ro.pkg {
			return false
		}
		if fn.Signature.Recv() != nil && ro.queueT != "" && namedKey(fn.Signature.Recv().Type()) == ro.queueT {
			return false
		}
		return true
	})
}

func (ro *c06Roles) op(ci ssa.CallInstruction) string {
	if ci.Common().IsInvoke() {
		return ""
	}
	if f := staticCallee(ci); f != nil {
		return ro.ops[f]
	}
	return ""
}

func (ro *c06Roles) isPeek(ci ssa.CallInstruction) bool { return ro.op(ci) == "peek" }

// isCallback: the dynamic call is the call of the Processor's callback field.
func (ro *c06Roles) isCallback(d evDynCall) bool {
	id, _, ok := fieldOfValue(d.Val.V)
	return ok && id == ro.execFn
}

// evAbsent reports that something the property needs never happens on any path
// of an exploration: a VIOLATION when every call was followed, UNDECIDED when
// function values with unknown targets were called on the way.
func evAbsent(r *Report, unknown, rule, construct, pos, msg string) {
	if unknown != "" {
		r.Undecide("%s: %s — but not every call could be followed (%s)", construct, msg, unknown)
		return
	}
	r.Violation(rule, construct, pos, msg)
}

// evFlagOp: ci is an operation of the given name set on the atomic flag field.
func evFlagOp(ci ssa.CallInstruction, flag FieldID) string {
	obj := calleeObj(ci)
	if obj == nil || obj.Pkg() == nil || obj.Pkg().Path() != "sync/atomic" || len(ci.Common().Args) == 0 {
		return ""
	}
	if id, _, ok := fieldOfValue(ci.Common().Args[0]); !ok || id != flag {
		return ""
	}
	return obj.Name()
}

// evFlagWon: the branch condition key (with truth value val on this edge)
// decides that this caller is the one that flipped the flag from false to true.
func evFlagWon(key evVal, val bool, flag FieldID) (won, isFlag bool) {
	call, ok := key.V.(*ssa.Call)
	if !ok {
		return false, false
	}
	switch evFlagOp(call, flag) {
	case "CompareAndSwap":
		args := call.Call.Args
		if len(args) == 3 && evConstBool(args[1]) == 0 && evConstBool(args[2]) == 1 {
			return val, true
		}
	case "Swap":
		args := call.Call.Args
		if len(args) == 2 && evConstBool(args[1]) == 1 {
			return !val, true
		}
	}
	return false, false
}

// evConstBool: 1 true, 0 false, -1 not a boolean constant.
func evConstBool(v ssa.Value) int {
	k, ok := v.(*ssa.Const)
	if !ok || k.Value == nil || k.Value.Kind() != constant.Bool {
		return -1
	}
	if constant.BoolVal(k.Value) {
		return 1
	}
	return 0
}

func checkC06(c *Ctx) {
	r, p := c.R, c.P
	r.Explanation = "Decides structural necessary conditions of C06 on events/queue, over the events of the mechanism along every path of the exported entry points and of the loop goroutine with all same-package helpers inlined (constructs resolved by role, not by unexported name): (Q1) the queue field of Processor is only used with the Processor mutex held; (Q2) atomic exit: on every path of the loop goroutine, between observing the queue empty (Peek's ok result false) under the lock and giving up the running token the lock is never released — otherwise an Enqueue in that window finds the loop 'still running' and its item is stranded — and every exit gives the token up exactly once; (Q3) an item is popped only in the critical section in which the head was re-checked to be the very item the loop decided on (object identity), and the callback receives the popped value; (Q4) Close waits for the loop goroutine on every path and, on the path that wins the stopped flag, closes the stop channel and then takes (and keeps) the running token — or, if it does not keep the token, every path of the loop to the callback has, since the item was peeked, passed a wait that listens for the stop signal, so that a loop started after Close by an Enqueue that read the stopped flag earlier cannot run a callback (an Enqueue that reads the flag under the lock leaves this undecided); the loop goroutine is started only on a path that took the token, after wg.Add, and calls wg.Done on every exit; (Q5) the item popped is one established due: on a branch that bounds ScheduledTime().Sub(clock.Now()) by at most 500µs — written on the Duration itself, through its Nanoseconds/Microseconds/Milliseconds/Seconds/Minutes/Hours accessors, int64(d) or d/unit (truncation accounted for: d.Milliseconds() < 1 admits 999999 ns), or as Before/After against clock.Now().Add(K) — or after the timer armed with that same duration fired; (Q6) Enqueue inserts with replace=true and on every path attempts to take the token (start the loop) under the lock afterwards; when the token is not available a reset signal can be posted, and a path that posts none has, after the insert and still under the lock, peeked the head and found it is not the inserted item (object identity; evidence of another kind about the item — its scheduled time, an opaque predicate — leaves this undecided); (Q7) the heap orders by scheduled time ascending through a comparison that is order-isomorphic to the instant (Before/After/Compare/Sub/UnixNano; the truncating Unix/UnixMilli/UnixMicro are reported); (Q8) the token/reset channels have one slot, and a received reset leads to a fresh Peek before anything is armed, popped or executed; every wait on the item's timer also listens for the reset signal. NOT decided: exactly-once / ordering over all histories, timer accuracy, Dequeue's head-change signalling."
	r.Assumptions = append(r.Assumptions, "type-based lock and channel identity", "container/heap implements a min-heap over Less", "calls are followed through static calls, defer and go of same-package functions and through function values whose target is visible in the package (closure parameters, locals and captured cells, bound method values, literal slices of steps up to 8 entries, func-typed fields assigned once, single-implementation unexported interfaces, sync.Once.Do); other dynamic calls are not followed and turn absence claims into UNDECIDED")
	r.Rule("C06.Q1-guard", "the Processor's queue only under the Processor's mutex", 3)
	r.Rule("C06.Q2-atomic-exit", "no unlock between 'queue empty' and release of the running token; token released exactly once per exit", 2)
	r.Rule("C06.Q3-execute", "Pop in the same critical section as the head re-check; callback gets the popped value", 2)
	r.Rule("C06.Q4-close", "Close: wg.Wait on all paths; close(stop)+token on the winning path; loop goroutine tracked and started only with the token", 3)
	r.Rule("C06.Q5-not-early", "an item is run only when due within <=500µs or after the timer for that item fired", 2)
	r.Rule("C06.Q6-enqueue", "Enqueue inserts with replace=true and always tries to start the loop under the lock; reset signal when already running, omitted only after seeing that the head after the insert is another item", 4)
	r.Rule("C06.Q8-signals", "reset/running tokens are 1-slot channels; every reset received by the loop leads to a fresh Peek before anything is armed or executed", 4)
	r.Rule("C06.Q7-order", "heap Less = scheduled time ascending", 1)

	ro := c06Resolve(c)
	e := c.Locks()
	fns := p.FuncsOfPkg(ro.rel)
	held, inc := evHeld(p, e, ro.t, evExportedRoots(fns), ro.lockID)
	if inc != "" {
		r.Undecide("Q1: %s", inc)
	}
	evGuarded(p, e, r, "C06.Q1-guard", fns, held, []GuardSpec{{Field: ro.queue, Lock: ro.lockID}})

	c06LoopItems(c, ro, true, true)
	c06Close(c, ro)
	c06AtomicExit(c, ro)
	c06Enqueue(c, ro)
	c06Order(c, ro)
	c06Signals(c, ro)

	c.Fixture("c06exit", func(fp *Prog, fr *Report) {
		ft := newEvFrames(fp, func(fn *ssa.Function) bool { return fn.Name() != "Peek" })
		isPeek := func(ci ssa.CallInstruction) bool {
			f := staticCallee(ci)
			return f != nil && f.Name() == "Peek"
		}
		for _, fn := range fp.Funcs {
			if fn.Parent() != nil || fn.Name() == "init" || fn.Signature.Recv() == nil || !(strings.HasPrefix(fn.Name(), "Good") || strings.HasPrefix(fn.Name(), "Bad")) {
				continue
			}
			c06AtomicExitX(fp, fr, ft, []*evFrame{ft.Root(fn)}, nil, fp.ModPath+".proc.mu", "field:"+fp.ModPath+".proc.running", isPeek, FuncName(fp, fn)+" atomic-exit", FuncName(fp, fn)+" token-once")
		}
	})
}

// ---------------------------------------------------------------- Q2

type q2State struct {
	ph   uint8 // 0 neutral | 1 queue seen empty, lock held since | 2 lock released after seeing it empty | 3 token released atomically
	cnt  uint8 // token releases so far (saturates at 2)
	held bool
}

func c06AtomicExit(c *Ctx, ro *c06Roles) {
	loops := ro.loopFrames(c)
	if len(loops) == 0 {
		return
	}
	c06AtomicExitX(c.P, c.R, ro.t, loops, ro.loopSnap, ro.lockID, ro.tokenCh, ro.isPeek, "events/queue.Processor loop empty-exit", "events/queue.Processor loop token-once")
}

// c06AtomicExitX runs the AtomicDecision typestate over the inlined paths of roots.
func c06AtomicExitX(p *Prog, r *Report, t *evFrames, roots []*evFrame, snaps map[*evFrame]*EvSnapshot, lockID, tokenCh string, isPeek func(ssa.CallInstruction) bool, construct, construct2 string) {
	e := NewLockEngine(p) // only for lockOp (identity of lock operations)
	x := NewEvExplorer[q2State](t)
	release := func(s q2State) q2State {
		if s.cnt < 2 {
			s.cnt++
		}
		if s.ph == 1 && s.held {
			s.ph = 3
		}
		return s
	}
	x.Instr = func(c *EvCtx[q2State], in ssa.Instruction, s q2State) (q2State, bool) {
		switch v := in.(type) {
		case *ssa.UnOp:
			if v.Op == token.ARROW && chanIdent(c.Resolve(v.X).V) == tokenCh {
				return release(s), true
			}
		case ssa.CallInstruction:
			if _, isGo := in.(*ssa.Go); isGo {
				return s, true
			}
			if id, kind, ok := evLockOp(c, e, v); ok && id == lockID {
				switch kind {
				case opLock, opRLock:
					s.held = true
				default:
					s.held = false
					if s.ph == 1 {
						s.ph = 2
					}
				}
				return s, true
			}
			if isPeek(v) && s.ph != 3 {
				s.ph = 0
			}
		}
		return s, true
	}
	x.Select = func(c *EvCtx[q2State], sel *ssa.Select, k int, s q2State) (q2State, bool) {
		if k >= 0 && sel.States[k].Dir == types.RecvOnly && chanIdent(c.Resolve(sel.States[k].Chan).V) == tokenCh {
			return release(s), true
		}
		return s, true
	}
	x.Branch = func(c *EvCtx[q2State], ifi *ssa.If, taken bool, s q2State) (q2State, bool) {
		key, neg := c.CondKey(ifi.Cond)
		ex, ok := key.V.(*ssa.Extract)
		if !ok || ex.Index != 1 {
			return s, true
		}
		call, ok := ex.Tuple.(*ssa.Call)
		if !ok || !isPeek(call) {
			return s, true
		}
		if s.ph == 3 {
			return s, true
		}
		if taken != neg { // non-empty: a fresh observation
			s.ph = 0
		} else if s.held {
			s.ph = 1
		} else {
			s.ph = 2
		}
		return s, true
	}
	bad, badCnt := "", ""
	nret := 0
	sawEmptyExit := false
	for _, root := range roots {
		for _, ex := range x.ExploreFrom(root, q2State{}, snaps[root]) {
			nret++
			s := ex.P.abs
			switch s.ph {
			case 3:
				sawEmptyExit = true
			case 2:
				bad = "the loop returns at " + p.Pos(instrPos(ex.Ret)) + " after observing the queue empty, releasing the lock, and only then giving up the running token: an Enqueue in that window sees a running loop, sends a reset nobody reads, and its item stays queued with no loop serving it"
			case 1:
				bad = "the loop returns at " + p.Pos(instrPos(ex.Ret)) + " after observing the queue empty without giving up the running token"
			}
			if s.cnt != 1 {
				badCnt = fmt.Sprintf("exit at %s gives the running token up %s times (must be exactly once: zero wedges every later Enqueue and Close, twice lets two loops run)", p.Pos(instrPos(ex.Ret)), []string{"0", "1", "2 or more"}[s.cnt])
			}
		}
	}
	if x.Incomplete != "" {
		r.Undecide("%s: %s", construct, x.Incomplete)
		return
	}
	pos := p.Pos(roots[0].fn.Pos())
	if nret == 0 {
		r.Violation(c06Prefix+"Q2-atomic-exit", construct, pos, "the loop goroutine has no exit at all: it never gives up the running token and Close waits forever")
		return
	}
	if bad == "" && !sawEmptyExit {
		r.Undecide("%s: no exit taken on an empty queue was recognised (the emptiness test is not a branch on the ok result of the queue's peek operation)", construct)
	} else {
		r.Check(bad == "", c06Prefix+"Q2-atomic-exit", construct, pos, "queue-empty observation and token release happen in one critical section", bad)
	}
	r.Check(badCnt == "", c06Prefix+"Q2-atomic-exit", construct2, pos, "every exit releases the token exactly once", badCnt)
}

// ---------------------------------------------------------------- Q4 (Close, spawn) and the loop roots

type q4Spawn struct {
	flagHeld bool // the stopped flag was read false while holding the lock (still held)
	held     bool
	token    bool // this path took the running token
	added    bool // wg.Add executed
}

// loopFrames explores Enqueue and Dequeue and returns the frames of the
// goroutines they start that run the loop (reach the queue's peek operation).
// It also records the Q4 spawn facts.
func (ro *c06Roles) loopFrames(c *Ctx) []*evFrame {
	if ro.loops != nil {
		return ro.loops
	}
	ro.spawn(c, false)
	return ro.loops
}

// runsLoop explores the goroutine body started at a go statement (with what the
// spawning path knew) and reports whether it executes the queue's peek operation.
func (ro *c06Roles) runsLoop(gf *evFrame, snap *EvSnapshot) bool {
	if v, ok := ro.isLoop[gf]; ok {
		return v
	}
	type none struct{}
	x := NewEvExplorer[none](ro.t)
	found := false
	x.Instr = func(cx *EvCtx[none], in ssa.Instruction, s none) (none, bool) {
		if ci, ok := in.(ssa.CallInstruction); ok && ro.isPeek(ci) {
			found = true
		}
		return s, !found
	}
	x.ExploreFrom(gf, none{}, snap)
	if !found && x.Incomplete != "" {
		found = evReachesCallVia(ro.t, ro.p, gf.fn, ro.isPeek)
	}
	ro.isLoop[gf] = found
	return found
}

func (ro *c06Roles) spawn(c *Ctx, report bool) {
	r, p := c.R, c.P
	e := c.Locks()
	x := NewEvExplorer[q4Spawn](ro.t)
	nGo := 0
	why := ""
	seenFrame := map[*ssa.Function]bool{}
	var loops []*evFrame
	x.Instr = func(cx *EvCtx[q4Spawn], in ssa.Instruction, s q4Spawn) (q4Spawn, bool) {
		switch v := in.(type) {
		case *ssa.Send:
			if chanIdent(cx.Resolve(v.Chan).V) == ro.tokenCh {
				s.token = true
			}
		case *ssa.Go:
			// is this the loop goroutine? decided in the context of this go statement:
			// the body (or what it calls through parameters, method values, seams)
			// performs the queue's peek operation
			gf := ro.t.GoFrame(cx.F, v)
			if gf != nil {
				if !ro.runsLoop(gf, cx.Snapshot()) {
					return s, true
				}
			} else if body := staticCallee(v); body == nil || !evReachesCallVia(ro.t, p, body, ro.isPeek) {
				return s, true
			}
			nGo++
			if gf != nil && !seenFrame[gf.fn] {
				// one frame per goroutine body: the mechanism's values are fields of the
				// receiver, identical from whichever entry point the loop was started
				seenFrame[gf.fn] = true
				loops = append(loops, gf)
				ro.loopSnap[gf] = cx.Snapshot()
			}
			if !s.flagHeld && ro.goWithoutFlagUnderLock == "" {
				ro.goWithoutFlagUnderLock = p.Pos(v.Pos())
			}
			if !s.added {
				why = "the loop goroutine is started at " + p.Pos(v.Pos()) + " without a preceding wg.Add: Close may return while a callback is still running"
			}
			if !s.token {
				why = "a loop goroutine can be started at " + p.Pos(v.Pos()) + " without first taking the running token (two loops can pop the same queue / Close cannot wait for it)"
			}
		case ssa.CallInstruction:
			if id, kind, ok := evLockOp(cx, e, v); ok && id == ro.lockID {
				s.held = kind == opLock || kind == opRLock
				if !s.held {
					s.flagHeld = false
				}
				return s, true
			}
			if callIs(v, "sync", "WaitGroup", "Add") && evWgArg(cx, v) == ro.wgID {
				s.added = true
			}
		}
		return s, true
	}
	x.Branch = func(cx *EvCtx[q4Spawn], ifi *ssa.If, taken bool, s q4Spawn) (q4Spawn, bool) {
		key, neg := cx.CondKey(ifi.Cond)
		if call, ok := key.V.(*ssa.Call); ok && evFlagOp(call, ro.stopped) == "Load" {
			s.flagHeld = (taken == neg) && s.held
		}
		return s, true
	}
	x.Select = func(cx *EvCtx[q4Spawn], sel *ssa.Select, k int, s q4Spawn) (q4Spawn, bool) {
		if k >= 0 && sel.States[k].Dir == types.SendOnly && chanIdent(cx.Resolve(sel.States[k].Chan).V) == ro.tokenCh {
			s.token = true
		}
		return s, true
	}
	x.Explore(ro.t.Root(ro.enq), q4Spawn{})
	x.Explore(ro.t.Root(ro.deq), q4Spawn{})
	ro.loops = loops
	if ro.loops == nil {
		ro.loops = []*evFrame{}
	}
	if !report {
		return
	}
	if x.Incomplete != "" {
		r.Undecide("Q4 spawn: %s", x.Incomplete)
		return
	}
	construct := "events/queue.Processor loop spawn"
	if nGo == 0 {
		evAbsent(r, x.UnknownCalls(ro.isCallback), c06Prefix+"Q4-close", construct, p.Pos(ro.enq.Pos()), "Enqueue no longer starts a loop goroutine on any path (all same-package callees followed)")
		return
	}
	// the goroutine calls wg.Done on every exit
	type dn struct{ done bool }
	xd := NewEvExplorer[dn](ro.t)
	xd.Instr = func(cx *EvCtx[dn], in ssa.Instruction, s dn) (dn, bool) {
		if ci, ok := in.(ssa.CallInstruction); ok {
			if _, isGo := in.(*ssa.Go); !isGo && callIs(ci, "sync", "WaitGroup", "Done") && evWgArg(cx, ci) == ro.wgID {
				s.done = true
			}
		}
		return s, true
	}
	for _, lf := range ro.loops {
		for _, ex := range xd.ExploreFrom(lf, dn{}, ro.loopSnap[lf]) {
			if !ex.P.abs.done && why == "" {
				why = "the loop goroutine can exit at " + p.Pos(instrPos(ex.Ret)) + " without wg.Done: Close waits forever"
			}
		}
	}
	if xd.Incomplete != "" {
		r.Undecide("Q4 spawn: %s", xd.Incomplete)
		return
	}
	r.Check(why == "", c06Prefix+"Q4-close", construct, p.Pos(ro.loops[0].fn.Pos()), "loop goroutine started only with the token, tracked by wg", why)
}

type q4Close struct {
	waited bool
	closed bool  // stop channel closed
	token  bool  // token sent after the close
	early  bool  // token sent before the stop channel was closed
	won    uint8 // 0 unknown 1 this call flipped the stopped flag 2 it did not
}

func c06Close(c *Ctx, ro *c06Roles) {
	r, p := c.R, c.P
	x := NewEvExplorer[q4Close](ro.t)
	onSend := func(s q4Close) q4Close {
		if s.closed {
			s.token = true
		} else {
			s.early = true
		}
		return s
	}
	x.Instr = func(cx *EvCtx[q4Close], in ssa.Instruction, s q4Close) (q4Close, bool) {
		switch v := in.(type) {
		case *ssa.Send:
			if chanIdent(cx.Resolve(v.Chan).V) == ro.tokenCh {
				s = onSend(s)
			}
		case *ssa.Go:
		case ssa.CallInstruction:
			if callIs(v, "sync", "WaitGroup", "Wait") && evWgArg(cx, v) == ro.wgID {
				s.waited = true
			}
			if callIs(v, "sync", "Once", "Do") && s.won == 0 {
				s.won = 1 // what runs inside once.Do runs at most once
			}
			if builtinName(v) == "close" && chanIdent(cx.Resolve(v.Common().Args[0]).V) == ro.stopCh {
				s.closed = true
			}
		}
		return s, true
	}
	x.Branch = func(cx *EvCtx[q4Close], ifi *ssa.If, taken bool, s q4Close) (q4Close, bool) {
		key, neg := cx.CondKey(ifi.Cond)
		if won, ok := evFlagWon(key, taken != neg, ro.stopped); ok {
			s.won = 2
			if won {
				s.won = 1
			}
		}
		return s, true
	}
	okWait, n := true, 0
	whyCAS := ""
	noToken := false // the winner does not keep the running token
	sawWin := false
	for _, ex := range x.Explore(ro.t.Root(ro.closeFn), q4Close{}) {
		n++
		s := ex.P.abs
		if !s.waited {
			okWait = false
		}
		if s.won == 1 {
			sawWin = true
			if !s.closed {
				whyCAS = "the call of Close that flips the stopped flag can return without closing the stop channel: the loop is never told to stop"
			} else if s.early {
				whyCAS = "the call of Close that flips the stopped flag takes the running token before it closes the stop channel: it blocks on the token while the loop, never told to stop, keeps running callbacks (forever if items keep arriving)"
			} else if !s.token {
				noToken = true
			}
		} else if s.closed {
			whyCAS = "the stop channel can be closed by a call of Close that did not win the stopped flag: a second Close panics"
		}
	}
	if x.Incomplete != "" {
		r.Undecide("Q4 close: %s", x.Incomplete)
		return
	}
	if n == 0 {
		okWait = false
	}
	pos := p.Pos(ro.closeFn.Pos())
	r.Check(okWait, c06Prefix+"Q4-close", "events/queue.Processor.Close waits", pos, "wg.Wait on every path", "Close can return without waiting for the loop goroutine (a callback may still run after Close returned)")
	ro.spawn(c, true)
	okMsg := "winner of the stopped flag closes the stop channel and then takes (and keeps) the running token: no loop can start after Close"
	undec := ""
	if whyCAS == "" && noToken {
		// Without the token a loop can still be started, after Close returned, by an Enqueue that passed
		// its stopped check before Close. That is harmless only if such a loop cannot reach the callback:
		// every item it runs was, since it was peeked, taken past a wait that listens for the (closed) stop
		// channel — or Enqueue decides under the lock, after reading the stopped flag there.
		switch {
		case !ro.loopItemsDone:
			undec = "Close does not keep the running token and the loop's paths to the callback could not be evaluated"
		case ro.cbNoStopCheck == "":
			okMsg = "Close does not keep the running token, but every path of the loop to the callback passes, after peeking the item, a wait that listens for the stop signal: a loop started after Close cannot run a callback"
		case ro.goWithoutFlagUnderLock == "":
			undec = "Close does not keep the running token and the loop can run the callback at " + ro.cbNoStopCheck + " without having passed a wait on the stop signal since it peeked the item; Enqueue reads the stopped flag under the lock before it starts the loop — whether Close orders itself against that read is not decided"
		default:
			whyCAS = "the call of Close that flips the stopped flag does not take (and keep) the running token, the loop goroutine can be started at " + ro.goWithoutFlagUnderLock + " by an Enqueue that read the stopped flag before Close (not under the lock), and that loop can run the callback at " + ro.cbNoStopCheck + " without having passed, since it peeked the item, a wait that listens for the stop signal: a callback runs after Close returned"
		}
	}
	switch {
	case !sawWin && whyCAS == "":
		r.Undecide("events/queue.Processor.Close: no branch on CompareAndSwap(false,true)/Swap(true) of the stopped flag recognised")
	case undec != "":
		r.Undecide("events/queue.Processor.Close stop+token: %s", undec)
	default:
		r.Check(whyCAS == "", c06Prefix+"Q4-close", "events/queue.Processor.Close stop+token", pos, okMsg, whyCAS)
	}
}

// ---------------------------------------------------------------- Q3 + Q5

type q35State struct {
	held      bool
	secPeek   evVal // (frame, peek call) of the last peek in the current critical section
	secEq     evVal // item known to be identical to the head in this section
	secUnk    bool  // a branch in this section tested the head through a call that was not followed
	due       evVal // item established due
	dueHow    uint8
	bigK      bool
	timeDep   bool
	popSt     uint8 // 0 none | 1 verified+due | 2 head not verified | 3 not due
	popHow    uint8
	pop       evVal
	popItem   evVal
	lastPeek  evVal // the most recent peek
	stopOKFor evVal // the peek that was the most recent one when a wait listening for the stop signal was passed without it firing
}

// evNormItem: the first result of a call is identified with the call.
func evNormItem(v evVal) evVal {
	if ex, ok := v.V.(*ssa.Extract); ok && ex.Index == 0 {
		if call, ok := ex.Tuple.(*ssa.Call); ok {
			return evVal{v.F, call}
		}
	}
	return v
}

func evCalleeName(v ssa.Value) string {
	if call, ok := v.(*ssa.Call); ok {
		if obj := calleeObj(call); obj != nil {
			return obj.Name()
		}
	}
	return ""
}

// evRecvOf: receiver value of a method call (invoke or static).
func evRecvOf(call *ssa.Call) ssa.Value {
	if call.Call.IsInvoke() {
		return call.Call.Value
	}
	if len(call.Call.Args) > 0 {
		return call.Call.Args[0]
	}
	return nil
}

func evArgsOf(call *ssa.Call) []ssa.Value {
	if call.Call.IsInvoke() {
		return call.Call.Args
	}
	if len(call.Call.Args) > 0 {
		return call.Call.Args[1:]
	}
	return nil
}

// c06DeadlineItem: d = item.ScheduledTime().Sub(clock.Now()) → item.
func c06DeadlineItem(res evResolver, d evVal) (evVal, bool) {
	sub, ok := d.V.(*ssa.Call)
	if !ok || !callIs(sub, "time", "Time", "Sub") || len(sub.Call.Args) != 2 {
		return evVal{}, false
	}
	return c06SchedNow(res, d.F, sub.Call.Args[0], sub.Call.Args[1])
}

// evResolver resolves a value of a frame (path-aware inside explorer hooks).
type evResolver func(f *evFrame, v ssa.Value) evVal

// c06SchedNow: a is item.ScheduledTime(), b is clock.Now().
func c06SchedNow(res evResolver, f *evFrame, a, b ssa.Value) (evVal, bool) {
	sv := res(f, a)
	st, ok := sv.V.(*ssa.Call)
	if !ok || evCalleeName(st) != "ScheduledTime" || evRecvOf(st) == nil {
		return evVal{}, false
	}
	nv := res(f, b)
	if evCalleeName(nv.V) != "Now" {
		return evVal{}, false
	}
	return evNormItem(res(sv.F, evRecvOf(st))), true
}

// evInvolvesTime: the value is computed from the clock or a scheduled time.
func evInvolvesTime(res evResolver, v evVal, depth int) bool {
	if depth > 6 || v.V == nil {
		return false
	}
	v = res(v.F, v.V)
	switch evCalleeName(v.V) {
	case "Now", "ScheduledTime", "Until", "Since":
		return true
	}
	if in, ok := v.V.(ssa.Instruction); ok {
		if _, isPhi := in.(*ssa.Phi); isPhi {
			return false
		}
		for _, op := range in.Operands(nil) {
			if op != nil && *op != nil && evInvolvesTime(res, evVal{v.F, *op}, depth+1) {
				return true
			}
		}
	}
	return false
}

const c06MaxEarly = 500000 // ns

// c06DurationTest decodes the left side of `e < K` / `e <= K` (strict tells
// which) where e is a time.Duration or a number derived from one:
//
//	d                          (nanoseconds)
//	d.Nanoseconds(), int64(d)  (nanoseconds)
//	d.Microseconds(), d.Milliseconds(), d / unit   (truncated to a unit)
//	d.Seconds(), d.Minutes(), d.Hours()            (floating point)
//
// and returns the duration value together with the largest duration, in
// nanoseconds, that still passes the test (`d.Milliseconds() < 1` passes up to
// 999999 ns; `d.Milliseconds() <= 0` likewise).
func c06DurationTest(res evResolver, e evVal, kc *ssa.Const, strict bool) (evVal, int64, bool) {
	unit := int64(1)
	float := false
	cur := e
	for i := 0; i < 6; i++ {
		switch x := cur.V.(type) {
		case *ssa.Convert:
			// int64(d), float64(d.Milliseconds()), time.Duration(n) ...: numeric value unchanged up to truncation
			if b, ok := x.Type().Underlying().(*types.Basic); ok && b.Info()&types.IsFloat != 0 {
				float = true
			}
			cur = res(cur.F, x.X)
			continue
		case *ssa.BinOp:
			if x.Op != token.QUO {
				return evVal{}, 0, false
			}
			uc, ok := res(cur.F, x.Y).V.(*ssa.Const)
			if !ok || uc.Value == nil || uc.Value.Kind() != constant.Int || uc.Int64() <= 0 {
				return evVal{}, 0, false
			}
			if unit > (1<<62)/uc.Int64() {
				return evVal{}, 0, false
			}
			unit *= uc.Int64()
			cur = res(cur.F, x.X)
			continue
		case *ssa.Call:
			name := evCalleeName(x)
			if !callIs(x, "time", "Duration", name) || len(x.Call.Args) != 1 {
				break
			}
			u := int64(0)
			switch name {
			case "Nanoseconds":
				u = 1
			case "Microseconds":
				u = 1e3
			case "Milliseconds":
				u = 1e6
			case "Seconds":
				u, float = 1e9, true
			case "Minutes":
				u, float = 60e9, true
			case "Hours":
				u, float = 3600e9, true
			}
			if u == 0 || unit > (1<<62)/u {
				return evVal{}, 0, false
			}
			unit *= u
			cur = res(cur.F, x.Call.Args[0])
			continue
		}
		break
	}
	if namedKey(cur.V.Type()) != "time.Duration" {
		return evVal{}, 0, false
	}
	// the largest duration passing the test
	switch kc.Value.Kind() {
	case constant.Int:
		k := kc.Int64()
		if float || unit == 1 {
			// exact comparison of (a multiple of) the value
			if k > (1<<62)/unit || k < -(1<<62)/unit {
				return evVal{}, 0, false
			}
			if strict {
				return cur, k*unit - 1, true
			}
			return cur, k * unit, true
		}
		// truncation towards zero: e < k  <=>  d < k*unit (k > 0), e <= k <=> e < k+1
		if !strict {
			k++
		}
		if k > (1<<62)/unit || k < -(1<<62)/unit {
			return evVal{}, 0, false
		}
		if k <= 0 {
			return cur, (k - 1) * unit, true
		}
		return cur, k*unit - 1, true
	case constant.Float:
		f, _ := constant.Float64Val(kc.Value)
		ns := f * float64(unit)
		if ns > 1e18 || ns < -1e18 {
			return evVal{}, 0, false
		}
		n := int64(ns)
		if float64(n) < ns || !strict {
			return cur, n, true
		}
		return cur, n - 1, true
	}
	return evVal{}, 0, false
}

// c06LoopItems explores the loop goroutine and decides Q3 (pop in the critical
// section that re-checked the head; callback gets the popped value) and Q5
// (what is popped was established due).
func c06LoopItems(c *Ctx, ro *c06Roles, q3, q5 bool) {
	r, p := c.R, c.P
	loops := ro.loopFrames(c)
	if len(loops) == 0 {
		return
	}
	e := c.Locks()
	t := ro.t
	x := NewEvExplorer[q35State](t)
	var violPop, violCb, violDue, undec string
	sawPop, sawCb := false, false
	var bigKVal int64
	how := map[uint8]bool{}
	clearSec := func(s q35State) q35State {
		s.secPeek, s.secEq, s.secUnk = evVal{}, evVal{}, false
		return s
	}
	x.Instr = func(cx *EvCtx[q35State], in ssa.Instruction, s q35State) (q35State, bool) {
		ci, ok := in.(ssa.CallInstruction)
		if !ok {
			return s, true
		}
		if _, isGo := in.(*ssa.Go); isGo {
			return s, true
		}
		if id, kind, ok := evLockOp(cx, e, ci); ok && id == ro.lockID {
			s.held = kind == opLock || kind == opRLock
			return clearSec(s), true
		}
		call, _ := in.(*ssa.Call)
		switch ro.op(ci) {
		case "peek":
			if call == nil {
				return clearSec(s), true
			}
			me := evVal{cx.F, call}
			s.lastPeek = me
			if s.due == me {
				s.due, s.dueHow = evVal{}, 0
			}
			s = clearSec(s)
			if s.held {
				s.secPeek = me
			}
			return s, true
		case "insert", "remove", "update":
			return clearSec(s), true
		case "pop":
			sawPop = true
			verified := s.held && !s.secPeek.IsZero()
			switch {
			case !verified:
				s.popSt = 2
				if violPop == "" {
					if s.held {
						violPop = "the item is popped at " + p.Pos(instrPos(in)) + " without re-checking under the lock that the head is still the item the loop decided on (a Dequeue/replace between the loop's peek and the pop makes a different, possibly not-due, item run)"
					} else {
						violPop = "the item is popped at " + p.Pos(instrPos(in)) + " without holding the lock"
					}
				}
			case !s.due.IsZero() && (s.due == s.secPeek || s.due == s.secEq):
				s.popSt, s.popHow, s.popItem = 1, s.dueHow, s.due
			case !s.due.IsZero() && s.secUnk:
				s.popSt = 2
				if undec == "" {
					undec = "the pop at " + p.Pos(instrPos(in)) + " follows a test of the head made through a call that could not be followed: whether it establishes 'head is the very item found due' is not decided"
				}
			case !s.due.IsZero():
				// the head was peeked in this section but never found identical to the due item
				s.popSt = 2
				if violPop == "" {
					violPop = "the pop at " + p.Pos(instrPos(in)) + " is not guarded by 'head is the very item that was found due' (object identity) in the same critical section: after a replace or an earlier Enqueue a different item, possibly not due, is popped and run"
				}
			default:
				s.popSt = 3
			}
			if call != nil {
				s.pop = evVal{cx.F, call}
			}
			return clearSec(s), true
		}
		// the callback
		if call != nil && !call.Call.IsInvoke() {
			if id, _, ok := fieldOfValue(cx.Resolve(call.Call.Value).V); ok && id == ro.execFn {
				sawCb = true
				argOK := false
				if len(call.Call.Args) == 1 {
					a := evNormItem(cx.Resolve(call.Call.Args[0]))
					argOK = !s.pop.IsZero() && (a == s.pop || (s.popSt == 1 && a == s.popItem))
				}
				switch {
				case s.popSt == 0:
					if violCb == "" {
						violCb = "the callback is invoked at " + p.Pos(instrPos(in)) + " on a path that did not pop the item (it stays queued and runs again)"
					}
				case !argOK:
					if violCb == "" {
						violCb = "the callback at " + p.Pos(instrPos(in)) + " is not called with the value popped from the queue"
					}
				case s.popSt == 3:
					switch {
					case s.bigK:
						violDue = fmt.Sprintf("the run-now threshold is %d ns: items run up to that long before their scheduled time (allowed: 0.5 ms)", bigKVal)
					case s.timeDep:
						undec = "the callback at " + p.Pos(instrPos(in)) + " is reached after a time-dependent test that is not one of the recognised forms (ScheduledTime().Sub(clock.Now()) < K, or the timer armed with that duration)"
					default:
						violDue = "the callback at " + p.Pos(instrPos(in)) + " is reached without the item being due: neither on a 'ScheduledTime().Sub(clock.Now()) < K (K<=500µs)' branch nor after the timer armed for it fired"
					}
				case s.popSt == 1:
					how[s.popHow] = true
					if s.popItem != s.stopOKFor && ro.cbNoStopCheck == "" {
						ro.cbNoStopCheck = p.Pos(instrPos(in))
					}
				}
				s.popSt, s.pop, s.popItem, s.popHow = 0, evVal{}, evVal{}, 0
			}
		}
		return s, true
	}
	x.Branch = func(cx *EvCtx[q35State], ifi *ssa.If, taken bool, s q35State) (q35State, bool) {
		key, neg := cx.CondKey(ifi.Cond)
		val := taken != neg
		res := evResolver(cx.ResolveIn)
		setDue := func(item evVal, k int64) q35State {
			if k <= c06MaxEarly {
				s.due, s.dueHow = item, 1
			} else {
				s.bigK, bigKVal = true, k
			}
			return s
		}
		switch kv := key.V.(type) {
		case *ssa.BinOp:
			op := kv.Op
			if !val {
				op = negateOp(op)
			}
			X, Y := res(key.F, kv.X), res(key.F, kv.Y)
			switch op {
			case token.EQL:
				if s.held && !s.secPeek.IsZero() {
					if evNormItem(X) == s.secPeek {
						s.secEq = evNormItem(Y)
					} else if evNormItem(Y) == s.secPeek {
						s.secEq = evNormItem(X)
					}
				}
			case token.LSS, token.LEQ, token.GTR, token.GEQ:
				d, k := X, Y
				if op == token.GTR || op == token.GEQ {
					d, k = Y, X
				}
				if kc, ok := k.V.(*ssa.Const); ok && kc.Value != nil {
					if dur, maxEarly, ok := c06DurationTest(res, d, kc, op == token.LSS || op == token.GTR); ok {
						if item, ok := c06DeadlineItem(res, dur); ok {
							return setDue(item, maxEarly), true
						}
					}
				}
			}
			if evInvolvesTime(res, key, 0) {
				s.timeDep = true
			}
		case *ssa.Call:
			// an opaque predicate over the head of this section
			if s.held && !s.secPeek.IsZero() {
				for _, a := range kv.Call.Args {
					if evNormItem(res(key.F, a)) == s.secPeek {
						s.secUnk = true
					}
				}
			}
			// sched.Before(now.Add(K)), now.Add(K).After(sched), !sched.After(now.Add(K)), !now.Add(K).Before(sched)
			name := evCalleeName(kv)
			if (name == "Before" || name == "After") && callIs(kv, "time", "Time", name) && len(kv.Call.Args) == 2 {
				// lo, hi: on this edge lo is before (or at) hi
				lo, hi := kv.Call.Args[0], kv.Call.Args[1]
				if (name == "After") == val {
					lo, hi = hi, lo
				}
				hv := res(key.F, hi)
				if add, ok := hv.V.(*ssa.Call); ok && callIs(add, "time", "Time", "Add") && len(add.Call.Args) == 2 {
					if kc, ok := res(hv.F, add.Call.Args[1]).V.(*ssa.Const); ok && kc.Value != nil {
						sv := res(key.F, lo)
						if st, ok := sv.V.(*ssa.Call); ok && evCalleeName(st) == "ScheduledTime" && evRecvOf(st) != nil && evCalleeName(res(hv.F, add.Call.Args[0]).V) == "Now" {
							return setDue(evNormItem(res(sv.F, evRecvOf(st))), kc.Int64()), true
						}
					}
				}
			}
			if evInvolvesTime(res, key, 0) {
				s.timeDep = true
			}
		}
		return s, true
	}
	x.Select = func(cx *EvCtx[q35State], sel *ssa.Select, k int, s q35State) (q35State, bool) {
		// a wait that listens for the stop signal and was left another way
		for i, st := range sel.States {
			if st.Dir == types.RecvOnly && chanIdent(cx.Resolve(st.Chan).V) == ro.stopCh && i != k {
				s.stopOKFor = s.lastPeek
			}
		}
		if k < 0 || sel.States[k].Dir != types.RecvOnly {
			return s, true
		}
		res := evResolver(cx.ResolveIn)
		ch := cx.Resolve(sel.States[k].Chan)
		chCall, ok := ch.V.(*ssa.Call)
		if !ok {
			return s, true
		}
		var dur evVal
		switch evCalleeName(chCall) {
		case "C":
			tm := res(ch.F, evRecvOf(chCall))
			if nt, ok := tm.V.(*ssa.Call); ok && evCalleeName(nt) == "NewTimer" && len(evArgsOf(nt)) == 1 {
				dur = res(tm.F, evArgsOf(nt)[0])
			}
		case "After":
			if len(evArgsOf(chCall)) == 1 {
				dur = res(ch.F, evArgsOf(chCall)[0])
			}
		default:
			return s, true
		}
		if !dur.IsZero() {
			if item, ok := c06DeadlineItem(res, dur); ok {
				s.due, s.dueHow = item, 2
				return s, true
			}
		}
		s.timeDep = true
		return s, true
	}
	for _, lf := range loops {
		x.ExploreFrom(lf, q35State{}, ro.loopSnap[lf])
	}
	if x.Incomplete != "" {
		r.Undecide("Q3/Q5: %s", x.Incomplete)
		return
	}
	ro.loopItemsDone = true
	pos := p.Pos(loops[0].fn.Pos())
	if q3 {
		if !sawPop {
			evAbsent(r, x.UnknownCalls(ro.isCallback), c06Prefix+"Q3-execute", "events/queue.Processor loop pop", pos, "the loop goroutine no longer pops the item it runs (all same-package callees followed): the item would run again")
		} else {
			r.Check(violPop == "", c06Prefix+"Q3-execute", "events/queue.Processor loop pop", pos, "Pop happens in the critical section that verified head == the item decided on", violPop)
		}
		if !sawCb {
			evAbsent(r, x.UnknownCalls(ro.isCallback), c06Prefix+"Q3-execute", "events/queue.Processor loop callback", pos, "the loop goroutine never invokes the callback (all same-package callees followed)")
		} else {
			r.Check(violCb == "", c06Prefix+"Q3-execute", "events/queue.Processor loop callback", pos, "the callback receives exactly the popped value, after the pop", violCb)
		}
	}
	if q5 {
		names := map[uint8]string{1: "events/queue.Processor loop runs item due by threshold", 2: "events/queue.Processor loop runs item whose timer fired"}
		for _, k := range []uint8{1, 2} {
			if how[k] {
				r.OK(c06Prefix+"Q5-not-early", names[k], pos, "item executed only when due (threshold <= 500µs or its own timer fired)")
			}
		}
		if violDue != "" {
			r.Violation(c06Prefix+"Q5-not-early", "events/queue.Processor loop runs item not due", pos, violDue)
		} else if undec != "" {
			r.Undecide("Q5: %s", undec)
		}
	}
}

// c06Execute / c06NotEarly: entry points used by C10.
func c06Execute(c *Ctx, ro *c06Roles)  { c06LoopItems(c, ro, true, false) }
func c06NotEarly(c *Ctx, ro *c06Roles) { c06LoopItems(c, ro, false, true) }

// ---------------------------------------------------------------- Q6

type q6State struct {
	held      bool
	inserted  bool
	attempted bool  // tried to take the token under the lock after the insert
	acq       uint8 // 0 no attempt | 1 token taken | 2 token not available | 3 attempted, outcome not branched on
	reset     bool  // reset signal posted after finding the token unavailable
	item      evVal // the inserted item
	postPeek  evVal // (frame, peek call) of the last peek after the insert, under the lock
	notHead   bool  // the head observed after the insert was found not to be the inserted item
	otherEv   bool  // a branch after the insert used other evidence about the item (its scheduled time, an opaque predicate)
}

func c06Enqueue(c *Ctx, ro *c06Roles) {
	r, p := c.R, c.P
	e := c.Locks()
	x := NewEvExplorer[q6State](ro.t)
	replaceBad, replaceUnk := "", ""
	nIns := 0
	sawBusy := false
	attempt := func(s q6State, got bool) q6State {
		if s.inserted && s.held {
			s.attempted = true
		}
		s.acq = 2
		if got {
			s.acq = 1
		}
		return s
	}
	selHas := func(cx *EvCtx[q6State], sel *ssa.Select) (hasTok, hasReset bool) {
		for _, st := range sel.States {
			if st.Dir == types.SendOnly {
				switch chanIdent(cx.Resolve(st.Chan).V) {
				case ro.tokenCh:
					hasTok = true
				case ro.resetCh:
					hasReset = true
				}
			}
		}
		return
	}
	x.Instr = func(cx *EvCtx[q6State], in ssa.Instruction, s q6State) (q6State, bool) {
		switch v := in.(type) {
		case *ssa.Send:
			switch chanIdent(cx.Resolve(v.Chan).V) {
			case ro.tokenCh:
				s = attempt(s, true)
			case ro.resetCh:
				if s.acq == 2 && s.held {
					s.reset = true
				}
			}
		case *ssa.Select:
			// (a select whose arms are all empty has no edges: the attempt is the event)
			hasTok, hasReset := selHas(cx, v)
			if hasTok {
				if s.inserted && s.held {
					s.attempted = true
				}
				s.acq = 3
			}
			if hasReset && s.acq == 2 && s.held {
				s.reset = true
			}
		case *ssa.Go:
		case ssa.CallInstruction:
			if id, kind, ok := evLockOp(cx, e, v); ok && id == ro.lockID {
				s.held = kind == opLock || kind == opRLock
				return s, true
			}
			if ro.op(v) == "insert" {
				nIns++
				args := v.Common().Args
				if len(args) > 0 && evConstBool(cx.Resolve(args[len(args)-1]).V) < 0 {
					replaceUnk = "the replace argument of the insert at " + p.Pos(instrPos(in)) + " is not a constant"
				} else if len(args) == 0 || evConstBool(cx.Resolve(args[len(args)-1]).V) != 1 {
					replaceBad = "Enqueue does not replace an existing item with the same key (insert at " + p.Pos(instrPos(in)) + "): the superseded value would still be executed and the new one dropped"
				}
				s.inserted, s.attempted, s.acq, s.reset = true, false, 0, false
				s.item, s.postPeek, s.notHead, s.otherEv = evVal{}, evVal{}, false, false
				if len(args) >= 2 {
					s.item = evNormItem(cx.Resolve(args[1]))
				}
				return s, true
			}
			switch ro.op(v) {
			case "peek":
				if call, ok := in.(*ssa.Call); ok && s.inserted && s.held {
					s.postPeek, s.notHead = evVal{cx.F, call}, false
				}
			case "pop", "remove", "update":
				s.postPeek, s.notHead = evVal{}, false
			}
		}
		return s, true
	}
	x.Branch = func(cx *EvCtx[q6State], ifi *ssa.If, taken bool, s q6State) (q6State, bool) {
		if !s.inserted || s.item.IsZero() {
			return s, true
		}
		key, neg := cx.CondKey(ifi.Cond)
		val := taken != neg
		res := evResolver(cx.ResolveIn)
		switch kv := key.V.(type) {
		case *ssa.BinOp:
			if kv.Op == token.EQL || kv.Op == token.NEQ {
				X, Y := evNormItem(res(key.F, kv.X)), evNormItem(res(key.F, kv.Y))
				if !s.postPeek.IsZero() && ((X == s.postPeek && Y == s.item) || (Y == s.postPeek && X == s.item)) {
					if (kv.Op == token.EQL) != val {
						s.notHead = true // head after the insert != the inserted item
					}
					return s, true
				}
			}
			if evInvolvesTime(res, key, 0) {
				s.otherEv = true
			}
		case *ssa.Call:
			for _, a := range kv.Call.Args {
				if evNormItem(res(key.F, a)) == s.item {
					s.otherEv = true
				}
			}
			if evInvolvesTime(res, key, 0) {
				s.otherEv = true
			}
		}
		return s, true
	}
	x.Select = func(cx *EvCtx[q6State], sel *ssa.Select, k int, s q6State) (q6State, bool) {
		if hasTok, _ := selHas(cx, sel); hasTok {
			got := k >= 0 && sel.States[k].Dir == types.SendOnly && chanIdent(cx.Resolve(sel.States[k].Chan).V) == ro.tokenCh
			s = attempt(s, got)
		}
		return s, true
	}
	okP, sawIns, okReset := true, false, false
	silentBad, silentUnk := "", ""
	for _, ex := range x.Explore(ro.t.Root(ro.enq), q6State{}) {
		s := ex.P.abs
		if s.inserted {
			sawIns = true
			if !s.attempted {
				okP = false
			}
			if s.acq == 2 {
				sawBusy = true
				if s.reset {
					okReset = true
				} else if !s.notHead {
					// the loop is running, no reset is posted, and this path never saw that
					// the head after the insert is some other item
					if s.otherEv {
						silentUnk = "Enqueue can return at " + p.Pos(instrPos(ex.Ret)) + " without posting the reset signal to a running loop, on evidence about the inserted item that is not 'the head peeked after the insert is another item' (its scheduled time or an opaque predicate): whether that excludes a head change is not decided"
					} else {
						silentBad = "Enqueue can return at " + p.Pos(instrPos(ex.Ret)) + " without posting the reset signal to a running loop although nothing on that path shows that the head of the queue after the insert is another item than the one inserted: an item that became the head (e.g. a non-head key replaced by an earlier time) waits for the previous head's timer and runs late"
					}
				}
			}
		}
	}
	if x.Incomplete != "" {
		r.Undecide("Q6: %s", x.Incomplete)
		return
	}
	pos := p.Pos(ro.enq.Pos())
	if !sawIns || nIns == 0 {
		evAbsent(r, x.UnknownCalls(ro.isCallback), c06Prefix+"Q6-enqueue", "events/queue.Processor.Enqueue insert", pos, "Enqueue no longer inserts into the queue on any path (all same-package callees followed)")
	} else if replaceBad == "" && replaceUnk != "" {
		r.Undecide("Q6: %s", replaceUnk)
	} else {
		r.Check(replaceBad == "", c06Prefix+"Q6-enqueue", "events/queue.Processor.Enqueue insert", pos, "insert(item, replace=true)", replaceBad)
	}
	r.Check(okP, c06Prefix+"Q6-enqueue", "events/queue.Processor.Enqueue process", pos, "every path that inserted tries to take the running token (start the loop) under the lock", "a path through Enqueue inserts an item without then trying to take the running token under the lock: no loop is started or poked for it")
	if !okReset && !sawBusy && okP {
		r.Undecide("Q6: the outcome of Enqueue's attempt to take the running token is never branched on in a recognised form (select default / boolean or constant result of a helper): whether a reset is posted when the loop is already running is not decided")
		return
	}
	r.Check(okReset, c06Prefix+"Q6-enqueue", "events/queue.Processor.Enqueue reset", pos, "head change is signalled to a running loop", "Enqueue has no path on which, finding the loop already running, it posts the reset signal under the lock: an earlier item waits for the previous head's timer")
	if silentBad == "" && silentUnk != "" {
		r.Undecide("Q6: %s", silentUnk)
	} else {
		r.Check(silentBad == "", c06Prefix+"Q6-enqueue", "events/queue.Processor.Enqueue silent only if head unchanged", pos, "every path that leaves a running loop unsignalled has seen, after the insert and under the lock, that the head is not the inserted item", silentBad)
	}
}

// ---------------------------------------------------------------- Q7

func c06Order(c *Ctx, ro *c06Roles) {
	r, p := c.R, c.P
	var less *ssa.Function
	for _, fn := range p.FuncsOfPkg(ro.rel) {
		if fn.Name() != "Less" || fn.Signature.Recv() == nil || fn.Parent() != nil {
			continue
		}
		// the type handed to container/heap: it also has Push and Pop
		ms := p.SSA.MethodSets.MethodSet(types.NewPointer(deref(fn.Signature.Recv().Type())))
		if ms.Lookup(fn.Pkg.Pkg, "Push") != nil && ms.Lookup(fn.Pkg.Pkg, "Pop") != nil && ms.Lookup(fn.Pkg.Pkg, "Swap") != nil {
			if less != nil {
				undecided("two heap.Interface implementations in events/queue")
			}
			less = fn
		}
	}
	if less == nil {
		undecided("no heap.Interface implementation (Less/Swap/Push/Pop) found in events/queue")
	}
	root := ro.t.Root(less)
	c06LessCoarse = ""
	rel, n := 0, 0
	unknown := false
	allInstrs(less, func(in ssa.Instruction) {
		ret, ok := in.(*ssa.Return)
		if !ok || len(ret.Results) != 1 || in.Block() == less.Recover {
			return
		}
		n++
		s := c06LessRel(ro.t, root, ret.Results[0], less, 0)
		switch {
		case s == 0:
			unknown = true
		case rel == 0:
			rel = s
		case rel != s:
			unknown = true
		}
	})
	construct := "events/queue heap Less"
	switch {
	case n == 0 || unknown || rel == 0:
		r.Undecide("%s: the comparison returned by %s is not one of the recognised forms (Before/After/Compare/Sub/UnixNano of the two items' ScheduledTime())", construct, FuncName(p, less))
	case c06LessCoarse != "":
		r.Violation(c06Prefix+"Q7-order", construct, p.Pos(less.Pos()), "Less compares the scheduled times through "+c06LessCoarse+"(), which truncates: items due within the same unit compare equal, so an item due earlier than the head does not move to the front (and triggers no reset); it runs after the later item, late by up to that unit")
	default:
		r.Check(rel > 0, c06Prefix+"Q7-order", construct, p.Pos(less.Pos()), "min-heap on ScheduledTime", "Less is no longer 'item i is scheduled before item j': the head of the queue is not the earliest item and callbacks run out of scheduled-time order")
	}
}

// c06LessCoarse is set by c06LessRel when the comparison goes through a
// truncating accessor (not order-isomorphic to the instant).
var c06LessCoarse string

// c06LessRel: +1 if v true means time(i) <(=) time(j), -1 if it means the
// opposite, 0 if not recognised.
func c06LessRel(t *evFrames, f *evFrame, v ssa.Value, fn *ssa.Function, depth int) int {
	if depth > 8 {
		return 0
	}
	rv := t.Resolve(f, v)
	idx := func(x ssa.Value) int { return c06IndexParam(t.Resolve(rv.F, x).V, fn) }
	sign := func(a, b ssa.Value) int {
		ia, ib := idx(a), idx(b)
		if ia == 1 && ib == 2 {
			return 1
		}
		if ia == 2 && ib == 1 {
			return -1
		}
		return 0
	}
	switch x := rv.V.(type) {
	case *ssa.UnOp:
		if x.Op == token.NOT {
			return -c06LessRel(t, rv.F, x.X, fn, depth+1)
		}
	case *ssa.Call:
		if len(x.Call.Args) == 2 && callIs(x, "time", "Time", "Before") {
			return sign(x.Call.Args[0], x.Call.Args[1])
		}
		if len(x.Call.Args) == 2 && callIs(x, "time", "Time", "After") {
			return -sign(x.Call.Args[0], x.Call.Args[1])
		}
	case *ssa.BinOp:
		dir := 0
		switch x.Op {
		case token.LSS, token.LEQ:
			dir = 1
		case token.GTR, token.GEQ:
			dir = -1
		default:
			return 0
		}
		X, Y := t.Resolve(rv.F, x.X), t.Resolve(rv.F, x.Y)
		num := func(v evVal) (a, b ssa.Value, kind int) {
			call, ok := v.V.(*ssa.Call)
			if !ok {
				return nil, nil, 0
			}
			switch {
			case len(call.Call.Args) == 2 && (callIs(call, "time", "Time", "Compare") || callIs(call, "time", "Time", "Sub")):
				return call.Call.Args[0], call.Call.Args[1], 2
			case len(call.Call.Args) == 1 && strings.HasPrefix(evCalleeName(call), "Unix") && callIs(call, "time", "Time", evCalleeName(call)):
				if evCalleeName(call) != "UnixNano" {
					// Unix / UnixMilli / UnixMicro truncate: instants within one unit compare equal
					c06LessCoarse = evCalleeName(call)
				}
				return call.Call.Args[0], nil, 1
			}
			return nil, nil, 0
		}
		isZero := func(v evVal) bool {
			k, ok := v.V.(*ssa.Const)
			return ok && k.Value != nil && k.Value.Kind() == constant.Int && k.Int64() == 0
		}
		ax, bx, kx := num(X)
		ay, _, ky := num(Y)
		switch {
		case kx == 2 && isZero(Y):
			return dir * sign(ax, bx)
		case ky == 2 && isZero(X):
			a, b, _ := num(Y)
			return -dir * sign(a, b)
		case kx == 1 && ky == 1:
			return dir * sign(ax, ay)
		}
	}
	return 0
}

// c06IndexParam: v = pq[param k].value.ScheduledTime() → k (index into fn.Params), else -1.
func c06IndexParam(v ssa.Value, fn *ssa.Function) int {
	for depth := 0; depth < 12 && v != nil; depth++ {
		switch x := v.(type) {
		case *ssa.Call:
			if x.Call.IsInvoke() {
				v = x.Call.Value
			} else if len(x.Call.Args) > 0 {
				v = x.Call.Args[0]
			} else {
				return -1
			}
		case *ssa.UnOp:
			v = x.X
		case *ssa.FieldAddr:
			v = x.X
		case *ssa.Field:
			v = x.X
		case *ssa.MakeInterface:
			v = x.X
		case *ssa.ChangeType:
			v = x.X
		case *ssa.IndexAddr:
			for i, pa := range fn.Params {
				if x.Index == pa {
					return i
				}
			}
			return -1
		case *ssa.Index:
			for i, pa := range fn.Params {
				if x.Index == pa {
					return i
				}
			}
			return -1
		default:
			return -1
		}
	}
	return -1
}

// ---------------------------------------------------------------- Q8

type q8State struct {
	pending uint8 // 0 | 1 reset received in a non-blocking select | 2 in a blocking select / plain receive
}

// c06Signals: channel capacities of the token channels, and the handling of a
// received reset signal.
func c06Signals(c *Ctx, ro *c06Roles) {
	r, p := c.R, c.P
	want := map[string]int64{ro.resetCh: 1, ro.tokenCh: 1, ro.stopCh: 0}
	role := map[string]string{ro.resetCh: "reset-signal", ro.tokenCh: "running-token", ro.stopCh: "stop"}
	msg := map[string]string{
		ro.resetCh: "the reset signal is posted without blocking while the poster holds the lock; with no slot to park it, a reset posted while the loop is between its Peek and its select is dropped and an earlier item waits for the previous head's timer (with more than one slot stale resets accumulate)",
		ro.tokenCh: "the running token must be a 1-slot channel: 0 blocks the first Enqueue forever, 2 lets two loops pop the same queue",
		ro.stopCh:  "the stop channel is a close-only signal",
	}
	seen := map[string]bool{}
	for _, fn := range p.FuncsOfPkg(ro.rel) {
		allInstrs(fn, func(in ssa.Instruction) {
			st, ok := in.(*ssa.Store)
			if !ok {
				return
			}
			fa, ok := st.Addr.(*ssa.FieldAddr)
			if !ok {
				return
			}
			id := "field:" + fieldIDOfAddr(fa).Type + "." + fieldIDOfAddr(fa).Field
			capWant, tracked := want[id]
			if !tracked {
				return
			}
			seen[id] = true
			val := ro.t.Resolve(ro.t.Root(fn), st.Val).V
			mc, isMake := val.(*ssa.MakeChan)
			if !isMake {
				r.Undecide("%s stores a channel that is not a fresh make(chan) into the %s channel of queue.Processor", FuncName(p, fn), role[id])
				return
			}
			k, isK := mc.Size.(*ssa.Const)
			if !isK || k.Value == nil {
				r.Undecide("%s makes the %s channel of queue.Processor with a non-constant capacity", FuncName(p, fn), role[id])
				return
			}
			r.Check(k.Int64() == capWant, c06Prefix+"Q8-signals", FuncName(p, fn)+" makes the "+role[id]+" channel", p.Pos(st.Pos()), fmt.Sprintf("capacity %d", capWant), msg[id])
		})
	}
	var ids []string
	for id := range want {
		ids = append(ids, id)
	}
	sort.Strings(ids)
	for _, id := range ids {
		if !seen[id] {
			r.Undecide("no initialisation of the %s channel of queue.Processor found", role[id])
		}
	}
	// reset handling
	loops := ro.loopFrames(c)
	if len(loops) == 0 {
		return
	}
	x := NewEvExplorer[q8State](ro.t)
	viol := map[uint8]string{}
	// the waits of the loop that listen for the reset signal, by kind
	kinds := map[uint8]token.Pos{}
	noReset := ""
	hit := func(s q8State, what string, in ssa.Instruction) {
		if s.pending != 0 && viol[s.pending] == "" {
			viol[s.pending] = "after receiving a reset signal the loop can reach " + what + " (at " + p.Pos(instrPos(in)) + ") without peeking the queue again: it goes on with the old head although an earlier item was enqueued, which then runs late"
		}
	}
	x.Instr = func(cx *EvCtx[q8State], in ssa.Instruction, s q8State) (q8State, bool) {
		switch v := in.(type) {
		case *ssa.UnOp:
			if v.Op == token.ARROW && chanIdent(cx.Resolve(v.X).V) == ro.resetCh {
				s.pending = 2
				kinds[2] = instrPos(in)
			}
		case *ssa.Select:
			hasReset, hasTimer := false, false
			for _, st := range v.States {
				if st.Dir != types.RecvOnly {
					continue
				}
				id := chanIdent(cx.Resolve(st.Chan).V)
				if id == ro.resetCh {
					hasReset = true
				}
				if strings.HasPrefix(id, "timer:") || strings.HasPrefix(id, "call:After") {
					hasTimer = true
				}
			}
			if hasReset {
				k := uint8(1)
				if v.Blocking {
					k = 2
				}
				if _, ok := kinds[k]; !ok {
					kinds[k] = instrPos(in)
				}
			}
			if hasTimer && v.Blocking && !hasReset {
				noReset = "the loop waits for the item's timer at " + p.Pos(instrPos(in)) + " without listening for the reset signal: an earlier item enqueued meanwhile waits for the previous head's timer"
			}
		case *ssa.Go:
		case ssa.CallInstruction:
			switch ro.op(v) {
			case "peek":
				s.pending = 0
				return s, true
			case "pop":
				hit(s, "the pop", in)
				return s, true
			}
			if call, ok := in.(*ssa.Call); ok {
				switch evCalleeName(call) {
				case "NewTimer", "After", "AfterFunc":
					if obj := calleeObj(call); obj != nil && obj.Pkg() != nil && strings.HasSuffix(obj.Pkg().Path(), "clock") {
						hit(s, "arming a timer", in)
					}
				}
				if !call.Call.IsInvoke() {
					if id, _, ok := fieldOfValue(cx.Resolve(call.Call.Value).V); ok && id == ro.execFn {
						hit(s, "the callback", in)
					}
				}
			}
		}
		return s, true
	}
	x.Select = func(cx *EvCtx[q8State], sel *ssa.Select, k int, s q8State) (q8State, bool) {
		if k >= 0 && sel.States[k].Dir == types.RecvOnly && chanIdent(cx.Resolve(sel.States[k].Chan).V) == ro.resetCh {
			s.pending = 1
			if sel.Blocking {
				s.pending = 2
			}
		}
		return s, true
	}
	for _, lf := range loops {
		x.ExploreFrom(lf, q8State{}, ro.loopSnap[lf])
	}
	if x.Incomplete != "" {
		r.Undecide("Q8: %s", x.Incomplete)
		return
	}
	pos := p.Pos(loops[0].fn.Pos())
	if len(kinds) == 0 {
		evAbsent(r, x.UnknownCalls(ro.isCallback), c06Prefix+"Q8-signals", "events/queue.Processor loop reset case", pos, "the loop goroutine never receives the reset signal (all same-package callees followed): an earlier item waits for the previous head's timer")
		return
	}
	for _, k := range []uint8{1, 2} {
		at, ok := kinds[k]
		if !ok {
			continue
		}
		kind := "non-blocking"
		if k == 2 {
			kind = "blocking"
		}
		r.Check(viol[k] == "", c06Prefix+"Q8-signals", fmt.Sprintf("events/queue.Processor loop reset case (%s select)", kind), p.Pos(at), "a received reset restarts the loop at Peek", viol[k])
	}
	if noReset != "" {
		r.Violation(c06Prefix+"Q8-signals", "events/queue.Processor loop timer wait", pos, noReset)
	}
}
