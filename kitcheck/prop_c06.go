package main

import (
	"fmt"
	"go/token"
	"go/types"

	"golang.org/x/tools/go/ssa"
)

// C06 — queue.Processor.

func init() { register("C06", checkC06) }

// c06Prefix lets other properties (C10) run the queue rules under their own rule ids.
var c06Prefix = "C06."

func checkC06(c *Ctx) {
	r, p := c.R, c.P
	r.Explanation = "Decides structural necessary conditions of C06 on events/queue: (Q1) Processor.queue is only used with Processor.lock held (process() runs under its callers' lock); (Q2) atomic exit: on every path of processLoop, between observing the queue empty under the lock and giving up the running token the lock is never released — otherwise an Enqueue in that window finds the loop 'still running' and its item is stranded — and every return gives the token up exactly once; (Q3) execute pops in the same critical section in which it re-checked that the head is still the peeked item, and the callback receives the popped value; (Q4) Close waits for the loop goroutine on every path and, on the path that wins the stopped CAS, closes stopCh and takes the running token; the loop goroutine is spawned only after taking the token, with wg.Add before go and a deferred Done; (Q5) an item is executed only on the 'due within K' branch with K <= 500µs of scheduledTime.Sub(clock.Now()) or after the timer armed with that same duration fired; (Q6) Enqueue inserts with replace=true and always calls process(); the head-changed signal is sent when the loop is already running; (Q7) the heap orders by ScheduledTime().Before(i,j). NOT decided: exactly-once / ordering over all histories, timer accuracy, that isFirst is computed correctly."
	r.Assumptions = append(r.Assumptions, "type-based lock and channel identity", "container/heap implements a min-heap over Less")
	r.Rule("C06.Q1-guard", "Processor.queue only under Processor.lock", 4)
	r.Rule("C06.Q2-atomic-exit", "no unlock between 'queue empty' and release of the running token; token released exactly once per return", 2)
	r.Rule("C06.Q3-execute", "Pop in the same critical section as the head re-check; callback gets the popped value", 2)
	r.Rule("C06.Q4-close", "Close: wg.Wait on all paths; close(stopCh)+token on the CAS path; loop goroutine tracked and started only with the token", 3)
	r.Rule("C06.Q5-not-early", "execute only when due within <=500µs or after the timer for that item fired", 2)
	r.Rule("C06.Q6-enqueue", "Enqueue inserts with replace=true and always calls process(); reset signal when already running", 3)
	r.Rule("C06.Q8-signals", "reset/running tokens are 1-slot channels; every reset received by the loop leads to a fresh Peek before anything is armed or executed", 4)
	r.Rule("C06.Q7-order", "heap Less = ScheduledTime(i).Before(ScheduledTime(j))", 1)

	q := p.ModPath + "/events/queue"
	lockID := q + ".Processor.lock"
	tokenCh := "field:" + q + ".Processor.processorRunningCh"
	e := c.Locks()

	CheckGuardedBy(p, e, r, "C06.Q1-guard", []GuardSpec{{Field: FieldID{q + ".Processor", "queue"}, Lock: lockID}})

	loop := p.Func("events/queue", "Processor.processLoop")
	c06AtomicExit(c, loop, lockID, tokenCh)
	c06Execute(c, lockID)
	c06Close(c, loop, tokenCh)
	c06NotEarly(c, loop)
	c06Enqueue(c, lockID)
	c06Order(c)
	c06Signals(c, loop)

	c.Fixture("c06exit", func(fp *Prog, fr *Report) {
		fe := NewLockEngine(fp)
		fe.Run()
		for _, fn := range fp.Funcs {
			if fn.Parent() != nil || fn.Name() == "init" || fn.Signature.Recv() == nil {
				continue
			}
			fc := &Ctx{P: fp, R: fr, locks: fe}
			c06AtomicExitNamed(fc, fn, fp.ModPath+".proc.mu", "field:"+fp.ModPath+".proc.running", FuncName(fp, fn)+" atomic-exit", FuncName(fp, fn)+" token-once", "Peek")
		}
	})
}

// isTokenRelease: instruction receives from the token channel, or is a
// deferred closure (replayed at RunDefers) whose body does.
func c06IsRecvOn(in ssa.Instruction, ch string) bool {
	switch x := in.(type) {
	case *ssa.UnOp:
		return x.Op == token.ARROW && chanIdent(x.X) == ch
	case *ssa.Defer:
		if f := staticCallee(x); f != nil {
			found := false
			allInstrs(f, func(j ssa.Instruction) {
				if u, ok := j.(*ssa.UnOp); ok && u.Op == token.ARROW && chanIdent(u.X) == ch {
					found = true
				}
			})
			return found
		}
	}
	return false
}

func c06AtomicExit(c *Ctx, loop *ssa.Function, lockID, tokenCh string) {
	c06AtomicExitNamed(c, loop, lockID, tokenCh, "events/queue.Processor.processLoop empty-exit", "events/queue.Processor.processLoop token-once", "Peek")
}

// c06AtomicExitNamed runs the AtomicDecision typestate:
//
//	states: 0 neutral | 1 queue seen empty, lock still held | 2 lock released after seeing it empty (window) | 3 token released atomically
//
// and the token count {0,1,2+} in bits 2..3 of the abstract state.
func c06AtomicExitNamed(c *Ctx, loop *ssa.Function, lockID, tokenCh, construct, construct2, peekName string) {
	r, p, e := c.R, c.P, c.Locks()
	enc := func(ph, cnt int) int { return ph | cnt<<2 }
	ff := &FlagFlow{Fn: loop, Must: false, Entry: 1 << uint(enc(0, 0)),
		Transfer: func(in ssa.Instruction, st uint64) uint64 {
			if c06IsRecvOn(in, tokenCh) {
				held := e.At(in)[lockID] != ModeNone
				if _, isDefer := in.(*ssa.Defer); isDefer {
					held = false
					// replayed at function exit: lockset there
					allInstrs(loop, func(j ssa.Instruction) {
						if _, ok := j.(*ssa.RunDefers); ok && e.At(j)[lockID] != ModeNone {
							held = true
						}
					})
				}
				return mapStates(st, func(s int) int {
					ph, cnt := s&3, s>>2
					if cnt < 2 {
						cnt++
					}
					if ph == 1 && held {
						ph = 3
					}
					return enc(ph, cnt)
				})
			}
			if call, ok := in.(*ssa.Call); ok {
				if id, kind, ok := e.lockOp(call); ok && id == lockID && (kind == opUnlock || kind == opRUnlock) {
					return mapStates(st, func(s int) int {
						ph, cnt := s&3, s>>2
						if ph == 1 {
							ph = 2
						}
						return enc(ph, cnt)
					})
				}
			}
			return st
		},
		EdgeTransfer: func(from, to *ssa.BasicBlock, st uint64) uint64 {
			if len(from.Instrs) == 0 || len(from.Succs) != 2 || from.Succs[0] == from.Succs[1] {
				return st
			}
			ifi, ok := from.Instrs[len(from.Instrs)-1].(*ssa.If)
			if !ok {
				return st
			}
			br := from.Succs[0] == to
			cond := ifi.Cond
			if u, ok := cond.(*ssa.UnOp); ok && u.Op == token.NOT {
				cond, br = u.X, !br
			}
			ex, ok := cond.(*ssa.Extract)
			if !ok || ex.Index != 1 {
				return st
			}
			call, ok := ex.Tuple.(*ssa.Call)
			if !ok || calleeObj(call) == nil || calleeObj(call).Name() != peekName {
				return st
			}
			if br { // queue non-empty: a fresh observation, neutral
				return mapStates(st, func(s int) int { return enc(0, s>>2) })
			}
			if e.At(ifi)[lockID] != ModeNone {
				return mapStates(st, func(s int) int { return enc(1, s>>2) })
			}
			return mapStates(st, func(s int) int { return enc(2, s>>2) })
		}}
	ff.Run()
	bad, badCnt := "", ""
	nret := 0
	sawEmptyExit := false
	ff.AtReturns(func(ret *ssa.Return, st uint64) {
		nret++
		for s := 0; s < 16; s++ {
			if st&(1<<uint(s)) == 0 {
				continue
			}
			ph, cnt := s&3, s>>2
			if ph == 3 {
				sawEmptyExit = true
			}
			if ph == 2 {
				bad = "processLoop returns at " + p.Pos(ret.Pos()) + " after observing the queue empty, releasing the lock, and only then giving up the running token: an Enqueue in that window sees a running loop, sends a reset nobody reads, and its item stays queued with no loop serving it"
			}
			if ph == 1 {
				bad = "processLoop returns at " + p.Pos(ret.Pos()) + " after observing the queue empty without giving up the running token"
			}
			if cnt != 1 {
				badCnt = fmt.Sprintf("return at %s gives the running token up %s times (must be exactly once: zero wedges every later Enqueue and Close, twice lets two loops run)", p.Pos(ret.Pos()), []string{"0", "1", "2 or more"}[cnt])
			}
		}
	})
	if nret == 0 {
		bad = "no return found"
	}
	if bad == "" && !sawEmptyExit {
		bad = "no exit taken on an empty queue found (loop never ends, or the emptiness test is not recognisable as Peek()'s ok result)"
	}
	r.Check(bad == "", c06Prefix+"Q2-atomic-exit", construct, p.Pos(loop.Pos()), "queue-empty observation and token release happen in one critical section", bad)
	r.Check(badCnt == "", c06Prefix+"Q2-atomic-exit", construct2, p.Pos(loop.Pos()), "every return releases the token exactly once", badCnt)
}

func c06Execute(c *Ctx, lockID string) {
	r, p, e := c.R, c.P, c.Locks()
	fn := p.Func("events/queue", "Processor.execute")
	var peek, pop *ssa.Call
	var execCalls []*ssa.Call
	allInstrs(fn, func(in ssa.Instruction) {
		call, ok := in.(*ssa.Call)
		if !ok {
			return
		}
		if obj := calleeObj(call); obj != nil && !call.Call.IsInvoke() {
			switch obj.Name() {
			case "Peek":
				peek = call
			case "Pop":
				pop = call
			}
		}
		if id, _, ok := fieldOfValue(call.Call.Value); ok && id.Field == "executeFn" {
			execCalls = append(execCalls, call)
		}
	})
	construct := "events/queue.Processor.execute pop"
	if pop == nil {
		r.Violation(c06Prefix+"Q3-execute", construct, p.Pos(fn.Pos()), "execute no longer pops the item it runs (item would run again)")
		return
	}
	why := ""
	if peek == nil {
		why = "execute pops without re-checking under the lock that the head is still the item the loop peeked (a Dequeue/replace between the loop's peek and the pop makes a different, possibly not-due, item run)"
	} else {
		sec := sectionIndex(e, fn, lockID)
		if sec[peek] != sec[pop] || sec[pop] != 1<<1 || e.At(pop)[lockID] == ModeNone || e.At(peek)[lockID] == ModeNone {
			why = "the head re-check (Peek) and the Pop are not in one critical section"
		}
		// pop dominated by edge peek==r
		var rparam ssa.Value
		if len(fn.Params) >= 2 {
			rparam = fn.Params[1]
		}
		eq := false
		pv := callResult(peek, 0)
		for _, dc := range domConds(pop.Block()) {
			if cmp, ok := decodeCond(dc.If.Cond, dc.Branch); ok && cmp.Op == token.EQL {
				if (cmp.X == pv && cmp.Y == rparam) || (cmp.Y == pv && cmp.X == rparam) {
					eq = true
				}
			}
		}
		if !eq && why == "" {
			why = "Pop is not guarded by 'head == the item passed in'"
		}
	}
	r.Check(why == "", c06Prefix+"Q3-execute", construct, p.Pos(pop.Pos()), "Pop happens in the critical section that verified head == peeked item", why)
	okArg := len(execCalls) > 0
	for _, ec := range execCalls {
		if len(ec.Call.Args) != 1 || ec.Call.Args[0] != callResult(pop, 0) {
			okArg = false
		}
		if !instrDominates(pop, ec) {
			okArg = false
		}
		if e.At(ec)[lockID] != ModeNone {
			r.Note("C06: executeFn is invoked with Processor.lock held (callbacks that Enqueue would deadlock) — not part of the statement")
		}
	}
	r.Check(okArg, c06Prefix+"Q3-execute", "events/queue.Processor.execute callback", p.Pos(fn.Pos()), "executeFn receives exactly the popped value, after the pop", "executeFn is not called with the value popped from the queue (or is called before/without the pop)")
}

func c06Close(c *Ctx, loop *ssa.Function, tokenCh string) {
	r, p := c.R, c.P
	fn := p.Func("events/queue", "Processor.Close")
	q := p.ModPath + "/events/queue"
	stopCh := "field:" + q + ".Processor.stopCh"
	// wg.Wait on all paths
	const (
		fWait = 1 << iota
		fClosed
		fToken
	)
	ff := &FlagFlow{Fn: fn, Must: true, Transfer: func(in ssa.Instruction, st uint64) uint64 {
		if ci, ok := in.(ssa.CallInstruction); ok {
			if callIs(ci, "sync", "WaitGroup", "Wait") {
				return st | fWait
			}
			if builtinName(ci) == "close" && chanIdent(ci.Common().Args[0]) == stopCh {
				return st | fClosed
			}
		}
		if s, ok := in.(*ssa.Send); ok && chanIdent(s.Chan) == tokenCh {
			return st | fToken
		}
		return st
	}}
	ff.Run()
	okWait := true
	ff.AtReturns(func(ret *ssa.Return, st uint64) {
		if st&fWait == 0 {
			okWait = false
		}
	})
	r.Check(okWait, c06Prefix+"Q4-close", "events/queue.Processor.Close waits", p.Pos(fn.Pos()), "wg.Wait on every path", "Close can return without waiting for the loop goroutine (a callback may still run after Close returned)")
	// CAS path
	okCAS := false
	allInstrs(fn, func(in ssa.Instruction) {
		s, ok := in.(*ssa.Send)
		if !ok || chanIdent(s.Chan) != tokenCh {
			return
		}
		st, _ := ff.Before(s)
		casEdge := false
		for _, dc := range domConds(s.Block()) {
			if call, val, ok := boolCallCond(dc.If.Cond, dc.Branch); ok && val && calleeObj(call) != nil && calleeObj(call).Name() == "CompareAndSwap" {
				casEdge = true
			}
		}
		if st&fClosed != 0 && casEdge {
			okCAS = true
		}
	})
	r.Check(okCAS, c06Prefix+"Q4-close", "events/queue.Processor.Close stop+token", p.Pos(fn.Pos()), "winner of the stopped CAS closes stopCh and then takes the running token", "Close no longer closes stopCh before taking the running token on the CAS-success path (it would not stop the loop, or not wait for it)")
	// spawn in process(): go dominated by send-case edge on token; wg.Add before; goroutine defers Done and calls processLoop
	proc := p.Func("events/queue", "Processor.process")
	okSpawn, n := true, 0
	why := ""
	allInstrs(proc, func(in ssa.Instruction) {
		g, ok := in.(*ssa.Go)
		if !ok {
			return
		}
		n++
		body := staticCallee(g)
		callsLoop, defersDone := false, false
		if body != nil {
			allInstrs(body, func(j ssa.Instruction) {
				if cj, ok := j.(*ssa.Call); ok && staticCallee(cj) == loop {
					callsLoop = true
				}
				if dj, ok := j.(*ssa.Defer); ok && callIs(dj, "sync", "WaitGroup", "Done") {
					defersDone = true
				}
			})
		}
		if body == loop {
			callsLoop = true
		}
		// wg.Add(1) dominates go
		added := false
		allInstrs(proc, func(j ssa.Instruction) {
			if cj, ok := j.(*ssa.Call); ok && callIs(cj, "sync", "WaitGroup", "Add") && instrDominates(cj, g) {
				added = true
			}
		})
		// token taken: go dominated by select send case on tokenCh
		tokenTaken := false
		allInstrs(proc, func(j ssa.Instruction) {
			if sel, ok := j.(*ssa.Select); ok {
				si := decodeSelect(sel)
				for _, cs := range si.Cases {
					if cs.Dir == types.SendOnly && cs.Chan == tokenCh && cs.Body != nil && cs.Body.Dominates(g.Block()) && (si.Default == nil || !si.Default.Dominates(g.Block())) {
						tokenTaken = true
					}
				}
			}
			if s, ok := j.(*ssa.Send); ok && chanIdent(s.Chan) == tokenCh && instrDominates(s, g) {
				tokenTaken = true
			}
		})
		if !callsLoop {
			return
		}
		if !added || !defersDone {
			okSpawn, why = false, "loop goroutine is not tracked in wg (Add before go, deferred Done): Close may return while a callback is still running"
		}
		if !tokenTaken {
			okSpawn, why = false, "a loop goroutine can be started without first taking the running token (two loops can pop the same queue / Close cannot wait for it)"
		}
	})
	if n == 0 {
		okSpawn, why = false, "process() no longer starts the loop goroutine"
	}
	r.Check(okSpawn, c06Prefix+"Q4-close", "events/queue.Processor.process spawn", p.Pos(proc.Pos()), "loop goroutine started only with the token, tracked by wg", why)
}

func c06NotEarly(c *Ctx, loop *ssa.Function) {
	r, p := c.R, c.P
	exec := p.Func("events/queue", "Processor.execute")
	n := 0
	allInstrs(loop, func(in ssa.Instruction) {
		call, ok := in.(*ssa.Call)
		if !ok || staticCallee(call) != exec {
			return
		}
		n++
		item := call.Call.Args[1]
		ok2, why := false, "execute is reached without the item being due: neither on a 'scheduledTime.Sub(clock.Now()) < K (K<=500µs)' branch nor after the timer armed for it fired"
		for _, dc := range domConds(call.Block()) {
			// (a) deadline < K
			if cmp, okc := decodeCond(dc.If.Cond, dc.Branch); okc && (cmp.Op == token.LSS || cmp.Op == token.LEQ) {
				if k, isK := cmp.Y.(*ssa.Const); isK && k.Value != nil {
					if sub, isSub := cmp.X.(*ssa.Call); isSub && c06IsDeadlineOf(sub, item) {
						if k.Int64() <= 500000 {
							ok2 = true
						} else {
							why = fmt.Sprintf("the run-now threshold is %d ns: items run up to that long before their scheduled time (allowed: 0.5 ms)", k.Int64())
						}
					}
				}
			}
		}
		// (b) select case on timer C() of NewTimer(deadline of item)
		if si, ks := selectEdgeFor(call.Block()); si != nil {
			for _, k := range ks {
				cs := si.Cases[k]
				if cs.Dir == types.RecvOnly {
					if cc, okc := cs.ChanV.(*ssa.Call); okc && calleeObj(cc) != nil && calleeObj(cc).Name() == "C" {
						if nt, okn := cc.Call.Value.(*ssa.Call); okn && calleeObj(nt) != nil && calleeObj(nt).Name() == "NewTimer" {
							if sub, oks := nt.Call.Args[0].(*ssa.Call); oks && c06IsDeadlineOf(sub, item) {
								ok2 = true
							}
						}
					}
				}
			}
		}
		r.Check(ok2, c06Prefix+"Q5-not-early", fmt.Sprintf("events/queue.Processor.processLoop execute#%d", n), p.Pos(call.Pos()), "item executed only when due (threshold <= 500µs or its own timer fired)", why)
	})
	if n == 0 {
		r.Violation(c06Prefix+"Q5-not-early", "events/queue.Processor.processLoop execute#1", p.Pos(loop.Pos()), "processLoop never executes items")
	}
}

// selectEdgeFor: block b is (dominated by) the body of select case k.
func selectEdgeFor(b *ssa.BasicBlock) (*SelectInfo, []int) {
	for s := b; s != nil; s = s.Idom() {
		if len(s.Preds) == 1 {
			if si, ks := selectEdgeCases(s.Preds[0], s); si != nil {
				return si, ks
			}
		}
	}
	return nil, nil
}

// c06IsDeadlineOf: sub = item.ScheduledTime().Sub(clock.Now())
func c06IsDeadlineOf(sub *ssa.Call, item ssa.Value) bool {
	if !callIs(sub, "time", "Time", "Sub") || len(sub.Call.Args) != 2 {
		return false
	}
	st, ok := sub.Call.Args[0].(*ssa.Call)
	if !ok || calleeObj(st) == nil || calleeObj(st).Name() != "ScheduledTime" || st.Call.Value != item {
		return false
	}
	now, ok := sub.Call.Args[1].(*ssa.Call)
	return ok && calleeObj(now) != nil && calleeObj(now).Name() == "Now"
}

func c06Enqueue(c *Ctx, lockID string) {
	r, p, e := c.R, c.P, c.Locks()
	enq := p.Func("events/queue", "Processor.Enqueue")
	proc := p.Func("events/queue", "Processor.process")
	q := p.ModPath + "/events/queue"
	// replace=true
	nIns := 0
	allInstrs(enq, func(in ssa.Instruction) {
		call, ok := in.(*ssa.Call)
		if !ok || calleeObj(call) == nil || calleeObj(call).Name() != "Insert" || call.Call.IsInvoke() {
			return
		}
		nIns++
		args := call.Call.Args
		k, isK := args[len(args)-1].(*ssa.Const)
		r.Check(isK && k.Value != nil && k.Value.String() == "true", c06Prefix+"Q6-enqueue", "events/queue.Processor.Enqueue insert", p.Pos(call.Pos()), "Insert(r, replace=true)", "Enqueue does not replace an existing item with the same key: the superseded value would still be executed and the new one dropped")
	})
	if nIns == 0 {
		r.Violation(c06Prefix+"Q6-enqueue", "events/queue.Processor.Enqueue insert", p.Pos(enq.Pos()), "Enqueue no longer inserts into the queue")
	}
	// process() on every path after the insert (must), under the lock
	ff := &FlagFlow{Fn: enq, Must: true, Transfer: func(in ssa.Instruction, st uint64) uint64 {
		if call, ok := in.(*ssa.Call); ok {
			if calleeObj(call) != nil && calleeObj(call).Name() == "Insert" {
				return st | 1
			}
			if staticCallee(call) == proc && st&1 != 0 && e.At(call)[lockID] != ModeNone {
				return st | 2
			}
		}
		return st
	}}
	ff.Run()
	okP := true
	ff.AtReturns(func(ret *ssa.Return, st uint64) {
		if st&1 != 0 && st&2 == 0 {
			okP = false
		}
	})
	r.Check(okP, c06Prefix+"Q6-enqueue", "events/queue.Processor.Enqueue process", p.Pos(enq.Pos()), "every path that inserted calls process() under the lock", "a path through Enqueue inserts an item without calling process() under the lock: no loop is started or poked for it")
	// reset signal: in process(), on default path under isNext, a send on resetCh
	resetCh := "field:" + q + ".Processor.resetCh"
	okReset := false
	allInstrs(proc, func(in ssa.Instruction) {
		sel, ok := in.(*ssa.Select)
		if !ok {
			return
		}
		si := decodeSelect(sel)
		for _, cs := range si.Cases {
			if cs.Dir == types.SendOnly && cs.Chan == resetCh {
				// dominated by isNext == true
				for _, dc := range domConds(sel.Block()) {
					if dc.If.Cond == proc.Params[1] && dc.Branch {
						okReset = true
					}
				}
			}
		}
	})
	r.Check(okReset, c06Prefix+"Q6-enqueue", "events/queue.Processor.process reset", p.Pos(proc.Pos()), "head change is signalled to a running loop", "process(isNext=true) no longer signals a running loop that the head changed: an earlier item waits for the previous head's timer")
}

func c06Order(c *Ctx) {
	r, p := c.R, c.P
	less := p.Func("events/queue", "queueHeap.Less")
	ok := false
	allInstrs(less, func(in ssa.Instruction) {
		call, isCall := in.(*ssa.Call)
		if !isCall || !callIs(call, "time", "Time", "Before") {
			return
		}
		a, b := c06IndexParam(call.Call.Args[0], less), c06IndexParam(call.Call.Args[1], less)
		if a == 1 && b == 2 {
			// and the result is returned un-negated
			for _, rr := range refs(call) {
				if _, isRet := rr.(*ssa.Return); isRet {
					ok = true
				}
			}
		}
	})
	r.Check(ok, c06Prefix+"Q7-order", "events/queue.queueHeap.Less", p.Pos(less.Pos()), "min-heap on ScheduledTime", "Less is no longer 'item i is scheduled before item j': the head of the queue is not the earliest item and callbacks run out of scheduled-time order")
}

// c06IndexParam: v = pq[param k].value.ScheduledTime() → k (index into fn.Params), else -1.
func c06IndexParam(v ssa.Value, fn *ssa.Function) int {
	for depth := 0; depth < 10 && v != nil; depth++ {
		switch x := v.(type) {
		case *ssa.Call:
			if x.Call.IsInvoke() {
				v = x.Call.Value
			} else if len(x.Call.Args) > 0 {
				v = x.Call.Args[0]
			} else {
				return -1
			}
		case *ssa.UnOp:
			v = x.X
		case *ssa.FieldAddr:
			v = x.X
		case *ssa.Field:
			v = x.X
		case *ssa.IndexAddr:
			for i, pa := range fn.Params {
				if x.Index == pa {
					return i
				}
			}
			return -1
		case *ssa.Index:
			for i, pa := range fn.Params {
				if x.Index == pa {
					return i
				}
			}
			return -1
		default:
			return -1
		}
	}
	return -1
}

// c06Signals: channel capacities of the token channels, and the handling of a
// received reset signal.
func c06Signals(c *Ctx, loop *ssa.Function) {
	r, p := c.R, c.P
	q := p.ModPath + "/events/queue"
	want := map[string]int64{"resetCh": 1, "processorRunningCh": 1, "stopCh": 0}
	seen := map[string]bool{}
	for _, fn := range p.FuncsOfPkg("events/queue") {
		allInstrs(fn, func(in ssa.Instruction) {
			st, ok := in.(*ssa.Store)
			if !ok {
				return
			}
			fa, ok := st.Addr.(*ssa.FieldAddr)
			if !ok || fieldIDOfAddr(fa).Type != q+".Processor" {
				return
			}
			f := fieldIDOfAddr(fa).Field
			capWant, tracked := want[f]
			if !tracked {
				return
			}
			seen[f] = true
			mc, isMake := st.Val.(*ssa.MakeChan)
			okCap := false
			if isMake {
				if k, ok := mc.Size.(*ssa.Const); ok && k.Value != nil && k.Int64() == capWant {
					okCap = true
				}
			}
			msg := map[string]string{
				"resetCh":            "the reset signal is posted without blocking while the poster holds the lock; with no slot to park it, a reset posted while the loop is between its Peek and its select is dropped and an earlier item waits for the previous head's timer (with more than one slot stale resets accumulate)",
				"processorRunningCh": "the running token must be a 1-slot channel: 0 blocks the first Enqueue forever, 2 lets two loops pop the same queue",
				"stopCh":             "stopCh is a close-only signal",
			}[f]
			r.Check(okCap, c06Prefix+"Q8-signals", FuncName(p, fn)+" makes Processor."+f, p.Pos(st.Pos()), fmt.Sprintf("capacity %d", capWant), msg)
		})
	}
	for f := range want {
		if !seen[f] {
			r.Undecide("no initialisation of queue.Processor.%s found", f)
		}
	}
	// reset handling: from the body of every receive case on resetCh the loop reaches the Peek
	// again before it arms a timer or executes anything
	resetCh := "field:" + q + ".Processor.resetCh"
	var peekBlk *ssa.BasicBlock
	danger := map[*ssa.BasicBlock]string{}
	allInstrs(loop, func(in ssa.Instruction) {
		call, ok := in.(*ssa.Call)
		if !ok {
			return
		}
		if obj := calleeObj(call); obj != nil {
			switch obj.Name() {
			case "Peek":
				if !call.Call.IsInvoke() {
					peekBlk = call.Block()
				}
			case "NewTimer", "execute", "ScheduledTime":
				danger[call.Block()] = obj.Name()
			}
		}
	})
	n := 0
	allInstrs(loop, func(in ssa.Instruction) {
		sel, ok := in.(*ssa.Select)
		if !ok {
			return
		}
		si := decodeSelect(sel)
		for _, cs := range si.Cases {
			if cs.Dir != types.RecvOnly || cs.Chan != resetCh || cs.Body == nil {
				continue
			}
			n++
			bad := ""
			if peekBlk == nil {
				bad = "the loop no longer peeks the queue"
			} else if cs.Body != peekBlk {
				for blk := range reachableFrom(cs.Body, map[*ssa.BasicBlock]bool{peekBlk: true}) {
					if what, ok := danger[blk]; ok {
						bad = "after receiving a reset signal the loop can reach " + what + " (at " + p.Pos(instrPos(blk.Instrs[0])) + ") without peeking the queue again: it goes on with the old head although an earlier item was enqueued, which then runs late"
					}
				}
			}
			kind := "non-blocking"
			if sel.Blocking {
				kind = "blocking"
			}
			r.Check(bad == "", c06Prefix+"Q8-signals", fmt.Sprintf("events/queue.Processor.processLoop reset case (%s select)", kind), p.Pos(instrPos(sel)), "a received reset restarts the loop at Peek", bad)
		}
	})
	if n < 2 {
		r.Violation(c06Prefix+"Q8-signals", "events/queue.Processor.processLoop reset case", p.Pos(loop.Pos()), "the loop must listen for the reset signal both before arming the timer and while waiting on it; a missing case leaves an earlier item waiting for the previous head's timer")
	}
}
