package main

import (
	"go/token"
	"path/filepath"
	"runtime"
	"strings"

	"golang.org/x/tools/go/ssa"
)

// C14 — containers: whole-effect critical sections for the concurrent map,
// atomic map and slice; ring ≡ container/ring modulo generics.

func c14Specs(mod string) []GuardSpec {
	cm := mod + "/concurrency/cmap"
	sl := mod + "/concurrency/slice"
	return []GuardSpec{
		{Field: FieldID{cm + ".mapimpl", "m"}, Lock: cm + ".mapimpl.lock"},
		{Field: FieldID{cm + ".atomicMap", "items"}, Lock: cm + ".atomicMap.lock"},
		{Field: FieldID{cm + ".AtomicValue", "value"}, Lock: cm + ".AtomicValue.lock"},
		{Field: FieldID{sl + ".slice", "data"}, Lock: sl + ".slice.lock"},
	}
}

func init() { register("C14", checkC14) }

func checkC14(c *Ctx) {
	r := c.R
	r.Explanation = "Decides two structural necessary conditions of C14. (1) For cmap.mapimpl.m, cmap.atomicMap.items, cmap.AtomicValue.value and slice.slice.data: every access in every function of the module happens with the owning RWMutex held (write mode for stores, map updates, delete, clear), and every method touches the field inside ONE critical section, or — the accepted double-checked idiom — a later section re-reads the field before writing it. A method whose effect is split across lock releases, a writer under RLock, or an unlocked read cannot be linearizable. (2) ring/ring.go is declaration-by-declaration identical to the toolchain's container/ring after erasing type parameters, comments and local names. (3) For the buffered ring only bookkeeping necessary conditions: AppendBack stores the value at Move(end) and increments end exactly once, RemoveFront advances the head by one Next() and decrements end exactly once, Len returns end, Front returns the head's value, and the grow/shrink decisions depend only on the live ring length or on fields that are updated in both the linking and the unlinking branch (a capacity cache updated on growth only goes stale after a shrink). NOT decided: linearizability as such (these are necessary, not sufficient, conditions); the buffered ring's FIFO/grow/shrink behaviour as model equivalence."
	r.Assumptions = append(r.Assumptions,
		"lock identity is (struct type, field): two instances of one type are not distinguished; adequate because each guarded field lives in the struct that owns the lock",
		"interface-dispatched calls do not acquire or release the tracked locks")
	r.Rule("C14.guard", "guarded-by: accesses to the container's storage field need its RWMutex (W for writes)", 19)
	r.Rule("C14.section", "whole-effect: all accesses of a method lie in one critical section, or later write sections re-read first (double check)", 19)
	r.Rule("C14.buffered-count", "Buffered: AppendBack counts one element in, RemoveFront one out and advances the head by exactly one; Len/Front read end / the head", 4)
	r.Rule("C14.buffered-capacity", "Buffered: growth/shrink decisions use the live ring length, or a capacity field that is updated wherever the ring is linked AND unlinked; buffer size >= 1", 3)
	r.Rule("C14.ring-iso", "ring/ring.go ≡ $GOROOT/src/container/ring/ring.go modulo generics", 10)

	specs := c14Specs(c.P.ModPath)
	e := c.Locks()
	n := CheckGuardedBy(c.P, e, r, "C14.guard", specs)
	CheckSingleSection(c.P, e, r, "C14.section", specs)
	r.Stats["guarded_accesses"] = n
	r.Stats["lock_operations_unresolved"] = e.UnresolvedAt

	ref := filepath.Join(runtime.GOROOT(), "src", "container", "ring", "ring.go")
	if gr := goEnvGOROOT(); gr != "" {
		ref = filepath.Join(gr, "src", "container", "ring", "ring.go")
	}
	CompareIso(r, "C14.ring-iso", filepath.Join(c.P.Dir, "ring", "ring.go"), ref, "ring/ring.go",
		map[string]string{"T": "any"}, map[string]bool{"Ring": true, "New": true})

	c14Buffered(c)

	c.Fixture("locks", func(fp *Prog, fr *Report) {
		fe := NewLockEngine(fp)
		fe.Run()
		fs := fixtureLockSpecs(fp.ModPath)
		CheckGuardedBy(fp, fe, fr, "guard", fs)
		CheckSingleSection(fp, fe, fr, "section", fs)
	})
}

func fixtureLockSpecs(mod string) []GuardSpec {
	return []GuardSpec{
		{Field: FieldID{mod + ".box", "m"}, Lock: mod + ".box.mu"},
		{Field: FieldID{mod + ".box", "n"}, Lock: mod + ".box.mu"},
	}
}

// c14Buffered: bookkeeping necessary conditions of ring.Buffered.
func c14Buffered(c *Ctx) {
	r, p := c.R, c.P
	bt := p.ModPath + "/ring.Buffered"
	end := FieldID{bt, "end"}
	ringF := FieldID{bt, "ring"}
	countStores := func(fn *ssa.Function, f FieldID, delta int) (exactlyOnce bool) {
		ff := &FlagFlow{Fn: fn, Must: false, Entry: 1 << 0, Transfer: func(in ssa.Instruction, st uint64) uint64 {
			s, ok := in.(*ssa.Store)
			if !ok {
				return st
			}
			d := refDelta(s, f)
			if d == 0 {
				return st
			}
			return mapStates(st, func(n int) int {
				if d != delta || n == 3 {
					return 3
				}
				if n >= 2 {
					return 2
				}
				return n + 1
			})
		}}
		ff.Run()
		ok, n := true, 0
		ff.AtReturns(func(ret *ssa.Return, st uint64) {
			n++
			if st != 1<<1 {
				ok = false
			}
		})
		return ok && n > 0
	}
	app := p.Func("ring", "Buffered.AppendBack")
	rem := p.Func("ring", "Buffered.RemoveFront")
	r.Check(countStores(app, end, 1), "C14.buffered-count", "ring.Buffered.AppendBack end", p.Pos(app.Pos()), "end incremented exactly once on every path", "AppendBack does not count the appended element exactly once (Len and the position of the next element go wrong)")
	r.Check(countStores(rem, end, -1), "C14.buffered-count", "ring.Buffered.RemoveFront end", p.Pos(rem.Pos()), "end decremented exactly once on every path", "RemoveFront does not count the removed element out exactly once")
	// head advance: every store to b.ring in RemoveFront is Next(load b.ring); exactly one
	adv, nAdv := true, 0
	allInstrs(rem, func(in ssa.Instruction) {
		st, ok := in.(*ssa.Store)
		if !ok {
			return
		}
		fa, ok := st.Addr.(*ssa.FieldAddr)
		if !ok || fieldIDOfAddr(fa) != ringF {
			return
		}
		nAdv++
		call, ok := st.Val.(*ssa.Call)
		if !ok || calleeObj(call) == nil || calleeObj(call).Name() != "Next" {
			adv = false
			return
		}
		if id, _, ok := fieldOfValue(call.Call.Args[0]); !ok || id != ringF {
			adv = false
		}
	})
	r.Check(adv && nAdv == 1, "C14.buffered-count", "ring.Buffered.RemoveFront head", p.Pos(rem.Pos()), "head advances by exactly one Next()", "RemoveFront does not advance the head of the ring by exactly one element")
	// Len returns end
	lenFn := p.Func("ring", "Buffered.Len")
	okLen := false
	allInstrs(lenFn, func(in ssa.Instruction) {
		if ret, ok := in.(*ssa.Return); ok && len(ret.Results) == 1 {
			if id, _, ok := fieldOfValue(ret.Results[0]); ok && id == end {
				okLen = true
			}
		}
	})
	r.Check(okLen, "C14.buffered-count", "ring.Buffered.Len", p.Pos(lenFn.Pos()), "Len returns end", "Len no longer returns the element count")

	// the growth increment is at least 1: New(0) is nil, so a full ring would not grow and
	// the next append wraps around over the front element
	nb := p.Func("ring", "NewBuffered")
	okClamp, nSt := true, 0
	allInstrs(nb, func(in ssa.Instruction) {
		st, ok := in.(*ssa.Store)
		if !ok {
			return
		}
		fa, ok := st.Addr.(*ssa.FieldAddr)
		if !ok || fieldIDOfAddr(fa) != (FieldID{bt, "bsize"}) {
			return
		}
		nSt++
		if c14LowerBound(st.Val, 0) < 1 {
			okClamp = false
		}
	})
	r.Check(okClamp && nSt > 0, "C14.buffered-capacity", "ring.NewBuffered bsize >= 1", p.Pos(nb.Pos()), "buffer size defaults to at least 1",
		"NewBuffered can store a buffer size below 1: AppendBack on a full ring then links New(0) (nil), the ring does not grow, and the next element is written over the front element while Len keeps counting")

	// capacity decisions
	for _, spec := range []struct {
		fn            *ssa.Function
		callee, other string
		otherFn       *ssa.Function
	}{{app, "Link", "Unlink", rem}, {rem, "Unlink", "Link", app}} {
		construct := FuncName(p, spec.fn) + " " + spec.callee + " decision"
		var blk *ssa.BasicBlock
		allInstrs(spec.fn, func(in ssa.Instruction) {
			if call, ok := in.(*ssa.Call); ok && calleeObj(call) != nil && calleeObj(call).Name() == spec.callee && !call.Call.IsInvoke() {
				blk = call.Block()
			}
		})
		if blk == nil {
			r.Violation("C14.buffered-capacity", construct, p.Pos(spec.fn.Pos()), "the ring is no longer "+strings.ToLower(spec.callee)+"ed: the buffer cannot grow/shrink")
			continue
		}
		// fields (other than end/ring/bsize) read by the conditions dominating the block
		why := ""
		for _, dc := range domConds(blk) {
			seen := map[ssa.Value]bool{}
			var walk func(v ssa.Value)
			walk = func(v ssa.Value) {
				if v == nil || seen[v] {
					return
				}
				seen[v] = true
				if id, _, ok := fieldOfValue(v); ok && id.Type == bt {
					if id.Field != "end" && id.Field != "ring" && id.Field != "bsize" {
						// a cached capacity-like field: must be stored in the block that links and in the block that unlinks
						if !c14StoredNearCall(spec.fn, id, spec.callee) || !c14StoredNearCall(spec.otherFn, id, spec.other) {
							why = "the decision reads " + id.String() + ", which is not updated both where the ring is linked (grown) and where it is unlinked (shrunk): after the first shrink/growth the cached value no longer equals the ring's real length, elements are written over live ones or Front/RemoveFront return the wrong element"
						}
					}
					return
				}
				if in, ok := v.(ssa.Instruction); ok {
					for _, op := range in.Operands(nil) {
						walk(*op)
					}
				}
			}
			walk(dc.If.Cond)
		}
		r.Check(why == "", "C14.buffered-capacity", construct, p.Pos(instrPos(blk.Instrs[0])), "decision depends only on end, bsize and the live ring (or on fields maintained on both growth and shrink)", why)
	}
}

// c14StoredNearCall: fn stores field f in the block that calls callee (or in a block dominated by it).
func c14StoredNearCall(fn *ssa.Function, f FieldID, callee string) bool {
	var blk *ssa.BasicBlock
	allInstrs(fn, func(in ssa.Instruction) {
		if call, ok := in.(*ssa.Call); ok && calleeObj(call) != nil && calleeObj(call).Name() == callee && !call.Call.IsInvoke() {
			blk = call.Block()
		}
	})
	if blk == nil {
		return false
	}
	found := false
	allInstrs(fn, func(in ssa.Instruction) {
		if st, ok := in.(*ssa.Store); ok {
			if fa, ok := st.Addr.(*ssa.FieldAddr); ok && fieldIDOfAddr(fa) == f && (st.Block() == blk || blk.Dominates(st.Block())) {
				found = true
			}
		}
	})
	return found
}

// c14LowerBound: a lower bound of integer value v from constants, max(),
// and phis whose parameter edges are guarded by a dominating `x < 1`-false /
// `x >= 1` fact. Unknown = -1<<31.
func c14LowerBound(v ssa.Value, depth int) int64 {
	const unknown = -1 << 31
	if depth > 6 {
		return unknown
	}
	switch x := v.(type) {
	case *ssa.Const:
		if x.Value != nil {
			return x.Int64()
		}
	case *ssa.Call:
		if builtinName(x) == "max" {
			best := int64(unknown)
			for _, a := range x.Call.Args {
				if b := c14LowerBound(a, depth+1); b > best {
					best = b
				}
			}
			return best
		}
	case *ssa.Phi:
		lo := int64(1 << 31)
		for i, ed := range x.Edges {
			b := c14LowerBound(ed, depth+1)
			if b == unknown {
				// a non-constant edge: look for a fact on the incoming edge's predecessor
				pred := x.Block().Preds[i]
				for _, dc := range append(domConds(pred), c14EdgeCond(pred, x.Block())...) {
					if cmp, ok := decodeCond(dc.If.Cond, dc.Branch); ok && cmp.X == ed {
						if k, ok := cmp.Y.(*ssa.Const); ok && k.Value != nil {
							switch cmp.Op {
							case token.GEQ:
								b = k.Int64()
							case token.GTR:
								b = k.Int64() + 1
							}
						}
					}
				}
			}
			if b < lo {
				lo = b
			}
		}
		return lo
	}
	return unknown
}

// c14EdgeCond: the condition of the edge pred->succ if pred ends in an If.
func c14EdgeCond(pred, succ *ssa.BasicBlock) []DomCond {
	if len(pred.Instrs) == 0 {
		return nil
	}
	ifi, ok := pred.Instrs[len(pred.Instrs)-1].(*ssa.If)
	if !ok || pred.Succs[0] == pred.Succs[1] {
		return nil
	}
	return []DomCond{{ifi, pred.Succs[0] == succ}}
}
