package main

import (
	"fmt"
	"runtime"
	"strings"
	"time"

	"golang.org/x/tools/go/ssa"
)

func runtimeGOROOT() string { return runtime.GOROOT() }

// C14 — containers: whole-effect critical sections for the concurrent map,
// atomic map and slice (c14section.go); ring ≡ container/ring (c14ring.go,
// c14sym.go, c14symexec.go, c14ringexec.go); buffered ring bookkeeping
// (c14buffered.go).

func init() { register("C14", checkC14) }

func checkC14(c *Ctx) {
	r := c.R
	r.Explanation = "Decides structural necessary conditions of C14; every construct is resolved by ROLE (types, dataflow, exported anchors), never by an unexported name. (1) Containers: the struct types behind the exported anchors cmap.NewMap, cmap.NewAtomic, cmap.AtomicValue and slice.New are found through the constructors; in each - searched through nested sub-structs of the package, by value, by pointer or embedded - the one sync.(RW)Mutex field guards every other field; a guarded map/slice handed as an argument to a visible callee or callback that writes it needs the write lock at the call. guard: every access to such a field in every function of the module happens with that mutex held (write mode for stores, map updates, delete, clear); helpers called with the lock held, deferred closures, and closures handed to a lock-taking helper as a callback inherit the caller's lockset. section: no method touches a state field in two critical sections (decided by a path analysis: no re-acquisition between two accesses; a call to a sibling that runs its own critical section counts as an access of the kind the sibling performs), or - the accepted double-checked idiom - the earlier sections only read and every write of a later section is preceded under the same acquisition by a re-read (possibly inside the sibling that writes). own-storage: no function stores into a guarded slice field a value that may share its backing array with a slice parameter of an exported function (a local tracer follows slicing, append bases, helper returns and the library alias models; Append copies, it does not adopt the caller's array). A method whose effect is split across lock releases, a writer under RLock, or an unlocked read cannot be linearizable. (2) ring ~ container/ring: per exported function of the reference (New and the methods of Ring) a layered decision: (a) the declaration and everything it reaches is AST-identical to $GOROOT/src/container/ring modulo generics and local names => OK; else (b) the two go/ssa functions are proved equivalent by relational symbolic execution - shared symbolic inputs and path condition, helpers executed in place on both sides, one store chain per field, canonical linear integer terms and comparisons (guard inversion, if/switch, early return, temporaries, operand order, n<=0 vs n<1, counted-loop variants, loop rotation, extracted/inlined helpers, renamed unexported fields/methods, captured variables all vanish), loops by induction over product cut points (loop-carried values get shared fresh symbols / base+d*k counters, the equalities are verified inductive) => OK; else (c) the normalised declaration (or a same-named unexported helper it reaches) is the reference's up to a small token edit (at most 12 tokens; link fields mapped through the field bijection, names of unexported helpers ignored) and is not proved equivalent => VIOLATION naming the edit; else (d) UNDECIDED for that function only. A concrete evaluator of the two SSA functions on small heaps exists only as a debugging aid (KC_C14_WITNESS=1 prints an example); it is off by default and never decides. The unexported link fields (also when grouped in a by-value sub-struct) are matched by the bijection of same-typed fields under which most functions are proved. (3) Buffered ring, bookkeeping necessary conditions with helpers followed (callee bodies as if inlined, parameters resolved through call sites, calls through function values with visible targets - locals, callback parameters, func-typed fields assigned in the package, method values - resolved; the roles are searched through sub-structs Buffered groups its state in): the head field is the *Ring field, the count field is what Len returns; AppendBack adds 1 to the count exactly once on every path, RemoveFront subtracts 1 exactly once and stores Next(head) (or Move(head,1)) into the head exactly once; Len returns the count; RemoveFront sets the slot it vacates - the Value of the node read from the head field BEFORE the head is advanced - to the zero value on every path (Front/RemoveFront return the head slot without testing the count, so the code relies on every slot outside the live window holding the zero value; clearing the node read after the advance, or not clearing on some path, is reported); some branch of Range (helpers, closures and returned iterator functions followed) depends on the count through integer operations alone - positions computed by Ring methods carry the count only modulo the ring length, so a Range steered only by them cannot tell a full from an empty ring; every ring linked on growth is New(k) with k >= 1 for every value ever stored into the size field; the grow/shrink decisions read only the count, the live ring, fields written only during construction, or fields that are updated both where the ring is linked and where it is unlinked. NOT decided: linearizability as such (these are necessary, not sufficient, conditions); the buffered ring's FIFO/grow/shrink behaviour as model equivalence; ring functions that are neither proved equivalent nor a small edit of the reference."
	r.Assumptions = append(r.Assumptions,
		"lock identity is (struct type, field): two instances of one type are not distinguished; adequate because each guarded field lives in the struct that owns the lock",
		"interface-dispatched calls do not acquire or release the tracked locks",
		"ring equivalence: integer arithmetic is treated as unbounded (no wrap-around at 2^63); a dereference is compared as a set per path (which pointers are dereferenced), not by its position among the stores; the callback of Do does not modify the ring (as container/ring documents)",
		"ring small-edit criterion: a declaration within 12 tokens of the reference that the prover cannot equate is taken to differ; an equivalence the prover does not know (e.g. one that holds only for well-formed rings) is then reported (documented imprecision, selftest u22/u23)",
		"ring prover bounds: 150000 symbolic steps, call depth 12, no recursion, 8 refinement attempts per loop cut point; beyond them the function is UNDECIDED")
	r.Rule("C14.guard", "guarded-by: accesses to the container's storage field need its RWMutex (W for writes)", 8)
	r.Rule("C14.section", "whole-effect: all accesses of a method lie in one critical section, or later write sections re-read first (double check)", 8)
	r.Rule("C14.buffered-count", "Buffered: AppendBack counts one element in, RemoveFront one out and advances the head by exactly one; Len/Front read end / the head", 4)
	r.Rule("C14.buffered-vacate", "Buffered: RemoveFront sets the slot it vacates (the Value of the head read before the advance) to the zero value on every path; Front/RemoveFront return the head slot without testing the count, so slots outside the live window must stay zero", 1)
	r.Rule("C14.own-storage", "containers: no exported function stores into a guarded slice field a value that may share its backing array with one of its slice parameters (Append copies)", 1)
	r.Rule("C14.buffered-range-count", "Buffered: some branch of Range depends on the count through integer operations alone, not only through ring positions (which carry it modulo the ring length)", 1)
	r.Rule("C14.buffered-capacity", "Buffered: growth/shrink decisions use the live ring length, or a capacity field that is updated wherever the ring is linked AND unlinked; buffer size >= 1", 3)
	r.Rule("C14.ring-iso", "every exported function of ring (New, the methods of Ring) behaves like its counterpart in $GOROOT/src/container/ring: AST-identical modulo generics, or proved equivalent on go/ssa by relational symbolic execution; a small token edit of the reference that is not proved equivalent is a VIOLATION, anything else UNDECIDED", 9)

	// the three parts are independent: an anchor of one part that no longer
	// resolves makes that part UNDECIDED and leaves the others decided
	part := func(name string, f func()) {
		defer func() {
			if x := recover(); x != nil {
				u, ok := x.(*UndecidedError)
				if !ok {
					panic(x)
				}
				r.Undecide("%s: %s", name, u.Reason)
			}
		}()
		f()
	}
	part("containers", func() { c14Containers(c) })
	part("ring", func() {
		t0 := time.Now()
		c14Ring(c, "C14.ring-iso")
		r.Stats["ring_equivalence_ms"] = time.Since(t0).Milliseconds()
	})
	part("buffered", func() { c14Buffered(c) })

	c.Fixture("c14sec", func(fp *Prog, fr *Report) {
		fc := &Ctx{P: fp, R: fr, Tier: c.Tier, VerifDir: c.VerifDir}
		fc.locks = NewLockEngine(fp)
		fc.locks.Run()
		fe := c14Locks(fc, map[string]bool{fp.ModPath: true})
		fs := c14FixtureSpecs(fp.ModPath)
		CheckGuardedBy(fp, fe, fr, "guard", fs)
		c14CheckSections(fp, fe, fr, "section", fs)
		c14OwnStorage(fc, []GuardSpec{{Field: FieldID{fp.ModPath + ".bag", "items"}}}, fr)
	})
	c.Fixture("locks", func(fp *Prog, fr *Report) {
		fe := NewLockEngine(fp)
		fe.Run()
		fs := fixtureLockSpecs(fp.ModPath)
		CheckGuardedBy(fp, fe, fr, "guard", fs)
		c14CheckSections(fp, fe, fr, "section", fs)
	})
}

func c14FixtureSpecs(mod string) []GuardSpec {
	return []GuardSpec{
		{Field: FieldID{mod + ".box", "m"}, Lock: mod + ".box.mu"},
		{Field: FieldID{mod + ".box", "n"}, Lock: mod + ".box.mu"},
	}
}

func fixtureLockSpecs(mod string) []GuardSpec {
	return []GuardSpec{
		{Field: FieldID{mod + ".box", "m"}, Lock: mod + ".box.mu"},
		{Field: FieldID{mod + ".box", "n"}, Lock: mod + ".box.mu"},
	}
}

// c14EdgeCond: the condition of the edge pred->succ if pred ends in an If.
func c14EdgeCond(pred, succ *ssa.BasicBlock) []DomCond {
	if len(pred.Instrs) == 0 {
		return nil
	}
	ifi, ok := pred.Instrs[len(pred.Instrs)-1].(*ssa.If)
	if !ok || pred.Succs[0] == pred.Succs[1] {
		return nil
	}
	return []DomCond{{ifi, pred.Succs[0] == succ}}
}

func c14Containers(c *Ctx) {
	r := c.R
	containers := c14ResolveContainers(c.P)
	specs, immutable := c14DropImmutable(c.P, c14SpecsOf(containers))
	r.Stats["fields_immutable_after_construction"] = immutable
	var roles []string
	for _, ct := range containers {
		roles = append(roles, fmt.Sprintf("%s: type %s, state fields %v guarded by %s", ct.Anchor, shortID(ct.Type), ct.Fields, shortID(ct.Lock)))
	}
	r.Stats["containers_by_role"] = roles
	cpk := map[string]bool{}
	for _, ct := range containers {
		if i := strings.LastIndex(ct.Type, "."); i > 0 {
			cpk[ct.Type[:i]] = true
		}
	}
	e := c14Locks(c, cpk)
	unattr := c14UnattributedLockOps(c.P, e, cpk)
	tmp := NewReport(r.Prop, r.Tier)
	n := CheckGuardedBy(c.P, e, tmp, "C14.guard", specs)
	c14CheckSections(c.P, e, tmp, "C14.section", specs)
	c14AliasWrites(c.P, e, tmp, "C14.guard", specs)
	c14OwnStorage(c, specs, r)
	c14Forward(r, tmp, unattr)
	r.Stats["lock_operations_unattributed"] = unattr
	r.Stats["guarded_accesses"] = n
	r.Stats["lock_operations_unresolved"] = e.UnresolvedAt

}
