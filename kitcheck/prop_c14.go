package main

import (
	"path/filepath"
	"runtime"
)

// C14 — containers: whole-effect critical sections for the concurrent map,
// atomic map and slice; ring ≡ container/ring modulo generics.

func c14Specs(mod string) []GuardSpec {
	cm := mod + "/concurrency/cmap"
	sl := mod + "/concurrency/slice"
	return []GuardSpec{
		{Field: FieldID{cm + ".mapimpl", "m"}, Lock: cm + ".mapimpl.lock"},
		{Field: FieldID{cm + ".atomicMap", "items"}, Lock: cm + ".atomicMap.lock"},
		{Field: FieldID{cm + ".AtomicValue", "value"}, Lock: cm + ".AtomicValue.lock"},
		{Field: FieldID{sl + ".slice", "data"}, Lock: sl + ".slice.lock"},
	}
}

func init() { register("C14", checkC14) }

func checkC14(c *Ctx) {
	r := c.R
	r.Explanation = "Decides two structural necessary conditions of C14. (1) For cmap.mapimpl.m, cmap.atomicMap.items, cmap.AtomicValue.value and slice.slice.data: every access in every function of the module happens with the owning RWMutex held (write mode for stores, map updates, delete, clear), and every method touches the field inside ONE critical section, or — the accepted double-checked idiom — a later section re-reads the field before writing it. A method whose effect is split across lock releases, a writer under RLock, or an unlocked read cannot be linearizable. (2) ring/ring.go is declaration-by-declaration identical to the toolchain's container/ring after erasing type parameters, comments and local names. NOT decided: linearizability as such (these are necessary, not sufficient, conditions); the buffered ring's FIFO/grow/shrink behaviour (runtime model equivalence, no sound structural clause)."
	r.Assumptions = append(r.Assumptions,
		"lock identity is (struct type, field): two instances of one type are not distinguished; adequate because each guarded field lives in the struct that owns the lock",
		"interface-dispatched calls do not acquire or release the tracked locks")
	r.Rule("C14.guard", "guarded-by: accesses to the container's storage field need its RWMutex (W for writes)", 19)
	r.Rule("C14.section", "whole-effect: all accesses of a method lie in one critical section, or later write sections re-read first (double check)", 19)
	r.Rule("C14.ring-iso", "ring/ring.go ≡ $GOROOT/src/container/ring/ring.go modulo generics", 10)

	specs := c14Specs(c.P.ModPath)
	e := c.Locks()
	n := CheckGuardedBy(c.P, e, r, "C14.guard", specs)
	CheckSingleSection(c.P, e, r, "C14.section", specs)
	r.Stats["guarded_accesses"] = n
	r.Stats["lock_operations_unresolved"] = e.UnresolvedAt

	ref := filepath.Join(runtime.GOROOT(), "src", "container", "ring", "ring.go")
	if gr := goEnvGOROOT(); gr != "" {
		ref = filepath.Join(gr, "src", "container", "ring", "ring.go")
	}
	CompareIso(r, "C14.ring-iso", filepath.Join(c.P.Dir, "ring", "ring.go"), ref, "ring/ring.go",
		map[string]string{"T": "any"}, map[string]bool{"Ring": true, "New": true})

	c.Fixture("locks", func(fp *Prog, fr *Report) {
		fe := NewLockEngine(fp)
		fe.Run()
		fs := fixtureLockSpecs(fp.ModPath)
		CheckGuardedBy(fp, fe, fr, "guard", fs)
		CheckSingleSection(fp, fe, fr, "section", fs)
	})
}

func fixtureLockSpecs(mod string) []GuardSpec {
	return []GuardSpec{
		{Field: FieldID{mod + ".box", "m"}, Lock: mod + ".box.mu"},
		{Field: FieldID{mod + ".box", "n"}, Lock: mod + ".box.mu"},
	}
}
