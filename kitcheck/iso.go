package main

// E9: structural equivalence of a generic port with its non-generic reference
// (ring/ring.go vs container/ring), modulo type parameters, comments and
// names of locals.

import (
	"bytes"
	"fmt"
	"go/ast"
	"go/parser"
	"go/printer"
	"go/token"
	"sort"
	"strings"

	"golang.org/x/tools/go/ast/astutil"
)

// normDecls parses src and returns name -> normalised text per top-level
// declaration (funcs keyed "Recv.Name", types keyed "type Name").
func normDecls(filename string, typeParams map[string]string, genericTypes map[string]bool) (map[string]string, error) {
	fset := token.NewFileSet()
	f, err := parser.ParseFile(fset, filename, nil, 0) // comments dropped
	if err != nil {
		return nil, err
	}
	out := map[string]string{}
	for _, d := range f.Decls {
		switch x := d.(type) {
		case *ast.FuncDecl:
			x.Doc = nil
			if x.Type.TypeParams != nil {
				x.Type.TypeParams = nil
			}
			name := x.Name.Name
			if x.Recv != nil && len(x.Recv.List) > 0 {
				name = recvName(x.Recv.List[0].Type) + "." + name
			}
			stripGenerics(x, typeParams, genericTypes)
			alphaRename(x)
			out[name] = render(fset, x)
		case *ast.GenDecl:
			if x.Tok != token.TYPE {
				if x.Tok == token.IMPORT {
					continue
				}
				x.Doc = nil
				out[fmt.Sprintf("%s@%d", x.Tok, len(out))] = render(fset, x)
				continue
			}
			for _, s := range x.Specs {
				ts := s.(*ast.TypeSpec)
				ts.Doc, ts.Comment = nil, nil
				ts.TypeParams = nil
				stripGenerics(ts, typeParams, genericTypes)
				out["type "+ts.Name.Name] = render(fset, ts)
			}
		}
	}
	return out, nil
}

func recvName(e ast.Expr) string {
	switch x := e.(type) {
	case *ast.StarExpr:
		return recvName(x.X)
	case *ast.IndexExpr:
		return recvName(x.X)
	case *ast.IndexListExpr:
		return recvName(x.X)
	case *ast.Ident:
		return x.Name
	}
	return "?"
}

func render(fset *token.FileSet, n any) string {
	var buf bytes.Buffer
	cfg := printer.Config{Mode: printer.RawFormat, Tabwidth: 1}
	cfg.Fprint(&buf, fset, n)
	// collapse whitespace
	return strings.Join(strings.Fields(buf.String()), " ")
}

// stripGenerics rewrites G[T...] -> G for the listed generic names and the
// type parameter identifiers by their replacement.
func stripGenerics(n ast.Node, typeParams map[string]string, generic map[string]bool) {
	astutil.Apply(n, func(c *astutil.Cursor) bool {
		switch x := c.Node().(type) {
		case *ast.IndexExpr:
			if id, ok := x.X.(*ast.Ident); ok && generic[id.Name] {
				c.Replace(id)
			}
		case *ast.IndexListExpr:
			if id, ok := x.X.(*ast.Ident); ok && generic[id.Name] {
				c.Replace(id)
			}
		case *ast.Ident:
			if rep, ok := typeParams[x.Name]; ok && (x.Obj == nil || x.Obj.Kind == ast.Typ) {
				c.Replace(&ast.Ident{Name: rep, NamePos: x.NamePos})
			}
		}
		return true
	}, nil)
}

// alphaRename renames parameters, results, receivers and locals of fd by order
// of first declaration so that renaming a local does not register as a change.
func alphaRename(fd *ast.FuncDecl) {
	names := map[*ast.Object]string{}
	n := 0
	ast.Inspect(fd, func(m ast.Node) bool {
		id, ok := m.(*ast.Ident)
		if !ok || id.Obj == nil || id.Obj.Kind != ast.Var {
			return true
		}
		// only objects declared inside this function
		if decl, ok := id.Obj.Decl.(ast.Node); ok {
			if decl.Pos() < fd.Pos() || decl.End() > fd.End() {
				return true
			}
		}
		// struct fields are not ast.Var objects with Decl inside function bodies; skip selectors' Sel (Obj==nil)
		if _, ok := names[id.Obj]; !ok {
			n++
			names[id.Obj] = fmt.Sprintf("v%d", n)
		}
		return true
	})
	ast.Inspect(fd, func(m ast.Node) bool {
		if id, ok := m.(*ast.Ident); ok && id.Obj != nil {
			if nn, ok := names[id.Obj]; ok {
				id.Name = nn
			}
		}
		return true
	})
}

// CompareIso compares declarations of port against ref; reports one
// obligation per declaration.
func CompareIso(r *Report, rule, portFile, refFile, portLabel string, typeParams map[string]string, generic map[string]bool) {
	port, err := normDecls(portFile, typeParams, generic)
	if err != nil {
		r.Undecide("cannot parse %s: %v", portFile, err)
		return
	}
	ref, err := normDecls(refFile, map[string]string{}, map[string]bool{})
	if err != nil {
		r.Undecide("cannot parse reference %s: %v", refFile, err)
		return
	}
	var keys []string
	for k := range ref {
		keys = append(keys, k)
	}
	for k := range port {
		if _, ok := ref[k]; !ok {
			keys = append(keys, k)
		}
	}
	sort.Strings(keys)
	for _, k := range keys {
		pt, inPort := port[k]
		rt, inRef := ref[k]
		construct := portLabel + " " + k
		switch {
		case !inPort:
			r.Violation(rule, construct, portLabel, "declaration present in the reference implementation is missing from the port", "reference: "+rt)
		case !inRef:
			r.Violation(rule, construct, portLabel, "declaration has no counterpart in the reference implementation", "port: "+pt)
		case pt != rt:
			r.Violation(rule, construct, portLabel, "declaration differs from the reference after erasing type parameters, comments and local names", "port:      "+pt, "reference: "+rt)
		default:
			r.OK(rule, construct, portLabel, "identical to the reference modulo generics")
		}
	}
}
