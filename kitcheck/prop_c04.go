package main

import (
	"fmt"
	"go/constant"
	"go/token"
	"go/types"
	"sort"
	"strconv"
	"strings"

	"golang.org/x/tools/go/ssa"
)

// C04 — cron: Next is the earliest instant matching the expression's
// documented meaning; malformed expressions are refused.

func init() { register("C04", checkC04) }

// c04Role ties together, for one of the six expression fields, the names the
// repository uses for it: the ParseOption constant / SpecSchedule field, the
// bounds table, the row of the "Allowed values" table in doc.go and the
// time.Time accessor that reads the field on the wall clock.
type c04Role struct {
	Field    string // ParseOption constant and SpecSchedule field
	Bounds   string // package-level bounds table
	DocField string // row name in doc.go ("" = not in the published table)
	Accessor string // time.Time method
	Floor    int64  // smallest value of the accessor (what a carry lands on)
}

var c04Roles = []c04Role{
	{"Second", "seconds", "", "Second", 0},
	{"Minute", "minutes", "Minutes", "Minute", 0},
	{"Hour", "hours", "Hours", "Hour", 0},
	{"Dom", "dom", "Day of month", "Day", 1},
	{"Month", "months", "Month", "Month", 1},
	{"Dow", "dow", "Day of week", "Weekday", 0},
}

func c04RoleOf(field string) *c04Role {
	for i := range c04Roles {
		if c04Roles[i].Field == field {
			return &c04Roles[i]
		}
	}
	return nil
}

type c04State struct {
	c       *Ctx
	p       *Prog
	r       *Report
	pkgPath string
	spec    string // "pkgpath.SpecSchedule"
	starBit uint64
	bounds  map[string]*c04Bounds
	places  []c04ListElem
	defs    []c04ListElem
}

func checkC04(c *Ctx) {
	r, p := c.R, c.P
	r.Explanation = "Decides structural necessary conditions of C04 on cron/parser.go, cron/spec.go, cron/constantdelay.go and cron/doc.go. " +
		"Tables (E6): the six bounds tables equal the 'Allowed values' table of doc.go (seconds: the range of time.Time.Second) and stay below the star bit; month/weekday names map to the numbering of time.Month/time.Weekday; places/defaults have one entry per field in expression order and each default lies within its bounds; an omitted optional column is filled with the default of its own field at its own end; the seven predefined schedules of parseDescriptor, folded to constants, equal the 'Equivalent To' column of doc.go encoded with the parser's own getBits/all, and all() carries the star bit. " +
		"Pairing: Parse builds SpecSchedule.F from expression column F with the bounds table of F; Next/dayMatches test SpecSchedule.F against the time.Time accessor of F (Month-Month, Dom-Day, Dow-Weekday, Hour, Minute, Second); dayMatches, evaluated for all 16 assignments of (dom matches, dow matches, dom has star, dow has star), is 'both' when a star is present and 'either' otherwise. " +
		"Search (minimality): every search loop of Next continues while the bit is clear and leaves when it is set, advances by at most one unit of its field, resets all lower-order fields in the same iteration as the advance (before it, for months), and on a carry into the next higher field goes back to the top of the search so that the higher fields are verified again — the carry test must look at the instant the loop continues with (no Add/AddDate fix-up between the test and the next iteration) and must be detected by a test that still fires when the smallest value of the field does not exist on the wall clock (DST gap at local midnight / 30-minute DST); the search starts exactly at t truncated to the second plus one second (linear form in t.Nanosecond()), gives up with the zero time only for calendar years beyond start year + 5 (`>` with k>=5 or `>=` with k>=6), uses the schedule's Location and never a fixed zone; every SpecSchedule built by parseDescriptor (folded per documented descriptor with a symbolic loc) carries the loc parameter, and Parse stores in its own SpecSchedule / hands to parseDescriptor the location obtained from time.LoadLocation for a TZ=/CRON_TZ= prefix or time.Local without one. " +
		"Refusal (E7+E2): every error produced in the parser layer reaches Parse's error result (including the first-error-wins cell of the field closure); getBits is only called under start>=min, end<=max, start<=end, step!=0 (facts may be established by a validation helper whose nil returns are consulted); on every decision-consistent path of getRange with a parsed step and a single parsed start value the end handed to getBits is the field maximum (doc.go: 'N/... means N-MAX/...'), independently of the step's value; normalizeFields succeeds only with a two-sided check of the number of fields; the int->uint conversion of a parsed number is dominated by a non-negativity check; '@every' goes through Every, Every stores a Delay >= 1 s, and ConstantDelaySchedule.Next is t.Add(Delay - t.Nanosecond()). " +
		"NOT decided: the numerical result of Next as such — that the instant returned is the earliest matching one for every expression, start instant and zone (in particular the day loop's DST midnight fix-ups and repeated hours at fall-back); that Every rounds to whole seconds; the exact bit patterns getBits/getRange produce for ranges, steps ('*/n' losing the star bit) and lists; that the lower bound in the field-count check is the right number; acceptance of oddities such as '*-5' or ','."
	r.Assumptions = append(r.Assumptions,
		"time.Time accessors, time.Date, Add, AddDate, Truncate, In behave as documented; time zones with a DST gap starting at local midnight (e.g. America/Havana, America/Sao_Paulo before 2019) and with 30-minute DST (Australia/Lord_Howe) exist in the tz database",
		"bounds values only come from the six package-level tables (checked: no other composite literal of type bounds, no store to the tables outside init)",
		"the SSA constant evaluator (c04eval.go) implements Go's integer semantics for the operators it folds")

	st := &c04State{c: c, p: p, r: r, pkgPath: p.ModPath + "/cron", bounds: map[string]*c04Bounds{}}
	st.spec = st.pkgPath + ".SpecSchedule"
	p.Named("cron", "SpecSchedule")
	p.Named("cron", "bounds")

	r.Rule("C04.P1-bounds", "each bounds table equals its row of the 'Allowed values' table in cron/doc.go (seconds: 0-59) and stays below the star bit", 6)
	r.Rule("C04.P1-names", "month and weekday names cover JAN-DEC / SUN-SAT and map to the values of time.Month / time.Weekday", 2)
	r.Rule("C04.P2-lists", "places lists the six fields in expression order; defaults has one in-bounds entry per field", 7)
	r.Rule("C04.P2-optional", "an omitted optional column is filled with the default of its own field, at its own end of the expression", 2)
	r.Rule("C04.P2-pairing", "Parse builds SpecSchedule.F from expression column F parsed with the bounds table of F", 6)
	r.Rule("C04.P3-matcher", "Next/dayMatches test SpecSchedule.F with bit 1<<accessor where accessor is the time.Time method of F", 6)
	r.Rule("C04.N1-either-day", "dayMatches == (domStar||dowStar ? dom&&dow : dom||dow) for all 16 assignments", 1)
	r.Rule("C04.N2-search", "each search loop of Next: polarity, unit step, lower-order reset before the first step, carry goes back to the top and is detected DST-robustly", 18)
	r.Rule("C04.N3-limit", "the search gives up (zero time) only for calendar years beyond start year + 5: `year > start+k` needs k >= 5, `year >= start+k` needs k >= 6", 1)
	r.Rule("C04.D3-location", "every SpecSchedule built by parseDescriptor carries the loc parameter; Parse stores/passes the location parsed from the TZ=/CRON_TZ= prefix, or time.Local without prefix", 9)
	r.Rule("C04.N4-zone", "Next converts into SpecSchedule.Location, builds wall-clock times only in that location (or t's own for time.Local) and starts from a whole second", 3)
	r.Rule("C04.P4-errflow", "every error produced in the parser layer is returned (or parked in the first-error cell that Parse checks before succeeding)", 29)
	r.Rule("C04.P4-range", "getBits is called only under start>=min, end<=max, start<=end, step!=0", 8)
	r.Rule("C04.P5-nstep", "doc.go 'N/... means N-MAX/...': on every consistent path of getRange with a parsed step and a single parsed start value, the end handed to getBits is the field maximum, independently of the step's value", 1)
	r.Rule("C04.P4-count", "normalizeFields succeeds only after a lower and an upper check of the number of fields", 2)
	r.Rule("C04.P4-nonneg", "a parsed number is converted to unsigned only after a non-negativity check", 1)
	r.Rule("C04.D1-descriptors", "each predefined schedule folds to the encoding of its 'Equivalent To' expression in cron/doc.go", 7)
	r.Rule("C04.D2-every", "'@every d' is built by Every (>= 1 s, whole seconds) and ConstantDelaySchedule.Next = t truncated to the second + Delay; Every stores a Delay >= 1 s", 3)

	if !st.loadTables() {
		return
	}
	st.checkBounds()
	st.checkLists()
	st.checkOptional()
	st.checkPairing()
	matcher := st.checkMatcher()
	st.checkDayTable()
	st.checkSearch(matcher)
	st.checkErrflow()
	st.checkRange()
	st.checkCount()
	st.checkNonNeg()
	st.checkDescriptors()
	st.checkLocation()
	st.checkEvery()
	st.checkEveryDelay()

	c.Fixture("c04", func(fp *Prog, fr *Report) { c04FixtureRules(fp, fr) })

	// the full list of obligations, per rule, goes into the evidence
	per := map[string][]string{}
	for _, o := range r.Obs {
		per[o.Rule] = append(per[o.Rule], o.Construct+" ["+o.Status+"]")
	}
	r.Stats["c04_obligations"] = per
}

// ---------------------------------------------------------------------------
// tables

func (st *c04State) loadTables() bool {
	pkg := st.p.Pkg("cron")
	// starBit
	sb, ok := pkg.Types.Scope().Lookup("starBit").(*types.Const)
	if !ok {
		undecided("anchor constant cron.starBit no longer resolves")
	}
	v, exact := constant.Uint64Val(constant.ToInt(sb.Val()))
	if !exact {
		undecided("cron.starBit is not an unsigned 64-bit constant")
	}
	st.starBit = v
	for _, role := range c04Roles {
		b, why := c04ReadBounds(pkg, role.Bounds)
		if b == nil {
			undecided("bounds table cron.%s: %s", role.Bounds, why)
		}
		st.bounds[role.Field] = b
	}
	var why string
	st.places, _, why = c04ReadList(pkg, "places")
	if why != "" {
		undecided("cron.places: %s", why)
	}
	st.defs, _, why = c04ReadList(pkg, "defaults")
	if why != "" {
		undecided("cron.defaults: %s", why)
	}
	// the tables are constants of the program: no store outside init, no
	// other value of type bounds is ever built
	for _, fn := range st.p.FuncsOfPkg("cron") {
		if fn.Name() == "init" && fn.Parent() == nil {
			continue
		}
		allInstrs(fn, func(in ssa.Instruction) {
			if s, ok := in.(*ssa.Store); ok {
				if g := c04GlobalOfAddr(s.Addr); g != nil && g.Pkg != nil && g.Pkg.Pkg.Path() == st.pkgPath {
					switch g.Name() {
					case "seconds", "minutes", "hours", "dom", "months", "dow", "places", "defaults":
						undecided("%s stores to the table cron.%s: the tables are no longer constants", FuncName(st.p, fn), g.Name())
					}
				}
			}
			if a, ok := in.(*ssa.Alloc); ok && a.Comment == "complit" && namedKey(deref1(a.Type())) == st.pkgPath+".bounds" {
				undecided("%s builds a bounds value outside the six tables", FuncName(st.p, fn))
			}
		})
	}
	return true
}

func c04GlobalOfAddr(v ssa.Value) *ssa.Global {
	for {
		switch x := v.(type) {
		case *ssa.Global:
			return x
		case *ssa.FieldAddr:
			v = x.X
		case *ssa.IndexAddr:
			v = x.X
		default:
			return nil
		}
	}
}

func (st *c04State) checkBounds() {
	r, p := st.r, st.p
	pkg := p.Pkg("cron")
	doc, docPos := c04PackageDoc(pkg)
	if doc == "" {
		undecided("the package documentation holding the 'Allowed values' table (cron/doc.go) was not found")
	}
	rows, _, why := c04ParseDoc(doc)
	if why != "" {
		undecided("%s", why)
	}
	rowOf := map[string]*c04DocRow{}
	for i := range rows {
		rowOf[rows[i].Field] = &rows[i]
	}
	_ = docPos
	for _, role := range c04Roles {
		b := st.bounds[role.Field]
		construct := "cron." + role.Bounds + " range"
		wantMin, wantMax := uint64(0), uint64(59)
		src := "the range of time.Time.Second (no row in doc.go)"
		if role.DocField != "" {
			row := rowOf[role.DocField]
			if row == nil {
				undecided("doc.go: row '%s' of the 'Allowed values' table not found", role.DocField)
			}
			wantMin, wantMax = row.Min, row.Max
			src = fmt.Sprintf("doc.go row '%s'", role.DocField)
		}
		switch {
		case b.Min != wantMin || b.Max != wantMax:
			what := "values outside the documented range are accepted instead of refused"
			if b.Min > wantMin || b.Max < wantMax {
				what = "'*' and open ranges no longer cover every documented value of the field (and documented values are refused)"
			}
			r.Violation("C04.P1-bounds", construct, p.Pos(b.Pos), fmt.Sprintf("cron.%s is %d-%d but %s says %d-%d: %s", role.Bounds, b.Min, b.Max, src, wantMin, wantMax, what))
		case b.Max >= 63 || st.starBit != 1<<63:
			r.Violation("C04.P1-bounds", construct, p.Pos(b.Pos), fmt.Sprintf("cron.%s reaches bit %d which collides with the star bit %#x", role.Bounds, b.Max, st.starBit))
		default:
			r.OK("C04.P1-bounds", construct, p.Pos(b.Pos), fmt.Sprintf("%d-%d = %s", b.Min, b.Max, src))
		}
	}
	// names
	timePkg := p.All["time"]
	if timePkg == nil {
		undecided("package time not loaded")
	}
	for _, nm := range []struct{ field, typ string }{{"Month", "Month"}, {"Dow", "Weekday"}} {
		role := c04RoleOf(nm.field)
		b := st.bounds[nm.field]
		construct := "cron." + role.Bounds + " names"
		row := rowOf[role.DocField]
		// constants of time.<typ>
		want := map[string]uint64{} // lower-case 3-letter prefix -> value
		full := map[string]string{}
		scope := timePkg.Types.Scope()
		for _, n := range scope.Names() {
			cst, ok := scope.Lookup(n).(*types.Const)
			if !ok || !cst.Exported() {
				continue
			}
			if named, ok := cst.Type().(*types.Named); !ok || named.Obj().Name() != nm.typ || named.Obj().Pkg().Path() != "time" {
				continue
			}
			v, _ := constant.Uint64Val(cst.Val())
			k := strings.ToLower(n)
			if len(k) > 3 {
				k = k[:3]
			}
			want[k] = v
			full[k] = n
		}
		var problems []string
		for k, v := range b.Names {
			w, ok := want[strings.ToLower(k)]
			switch {
			case !ok:
				problems = append(problems, fmt.Sprintf("name %q is not the abbreviation of any time.%s", k, nm.typ))
			case w != v:
				problems = append(problems, fmt.Sprintf("name %q maps to %d but Next compares with time.%s = %d", k, v, full[strings.ToLower(k)], w))
			case k != strings.ToLower(k):
				r.Note("cron.%s: name key %q is not lower-case (lookups are lower-cased)", role.Bounds, k)
			}
		}
		for k, n := range full {
			if _, ok := b.Names[k]; !ok {
				if _, ok2 := b.Names[strings.ToUpper(k)]; !ok2 {
					problems = append(problems, fmt.Sprintf("documented name %s (time.%s) is missing", strings.ToUpper(k), n))
				}
			}
		}
		if row != nil && row.NameLo != "" {
			lo, okLo := b.Names[strings.ToLower(row.NameLo)]
			hi, okHi := b.Names[strings.ToLower(row.NameHi)]
			if !okLo || !okHi || lo != b.Min || hi != b.Max {
				problems = append(problems, fmt.Sprintf("doc.go documents %s-%s as the names of %d-%d", row.NameLo, row.NameHi, row.Min, row.Max))
			}
		}
		sort.Strings(problems)
		r.Check(len(problems) == 0, "C04.P1-names", construct, p.Pos(b.Pos),
			fmt.Sprintf("%d names agree with time.%s and doc.go", len(b.Names), nm.typ), strings.Join(problems, "; "))
	}
}

func (st *c04State) checkLists() {
	r, p := st.r, st.p
	_, pos := c04PkgVarInit(p.Pkg("cron"), "places")
	var got []string
	for _, e := range st.places {
		got = append(got, e.ConstName)
	}
	var want []string
	for _, role := range c04Roles {
		want = append(want, role.Field)
	}
	r.Check(strings.Join(got, ",") == strings.Join(want, ","), "C04.P2-lists", "cron.places order", p.Pos(pos),
		"places = "+strings.Join(got, ","), "places is "+strings.Join(got, ",")+" but the expression columns are "+strings.Join(want, ",")+": normalizeFields hands columns to the wrong fields")
	_, dpos := c04PkgVarInit(p.Pkg("cron"), "defaults")
	for i, role := range c04Roles {
		construct := "cron.defaults[" + role.Field + "]"
		if i >= len(st.defs) {
			r.Violation("C04.P2-lists", construct, p.Pos(dpos), "defaults has no entry for this field: an omitted "+role.Field+" column is parsed from an empty string")
			continue
		}
		d := st.defs[i]
		b := st.bounds[role.Field]
		ok := d.IsStr && (d.Str == "*" || d.Str == "?")
		if d.IsStr && !ok {
			if n, err := strconv.ParseUint(d.Str, 10, 64); err == nil && n >= b.Min && n <= b.Max {
				ok = true
			}
		}
		r.Check(ok, "C04.P2-lists", construct, p.Pos(dpos), "default "+strconv.Quote(d.Str)+" is within bounds",
			fmt.Sprintf("default %q of an omitted %s column is not '*' nor a number in %d-%d: every expression for a parser without that column is refused or misread", d.Str, role.Field, b.Min, b.Max))
	}
	if len(st.defs) != len(c04Roles) {
		r.Violation("C04.P2-lists", "cron.defaults length", p.Pos(dpos), fmt.Sprintf("defaults has %d entries for %d fields", len(st.defs), len(c04Roles)))
	}
}

// ---------------------------------------------------------------------------
// P2 pairing in Parse

// c04GetFieldArgs traces a value to the (expression, bounds) arguments of the
// getField call that produced it, looking through Extract and through module
// wrappers/closures that forward their own parameters to getField.
func (st *c04State) c04GetFieldArgs(v ssa.Value, getField *ssa.Function, depth int) (expr, bnd ssa.Value, ok bool) {
	if depth > 4 {
		return nil, nil, false
	}
	if ex, isEx := v.(*ssa.Extract); isEx && ex.Index == 0 {
		v = ex.Tuple
	}
	call, isCall := v.(*ssa.Call)
	if !isCall {
		return nil, nil, false
	}
	callee := staticCallee(call)
	if callee == nil {
		return nil, nil, false
	}
	if callee == getField {
		if len(call.Call.Args) != 2 {
			return nil, nil, false
		}
		return call.Call.Args[0], call.Call.Args[1], true
	}
	if !st.p.InModule(callee) {
		return nil, nil, false
	}
	// wrapper: exactly one inner call that leads to getField with the wrapper's parameters
	var found [][2]int
	allInstrs(callee, func(in ssa.Instruction) {
		ic, isC := in.(*ssa.Call)
		if !isC {
			return
		}
		e, b, ok := st.c04GetFieldArgs(ic, getField, depth+1)
		if !ok {
			return
		}
		ei, bi := c04ParamIndex(callee, e), c04ParamIndex(callee, b)
		found = append(found, [2]int{ei, bi})
	})
	if len(found) != 1 || found[0][0] < 0 || found[0][1] < 0 {
		return nil, nil, false
	}
	if found[0][0] >= len(call.Call.Args) || found[0][1] >= len(call.Call.Args) {
		return nil, nil, false
	}
	return call.Call.Args[found[0][0]], call.Call.Args[found[0][1]], true
}

func c04ParamIndex(fn *ssa.Function, v ssa.Value) int {
	for i, p := range fn.Params {
		if p == v {
			return i
		}
	}
	return -1
}

func (st *c04State) checkPairing() {
	r, p := st.r, st.p
	parse := p.Func("cron", "Parser.Parse")
	getField := p.Func("cron", "getField")
	normalize := p.Func("cron", "normalizeFields")
	// stores into a SpecSchedule built in Parse
	stores := map[string]*ssa.Store{}
	haveLit := false
	allInstrs(parse, func(in ssa.Instruction) {
		if a, ok := in.(*ssa.Alloc); ok && namedKey(deref1(a.Type())) == st.spec {
			haveLit = true
		}
		s, ok := in.(*ssa.Store)
		if !ok {
			return
		}
		fa, ok := s.Addr.(*ssa.FieldAddr)
		if !ok {
			return
		}
		id := fieldIDOfAddr(fa)
		if id.Type != st.spec {
			return
		}
		if _, isAlloc := fa.X.(*ssa.Alloc); isAlloc {
			stores[id.Field] = s
		}
	})
	if !haveLit {
		r.Undecide("Parser.Parse no longer builds the SpecSchedule itself: the column/bounds/field pairing cannot be traced")
		return
	}
	for _, role := range c04Roles {
		construct := "cron.Parser.Parse -> SpecSchedule." + role.Field
		s := stores[role.Field]
		if s == nil {
			r.Violation("C04.P2-pairing", construct, p.Pos(parse.Pos()), "Parse never sets SpecSchedule."+role.Field+": the "+role.Field+" column of every expression is ignored (the zero set matches nothing)")
			continue
		}
		expr, bnd, ok := st.c04GetFieldArgs(s.Val, getField, 0)
		if !ok {
			r.Undecide("Parser.Parse: cannot trace the value stored into SpecSchedule.%s back to a getField call", role.Field)
			continue
		}
		// expression: fields[i] of normalizeFields' result
		idx := -1
		if ld, ok := expr.(*ssa.UnOp); ok && ld.Op == token.MUL {
			if ia, ok := ld.X.(*ssa.IndexAddr); ok {
				if k, ok := ia.Index.(*ssa.Const); ok && k.Value != nil {
					if ex, ok := ia.X.(*ssa.Extract); ok && ex.Index == 0 {
						if nc, ok := ex.Tuple.(*ssa.Call); ok && staticCallee(nc) == normalize {
							idx = int(k.Int64())
						}
					}
				}
			}
		}
		gname := ""
		if ld, ok := bnd.(*ssa.UnOp); ok && ld.Op == token.MUL {
			if g, ok := ld.X.(*ssa.Global); ok && g.Pkg != nil && g.Pkg.Pkg.Path() == st.pkgPath {
				gname = g.Name()
			}
		}
		if idx < 0 || gname == "" {
			r.Undecide("Parser.Parse: the getField call feeding SpecSchedule.%s does not take normalizeFields(...)[const] and a bounds table directly", role.Field)
			continue
		}
		col := "?"
		if idx < len(st.places) {
			col = st.places[idx].ConstName
		}
		switch {
		case col != role.Field:
			r.Violation("C04.P2-pairing", construct, p.Pos(s.Pos()), fmt.Sprintf("SpecSchedule.%s is parsed from expression column #%d, which normalizeFields fills with the %s column", role.Field, idx, col))
		case gname != role.Bounds:
			r.Violation("C04.P2-pairing", construct, p.Pos(s.Pos()), fmt.Sprintf("the %s column is parsed with the bounds table cron.%s instead of cron.%s: wrong range, names and meaning of '*'", role.Field, gname, role.Bounds))
		default:
			r.OK("C04.P2-pairing", construct, p.Pos(s.Pos()), fmt.Sprintf("column #%d (%s) parsed with cron.%s", idx, col, gname))
		}
	}
}

// ---------------------------------------------------------------------------
// P3 matcher

func c04Strip(v ssa.Value) ssa.Value {
	for {
		switch x := v.(type) {
		case *ssa.Convert:
			v = x.X
		case *ssa.ChangeType:
			v = x.X
		default:
			return v
		}
	}
}

// c04TimeCall: v (through conversions) is a call of the time.Time method; returns its name and receiver.
func c04TimeCall(v ssa.Value) (string, *ssa.Call, bool) {
	call, ok := c04Strip(v).(*ssa.Call)
	if !ok {
		return "", nil, false
	}
	obj := calleeObj(call)
	if obj == nil || obj.Pkg() == nil || obj.Pkg().Path() != "time" {
		return "", nil, false
	}
	sig := obj.Type().(*types.Signature)
	if sig.Recv() == nil || typeBaseName(sig.Recv().Type()) != "Time" {
		return "", nil, false
	}
	return obj.Name(), call, true
}

func (st *c04State) specFieldLoad(v ssa.Value) (string, bool) {
	switch x := v.(type) {
	case *ssa.UnOp:
		if x.Op == token.MUL {
			if fa, ok := x.X.(*ssa.FieldAddr); ok {
				if id := fieldIDOfAddr(fa); id.Type == st.spec {
					return id.Field, true
				}
			}
		}
	case *ssa.Field:
		if id := fieldIDOfField(x); id.Type == st.spec {
			return id.Field, true
		}
	}
	return "", false
}

type c04And struct {
	Kind     string // "match" | "star"
	Field    string
	Accessor string
	Op       *ssa.BinOp
	Fn       *ssa.Function
}

// classifyAnd recognises `1<<acc(t) & s.F` and `s.F & starBit`.
func (st *c04State) classifyAnd(bo *ssa.BinOp) (c04And, bool) {
	if bo.Op != token.AND {
		return c04And{}, false
	}
	for _, pair := range [][2]ssa.Value{{bo.X, bo.Y}, {bo.Y, bo.X}} {
		f, ok := st.specFieldLoad(pair[0])
		if !ok || c04RoleOf(f) == nil {
			continue
		}
		other := pair[1]
		if k, ok := other.(*ssa.Const); ok && k.Value != nil {
			if u, ok := constant.Uint64Val(constant.ToInt(k.Value)); ok && u == st.starBit {
				return c04And{Kind: "star", Field: f, Op: bo, Fn: bo.Parent()}, true
			}
		}
		if sh, ok := other.(*ssa.BinOp); ok && sh.Op == token.SHL {
			if one, ok := sh.X.(*ssa.Const); ok && one.Value != nil && one.Uint64() == 1 {
				if name, _, ok := c04TimeCall(sh.Y); ok {
					return c04And{Kind: "match", Field: f, Accessor: name, Op: bo, Fn: bo.Parent()}, true
				}
			}
		}
	}
	return c04And{}, false
}

// nextClosure: Next and the module functions it statically calls.
func (st *c04State) nextClosure() []*ssa.Function {
	next := st.p.Func("cron", "SpecSchedule.Next")
	seen := map[*ssa.Function]bool{next: true}
	order := []*ssa.Function{next}
	for i := 0; i < len(order); i++ {
		allInstrs(order[i], func(in ssa.Instruction) {
			if c, ok := in.(ssa.CallInstruction); ok {
				if f := staticCallee(c); f != nil && st.p.InModule(f) && !seen[f] {
					seen[f] = true
					order = append(order, f)
				}
			}
		})
	}
	return order
}

func (st *c04State) checkMatcher() []c04And {
	r, p := st.r, st.p
	var ands []c04And
	loaded := map[string]bool{}
	for _, fn := range st.nextClosure() {
		allInstrs(fn, func(in ssa.Instruction) {
			if v, ok := in.(ssa.Value); ok {
				if f, ok := st.specFieldLoad(v); ok {
					loaded[f] = true
				}
			}
			if bo, ok := in.(*ssa.BinOp); ok {
				if a, ok := st.classifyAnd(bo); ok {
					ands = append(ands, a)
				}
			}
		})
	}
	for _, role := range c04Roles {
		construct := "cron.SpecSchedule." + role.Field + " bit test"
		var good, bad []c04And
		for _, a := range ands {
			if a.Kind != "match" || a.Field != role.Field {
				continue
			}
			if a.Accessor == role.Accessor {
				good = append(good, a)
			} else {
				bad = append(bad, a)
			}
		}
		switch {
		case len(bad) > 0:
			r.Violation("C04.P3-matcher", construct, p.Pos(bad[0].Op.Pos()), fmt.Sprintf("%s tests SpecSchedule.%s (parsed from the %s column) against t.%s() instead of t.%s()", FuncName(p, bad[0].Fn), role.Field, role.Field, bad[0].Accessor, role.Accessor))
		case len(good) > 0:
			r.OK("C04.P3-matcher", construct, p.Pos(good[0].Op.Pos()), fmt.Sprintf("%s: 1<<t.%s() & s.%s", FuncName(p, good[0].Fn), role.Accessor, role.Field))
		case !loaded[role.Field]:
			r.Violation("C04.P3-matcher", construct, p.Pos(p.Func("cron", "SpecSchedule.Next").Pos()), "Next (and the functions it calls) never reads SpecSchedule."+role.Field+": the "+role.Field+" column of the expression does not restrict the result")
		default:
			r.Undecide("SpecSchedule.%s is read by Next but not in the form 1<<t.%s() & s.%s: matcher pairing cannot be decided", role.Field, role.Accessor, role.Field)
		}
	}
	return ands
}

// ---------------------------------------------------------------------------
// N1 either-day truth table

func (st *c04State) checkDayTable() {
	r, p := st.r, st.p
	dm := p.Func("cron", "dayMatches")
	construct := "cron.dayMatches truth table"
	atoms := map[string][]*ssa.BinOp{}
	allInstrs(dm, func(in ssa.Instruction) {
		if bo, ok := in.(*ssa.BinOp); ok {
			if a, ok := st.classifyAnd(bo); ok && (a.Field == "Dom" || a.Field == "Dow") {
				atoms[a.Kind+":"+a.Field] = append(atoms[a.Kind+":"+a.Field], bo)
			}
		}
	})
	for _, k := range []string{"match:Dom", "match:Dow"} {
		if len(atoms[k]) == 0 {
			// the P3 rule reports the missing/crossed matcher; without the atoms the table cannot be built
			r.Undecide("dayMatches: no bit test of the form 1<<t.X() & s.%s found: the either-day table cannot be evaluated", strings.TrimPrefix(k, "match:"))
			return
		}
	}
	var wrong []string
	for m := 0; m < 16; m++ {
		domStar, dowStar, dom, dow := m&8 != 0, m&4 != 0, m&2 != 0, m&1 != 0
		ov := map[ssa.Value]any{}
		set := func(key string, on bool, onVal uint64) {
			for _, bo := range atoms[key] {
				v := uint64(0)
				if on {
					v = onVal
				}
				ov[bo] = c04Int{V: v, Bits: 64}
			}
		}
		set("star:Dom", domStar, st.starBit)
		set("star:Dow", dowStar, st.starBit)
		set("match:Dom", dom, 2)
		set("match:Dow", dow, 2)
		ev := &c04Eval{Override: ov, InModule: st.p.InModule}
		res, err := ev.Run(dm, nil)
		if err != nil {
			r.Undecide("dayMatches cannot be evaluated as a boolean function of its four bit tests: %v", err)
			return
		}
		got, ok := res.(bool)
		if !ok {
			r.Undecide("dayMatches does not fold to a boolean: %s", c04Describe(res))
			return
		}
		want := dom || dow
		if domStar || dowStar {
			want = dom && dow
		}
		if got != want {
			wrong = append(wrong, fmt.Sprintf("dom '*'=%v dow '*'=%v dom matches=%v dow matches=%v: returns %v, documented rule gives %v", domStar, dowStar, dom, dow, got, want))
		}
	}
	msg := ""
	if len(wrong) > 0 {
		msg = fmt.Sprintf("dayMatches differs from the documented day rule (both fields must match when one of them is '*'/'?', either when both are restricted) in %d of 16 cases", len(wrong))
	}
	r.Check(len(wrong) == 0, "C04.N1-either-day", construct, p.Pos(dm.Pos()), "16/16 rows agree", msg, wrong...)
}

// ---------------------------------------------------------------------------
// D1 descriptors

func (st *c04State) evalGlobals() map[*ssa.Global]any {
	g := map[*ssa.Global]any{}
	sp := st.p.SSA.Package(st.p.Pkg("cron").Types)
	for _, role := range c04Roles {
		b := st.bounds[role.Field]
		if gv, ok := sp.Members[role.Bounds].(*ssa.Global); ok {
			g[gv] = &c04Struct{F: []any{c04Int{V: b.Min, Bits: 64}, c04Int{V: b.Max, Bits: 64}, c04Poison{"names map"}}}
		}
	}
	return g
}

func (st *c04State) checkDescriptors() {
	r, p := st.r, st.p
	pkg := p.Pkg("cron")
	doc, _ := c04PackageDoc(pkg)
	_, descs, why := c04ParseDoc(doc)
	if why != "" || len(descs) == 0 {
		undecided("doc.go: the 'Predefined schedules' table was not found (%s)", why)
	}
	pd := p.Func("cron", "parseDescriptor")
	getBits := p.Func("cron", "getBits")
	allFn := p.Func("cron", "all")
	// field order of the bounds struct must be (min,max,names) for evalGlobals
	bt := p.Named("cron", "bounds").Underlying().(*types.Struct)
	if bt.NumFields() != 3 || bt.Field(0).Name() != "min" || bt.Field(1).Name() != "max" {
		r.Undecide("cron.bounds no longer has the fields (min, max, names): constant evaluation of descriptors not possible")
		return
	}
	specT := p.Named("cron", "SpecSchedule").Underlying().(*types.Struct)
	fieldIdx := map[string]int{}
	for i := 0; i < specT.NumFields(); i++ {
		fieldIdx[specT.Field(i).Name()] = i
	}
	globals := st.evalGlobals()
	enc := func(role c04Role, term string) (uint64, string) {
		b := st.bounds[role.Field]
		ev := &c04Eval{Globals: globals, InModule: p.InModule}
		if term == "*" || term == "?" {
			res, err := ev.Run(allFn, []any{&c04Struct{F: []any{c04Int{V: b.Min, Bits: 64}, c04Int{V: b.Max, Bits: 64}, c04Poison{"names"}}}})
			if err != nil {
				return 0, err.Error()
			}
			i, ok := res.(c04Int)
			if !ok {
				return 0, "all() does not fold: " + c04Describe(res)
			}
			return i.V, ""
		}
		n, err := strconv.ParseUint(term, 10, 64)
		if err != nil {
			return 0, "doc.go: term '" + term + "' of an equivalent expression is neither a number nor '*'"
		}
		res, err2 := ev.Run(getBits, []any{c04Int{V: n, Bits: 64}, c04Int{V: n, Bits: 64}, c04Int{V: 1, Bits: 64}})
		if err2 != nil {
			return 0, err2.Error()
		}
		i, ok := res.(c04Int)
		if !ok {
			return 0, "getBits does not fold: " + c04Describe(res)
		}
		return i.V, ""
	}
	// `all(b)` must carry the star bit on top of the plain range (it stands for '*')
	for _, role := range c04Roles {
		b := st.bounds[role.Field]
		star, w1 := enc(role, "*")
		ev := &c04Eval{Globals: globals, InModule: p.InModule}
		plain, err := ev.Run(getBits, []any{c04Int{V: b.Min, Bits: 64}, c04Int{V: b.Max, Bits: 64}, c04Int{V: 1, Bits: 64}})
		if w1 != "" || err != nil {
			r.Undecide("cron.all/getBits cannot be folded for %s: %s %v", role.Bounds, w1, err)
			return
		}
		if pi, ok := plain.(c04Int); !ok || star != pi.V|st.starBit || pi.V&st.starBit != 0 {
			r.Violation("C04.D1-descriptors", "cron.all("+role.Bounds+")", p.Pos(allFn.Pos()), fmt.Sprintf("all(%s) folds to %#x, expected the full range plus the star bit %#x: a '*' written by a descriptor is treated as a restriction by dayMatches", role.Bounds, star, st.starBit))
			return
		}
	}
	for _, d := range descs {
		if len(d.Equiv) != 5 {
			undecided("doc.go: equivalent expression of %s does not have five fields", d.Names[0])
		}
		terms := append([]string{"0"}, d.Equiv...) // seconds: the default of an omitted seconds column
		if len(st.defs) > 0 && st.defs[0].IsStr {
			terms[0] = st.defs[0].Str
		}
		for _, name := range d.Names {
			construct := "cron.parseDescriptor " + name
			ev := &c04Eval{Globals: globals, InModule: p.InModule}
			res, err := ev.Run(pd, []any{name, c04Poison{"loc"}})
			if err != nil {
				r.Undecide("parseDescriptor(%q) does not fold to a constant schedule: %v", name, err)
				continue
			}
			tup, ok := res.(c04Tuple)
			if !ok || len(tup) != 2 {
				r.Undecide("parseDescriptor(%q): unexpected result shape", name)
				continue
			}
			if _, isNil := tup[1].(c04Nil); !isNil {
				r.Violation("C04.D1-descriptors", construct, p.Pos(pd.Pos()), "the documented descriptor "+name+" is not recognised by parseDescriptor (folds to the error path)")
				continue
			}
			ptr, ok := tup[0].(c04Ptr)
			var sv *c04Struct
			if ok {
				sv, _ = c04load(ptr).(*c04Struct)
			}
			if sv == nil {
				r.Undecide("parseDescriptor(%q) does not return a SpecSchedule literal", name)
				continue
			}
			var diffs []string
			undec := false
			for i, role := range c04Roles {
				want, w := enc(role, terms[i])
				if w != "" {
					r.Undecide("descriptor %s: %s", name, w)
					undec = true
					break
				}
				got, ok := sv.F[fieldIdx[role.Field]].(c04Int)
				if !ok {
					r.Undecide("parseDescriptor(%q): SpecSchedule.%s does not fold to a constant (%s)", name, role.Field, c04Describe(sv.F[fieldIdx[role.Field]]))
					undec = true
					break
				}
				if got.V != want {
					diffs = append(diffs, fmt.Sprintf("%s=%#x, but '%s' encodes as %#x", role.Field, got.V, terms[i], want))
				}
			}
			if undec {
				continue
			}
			r.Check(len(diffs) == 0, "C04.D1-descriptors", construct, p.Pos(pd.Pos()), "= "+strings.Join(terms, " "),
				fmt.Sprintf("%s is documented as '%s' but parseDescriptor builds %s", name, strings.Join(d.Equiv, " "), strings.Join(diffs, "; ")))
		}
	}
}

// checkOptional: normalizeFields fills an omitted optional column (SecondOptional
// / DowOptional) with the default of the Second / Dow field, prepended resp. appended.
func (st *c04State) checkOptional() {
	r, p := st.r, st.p
	rule := "C04.P2-optional"
	nf := p.Func("cron", "normalizeFields")
	pkg := p.Pkg("cron")
	optVal := map[string]uint64{}
	for _, n := range []string{"SecondOptional", "DowOptional"} {
		c, ok := pkg.Types.Scope().Lookup(n).(*types.Const)
		if !ok {
			undecided("anchor constant cron.%s no longer resolves", n)
		}
		v, _ := constant.Uint64Val(constant.ToInt(c.Val()))
		optVal[n] = v
	}
	twin := map[string]string{"SecondOptional": "Second", "DowOptional": "Dow"}
	idxOf := func(field string) int {
		for i, e := range st.places {
			if e.ConstName == field {
				return i
			}
		}
		return -1
	}
	if len(nf.Params) == 0 {
		r.Undecide("normalizeFields has no parameters")
		return
	}
	fieldsPar := nf.Params[0]
	fromFields := func(v ssa.Value) bool {
		return c04ThroughPhis(v, func(x ssa.Value) bool {
			if x == ssa.Value(fieldsPar) {
				return true
			}
			if sl, ok := x.(*ssa.Slice); ok && sl.X == ssa.Value(fieldsPar) {
				return true
			}
			return false
		})
	}
	seen := map[string]bool{}
	allInstrs(nf, func(in ssa.Instruction) {
		ld, ok := in.(*ssa.UnOp)
		if !ok || ld.Op != token.MUL {
			return
		}
		ia, ok := ld.X.(*ssa.IndexAddr)
		if !ok {
			return
		}
		k, isK := c04ConstInt(ia.Index)
		gl, ok2 := ia.X.(*ssa.UnOp)
		if !isK || !ok2 || gl.Op != token.MUL {
			return
		}
		g, ok := gl.X.(*ssa.Global)
		if !ok || g.Name() != "defaults" {
			return
		}
		// which option test dominates this load?
		opt := ""
		for _, dc := range domConds(ld.Block()) {
			cmp, ok := decodeCond(dc.If.Cond, dc.Branch)
			if !ok {
				continue
			}
			and, ok := cmp.X.(*ssa.BinOp)
			kz, isZ := c04ConstInt(cmp.Y)
			if !ok || and.Op != token.AND || !isZ || kz != 0 || (cmp.Op != token.GTR && cmp.Op != token.NEQ) {
				continue
			}
			for _, side := range []ssa.Value{and.X, and.Y} {
				if c, ok := c04ConstInt(side); ok {
					for n, v := range optVal {
						if uint64(c) == v {
							opt = n
						}
					}
				}
			}
		}
		if opt == "" {
			return
		}
		construct := "cron.normalizeFields omitted " + opt + " column"
		seen[opt] = true
		ti := idxOf(twin[opt])
		if ti < 0 || int(k) >= len(st.defs) || ti >= len(st.defs) {
			r.Undecide("%s: index out of the defaults/places tables", construct)
			return
		}
		if st.defs[k].Str != st.defs[ti].Str {
			r.Violation(rule, construct, p.Pos(instrPos(ld)), fmt.Sprintf("an omitted %s column is filled with defaults[%d] = %q, but the default of the %s field is %q: a parser with %s reads e.g. a missing day-of-week as %q instead of %q", twin[opt], k, st.defs[k].Str, twin[opt], st.defs[ti].Str, opt, st.defs[k].Str, st.defs[ti].Str))
			return
		}
		// where does it go? find the append fed by this load
		var app *ssa.Call
		for _, b := range nf.Blocks {
			if !ld.Block().Dominates(b) && b != ld.Block() {
				continue
			}
			for _, i2 := range b.Instrs {
				if c, ok := i2.(*ssa.Call); ok && builtinName(c) == "append" && len(c.Call.Args) == 2 && c.Block() == ld.Block() {
					app = c
				}
			}
		}
		if app == nil {
			r.Undecide("%s: the append that inserts the default was not found", construct)
			return
		}
		appended := fromFields(app.Call.Args[0])
		prepended := fromFields(app.Call.Args[1])
		wantAppend := ti == len(st.places)-1
		wantPrepend := ti == 0
		switch {
		case appended == prepended:
			r.Undecide("%s: cannot tell whether the default is appended or prepended", construct)
		case (wantAppend && appended) || (wantPrepend && prepended):
			r.OK(rule, construct, p.Pos(instrPos(ld)), fmt.Sprintf("filled with the default of %s (%q) at the position of that column", twin[opt], st.defs[ti].Str))
		default:
			r.Violation(rule, construct, p.Pos(instrPos(app)), fmt.Sprintf("the default of the omitted %s column is inserted at the wrong end of the expression: every given column shifts into the neighbouring field", twin[opt]))
		}
	})
	for _, n := range []string{"SecondOptional", "DowOptional"} {
		if !seen[n] {
			r.Undecide("normalizeFields: no defaults[const] load under a test of %s found", n)
		}
	}
}

// c04Sym is an opaque symbolic argument for the constant evaluator.
type c04Sym struct{ Name string }

// checkLocation: D3.
func (st *c04State) checkLocation() {
	r, p := st.r, st.p
	rule := "C04.D3-location"
	pkg := p.Pkg("cron")
	doc, _ := c04PackageDoc(pkg)
	_, descs, _ := c04ParseDoc(doc)
	pd := p.Func("cron", "parseDescriptor")
	specT := p.Named("cron", "SpecSchedule").Underlying().(*types.Struct)
	locIdx := -1
	for i := 0; i < specT.NumFields(); i++ {
		if specT.Field(i).Name() == "Location" {
			locIdx = i
		}
	}
	if locIdx < 0 {
		undecided("anchor field cron.SpecSchedule.Location no longer resolves")
	}
	// which parameter of parseDescriptor is the location?
	locPar := -1
	for i, par := range pd.Params {
		if namedKey(par.Type()) == "time.Location" {
			locPar = i
		}
	}
	if locPar < 0 || len(pd.Params) != 2 {
		r.Undecide("parseDescriptor no longer takes (descriptor, *time.Location)")
	} else {
		globals := st.evalGlobals()
		if tp := p.All["time"]; tp != nil {
			if sp := p.SSA.Package(tp.Types); sp != nil {
				for _, n := range []string{"Local", "UTC"} {
					if g, ok := sp.Members[n].(*ssa.Global); ok {
						globals[g] = c04Sym{"time." + n}
					}
				}
			}
		}
		sentinel := c04Sym{"loc"}
		for _, d := range descs {
			for _, name := range d.Names {
				construct := "cron.parseDescriptor " + name + " Location"
				args := make([]any, 2)
				args[1-locPar] = name
				args[locPar] = sentinel
				ev := &c04Eval{Globals: globals, InModule: p.InModule}
				res, err := ev.Run(pd, args)
				if err != nil {
					r.Undecide("parseDescriptor(%q) does not fold: %v", name, err)
					continue
				}
				tup, ok := res.(c04Tuple)
				var sv *c04Struct
				if ok && len(tup) == 2 {
					if ptr, ok := tup[0].(c04Ptr); ok {
						sv, _ = c04load(ptr).(*c04Struct)
					}
				}
				if sv == nil {
					// D1 reports a descriptor that is not recognised
					r.Undecide("parseDescriptor(%q) does not return a SpecSchedule literal", name)
					continue
				}
				got := sv.F[locIdx]
				if got == any(sentinel) {
					r.OK(rule, construct, p.Pos(pd.Pos()), "Location = the loc parameter")
				} else {
					what := c04Describe(got)
					if _, isNil := got.(c04Nil); isNil {
						what = "left nil"
					}
					if sym, isSym := got.(c04Sym); isSym {
						what = sym.Name
					}
					r.Violation(rule, construct, p.Pos(pd.Pos()), "the SpecSchedule built for "+name+" does not carry the location handed to parseDescriptor (Location is "+what+"): 'CRON_TZ=Asia/Tokyo "+name+"' is interpreted on the wall clock of another zone (time.Local means the zone of the instant passed to Next), or Next fails on a nil location")
				}
			}
		}
	}
	// Parse: the location stored in its own SpecSchedule and the one handed to parseDescriptor
	parse := p.Func("cron", "Parser.Parse")
	var loadLoc *ssa.Call
	allInstrs(parse, func(in ssa.Instruction) {
		if c, ok := in.(*ssa.Call); ok && callIs(c, "time", "", "LoadLocation") {
			loadLoc = c
		}
	})
	classify := func(v ssa.Value) (parsed, local bool, bad string) {
		seen := map[ssa.Value]bool{}
		var walk func(v ssa.Value)
		walk = func(v ssa.Value) {
			if seen[v] {
				return
			}
			seen[v] = true
			switch x := v.(type) {
			case *ssa.Phi:
				for _, e := range x.Edges {
					walk(e)
				}
			case *ssa.Extract:
				if c, ok := x.Tuple.(*ssa.Call); ok && callIs(c, "time", "", "LoadLocation") && x.Index == 0 {
					parsed = true
				} else {
					bad = "?a value that is neither time.Local nor the result of time.LoadLocation"
				}
			case *ssa.UnOp:
				if g, ok := x.X.(*ssa.Global); ok && x.Op == token.MUL && g.Pkg != nil && g.Pkg.Pkg.Path() == "time" {
					if g.Name() == "Local" {
						local = true
					} else {
						bad = "time." + g.Name()
					}
				} else {
					bad = "?a value that is neither time.Local nor the result of time.LoadLocation"
				}
			default:
				bad = "?a value that is neither time.Local nor the result of time.LoadLocation"
			}
		}
		walk(v)
		return
	}
	judge := func(construct string, v ssa.Value, pos token.Pos, what string) {
		parsed, local, bad := classify(v)
		switch {
		case strings.HasPrefix(bad, "?"):
			r.Undecide("%s: %s is %s", construct, what, bad[1:])
		case bad != "":
			r.Violation(rule, construct, p.Pos(pos), what+" can be "+bad+": without a TZ=/CRON_TZ= prefix the documented zone is time.Local (the zone of the instant given to Next), not a fixed zone")
		case loadLoc != nil && !parsed:
			r.Violation(rule, construct, p.Pos(pos), what+" never is the location parsed from the TZ=/CRON_TZ= prefix (the result of time.LoadLocation is dropped): 'CRON_TZ=Asia/Tokyo 0 6 * * ?' fires at 06:00 local time")
		case !local && loadLoc == nil:
			r.Undecide("%s: Parse no longer parses a time zone prefix with time.LoadLocation", construct)
		case !local:
			r.Violation(rule, construct, p.Pos(pos), what+" is never time.Local: expressions without a TZ= prefix are not interpreted in the local zone as documented")
		default:
			r.OK(rule, construct, p.Pos(pos), what+" is the parsed TZ=/CRON_TZ= location, or time.Local without prefix")
		}
	}
	var locStore *ssa.Store
	haveLit := false
	allInstrs(parse, func(in ssa.Instruction) {
		if a, ok := in.(*ssa.Alloc); ok && namedKey(deref1(a.Type())) == st.spec {
			haveLit = true
		}
		if s, ok := in.(*ssa.Store); ok {
			if fa, ok := s.Addr.(*ssa.FieldAddr); ok {
				if id := fieldIDOfAddr(fa); id.Type == st.spec && id.Field == "Location" {
					if _, isAlloc := fa.X.(*ssa.Alloc); isAlloc {
						locStore = s
					}
				}
			}
		}
	})
	c1 := "cron.Parser.Parse -> SpecSchedule.Location"
	switch {
	case locStore != nil:
		judge(c1, locStore.Val, locStore.Pos(), "the Location stored by Parse")
	case haveLit:
		r.Violation(rule, c1, p.Pos(parse.Pos()), "Parse never sets SpecSchedule.Location: Next fails on (or ignores) the schedule's time zone")
	default:
		r.Undecide("Parser.Parse no longer builds the SpecSchedule itself: its Location cannot be traced")
	}
	c2 := "cron.Parser.Parse -> parseDescriptor loc"
	var pdCall *ssa.Call
	allInstrs(parse, func(in ssa.Instruction) {
		if c, ok := in.(*ssa.Call); ok && staticCallee(c) == pd {
			pdCall = c
		}
	})
	if pdCall == nil || locPar < 0 || locPar >= len(pdCall.Call.Args) {
		r.Undecide("Parser.Parse: no direct call of parseDescriptor found")
	} else {
		judge(c2, pdCall.Call.Args[locPar], pdCall.Pos(), "the location handed to parseDescriptor")
	}
}
