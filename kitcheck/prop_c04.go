package main

import (
	"fmt"
	"go/constant"
	"go/token"
	"go/types"
	"sort"
	"strconv"
	"strings"

	"golang.org/x/tools/go/ssa"
)

// C04 — cron: Next is the earliest instant matching the expression's
// documented meaning; malformed expressions are refused.

func init() { register("C04", checkC04) }

// c04Role ties together, for one of the six expression fields, the names the
// repository uses for it: the ParseOption constant / SpecSchedule field, the
// bounds table, the row of the "Allowed values" table in doc.go and the
// time.Time accessor that reads the field on the wall clock.
type c04Role struct {
	Field    string // ParseOption constant and SpecSchedule field (exported API names)
	DocField string // row name in doc.go ("" = not in the published table)
	Accessor string // time.Time method
	Floor    int64  // smallest value of the accessor (what a carry lands on)
}

var c04Roles = []c04Role{
	{"Second", "", "Second", 0},
	{"Minute", "Minutes", "Minute", 0},
	{"Hour", "Hours", "Hour", 0},
	{"Dom", "Day of month", "Day", 1},
	{"Month", "Month", "Month", 1},
	{"Dow", "Day of week", "Weekday", 0},
}

func c04RoleOf(field string) *c04Role {
	for i := range c04Roles {
		if c04Roles[i].Field == field {
			return &c04Roles[i]
		}
	}
	return nil
}

type c04State struct {
	c       *Ctx
	p       *Prog
	r       *Report
	pkgPath string
	spec    string // "pkgpath.SpecSchedule"
	starBit uint64
	// roles resolved through types and dataflow, not through unexported names
	boundsKey           string                // "pkgpath.<bounds type>"
	boundsT             *types.Named          // the {min, max, names} table type
	minF, maxF, namesF  string                // its field names, by role
	tables              map[string]*c04Bounds // every package-level table, by variable name
	bounds              map[string]*c04Bounds // table paired with SpecSchedule field F in Parse
	placesVar, defsVar  string
	places              []c04ListElem
	defs                []c04ListElem
	builder             *ssa.Function // (start, end, step) -> bit set
	normaliser          *ssa.Function // raw columns -> six columns
	normaliserFieldsArg int
	descFn              *ssa.Function // descriptor -> Schedule
	gcells              map[*ssa.Global]*c04Cell
	parseLits           []*c04T // SpecSchedule literals reaching Parse's result
	parseResults        [][]*c04T
}

func checkC04(c *Ctx) {
	r, p := c.R, c.P
	r.Explanation = "Decides structural necessary conditions of C04 on package cron (parser.go, spec.go, constantdelay.go, doc.go). Only exported API names (Parser.Parse, ParseStandard, ParseOption constants, SpecSchedule and its fields, SpecSchedule.Next, ConstantDelaySchedule, Every) and the standard library are used as anchors; every unexported function, type, field, variable and constant is resolved by ROLE through types and dataflow (the field-table type = the struct with two unsigned fields and a name map of which package-level tables exist, min/max told apart by the table contents; the table of field F = the table Parse parses column F with; the column-order and default lists by their types; the normaliser, the column parser and the descriptor function by the types of the calls Parse makes; the bit-set builder by its signature; the star bit = the constant Next masks Dom/Dow with). Values are compared as TERMS in which same-package callees (functions, methods, closures) are inlined and merges become choices, so a test, step or reset is recognised wherever it is written; branch facts include short-circuit booleans evaluated to a value; validation helpers are consulted through their success returns. Calls through function values whose targets are visible in the package (locals, elements of literal slices/arrays/maps, func-typed fields and package-level variables, closure parameters) and through single-implementation interfaces are followed. Where the shape defeats the term view, the code is interpreted abstractly instead: the package initialiser is evaluated to obtain literal tables (arrays of field tables, maps of builder functions) and Parser.Parse is evaluated on a symbolic expression along every branch, with the normaliser, the column parser and the descriptor function kept as symbolic applications — so an accumulator struct with an index, a loop over a table of field tables or a map of constructors give the same pairing as six closure calls. Search loops may live in phase helpers of Next (a carry is then a return whose boolean result Next branches on to restart the search) and their variables in fields of a local struct (the reaching store is followed); the field-table struct may nest/embed its limits. Function values are resolved in their calling context (a parameter is what the call that entered the function passed, a factory's result is the closure its return makes, with the factory's arguments bound), and variables captured by closures are followed as memory: the content at a point is the last store or the effect of the last call of a closure that writes the variable (which closures write a variable is read off the program text; a writer handed to a function or closure as a callback is followed to where the callee calls it, through the frames in between; only a call whose target is not known and that is handed function values makes the content unknown), so search state kept in captured variables and resets/steps/fix-ups done by closures handed to closures are seen as if written in line. A struct field whose address is kept (a table of output pointers) is not given a content by the term view; the abstract interpretation of Parse follows the pointers instead. " +
		"Tables (E6): the table each column is parsed with equals that column's row of the 'Allowed values' table of doc.go (seconds: the range of time.Time.Second) and stays below the star bit; month/weekday names map to the numbering of time.Month/time.Weekday; the column order list names the six fields in expression order and each default lies within its table; an omitted optional column is filled with the default of its own field at its own end; the seven predefined schedules of the descriptor function, folded to constants, equal the 'Equivalent To' column of doc.go in the encoding Next reads (value v = bit 1<<v, '*' = documented range plus star bit). " +
		"Pairing: Parse builds SpecSchedule.F from normalised column #i with places[i] = F; Next and its callees test SpecSchedule.F against the time.Time accessor of F; the day rule (a function, method or the code of Next itself), evaluated symbolically for all 16 assignments of (dom matches, dow matches, dom has star, dow has star), is 'both' when a star is present and 'either' otherwise. " +
		"Search (minimality): for every search loop of Next, from the term of the instant the loop continues with: it continues while the bit is clear, advances by at most one unit (Add/AddDate/Date(field+1)), sets all lower-order fields to their minimum in the same iteration (before the step, for months) without clearing the field being searched itself (a Truncate coarser than the loop's field restarts the search before t), and on a carry goes back to the top of the search; the carry test must look at the instant the loop continues with (no further Add/AddDate between test and next iteration) and must still fire when the smallest value of the field does not exist on the wall clock (DST gap at local midnight / 30-minute DST); a calendar step (AddDate / Date(field+1)) of the month and day loops is followed by an adjustment that reads the stepped instant (the not-midnight fix-up: the local midnight aimed at may not exist), and a day step by a fixed duration (Add) is only accepted if the wall clock is rebuilt after it; in the month and day loops an adjustment that moves the stepped instant BACKWARD (Add of a provably non-positive amount, by interval arithmetic over accessor ranges) — it can fall back out of the month/day just entered when the step landed after a gap, on 01:00 — must either be dropped when the unit (Month()/Day()) of the adjusted and of the unadjusted instant differ, or be followed by a progress guard that compares the unit of the value arrived at with that of the pre-step value and, when they agree, continues from the pre-step value by forward steps only (a walk 'for same day { t = t.Add(hour) }' inside the iteration is read as a recursive term); a month-loop reset time.Date(y, m, 1, 0, ...) that feeds a calendar step must be adjusted in between by something that reads the reset's result (it can be 23:00 of the previous month), or the day of the month be repaired after the step; the search starts exactly at t truncated to the second plus one second, gives up with the zero time only for calendar years beyond start year + 5, converts into SpecSchedule.Location and builds every date in a location that can be the schedule's (SpecSchedule.Location, or the zone of an instant converted into it; the caller's zone alone is a violation); every SpecSchedule of the descriptor function carries the location parameter; Parse stores/hands on the time.LoadLocation result of a TZ=/CRON_TZ= prefix or time.Local. " +
		"Refusal (E7+E2): every error produced in the parser layer (the static call closure of Parse) is returned, tested with a failing return, or parked in a shared error variable (captured variable, *error parameter, named result, error field of a helper's receiver) for which a must-analysis shows that no nil-capable store happens while an error may be pending and no `return ..., nil` is reached while one may be pending; a loop of the parser layer whose body hands a value of the iteration to code that reaches the bit-set builder (one call per list term, or per column) is left before its sequence is exhausted, or goes round without the call, only on an edge governed by an error's nil test or towards returns that all carry a fresh/tested error — an early exit or skip under a condition on the term at hand or on what earlier terms produced, with a success return behind it, is a violation ('*,99' accepted); skipping empty terms is allowed; the bit-set builder is only called under start>=min, end<=max, start<=end, step!=0; on every decision-consistent path with a parsed step and a single parsed start value (also when start/end are two results of one helper) the end handed to the builder is the field maximum (doc.go: 'N/... means N-MAX/...'), independently of the step's value; a parsed step is never the result of a lookup in the field's name table (names are not step sizes); the normaliser succeeds only with a two-sided check of the number of fields; the int->uint conversion of a parsed number is dominated by a non-negativity check; '@every' goes through Every, Every stores a Delay >= 1 s, and ConstantDelaySchedule.Next is t.Add(Delay - t.Nanosecond()). " +
		"NOT decided: the numerical result of Next as such — that the instant returned is the earliest matching one for every expression, start instant and zone (in particular the arithmetic of the DST midnight fix-ups, DST shifts that are not whole hours, and repeated hours at fall-back); that the forward walk of a progress guard ends (C07); that Every rounds to whole seconds; the exact bit patterns the builder/range parser produce for ranges, steps ('*/n' losing the star bit) and lists; that the lower bound in the field-count check is the right number; acceptance of oddities such as '*-5' or ','. Shapes the analysis cannot read (a bit-set builder inlined into its caller, the normaliser inlined into Parse, a deferred closure rewriting the error, carries a phase helper reports through something else than a boolean result, a closure that writes search state and reaches its call through a package-level variable, struct field or interface, a closure that keeps the address of a variable it captures, inlining deeper than 6 frames) give UNDECIDED, never VIOLATION."
	r.Assumptions = append(r.Assumptions,
		"time.Time accessors, time.Date, Add, AddDate, Truncate, In behave as documented; time zones with a DST gap starting at local midnight (e.g. America/Havana, America/Sao_Paulo before 2019) and with 30-minute DST (Australia/Lord_Howe) exist in the tz database",
		"field-table values only come from the package-level tables (checked: no other composite literal of that type, no store to the tables outside init)",
		"the SSA constant/symbolic evaluator (c04eval.go) implements Go's integer semantics for the operators it folds",
		"values returned next to a certainly non-nil error are placeholders the caller does not use (the error-discipline rule checks that callers test the error)")

	st := &c04State{c: c, p: p, r: r, pkgPath: p.ModPath + "/cron", bounds: map[string]*c04Bounds{}}
	st.spec = st.pkgPath + ".SpecSchedule"
	p.Named("cron", "SpecSchedule")

	r.Rule("C04.P1-bounds", "the table each column is parsed with equals that column's row of the 'Allowed values' table in cron/doc.go (seconds: 0-59) and stays below the star bit", 6)
	r.Rule("C04.P1-names", "month and weekday names cover JAN-DEC / SUN-SAT and map to the values of time.Month / time.Weekday", 2)
	r.Rule("C04.P2-lists", "the column order list names the six fields in expression order; the defaults list has one in-bounds entry per field", 7)
	r.Rule("C04.P2-optional", "an omitted optional column is filled with the default of its own field, at its own end of the expression", 2)
	r.Rule("C04.P2-pairing", "Parse builds SpecSchedule.F from normalised column #i with order[i] = F, parsed with a package-level field table (whose contents P1 checks against the documentation of F)", 6)
	r.Rule("C04.P3-matcher", "Next and its callees test SpecSchedule.F with bit 1<<accessor where accessor is the time.Time method of F", 6)
	r.Rule("C04.N1-either-day", "the day condition of Next == (domStar||dowStar ? dom&&dow : dom||dow) for all 16 assignments (or its negation, with the loop polarity read accordingly)", 1)
	r.Rule("C04.N2-search", "each search loop of Next: polarity, unit step, lower-order reset before the first step, carry goes back to the top and is detected DST-robustly; calendar steps are followed by a not-midnight adjustment", 20)
	r.Rule("C04.N2-backstep", "month and day loops: a backward adjustment of the stepped instant is kept only if it stays in the unit stepped into (same-unit test) or is followed by a progress guard with a forward restart; a reset to the 1st that feeds a calendar step is normalised first", 3)
	r.Rule("C04.N3-limit", "the search gives up (zero time) only for calendar years beyond start year + 5: `year > start+k` needs k >= 5, `year >= start+k` needs k >= 6", 1)
	r.Rule("C04.D3-location", "every SpecSchedule built by parseDescriptor carries the loc parameter; Parse stores/passes the location parsed from the TZ=/CRON_TZ= prefix, or time.Local without prefix", 9)
	r.Rule("C04.N4-zone", "Next converts into SpecSchedule.Location, builds wall-clock times only in that location (or t's own for time.Local) and starts from a whole second", 3)
	r.Rule("C04.P4-errflow", "every error produced in the parser layer is returned, or parked in a shared error variable that is never overwritten while pending and is tested before every success return", 29)
	r.Rule("C04.P4-range", "the bit-set builder is called only under start>=min, end<=max, start<=end, step!=0", 8)
	r.Rule("C04.P5-nstep", "doc.go 'N/... means N-MAX/...': on every consistent path of the range parser with a parsed step and a single parsed start value, the end handed to the bit-set builder is the field maximum, independently of the step's value", 1)
	r.Rule("C04.P6-numeric-step", "the step of a range never comes from the field's name table (names are not step sizes)", 1)
	r.Rule("C04.P7-list-terms", "a loop of the parser layer that hands each term (or column) to code reaching the bit-set builder is left early, or skips the call, only on the way to an error — never depending on what earlier terms produced with a success return behind it", 1)
	r.Rule("C04.P4-count", "the column normaliser succeeds only after a lower and an upper check of the number of fields (possibly in a validation helper)", 2)
	r.Rule("C04.P4-nonneg", "a parsed number is converted to unsigned only after a non-negativity check", 1)
	r.Rule("C04.D1-descriptors", "each predefined schedule folds to the encoding of its 'Equivalent To' expression in cron/doc.go", 7)
	r.Rule("C04.D2-every", "'@every d' is built by Every (>= 1 s, whole seconds) and ConstantDelaySchedule.Next = t truncated to the second + Delay; Every stores a Delay >= 1 s", 3)

	if !st.loadTables() {
		return
	}
	st.checkPairing()
	na := st.checkMatcher()
	st.checkBounds()
	st.checkLists()
	st.checkOptional()
	st.checkDayTable(na)
	st.checkSearch(na)
	st.checkErrflow()
	st.checkRange()
	st.checkCount()
	st.checkNonNeg()
	st.checkListTerms()
	st.checkDescriptors()
	st.checkLocation()
	st.checkEvery()
	st.checkEveryDelay()

	c.Fixture("c04", func(fp *Prog, fr *Report) { c04FixtureRules(fp, fr) })

	// the full list of obligations, per rule, goes into the evidence
	per := map[string][]string{}
	for _, o := range r.Obs {
		per[o.Rule] = append(per[o.Rule], o.Construct+" ["+o.Status+"]")
	}
	r.Stats["c04_obligations"] = per
}

// ---------------------------------------------------------------------------
// tables

func (st *c04State) loadTables() bool {
	pkg := st.p.Pkg("cron")
	scope := pkg.Types.Scope()
	// the table type: an unexported-or-not named struct of this package with two
	// fields of one unsigned integer type U and one field map[string]U, of which
	// package-level variables exist
	type cand struct {
		named *types.Named
		vars  []*types.Var
	}
	cands := map[string]*cand{}
	for _, n := range scope.Names() {
		v, ok := scope.Lookup(n).(*types.Var)
		if !ok {
			continue
		}
		named, ok := v.Type().(*types.Named)
		if !ok || named.Obj().Pkg() != pkg.Types {
			continue
		}
		stt, ok := named.Underlying().(*types.Struct)
		if !ok {
			continue
		}
		var uintFields, mapFields int
		var ut types.Type
		okShape := true
		c04StructLeaves(stt, "", 0, func(path string, ft types.Type) {
			if bt, ok := ft.Underlying().(*types.Basic); ok && bt.Info()&types.IsUnsigned != 0 {
				if ut != nil && !types.Identical(ut, ft) {
					okShape = false
				}
				ut = ft
				uintFields++
				return
			}
			if mt, ok := ft.Underlying().(*types.Map); ok {
				if kb, ok := mt.Key().Underlying().(*types.Basic); ok && kb.Kind() == types.String {
					mapFields++
					return
				}
			}
			okShape = false
		})
		if !okShape || uintFields != 2 || mapFields != 1 {
			continue
		}
		k := named.Obj().Name()
		if cands[k] == nil {
			cands[k] = &cand{named: named}
		}
		cands[k].vars = append(cands[k].vars, v)
	}
	if len(cands) != 1 {
		undecided("the table type of the cron fields (struct {min, max uint; names map[string]uint} with package-level tables) does not resolve uniquely (%d candidates)", len(cands))
	}
	var bc *cand
	for _, c := range cands {
		bc = c
	}
	st.boundsT = bc.named
	st.boundsKey = st.pkgPath + "." + bc.named.Obj().Name()
	stt := bc.named.Underlying().(*types.Struct)
	var uf []string
	c04StructLeaves(stt, "", 0, func(path string, ft types.Type) {
		if _, isMap := ft.Underlying().(*types.Map); isMap {
			st.namesF = path
		} else {
			uf = append(uf, path)
		}
	})
	st.tables = map[string]*c04Bounds{}
	for _, v := range bc.vars {
		b, why := c04ReadTable(pkg, v.Name())
		if b == nil {
			undecided("field table cron.%s: %s", v.Name(), why)
		}
		st.tables[v.Name()] = b
	}
	// which of the two unsigned fields is the minimum: the one that is <= the other in every table
	aLE, bLE, strict := true, true, false
	for _, t := range st.tables {
		x, y := t.Fields[uf[0]], t.Fields[uf[1]]
		if x > y {
			aLE = false
		}
		if y > x {
			bLE = false
		}
		if x != y {
			strict = true
		}
	}
	switch {
	case aLE && strict:
		st.minF, st.maxF = uf[0], uf[1]
	case bLE && strict:
		st.minF, st.maxF = uf[1], uf[0]
	default:
		undecided("the minimum/maximum roles of the fields %s/%s of cron.%s cannot be told from the tables (no consistent order)", uf[0], uf[1], bc.named.Obj().Name())
	}
	for _, t := range st.tables {
		t.Min, t.Max = t.Fields[st.minF], t.Fields[st.maxF]
	}
	// the column order list ([]ParseOption) and the defaults list ([]string)
	for _, n := range scope.Names() {
		v, ok := scope.Lookup(n).(*types.Var)
		if !ok {
			continue
		}
		var elem types.Type
		switch lt := v.Type().Underlying().(type) {
		case *types.Slice:
			elem = lt.Elem()
		case *types.Array:
			elem = lt.Elem()
		default:
			continue
		}
		if named, ok := elem.(*types.Named); ok && named.Obj().Name() == "ParseOption" && named.Obj().Pkg() == pkg.Types {
			if st.placesVar != "" {
				undecided("two package-level []ParseOption lists (%s, %s): the column order list does not resolve", st.placesVar, n)
			}
			st.placesVar = n
		}
		if bt, ok := elem.Underlying().(*types.Basic); ok && bt.Kind() == types.String {
			if st.defsVar != "" {
				undecided("two package-level []string lists (%s, %s): the defaults list does not resolve", st.defsVar, n)
			}
			st.defsVar = n
		}
	}
	if st.placesVar == "" || st.defsVar == "" {
		undecided("the package-level column order list ([]ParseOption) / defaults list ([]string) of package cron no longer resolve")
	}
	var why string
	st.places, _, why = c04ReadList(pkg, st.placesVar)
	if why != "" {
		undecided("cron.%s: %s", st.placesVar, why)
	}
	st.defs, _, why = c04ReadList(pkg, st.defsVar)
	if why != "" {
		undecided("cron.%s: %s", st.defsVar, why)
	}
	// the tables are constants of the program: no store outside init, no
	// other value of the table type is ever built
	for _, fn := range st.p.FuncsOfPkg("cron") {
		if fn.Name() == "init" && fn.Parent() == nil {
			continue
		}
		allInstrs(fn, func(in ssa.Instruction) {
			if s, ok := in.(*ssa.Store); ok {
				if g := c04GlobalOfAddr(s.Addr); g != nil && g.Pkg != nil && g.Pkg.Pkg.Path() == st.pkgPath {
					if st.tables[g.Name()] != nil || g.Name() == st.placesVar || g.Name() == st.defsVar {
						undecided("%s stores to the table cron.%s: the tables are no longer constants", FuncName(st.p, fn), g.Name())
					}
				}
			}
			if a, ok := in.(*ssa.Alloc); ok && a.Comment == "complit" && namedKey(deref1(a.Type())) == st.boundsKey {
				undecided("%s builds a field table value outside the package-level tables", FuncName(st.p, fn))
			}
		})
	}
	// the bit-set builder: the function of this package with signature (U, U, U) uint64
	for _, fn := range st.p.FuncsOfPkg("cron") {
		if fn.Parent() != nil || fn.Signature.Recv() != nil {
			continue
		}
		sig := fn.Signature
		if sig.Params().Len() != 3 || sig.Results().Len() != 1 {
			continue
		}
		okSig := true
		for i := 0; i < 3; i++ {
			if bt, ok := sig.Params().At(i).Type().Underlying().(*types.Basic); !ok || bt.Info()&types.IsUnsigned == 0 {
				okSig = false
			}
		}
		if rb, ok := sig.Results().At(0).Type().Underlying().(*types.Basic); !ok || rb.Kind() != types.Uint64 {
			okSig = false
		}
		if okSig {
			if st.builder != nil {
				st.builder = nil
				break
			}
			st.builder = fn
		}
	}
	return true
}

// tableOfGlobalLoad: v is the value of (a load of) one of the package-level tables.
func (st *c04State) tableOfValue(v ssa.Value) *c04Bounds {
	if ld, ok := v.(*ssa.UnOp); ok && ld.Op == token.MUL {
		if g, ok := ld.X.(*ssa.Global); ok && g.Pkg != nil && g.Pkg.Pkg.Path() == st.pkgPath {
			return st.tables[g.Name()]
		}
	}
	return nil
}

func c04GlobalOfAddr(v ssa.Value) *ssa.Global {
	for {
		switch x := v.(type) {
		case *ssa.Global:
			return x
		case *ssa.FieldAddr:
			v = x.X
		case *ssa.IndexAddr:
			v = x.X
		default:
			return nil
		}
	}
}

func (st *c04State) checkBounds() {
	r, p := st.r, st.p
	pkg := p.Pkg("cron")
	doc, docPos := c04PackageDoc(pkg)
	if doc == "" {
		undecided("the package documentation holding the 'Allowed values' table (cron/doc.go) was not found")
	}
	rows, _, why := c04ParseDoc(doc)
	if why != "" {
		undecided("%s", why)
	}
	rowOf := map[string]*c04DocRow{}
	for i := range rows {
		rowOf[rows[i].Field] = &rows[i]
	}
	_ = docPos
	starIdx := -1
	for i := 0; i < 64; i++ {
		if st.starBit == 1<<uint(i) {
			starIdx = i
		}
	}
	for _, role := range c04Roles {
		b := st.bounds[role.Field]
		if b == nil {
			continue // the pairing rule could not tell which table belongs to this field (reported there)
		}
		construct := "cron field table of " + role.Field + ": range"
		wantMin, wantMax := uint64(0), uint64(59)
		src := "the range of time.Time.Second (no row in doc.go)"
		if role.DocField != "" {
			row := rowOf[role.DocField]
			if row == nil {
				undecided("doc.go: row '%s' of the 'Allowed values' table not found", role.DocField)
			}
			wantMin, wantMax = row.Min, row.Max
			src = fmt.Sprintf("doc.go row '%s'", role.DocField)
		}
		switch {
		case b.Min != wantMin || b.Max != wantMax:
			what := "values outside the documented range are accepted instead of refused"
			if b.Min > wantMin || b.Max < wantMax {
				what = "'*' and open ranges no longer cover every documented value of the field (and documented values are refused)"
			}
			r.Violation("C04.P1-bounds", construct, p.Pos(b.Pos), fmt.Sprintf("cron.%s (the table the %s column is parsed with) is %d-%d but %s says %d-%d: %s", b.Name, role.Field, b.Min, b.Max, src, wantMin, wantMax, what))
		case st.starBit != 0 && (starIdx < 0 || int(b.Max) >= starIdx):
			r.Violation("C04.P1-bounds", construct, p.Pos(b.Pos), fmt.Sprintf("cron.%s reaches bit %d which collides with the star bit %#x", b.Name, b.Max, st.starBit))
		default:
			r.OK("C04.P1-bounds", construct, p.Pos(b.Pos), fmt.Sprintf("%d-%d = %s", b.Min, b.Max, src))
		}
	}
	// names
	timePkg := p.All["time"]
	if timePkg == nil {
		undecided("package time not loaded")
	}
	for _, nm := range []struct{ field, typ string }{{"Month", "Month"}, {"Dow", "Weekday"}} {
		role := c04RoleOf(nm.field)
		b := st.bounds[nm.field]
		if b == nil {
			continue
		}
		construct := "cron field table of " + role.Field + ": names"
		row := rowOf[role.DocField]
		// constants of time.<typ>
		want := map[string]uint64{} // lower-case 3-letter prefix -> value
		full := map[string]string{}
		scope := timePkg.Types.Scope()
		for _, n := range scope.Names() {
			cst, ok := scope.Lookup(n).(*types.Const)
			if !ok || !cst.Exported() {
				continue
			}
			if named, ok := cst.Type().(*types.Named); !ok || named.Obj().Name() != nm.typ || named.Obj().Pkg().Path() != "time" {
				continue
			}
			v, _ := constant.Uint64Val(cst.Val())
			k := strings.ToLower(n)
			if len(k) > 3 {
				k = k[:3]
			}
			want[k] = v
			full[k] = n
		}
		var problems []string
		for k, v := range b.Names {
			w, ok := want[strings.ToLower(k)]
			switch {
			case !ok:
				problems = append(problems, fmt.Sprintf("name %q is not the abbreviation of any time.%s", k, nm.typ))
			case w != v:
				problems = append(problems, fmt.Sprintf("name %q maps to %d but Next compares with time.%s = %d", k, v, full[strings.ToLower(k)], w))
			case k != strings.ToLower(k):
				r.Note("cron.%s: name key %q is not lower-case (lookups are lower-cased)", b.Name, k)
			}
		}
		for k, n := range full {
			if _, ok := b.Names[k]; !ok {
				if _, ok2 := b.Names[strings.ToUpper(k)]; !ok2 {
					problems = append(problems, fmt.Sprintf("documented name %s (time.%s) is missing", strings.ToUpper(k), n))
				}
			}
		}
		if row != nil && row.NameLo != "" {
			lo, okLo := b.Names[strings.ToLower(row.NameLo)]
			hi, okHi := b.Names[strings.ToLower(row.NameHi)]
			if !okLo || !okHi || lo != b.Min || hi != b.Max {
				problems = append(problems, fmt.Sprintf("doc.go documents %s-%s as the names of %d-%d", row.NameLo, row.NameHi, row.Min, row.Max))
			}
		}
		sort.Strings(problems)
		r.Check(len(problems) == 0, "C04.P1-names", construct, p.Pos(b.Pos),
			fmt.Sprintf("%d names agree with time.%s and doc.go", len(b.Names), nm.typ), strings.Join(problems, "; "))
	}
}

func (st *c04State) checkLists() {
	r, p := st.r, st.p
	_, pos := c04PkgVarInit(p.Pkg("cron"), st.placesVar)
	var got []string
	for _, e := range st.places {
		got = append(got, e.ConstName)
	}
	var want []string
	for _, role := range c04Roles {
		want = append(want, role.Field)
	}
	r.Check(strings.Join(got, ",") == strings.Join(want, ","), "C04.P2-lists", "cron column order list", p.Pos(pos),
		"cron."+st.placesVar+" = "+strings.Join(got, ","), "cron."+st.placesVar+" is "+strings.Join(got, ",")+" but the expression columns are "+strings.Join(want, ",")+": the columns are handed to the wrong fields")
	_, dpos := c04PkgVarInit(p.Pkg("cron"), st.defsVar)
	for i, role := range c04Roles {
		construct := "cron column defaults[" + role.Field + "]"
		if i >= len(st.defs) {
			r.Violation("C04.P2-lists", construct, p.Pos(dpos), "cron."+st.defsVar+" has no entry for this field: an omitted "+role.Field+" column is parsed from an empty string")
			continue
		}
		d := st.defs[i]
		b := st.bounds[role.Field]
		ok := d.IsStr && (d.Str == "*" || d.Str == "?")
		if d.IsStr && !ok {
			if b == nil {
				continue // the table of this field is not known (pairing undecided)
			}
			if n, err := strconv.ParseUint(d.Str, 10, 64); err == nil && n >= b.Min && n <= b.Max {
				ok = true
			}
		}
		lo, hi := uint64(0), uint64(0)
		if b != nil {
			lo, hi = b.Min, b.Max
		}
		r.Check(ok, "C04.P2-lists", construct, p.Pos(dpos), "default "+strconv.Quote(d.Str)+" is within bounds",
			fmt.Sprintf("default %q of an omitted %s column is not '*' nor a number in %d-%d: every expression for a parser without that column is refused or misread", d.Str, role.Field, lo, hi))
	}
	if len(st.defs) != len(c04Roles) {
		r.Violation("C04.P2-lists", "cron column defaults length", p.Pos(dpos), fmt.Sprintf("cron.%s has %d entries for %d fields", st.defsVar, len(st.defs), len(c04Roles)))
	}
}

// ---------------------------------------------------------------------------
// P2 pairing in Parse

// parseTerms builds the terms of Parse's results. Three roles are kept as
// opaque call nodes instead of being inlined, recognised by their types:
// the column parser (takes a string and a field table), the normaliser
// (returns a []string) and the descriptor function (takes a *time.Location and
// returns an interface value).
func (st *c04State) parseTerms() (tb *c04TermBuilder, root *c04Frame2, results [][]*c04T) {
	p := st.p
	parse := p.Func("cron", "Parser.Parse")
	tb = newC04TermBuilder(p)
	tb.Opaque = func(f *ssa.Function) bool {
		sig := f.Signature
		hasStr, hasTable, hasLoc := false, false, false
		for i := 0; i < sig.Params().Len(); i++ {
			t := sig.Params().At(i).Type()
			if bt, ok := t.Underlying().(*types.Basic); ok && bt.Kind() == types.String {
				hasStr = true
			}
			if namedKey(t) == st.boundsKey {
				hasTable = true
			}
			if namedKey(t) == "time.Location" {
				hasLoc = true
			}
		}
		if hasStr && hasTable {
			return true
		}
		if sig.Results().Len() > 0 {
			r0 := sig.Results().At(0).Type()
			if sl, ok := r0.Underlying().(*types.Slice); ok {
				if bt, ok := sl.Elem().Underlying().(*types.Basic); ok && bt.Kind() == types.String {
					return true
				}
			}
			if _, isIface := r0.Underlying().(*types.Interface); isIface && hasLoc && hasStr {
				return true
			}
		}
		return false
	}
	root = tb.Root(parse)
	for _, b := range parse.Blocks {
		if len(b.Instrs) == 0 {
			continue
		}
		if ret, ok := b.Instrs[len(b.Instrs)-1].(*ssa.Return); ok {
			var row []*c04T
			for _, rv := range ret.Results {
				row = append(row, tb.Term(root, rv))
			}
			results = append(results, row)
		}
	}
	return
}

// resolveParseRoles finds the normaliser and the descriptor function among the opaque calls of Parse.
func (st *c04State) resolveParseRoles(results [][]*c04T) {
	p := st.p
	for _, row := range results {
		for _, t := range row {
			t.walk(func(x *c04T) {
				if x.Op != "call" {
					return
				}
				c, ok := x.Src.(*ssa.Call)
				if !ok {
					return
				}
				f := staticCallee(c)
				if f == nil {
					return
				}
				sig := f.Signature
				if sig.Results().Len() == 0 {
					return
				}
				r0 := sig.Results().At(0).Type()
				if _, ok := r0.Underlying().(*types.Slice); ok && st.normaliser == nil {
					st.normaliser = f
					st.normaliserFieldsArg = -1
					for i, a := range x.Args {
						if a.contains(func(y *c04T) bool { return y.Op == "ext:strings.Fields" }) {
							st.normaliserFieldsArg = i
						}
					}
				}
				if _, ok := r0.Underlying().(*types.Interface); ok && st.descFn == nil {
					st.descFn = f
				}
			})
		}
	}
	_ = p
}

// c04PairVerdict is what the pairing rule found for one SpecSchedule field.
type c04PairVerdict struct {
	kind    string // "ok" | "zero" | "undecided"
	col     int
	table   string
	at      *c04T
	problem string
}

// pairingOf reads, from SpecSchedule values given as terms, the (column, table) each field is parsed from.
func (st *c04State) pairingOf(lits []*c04T, idxOf map[string]int) map[string]c04PairVerdict {
	out := map[string]c04PairVerdict{}
	for _, role := range c04Roles {
		type pair struct {
			col   int
			table string
		}
		pairs := map[pair]*c04T{}
		problem := ""
		zero := false
		for _, lit := range lits {
			ft := lit.Args[idxOf[role.Field]]
			if ft.Op == "const" && (strings.HasPrefix(ft.Name, "zero:") || (ft.IsK && ft.K == 0)) {
				zero = true
				continue
			}
			nCalls := 0
			ft.walk(func(x *c04T) {
				if x.Op != "call" {
					return
				}
				// a column parser call: one argument is cols[const], another a table
				col, table := -1, ""
				for _, a := range x.Args {
					if a.Op == "index" && len(a.Args) == 2 && a.Args[1].IsK {
						if a.Args[0].contains(func(y *c04T) bool { return y.Op == "call" }) {
							col = int(a.Args[1].K)
						}
					}
					if (a.Op == "global" || a.Op == "addr-global") && strings.HasPrefix(a.Name, st.pkgPath+".") {
						if n := strings.TrimPrefix(a.Name, st.pkgPath+"."); st.tables[n] != nil {
							table = n
						}
					}
					if a.Op == "table" && st.tables[a.Name] != nil {
						table = a.Name
					}
				}
				if col >= 0 && table != "" {
					nCalls++
					pairs[pair{col, table}] = x
				}
			})
			if nCalls == 0 {
				problem = "the value stored into SpecSchedule." + role.Field + " is not the result of parsing normalised column [const] with a package-level field table"
			}
		}
		switch {
		case zero && len(pairs) == 0 && problem == "":
			out[role.Field] = c04PairVerdict{kind: "zero"}
		case problem != "" || len(pairs) != 1:
			if problem == "" {
				problem = "SpecSchedule." + role.Field + " is built from several different column/table pairs"
			}
			out[role.Field] = c04PairVerdict{kind: "undecided", problem: problem}
		default:
			for pr, t := range pairs {
				out[role.Field] = c04PairVerdict{kind: "ok", col: pr.col, table: pr.table, at: t}
			}
		}
	}
	return out
}

func (st *c04State) checkPairing() {
	r, p := st.r, st.p
	parse := p.Func("cron", "Parser.Parse")
	_, _, results := st.parseTerms()
	st.parseResults = results
	st.resolveParseRoles(results)
	specT := p.Named("cron", "SpecSchedule").Underlying().(*types.Struct)
	idxOf := map[string]int{}
	for i := 0; i < specT.NumFields(); i++ {
		idxOf[specT.Field(i).Name()] = i
	}
	// (1) the SpecSchedule literals Parse itself builds (directly or through an inlined constructor
	// helper), read from the terms of its results
	var lits []*c04T
	for _, row := range results {
		if len(row) == 0 {
			continue
		}
		for _, alt := range row[0].alts() {
			if alt.Op == "struct" && alt.Name == st.spec {
				lits = append(lits, alt)
			}
		}
	}
	verdicts := map[string]c04PairVerdict{}
	allDecided := len(lits) > 0
	if len(lits) > 0 {
		verdicts = st.pairingOf(lits, idxOf)
		for _, v := range verdicts {
			if v.kind == "undecided" {
				allDecided = false
			}
		}
	}
	// (2) otherwise: abstract interpretation of Parse (state kept in an accumulator, a loop over a
	// literal table of field tables, ...)
	if !allDecided {
		outs, why := st.exploreParse()
		if len(outs) > 0 {
			var slits []*c04T
			for _, o := range outs {
				if len(o.Fields) == specT.NumFields() {
					slits = append(slits, &c04T{Op: "struct", Name: st.spec, Args: o.Fields})
				}
			}
			if len(slits) > 0 {
				lits = slits
				verdicts = st.pairingOf(lits, idxOf)
			}
		} else if len(lits) == 0 {
			r.Undecide("Parser.Parse: no SpecSchedule built by Parse reaches its result in a form that can be traced (%s): the column/table/field pairing is not decided", why)
			return
		}
	}
	st.parseLits = lits
	posOf := func(t *c04T) token.Pos {
		if t != nil && t.Src != nil && t.Src.Pos().IsValid() {
			return t.Src.Pos()
		}
		return parse.Pos()
	}
	for _, role := range c04Roles {
		construct := "cron.Parser.Parse -> SpecSchedule." + role.Field
		v := verdicts[role.Field]
		switch v.kind {
		case "zero":
			r.Violation("C04.P2-pairing", construct, p.Pos(parse.Pos()), "Parse never sets SpecSchedule."+role.Field+": the "+role.Field+" column of every expression is ignored (the zero set matches nothing)")
		case "ok":
			col := "?"
			if v.col < len(st.places) {
				col = st.places[v.col].ConstName
			}
			if col != role.Field {
				r.Violation("C04.P2-pairing", construct, p.Pos(posOf(v.at)), fmt.Sprintf("SpecSchedule.%s is parsed from expression column #%d, which the normaliser fills with the %s column", role.Field, v.col, col))
				continue
			}
			// the table this field is parsed with defines "the table of F"; its contents are checked against doc.go by P1
			st.bounds[role.Field] = st.tables[v.table]
			r.OK("C04.P2-pairing", construct, p.Pos(posOf(v.at)), fmt.Sprintf("column #%d (%s) parsed with the table cron.%s", v.col, col, v.table))
		default:
			r.Undecide("Parser.Parse: %s", v.problem)
		}
	}
}

// ---------------------------------------------------------------------------
// P3 matcher

func c04Strip(v ssa.Value) ssa.Value {
	for {
		switch x := v.(type) {
		case *ssa.Convert:
			v = x.X
		case *ssa.ChangeType:
			v = x.X
		default:
			return v
		}
	}
}

// c04TimeCall: v (through conversions) is a call of the time.Time method; returns its name and receiver.
func c04TimeCall(v ssa.Value) (string, *ssa.Call, bool) {
	call, ok := c04Strip(v).(*ssa.Call)
	if !ok {
		return "", nil, false
	}
	obj := calleeObj(call)
	if obj == nil || obj.Pkg() == nil || obj.Pkg().Path() != "time" {
		return "", nil, false
	}
	sig := obj.Type().(*types.Signature)
	if sig.Recv() == nil || typeBaseName(sig.Recv().Type()) != "Time" {
		return "", nil, false
	}
	return obj.Name(), call, true
}

// ---------------------------------------------------------------------------
// D1 descriptors

func (st *c04State) evalGlobals() map[*ssa.Global]any {
	g := map[*ssa.Global]any{}
	sp := st.p.SSA.Package(st.p.Pkg("cron").Types)
	stt := st.boundsT.Underlying().(*types.Struct)
	var build func(stt *types.Struct, prefix string, b *c04Bounds) *c04Struct
	build = func(stt *types.Struct, prefix string, b *c04Bounds) *c04Struct {
		sv := &c04Struct{}
		for i := 0; i < stt.NumFields(); i++ {
			fld := stt.Field(i)
			path := prefix + fld.Name()
			switch {
			case path == st.namesF:
				sv.F = append(sv.F, c04Poison{"names map"})
			default:
				if inner, ok := fld.Type().Underlying().(*types.Struct); ok {
					in := build(inner, path+".", b)
					in.Type = namedKey(fld.Type())
					sv.F = append(sv.F, in)
				} else {
					sv.F = append(sv.F, c04MkInt(fld.Type(), b.Fields[path]))
				}
			}
		}
		return sv
	}
	for name, b := range st.tables {
		gv, ok := sp.Members[name].(*ssa.Global)
		if !ok {
			continue
		}
		sv := build(stt, "", b)
		sv.Type = st.boundsKey
		g[gv] = sv
	}
	return g
}

// descriptorFn: the function Parse hands "@..." expressions to (role: takes
// the descriptor and a *time.Location, returns a Schedule).
func (st *c04State) descriptorFn() *ssa.Function {
	if st.descFn == nil {
		st.r.Undecide("Parser.Parse: the function that turns '@...' descriptors into schedules (takes a *time.Location, returns a Schedule) was not found among its calls")
	}
	return st.descFn
}

// descArgs builds the argument list (descriptor string, location) for the descriptor function.
func c04DescArgs(pd *ssa.Function, name string, loc any) ([]any, bool) {
	args := make([]any, len(pd.Params))
	nStr, nLoc := 0, 0
	for i, par := range pd.Params {
		switch {
		case namedKey(par.Type()) == "time.Location":
			args[i] = loc
			nLoc++
		default:
			if bt, ok := par.Type().Underlying().(*types.Basic); ok && bt.Kind() == types.String {
				args[i] = name
				nStr++
			} else {
				args[i] = c04Poison{"parameter " + par.Name()}
			}
		}
	}
	return args, nStr == 1 && nLoc == 1
}

func (st *c04State) checkDescriptors() {
	r, p := st.r, st.p
	pkg := p.Pkg("cron")
	doc, _ := c04PackageDoc(pkg)
	_, descs, why := c04ParseDoc(doc)
	if why != "" || len(descs) == 0 {
		undecided("doc.go: the 'Predefined schedules' table was not found (%s)", why)
	}
	pd := st.descriptorFn()
	if pd == nil {
		return
	}
	if st.starBit == 0 {
		r.Undecide("the star bit (the mask Next tests Dom/Dow with) is not known: descriptors cannot be compared")
		return
	}
	specT := p.Named("cron", "SpecSchedule").Underlying().(*types.Struct)
	fieldIdx := map[string]int{}
	for i := 0; i < specT.NumFields(); i++ {
		fieldIdx[specT.Field(i).Name()] = i
	}
	globals := st.evalGlobals()
	// The encoding is fixed by the matcher: Next tests value v of field F with bit 1<<v
	// (P3) and reads "the field is '*'" from the star bit (N1). So a number n encodes as
	// 1<<n and '*' as every bit of the documented range plus the star bit.
	enc := func(role c04Role, term string) (uint64, string) {
		b := st.bounds[role.Field]
		if b == nil {
			return 0, "the field table of " + role.Field + " is not known"
		}
		if term == "*" || term == "?" {
			var v uint64
			for i := b.Min; i <= b.Max && i < 64; i++ {
				v |= 1 << i
			}
			return v | st.starBit, ""
		}
		n, err := strconv.ParseUint(term, 10, 64)
		if err != nil || n > 62 {
			return 0, "doc.go: term '" + term + "' of an equivalent expression is neither a number nor '*'"
		}
		return 1 << n, ""
	}
	for _, d := range descs {
		if len(d.Equiv) != 5 {
			undecided("doc.go: equivalent expression of %s does not have five fields", d.Names[0])
		}
		terms := append([]string{"0"}, d.Equiv...) // seconds: the default of an omitted seconds column
		if len(st.defs) > 0 && st.defs[0].IsStr {
			terms[0] = st.defs[0].Str
		}
		for _, name := range d.Names {
			construct := "cron descriptor " + name
			args, okArgs := c04DescArgs(pd, name, c04Sym{"loc"})
			if !okArgs {
				r.Undecide("%s does not take exactly one string and one *time.Location", FuncName(p, pd))
				return
			}
			ev := &c04Eval{Globals: globals, GlobalCells: st.globalCells(), InModule: c04InMod(p)}
			res, err := ev.Run(pd, args)
			if err != nil {
				r.Undecide("%s(%q) does not fold to a constant schedule: %v", FuncName(p, pd), name, err)
				continue
			}
			tup, ok := res.(c04Tuple)
			if !ok || len(tup) != 2 {
				r.Undecide("%s(%q): unexpected result shape", FuncName(p, pd), name)
				continue
			}
			if _, isNil := tup[1].(c04Nil); !isNil {
				r.Violation("C04.D1-descriptors", construct, p.Pos(pd.Pos()), "the documented descriptor "+name+" is not recognised by "+FuncName(p, pd)+" (folds to the error path)")
				continue
			}
			ptr, ok := tup[0].(c04Ptr)
			var sv *c04Struct
			if ok {
				sv, _ = c04load(ptr).(*c04Struct)
			}
			if sv == nil {
				r.Undecide("%s(%q) does not return a SpecSchedule literal", FuncName(p, pd), name)
				continue
			}
			var diffs []string
			undec := false
			for i, role := range c04Roles {
				want, w := enc(role, terms[i])
				if w != "" {
					r.Undecide("descriptor %s: %s", name, w)
					undec = true
					break
				}
				got, ok := sv.F[fieldIdx[role.Field]].(c04Int)
				if !ok {
					r.Undecide("%s(%q): SpecSchedule.%s does not fold to a constant (%s)", FuncName(p, pd), name, role.Field, c04Describe(sv.F[fieldIdx[role.Field]]))
					undec = true
					break
				}
				if got.V != want {
					extra := ""
					if got.V|st.starBit == want {
						extra = " (the star bit is missing: the day rule treats this '*' as a restriction)"
					}
					diffs = append(diffs, fmt.Sprintf("%s=%#x, but '%s' encodes as %#x%s", role.Field, got.V, terms[i], want, extra))
				}
			}
			if undec {
				continue
			}
			r.Check(len(diffs) == 0, "C04.D1-descriptors", construct, p.Pos(pd.Pos()), "= "+strings.Join(terms, " "),
				fmt.Sprintf("%s is documented as '%s' but the schedule built for it has %s", name, strings.Join(d.Equiv, " "), strings.Join(diffs, "; ")))
		}
	}
}

// checkOptional: normalizeFields fills an omitted optional column (SecondOptional
// / DowOptional) with the default of the Second / Dow field, prepended resp. appended.
func (st *c04State) checkOptional() {
	r, p := st.r, st.p
	nf := st.normaliser
	if nf == nil || st.normaliserFieldsArg < 0 || st.normaliserFieldsArg >= len(nf.Params) {
		r.Undecide("Parser.Parse: the function that expands the raw columns (takes the result of strings.Fields, returns []string) was not found: the filling of omitted optional columns cannot be checked")
		return
	}
	pkg := p.Pkg("cron")
	optVal := map[string]uint64{}
	for _, n := range []string{"SecondOptional", "DowOptional"} {
		c, ok := pkg.Types.Scope().Lookup(n).(*types.Const)
		if !ok {
			undecided("anchor constant cron.%s no longer resolves", n)
		}
		v, _ := constant.Uint64Val(constant.ToInt(c.Val()))
		optVal[n] = v
	}
	twin := map[string]string{"SecondOptional": "Second", "DowOptional": "Dow"}
	idxOf := func(field string) int {
		for i, e := range st.places {
			if e.ConstName == field {
				return i
			}
		}
		return -1
	}
	// the normaliser and the helpers it hands the columns to, each with the parameter holding the columns
	type scope struct {
		fn  *ssa.Function
		par *ssa.Parameter
	}
	scopes := []scope{{nf, nf.Params[st.normaliserFieldsArg]}}
	derives := func(par *ssa.Parameter) func(ssa.Value) bool {
		return func(v ssa.Value) bool {
			return c04ThroughPhis(v, func(x ssa.Value) bool {
				if x == ssa.Value(par) {
					return true
				}
				if sl, ok := x.(*ssa.Slice); ok && sl.X == ssa.Value(par) {
					return true
				}
				return false
			})
		}
	}
	for i := 0; i < len(scopes) && i < 16; i++ {
		sc := scopes[i]
		from := derives(sc.par)
		allInstrs(sc.fn, func(in ssa.Instruction) {
			c, ok := in.(*ssa.Call)
			if !ok {
				return
			}
			g := staticCallee(c)
			if g == nil || !p.InModule(g) || len(g.Blocks) == 0 {
				return
			}
			for ai, a := range c.Call.Args {
				if from(a) && ai < len(g.Params) {
					dup := false
					for _, o := range scopes {
						if o.fn == g {
							dup = true
						}
					}
					if !dup {
						scopes = append(scopes, scope{g, g.Params[ai]})
					}
				}
			}
		})
	}
	seen := map[string]bool{}
	for _, sc := range scopes {
		st.scanOptional(sc.fn, sc.par, optVal, twin, idxOf, seen)
	}
	for _, n := range []string{"SecondOptional", "DowOptional"} {
		if !seen[n] {
			r.Undecide("%s: no defaults[const] load under a test of %s found", FuncName(p, nf), n)
		}
	}
}

// scanOptional looks, in function nf whose parameter fieldsPar holds the given
// columns, for the filling of an omitted optional column.
func (st *c04State) scanOptional(nf *ssa.Function, fieldsPar *ssa.Parameter, optVal map[string]uint64, twin map[string]string, idxOf func(string) int, seen map[string]bool) {
	r, p := st.r, st.p
	rule := "C04.P2-optional"
	fromFields := func(v ssa.Value) bool {
		return c04ThroughPhis(v, func(x ssa.Value) bool {
			if x == ssa.Value(fieldsPar) {
				return true
			}
			if sl, ok := x.(*ssa.Slice); ok && sl.X == ssa.Value(fieldsPar) {
				return true
			}
			return false
		})
	}
	allInstrs(nf, func(in ssa.Instruction) {
		ld, ok := in.(*ssa.UnOp)
		if !ok || ld.Op != token.MUL {
			return
		}
		ia, ok := ld.X.(*ssa.IndexAddr)
		if !ok {
			return
		}
		k, isK := c04ConstInt(ia.Index)
		gl, ok2 := ia.X.(*ssa.UnOp)
		if !isK || !ok2 || gl.Op != token.MUL {
			return
		}
		g, ok := gl.X.(*ssa.Global)
		if !ok || g.Name() != st.defsVar || g.Pkg == nil || g.Pkg.Pkg.Path() != st.pkgPath {
			return
		}
		// which option test dominates this load?
		opt := ""
		for _, dc := range c04DomConds(ld.Block()) {
			cmp, ok := decodeCond(dc.If.Cond, dc.Branch)
			if !ok {
				continue
			}
			and, ok := cmp.X.(*ssa.BinOp)
			kz, isZ := c04ConstInt(cmp.Y)
			if !ok || and.Op != token.AND || !isZ {
				continue
			}
			// options&C > 0, != 0, or == C
			if !((kz == 0 && (cmp.Op == token.GTR || cmp.Op == token.NEQ)) || (kz != 0 && cmp.Op == token.EQL)) {
				continue
			}
			for _, side := range []ssa.Value{and.X, and.Y} {
				if c, ok := c04ConstInt(side); ok {
					for n, v := range optVal {
						if uint64(c) == v {
							opt = n
						}
					}
				}
			}
		}
		if opt == "" {
			return
		}
		construct := "cron omitted " + opt + " column"
		seen[opt] = true
		ti := idxOf(twin[opt])
		if ti < 0 || int(k) >= len(st.defs) || ti >= len(st.defs) {
			r.Undecide("%s: index out of the defaults/places tables", construct)
			return
		}
		if st.defs[k].Str != st.defs[ti].Str {
			r.Violation(rule, construct, p.Pos(instrPos(ld)), fmt.Sprintf("an omitted %s column is filled with defaults[%d] = %q, but the default of the %s field is %q: a parser with %s reads e.g. a missing day-of-week as %q instead of %q", twin[opt], k, st.defs[k].Str, twin[opt], st.defs[ti].Str, opt, st.defs[k].Str, st.defs[ti].Str))
			return
		}
		// where does it go? find the call that joins the default and the given columns:
		// append(a, b...), slices.Concat(a, b, ...), slices.Insert(s, 0 | len(s), v...)
		var fromDefault func(v ssa.Value, depth int) bool
		fromDefault = func(v ssa.Value, depth int) bool {
			if v == ssa.Value(ld) {
				return true
			}
			if depth > 3 {
				return false
			}
			switch x := v.(type) {
			case *ssa.Slice:
				return fromDefault(x.X, depth+1)
			case *ssa.Alloc:
				for _, ref := range c04RealRefs(x) {
					if ia, ok := ref.(*ssa.IndexAddr); ok {
						for _, r2 := range c04RealRefs(ia) {
							if st2, ok := r2.(*ssa.Store); ok && st2.Addr == ssa.Value(ia) && fromDefault(st2.Val, depth+1) {
								return true
							}
						}
					}
				}
			case *ssa.Phi:
				for _, e := range x.Edges {
					if fromDefault(e, depth+1) {
						return true
					}
				}
			}
			return false
		}
		// elements of a variadic argument (slice of a freshly built array), in index order
		variadicElems := func(v ssa.Value) []ssa.Value {
			sl, ok := v.(*ssa.Slice)
			if !ok {
				return nil
			}
			arr, ok := sl.X.(*ssa.Alloc)
			if !ok {
				return nil
			}
			elems := map[int64]ssa.Value{}
			max := int64(-1)
			for _, ref := range c04RealRefs(arr) {
				if ia, ok := ref.(*ssa.IndexAddr); ok {
					if k, ok := c04ConstInt(ia.Index); ok {
						for _, r2 := range c04RealRefs(ia) {
							if st2, ok := r2.(*ssa.Store); ok && st2.Addr == ssa.Value(ia) {
								elems[k] = st2.Val
								if k > max {
									max = k
								}
							}
						}
					}
				}
			}
			var out []ssa.Value
			for i := int64(0); i <= max; i++ {
				out = append(out, elems[i])
			}
			return out
		}
		var order []ssa.Value // the joined pieces, first to last
		var app *ssa.Call
		for _, b := range nf.Blocks {
			if b != ld.Block() && !ld.Block().Dominates(b) {
				continue
			}
			for _, i2 := range b.Instrs {
				c, ok := i2.(*ssa.Call)
				if !ok {
					continue
				}
				var pieces []ssa.Value
				switch {
				case builtinName(c) == "append" && len(c.Call.Args) == 2:
					pieces = []ssa.Value{c.Call.Args[0], c.Call.Args[1]}
				case callIs(c, "slices", "", "Concat") && len(c.Call.Args) == 1:
					pieces = variadicElems(c.Call.Args[0])
				case callIs(c, "slices", "", "Insert") && len(c.Call.Args) == 3:
					vals := c.Call.Args[2]
					if k, ok := c04ConstInt(c.Call.Args[1]); ok && k == 0 {
						pieces = []ssa.Value{vals, c.Call.Args[0]}
					} else if lc, ok := c.Call.Args[1].(*ssa.Call); ok && builtinName(lc) == "len" && lc.Call.Args[0] == c.Call.Args[0] {
						pieces = []ssa.Value{c.Call.Args[0], vals}
					}
				}
				hasD, hasF := false, false
				for _, pc := range pieces {
					if pc == nil {
						continue
					}
					hasD = hasD || fromDefault(pc, 0)
					hasF = hasF || fromFields(pc)
				}
				if hasD && hasF {
					app, order = c, pieces
				}
			}
		}
		if app == nil {
			r.Undecide("%s: the call that inserts the default among the given columns (append, slices.Concat, slices.Insert) was not found", construct)
			return
		}
		appended, prepended := false, false
		seenFields := false
		for _, pc := range order {
			if pc == nil {
				continue
			}
			if fromFields(pc) {
				seenFields = true
			} else if fromDefault(pc, 0) {
				if seenFields {
					appended = true
				} else {
					prepended = true
				}
			}
		}
		wantAppend := ti == len(st.places)-1
		wantPrepend := ti == 0
		switch {
		case appended == prepended:
			r.Undecide("%s: cannot tell whether the default is appended or prepended", construct)
		case (wantAppend && appended) || (wantPrepend && prepended):
			r.OK(rule, construct, p.Pos(instrPos(ld)), fmt.Sprintf("filled with the default of %s (%q) at the position of that column", twin[opt], st.defs[ti].Str))
		default:
			r.Violation(rule, construct, p.Pos(instrPos(app)), fmt.Sprintf("the default of the omitted %s column is inserted at the wrong end of the expression: every given column shifts into the neighbouring field", twin[opt]))
		}
	})
}

// c04Sym is an opaque symbolic argument for the constant evaluator.
type c04Sym struct{ Name string }

// checkLocation: D3.
func (st *c04State) checkLocation() {
	r, p := st.r, st.p
	rule := "C04.D3-location"
	pkg := p.Pkg("cron")
	doc, _ := c04PackageDoc(pkg)
	_, descs, _ := c04ParseDoc(doc)
	pd := st.descFn
	specT := p.Named("cron", "SpecSchedule").Underlying().(*types.Struct)
	locIdx := -1
	for i := 0; i < specT.NumFields(); i++ {
		if specT.Field(i).Name() == "Location" {
			locIdx = i
		}
	}
	if locIdx < 0 {
		undecided("anchor field cron.SpecSchedule.Location no longer resolves")
	}
	// which parameter of the descriptor function is the location?
	locPar := -1
	if pd != nil {
		for i, par := range pd.Params {
			if namedKey(par.Type()) == "time.Location" {
				locPar = i
			}
		}
	}
	if pd == nil {
		// reported by the descriptors rule
	} else if _, okArgs := c04DescArgs(pd, "", nil); !okArgs {
		r.Undecide("%s no longer takes (descriptor, *time.Location)", FuncName(p, pd))
	} else {
		globals := st.evalGlobals()
		if tp := p.All["time"]; tp != nil {
			if sp := p.SSA.Package(tp.Types); sp != nil {
				for _, n := range []string{"Local", "UTC"} {
					if g, ok := sp.Members[n].(*ssa.Global); ok {
						globals[g] = c04Sym{"time." + n}
					}
				}
			}
		}
		sentinel := c04Sym{"loc"}
		for _, d := range descs {
			for _, name := range d.Names {
				construct := "cron descriptor " + name + " Location"
				args, _ := c04DescArgs(pd, name, sentinel)
				ev := &c04Eval{Globals: globals, GlobalCells: st.globalCells(), InModule: c04InMod(p)}
				res, err := ev.Run(pd, args)
				if err != nil {
					r.Undecide("%s(%q) does not fold: %v", FuncName(p, pd), name, err)
					continue
				}
				tup, ok := res.(c04Tuple)
				var sv *c04Struct
				if ok && len(tup) == 2 {
					if ptr, ok := tup[0].(c04Ptr); ok {
						sv, _ = c04load(ptr).(*c04Struct)
					}
				}
				if sv == nil {
					// D1 reports a descriptor that is not recognised
					r.Undecide("%s(%q) does not return a SpecSchedule literal", FuncName(p, pd), name)
					continue
				}
				got := sv.F[locIdx]
				if got == any(sentinel) {
					r.OK(rule, construct, p.Pos(pd.Pos()), "Location = the loc parameter")
				} else {
					what := c04Describe(got)
					if _, isNil := got.(c04Nil); isNil {
						what = "left nil"
					}
					if sym, isSym := got.(c04Sym); isSym {
						what = sym.Name
					}
					r.Violation(rule, construct, p.Pos(pd.Pos()), "the SpecSchedule built for "+name+" does not carry the location handed to the descriptor function (Location is "+what+"): 'CRON_TZ=Asia/Tokyo "+name+"' is interpreted on the wall clock of another zone (time.Local means the zone of the instant passed to Next), or Next fails on a nil location")
				}
			}
		}
	}
	// Parse: the location stored in its own SpecSchedule and the one handed to the descriptor function
	parse := p.Func("cron", "Parser.Parse")
	hasLoadLoc := false
	for _, fn := range st.parserFuncs() {
		allInstrs(fn, func(in ssa.Instruction) {
			if c, ok := in.(*ssa.Call); ok && callIs(c, "time", "", "LoadLocation") {
				hasLoadLoc = true
			}
		})
	}
	judge := func(construct string, lt *c04T, what string) {
		parsed, local := false, false
		bad, unk := "", ""
		for _, alt := range lt.alts() {
			switch {
			case (alt.Op == "global" || alt.Op == "leaf") && alt.Name == "time.Local":
				local = true
			case (alt.Op == "global" || alt.Op == "leaf") && strings.HasPrefix(alt.Name, "time."):
				bad = alt.Name
			case alt.Op == "extract" && alt.IsK && alt.K == 0 && len(alt.Args) == 1 && alt.Args[0].Op == "ext:time.LoadLocation":
				parsed = true
			default:
				unk = alt.Op + " " + alt.Name
			}
		}
		pos := c04TermPos(p, lt, parse.Pos())
		switch {
		case unk != "":
			r.Undecide("%s: %s can be %s, neither time.Local nor the result of time.LoadLocation", construct, what, unk)
		case bad != "":
			r.Violation(rule, construct, pos, what+" can be "+bad+": without a TZ=/CRON_TZ= prefix the documented zone is time.Local (the zone of the instant given to Next), not a fixed zone")
		case hasLoadLoc && !parsed:
			r.Violation(rule, construct, pos, what+" never is the location parsed from the TZ=/CRON_TZ= prefix (the result of time.LoadLocation is dropped): 'CRON_TZ=Asia/Tokyo 0 6 * * ?' fires at 06:00 local time")
		case !local && !hasLoadLoc:
			r.Undecide("%s: the parser no longer parses a time zone prefix with time.LoadLocation", construct)
		case !local:
			r.Violation(rule, construct, pos, what+" is never time.Local: expressions without a TZ= prefix are not interpreted in the local zone as documented")
		default:
			r.OK(rule, construct, pos, what+" is the parsed TZ=/CRON_TZ= location, or time.Local without prefix")
		}
	}
	c1 := "cron.Parser.Parse -> SpecSchedule.Location"
	if len(st.parseLits) == 0 {
		r.Undecide("Parser.Parse: no SpecSchedule built by Parse reaches its result: its Location cannot be traced")
	} else {
		var alts []*c04T
		for _, lit := range st.parseLits {
			alts = append(alts, lit.Args[locIdx])
		}
		lt := c04Choice(alts)
		if lt.Op == "const" && strings.HasPrefix(lt.Name, "zero:") {
			r.Violation(rule, c1, p.Pos(parse.Pos()), "Parse never sets SpecSchedule.Location: Next fails on (or ignores) the schedule's time zone")
		} else {
			judge(c1, lt, "the Location stored by Parse")
		}
	}
	c2 := "cron.Parser.Parse -> descriptor function loc"
	var pdCall *c04T
	for _, row := range st.parseResults {
		for _, t := range row {
			t.walk(func(x *c04T) {
				if c, ok := x.Src.(*ssa.Call); ok && x.Op == "call" && pd != nil && staticCallee(c) == pd {
					pdCall = x
				}
			})
		}
	}
	if pdCall == nil || locPar < 0 || locPar >= len(pdCall.Args) {
		r.Undecide("Parser.Parse: no call of the descriptor function found")
	} else {
		judge(c2, pdCall.Args[locPar], "the location handed to the descriptor function")
	}
}
