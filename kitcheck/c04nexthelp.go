package main

// C04: helpers kept from the first version of the Next analysis (SSA level).

import (
	"go/token"
	"go/types"

	"golang.org/x/tools/go/ssa"
)

// unit order used for "lower-order" / "higher-order" reasoning
var c04UnitOrder = map[string]int{"Second": 0, "Minute": 1, "Hour": 2, "Day": 3, "Month": 4, "Year": 5}

// accessors of time.Time that identify a unit at least as coarse as the key
var c04AccessorUnit = map[string]int{"Second": 0, "Minute": 1, "Hour": 2, "Day": 3, "Weekday": 3, "YearDay": 3, "Month": 4, "Year": 5}

func c04ConstInt(v ssa.Value) (int64, bool) {
	k, ok := v.(*ssa.Const)
	if !ok || k.Value == nil {
		return 0, false
	}
	if _, isInt := k.Type().Underlying().(*types.Basic); !isInt {
		return 0, false
	}
	if b := k.Type().Underlying().(*types.Basic); b.Info()&types.IsInteger == 0 {
		return 0, false
	}
	return k.Int64(), true
}

// derivesFrom: v is reached from `from` through phis only (value identity up to merges).
func c04ThroughPhis(v ssa.Value, pred func(ssa.Value) bool) bool {
	seen := map[ssa.Value]bool{}
	var walk func(v ssa.Value) bool
	walk = func(v ssa.Value) bool {
		if seen[v] {
			return false
		}
		seen[v] = true
		if pred(v) {
			return true
		}
		if ph, ok := v.(*ssa.Phi); ok {
			for _, e := range ph.Edges {
				if walk(e) {
					return true
				}
			}
		}
		return false
	}
	return walk(v)
}

func c04IsTimeType(t types.Type) bool { return namedKey(t) == "time.Time" }

// c04IfPos: a useful source position for a branch (the If itself has none).
func c04IfPos(ifi *ssa.If) token.Pos {
	if in, ok := ifi.Cond.(ssa.Instruction); ok && in.Pos().IsValid() {
		return in.Pos()
	}
	if u, ok := ifi.Cond.(*ssa.UnOp); ok {
		if in, ok := u.X.(ssa.Instruction); ok && in.Pos().IsValid() {
			return in.Pos()
		}
	}
	return instrPos(ifi)
}

// c04Lin is k + sum coef[s]*s over named symbols.
type c04Lin struct {
	coef map[string]int64
	k    int64
}

// c04Linear folds v into a linear form over the symbols recognised by sym
// (integer arithmetic, conversions between integer types ignored).
func c04Linear(v ssa.Value, sym func(ssa.Value) (string, bool)) (c04Lin, bool) {
	if name, ok := sym(v); ok {
		return c04Lin{coef: map[string]int64{name: 1}}, true
	}
	if k, ok := c04ConstInt(v); ok {
		return c04Lin{coef: map[string]int64{}, k: k}, true
	}
	switch x := v.(type) {
	case *ssa.Convert:
		if _, _, ok := c04IntOf(x.Type()); ok {
			return c04Linear(x.X, sym)
		}
	case *ssa.ChangeType:
		return c04Linear(x.X, sym)
	case *ssa.UnOp:
		if x.Op == token.SUB {
			a, ok := c04Linear(x.X, sym)
			if !ok {
				return c04Lin{}, false
			}
			out := c04Lin{coef: map[string]int64{}, k: -a.k}
			for s, c := range a.coef {
				out.coef[s] = -c
			}
			return out, true
		}
	case *ssa.BinOp:
		a, ok1 := c04Linear(x.X, sym)
		b, ok2 := c04Linear(x.Y, sym)
		if !ok1 || !ok2 {
			return c04Lin{}, false
		}
		isConst := func(l c04Lin) bool {
			for _, c := range l.coef {
				if c != 0 {
					return false
				}
			}
			return true
		}
		switch x.Op {
		case token.ADD, token.SUB:
			sign := int64(1)
			if x.Op == token.SUB {
				sign = -1
			}
			out := c04Lin{coef: map[string]int64{}, k: a.k + sign*b.k}
			for s, c := range a.coef {
				out.coef[s] += c
			}
			for s, c := range b.coef {
				out.coef[s] += sign * c
			}
			return out, true
		case token.MUL:
			if isConst(b) {
				a, b = b, a
			}
			if !isConst(a) {
				return c04Lin{}, false
			}
			out := c04Lin{coef: map[string]int64{}, k: a.k * b.k}
			for s, c := range b.coef {
				out.coef[s] = a.k * c
			}
			return out, true
		}
	}
	return c04Lin{}, false
}

// c04DependsOnNanosecond: the operand closure of v contains a call of time.Time.Nanosecond.
func c04DependsOnNanosecond(v ssa.Value) bool { return c04DependsOnAccessor(v, "Nanosecond") }

// c04DependsOnAccessor: the operand closure of v (not looking through calls)
// contains a call of one of the named time.Time accessors.
func c04DependsOnAccessor(v ssa.Value, names ...string) bool {
	seen := map[ssa.Value]bool{}
	var walk func(v ssa.Value) bool
	walk = func(v ssa.Value) bool {
		if v == nil || seen[v] {
			return false
		}
		seen[v] = true
		if n, _, ok := c04TimeCall(v); ok {
			for _, want := range names {
				if n == want {
					return true
				}
			}
		}
		in, ok := v.(ssa.Instruction)
		if !ok {
			return false
		}
		if _, isCall := v.(*ssa.Call); isCall {
			return false
		}
		for _, op := range in.Operands(nil) {
			if *op != nil && walk(*op) {
				return true
			}
		}
		return false
	}
	return walk(v)
}
