package main

// C05‑S5/S6/S7: the scheduler loop — what happens after a stop / remove / add
// request was taken, rendezvous channels, and how the timer is armed.

import (
	"go/token"
	"go/types"

	"golang.org/x/tools/go/ssa"
)

type c05Case struct {
	sel  *ssa.Select
	fn   *ssa.Function
	body *ssa.BasicBlock
	recv ssa.Value // value received (Extract), may be nil when unused
}

// schedCase finds the scheduler's blocking select case receiving from field f.
func (a *c05) schedCase(f FieldID) *c05Case {
	var out *c05Case
	for fn := range a.schedOnly {
		allInstrs(fn, func(in ssa.Instruction) {
			sel, ok := in.(*ssa.Select)
			if !ok {
				return
			}
			k := 0
			for i, st := range sel.States {
				if st.Dir != types.RecvOnly {
					continue
				}
				if _, ok := c05LoadOf(st.Chan, f); ok {
					si := decodeSelect(sel)
					c := &c05Case{sel: sel, fn: fn, body: si.Cases[i].Body}
					for _, r := range refs(sel) {
						if ex, ok := r.(*ssa.Extract); ok && ex.Index == 2+k {
							c.recv = ex
						}
					}
					out = c
				}
				k++
			}
		})
	}
	return out
}

// mayStart: functions that (transitively) start a job.
func (a *c05) mayStart() map[*ssa.Function]bool {
	m := map[*ssa.Function]bool{}
	for _, fn := range a.funcs {
		if len(a.events(fn)) > 0 {
			m[fn] = true
		}
	}
	for changed := true; changed; {
		changed = false
		for _, fn := range a.funcs {
			if m[fn] {
				continue
			}
			allInstrs(fn, func(in ssa.Instruction) {
				if ci, ok := in.(ssa.CallInstruction); ok && !m[fn] {
					if cal := staticCallee(ci); cal != nil && m[cal] {
						m[fn] = true
						changed = true
					}
				}
			})
		}
	}
	return m
}

// feedsIf: v decides a branch (through phis, negation and comparisons with constants).
func c05FeedsIf(v ssa.Value, seen map[ssa.Value]bool) bool {
	if seen[v] || len(seen) > 64 {
		return false
	}
	seen[v] = true
	for _, r := range refs(v) {
		switch x := r.(type) {
		case *ssa.If:
			return true
		case *ssa.Phi:
			if c05FeedsIf(x, seen) {
				return true
			}
		case *ssa.UnOp:
			if x.Op == token.NOT && c05FeedsIf(x, seen) {
				return true
			}
		case *ssa.BinOp:
			_, c1 := x.X.(*ssa.Const)
			_, c2 := x.Y.(*ssa.Const)
			if (c1 || c2) && c05FeedsIf(x, seen) {
				return true
			}
		}
	}
	return false
}

func (a *c05) checkStopCase() {
	r := a.r
	cs := a.schedCase(a.fStop)
	construct := a.name(a.sched) + " stop case"
	if cs == nil || cs.body == nil {
		r.Undecide("C05.S5: the scheduler no longer has a select case receiving from Cron.stop (anchor lost)")
		return
	}
	fn := cs.fn
	construct = a.name(fn) + " stop case"
	R := reachableFrom(cs.body, nil)
	if R[cs.sel.Block()] {
		// a flag set in the stop case and tested on the way back would make the path infeasible
		distinguishing := false
		inS := func(b *ssa.BasicBlock) bool { return cs.body.Dominates(b) }
		for _, b := range fn.Blocks {
			for _, in := range b.Instrs {
				switch x := in.(type) {
				case *ssa.Phi:
					for i, ed := range x.Edges {
						if !inS(b.Preds[i]) {
							continue
						}
						same := false
						for j, ed2 := range x.Edges {
							if j != i && !inS(b.Preds[j]) && c05SameValue(ed, ed2) {
								same = true
							}
						}
						if !same && c05FeedsIf(x, map[ssa.Value]bool{}) {
							distinguishing = true
						}
					}
				case *ssa.Store:
					if inS(b) {
						if _, isAlloc := x.Addr.(*ssa.Alloc); isAlloc {
							distinguishing = true
						}
					}
				}
			}
		}
		if distinguishing {
			r.Undecide("C05.S5: the stop case of %s can reach the wait again in the CFG but sets a variable that is tested on the way; exit-by-flag is not decided", a.name(fn))
			return
		}
		r.Violation("C05.S5-stop-final", construct, a.pos(cs.body.Instrs[0]),
			"after taking the stop request the scheduler can go back to waiting on its timer and request channels: Stop has returned (its send completed) yet a later wake-up still starts jobs, and the scheduler keeps touching entries that API methods now modify under running==false")
		return
	}
	starts := a.mayStart()
	why := ""
	for b := range R {
		for _, in := range b.Instrs {
			if ci, ok := in.(ssa.CallInstruction); ok {
				if _, isGo := in.(*ssa.Go); isGo {
					if h := staticCallee(ci); h != nil && len(a.runSites(h)) > 0 {
						why = "starts a job at " + a.pos(in)
					}
				}
				if cal := staticCallee(ci); cal != nil && a.p.funcSet[cal] {
					if starts[cal] {
						why = "calls " + a.name(cal) + " (starts jobs) at " + a.pos(in)
					} else if touchesField(a.p, cal, a.fEntries, map[*ssa.Function]bool{}) {
						why = "calls " + a.name(cal) + " (touches Cron.entries) at " + a.pos(in)
					}
				}
			}
		}
	}
	for _, acc := range FieldAccesses(fn, func(id FieldID) bool { return id == a.fEntries }) {
		if R[acc.Instr.Block()] {
			why = "touches Cron.entries at " + a.pos(acc.Instr)
		}
	}
	r.Check(why == "", "C05.S5-stop-final", construct, a.pos(cs.body.Instrs[0]),
		"after the stop request every path leaves the scheduler without waiting again, starting a job or touching entries",
		"after taking the stop request (Stop's send has completed, Stop may have returned) the scheduler still "+why)
}

func (a *c05) checkRemoveCase() {
	r := a.r
	cs := a.schedCase(a.fRemove)
	if cs == nil || cs.body == nil {
		r.Undecide("C05.S5: the scheduler no longer has a select case receiving from Cron.remove (anchor lost)")
		return
	}
	fn := cs.fn
	construct := a.name(fn) + " remove case"
	storesEntries := a.mayStore(a.fEntries)
	var removers []*ssa.Call
	ff := &FlagFlow{Fn: fn, Must: true,
		Transfer: func(in ssa.Instruction, st uint64) uint64 {
			switch x := in.(type) {
			case *ssa.Call:
				if cal := staticCallee(x); cal != nil && storesEntries[cal] && cs.recv != nil {
					for _, arg := range x.Call.Args {
						if arg == cs.recv {
							removers = append(removers, x)
							return st | 1
						}
					}
				}
			case *ssa.Store:
				if _, ok := c05FieldAddr(x.Addr, a.fEntries); ok && cs.body.Dominates(in.Block()) {
					return st | 1
				}
			}
			return st
		}}
	ff.Run()
	ok, n := true, 0
	for _, b := range fn.Blocks {
		if !cs.body.Dominates(b) {
			continue
		}
		out, vis := ff.Out(b)
		if !vis {
			continue
		}
		for _, s := range b.Succs {
			if !cs.body.Dominates(s) {
				n++
				if out&1 == 0 {
					ok = false
				}
			}
		}
	}
	r.Check(ok && n > 0, "C05.S5-remove-applied", construct, a.pos(cs.body.Instrs[0]),
		"every path from taking a removal request back to the wait removes the entry from Cron.entries first",
		"the scheduler takes a removal request and goes back to waiting without having removed that id from Cron.entries on some path: Remove has returned, yet the entry is started again at its next activation")
	// the remover keeps exactly the entries whose ID differs
	seen := map[*ssa.Function]bool{}
	for _, call := range removers {
		g := staticCallee(call)
		if seen[g] {
			continue
		}
		seen[g] = true
		idx := -1
		for i, arg := range call.Call.Args {
			if arg == cs.recv {
				idx = i
			}
		}
		a.checkRemover(g, idx)
	}
}

// checkRemover: in g every element appended to the list stored into
// Cron.entries is appended under ID != id (id = parameter idx).
func (a *c05) checkRemover(g *ssa.Function, idx int) {
	r := a.r
	construct := a.name(g) + " keeps entries with a different ID"
	if idx < 0 || idx >= len(g.Params) {
		return
	}
	id := g.Params[idx]
	nApp, why, unknown := 0, "", ""
	var walk func(v ssa.Value, seen map[ssa.Value]bool)
	walk = func(v ssa.Value, seen map[ssa.Value]bool) {
		if seen[v] {
			return
		}
		seen[v] = true
		switch x := v.(type) {
		case *ssa.Phi:
			for _, ed := range x.Edges {
				walk(ed, seen)
			}
		case *ssa.Const:
		case *ssa.Call:
			if builtinName(x) != "append" || len(x.Call.Args) != 2 {
				unknown = "list built by " + callDesc(x)
				return
			}
			walk(x.Call.Args[0], seen)
			sl, ok := x.Call.Args[1].(*ssa.Slice)
			if !ok {
				unknown = "append of a slice"
				return
			}
			arr, ok := sl.X.(*ssa.Alloc)
			if !ok {
				unknown = "append of a slice"
				return
			}
			for _, rr := range refs(arr) {
				ia, ok := rr.(*ssa.IndexAddr)
				if !ok {
					continue
				}
				for _, r2 := range refs(ia) {
					st, ok := r2.(*ssa.Store)
					if !ok {
						continue
					}
					nApp++
					elem := st.Val
					guarded := false
					for _, dc := range domConds(x.Block()) {
						cmp, ok := decodeCond(dc.If.Cond, dc.Branch)
						if !ok || cmp.Op != token.NEQ {
							continue
						}
						l, rgt := cmp.X, cmp.Y
						if l == id {
							l, rgt = rgt, l
						}
						if rgt != id {
							continue
						}
						if X, ok := c05LoadOf(l, a.fID); ok && X == elem {
							guarded = true
						}
					}
					if !guarded {
						why = "the element appended at " + a.pos(x) + " is kept without the test Entry.ID != id on every path"
					}
				}
			}
		default:
			unknown = "list not built by append in this function"
		}
	}
	nStores := 0
	allInstrs(g, func(in ssa.Instruction) {
		st, ok := in.(*ssa.Store)
		if !ok {
			return
		}
		if _, ok := c05FieldAddr(st.Addr, a.fEntries); ok {
			nStores++
			walk(st.Val, map[ssa.Value]bool{})
		}
	})
	if unknown != "" || nStores == 0 {
		r.Note("C05.S5: %s removes entries in a form the checker does not decode (%s); filter condition not checked", a.name(g), unknown)
		r.Trivial("C05.S5-remove-applied", construct, a.p.Pos(g.Pos()), "remover stores Cron.entries (filter not decoded)")
		return
	}
	r.Check(why == "", "C05.S5-remove-applied", construct, a.p.Pos(g.Pos()),
		"every kept element is appended under Entry.ID != id",
		"the list written back to Cron.entries by the removal helper can still contain the entry being removed: "+why+" (the entry is started again after Remove returned)")
}

// freshAfter: v is a clock reading obtained after the select fired.
func (a *c05) freshAfter(v ssa.Value, sel *ssa.Select, depth int) bool {
	in, ok := v.(ssa.Instruction)
	if !ok || depth > 6 {
		return false
	}
	b := in.Block()
	if b == sel.Block() {
		if instrIndex(in) <= instrIndex(sel) {
			return false
		}
	} else if !sel.Block().Dominates(b) {
		return false
	}
	switch x := v.(type) {
	case *ssa.Phi:
		for _, ed := range x.Edges {
			if !a.freshAfter(ed, sel, depth+1) {
				return false
			}
		}
		return true
	case *ssa.Call:
		for _, n := range []string{"In", "UTC", "Local"} {
			if c05IsTimeMethod(x, n) {
				return a.freshAfter(x.Call.Args[0], sel, depth+1)
			}
		}
	}
	return a.clockDerived(v)
}

func (a *c05) checkAddCase() {
	r := a.r
	cs := a.schedCase(a.fAdd)
	if cs == nil || cs.body == nil || cs.recv == nil {
		r.Undecide("C05.S7: the scheduler no longer has a select case receiving an entry from Cron.add (anchor lost)")
		return
	}
	fn := cs.fn
	storesEntries := a.mayStore(a.fEntries)
	whyNext := "no store to the new entry's Next"
	ff := &FlagFlow{Fn: fn, Must: true,
		Transfer: func(in ssa.Instruction, st uint64) uint64 {
			switch x := in.(type) {
			case *ssa.Store:
				if X, ok := c05FieldAddr(x.Addr, a.fNext); ok && X == cs.recv {
					proper, _, why := a.properNext(x.Val, cs.recv)
					if proper {
						if call := x.Val.(*ssa.Call); a.freshAfter(call.Call.Args[0], cs.sel, 0) {
							return st | 1
						}
						why = "the clock reading given to Schedule.Next was taken before the scheduler waited (stale)"
					}
					whyNext = "store at " + a.pos(in) + ": " + why
					return st &^ 1
				}
				if _, ok := c05FieldAddr(x.Addr, a.fEntries); ok && a.appendContains(x.Val, cs.recv) {
					return st | 2
				}
			case *ssa.Call:
				if cal := staticCallee(x); cal != nil && storesEntries[cal] {
					for _, arg := range x.Call.Args {
						if arg == cs.recv {
							return st | 2
						}
					}
				}
			}
			return st
		}}
	ff.Run()
	okN, okA, n := true, true, 0
	for _, b := range fn.Blocks {
		if !cs.body.Dominates(b) {
			continue
		}
		out, vis := ff.Out(b)
		if !vis {
			continue
		}
		for _, s := range b.Succs {
			if !cs.body.Dominates(s) {
				n++
				if out&1 == 0 {
					okN = false
				}
				if out&2 == 0 {
					okA = false
				}
			}
		}
	}
	r.Check(okN && n > 0, "C05.S7-add-case", a.name(fn)+" add case: Next of the new entry", a.pos(cs.body.Instrs[0]),
		"an entry added while running gets Next = its own Schedule.Next(clock reading taken after the wait)",
		"an entry added while the scheduler runs does not get its first activation from its own schedule and the current time ("+whyNext+"): it is never started, or is started for an instant that passed before it was added")
	r.Check(okA && n > 0, "C05.S7-add-case", a.name(fn)+" add case: entry appended", a.pos(cs.body.Instrs[0]),
		"the received entry is appended to Cron.entries on every path",
		"an entry handed to the running scheduler is not added to Cron.entries on some path: Schedule returned an id but the job never starts")
}

func (a *c05) checkRendezvous() {
	r := a.r
	for _, f := range []FieldID{a.fStop, a.fRemove, a.fAdd} {
		construct := f.String() + " is a rendezvous channel"
		n, why, unknown, pos := 0, "", "", ""
		for _, fn := range a.p.Funcs {
			allInstrs(fn, func(in ssa.Instruction) {
				st, ok := in.(*ssa.Store)
				if !ok {
					return
				}
				if _, ok := c05FieldAddr(st.Addr, f); !ok {
					return
				}
				n++
				pos = a.pos(in)
				mc, ok := st.Val.(*ssa.MakeChan)
				if !ok {
					unknown = "stored from a value that is not a make(chan) at " + a.pos(in)
					return
				}
				if !c05ConstInt(mc.Size, 0) {
					why = "created with a buffer at " + a.pos(in)
				}
			})
		}
		if n == 0 || unknown != "" {
			r.Undecide("C05.S6: cannot see how %s is created (%s)", f.String(), unknown)
			continue
		}
		if why != "" {
			// an explicit acknowledgement after the send would restore the guarantee
			ack := false
			for _, fn := range a.p.Funcs {
				for _, s := range a.sends(fn) {
					if s.field != f {
						continue
					}
					allInstrs(fn, func(in ssa.Instruction) {
						if u, ok := in.(*ssa.UnOp); ok && u.Op == token.ARROW && instrDominates(s.instr, in) {
							ack = true
						}
					})
				}
			}
			if ack {
				r.Undecide("C05.S6: %s is buffered but the sender waits for a reply afterwards; acknowledgement protocol not decided", f.String())
				continue
			}
		}
		what := map[string]string{"stop": "Stop returns before the scheduler has taken the request: a wake-up in between still starts jobs after Stop returned",
			"remove": "Remove returns before the scheduler has taken the request: the entry can still be started after Remove returned",
			"add":    "Schedule returns before the scheduler has taken the entry: activation instants the clock reaches after Schedule returned but before the scheduler computes Next are never started"}[f.Field]
		r.Check(why == "", "C05.S6-rendezvous", construct, pos,
			"unbuffered: the API call returns only once the scheduler goroutine has received the request",
			f.String()+" is "+why+": "+what)
	}
}
