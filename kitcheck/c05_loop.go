package main

// C05‑S5/S6/S7: the scheduler loop — what happens after a stop / remove / add
// request was taken, rendezvous channels, and how the timer is armed.

import (
	"go/token"
	"go/types"

	"golang.org/x/tools/go/ssa"
)

type c05Case struct {
	chanField FieldID
	sel       *ssa.Select
	fn        *ssa.Function
	body      *ssa.BasicBlock
	recv      ssa.Value // value received (Extract), may be nil when unused
}

// schedCase finds the scheduler's blocking select case receiving from field f.
func (a *c05) schedCase(f FieldID) *c05Case {
	var out *c05Case
	for fn := range a.schedOnly {
		allInstrs(fn, func(in ssa.Instruction) {
			sel, ok := in.(*ssa.Select)
			if !ok {
				return
			}
			k := 0
			for i, st := range sel.States {
				if st.Dir != types.RecvOnly {
					continue
				}
				if _, ok := c05LoadOf(st.Chan, f); ok {
					si := decodeSelect(sel)
					c := &c05Case{chanField: f, sel: sel, fn: fn, body: si.Cases[i].Body}
					for _, r := range refs(sel) {
						if ex, ok := r.(*ssa.Extract); ok && ex.Index == 2+k {
							c.recv = ex
						}
					}
					out = c
				}
				k++
			}
		})
	}
	return out
}

// mayStart: functions that (transitively) start a job.
func (a *c05) mayStart() map[*ssa.Function]bool {
	m := map[*ssa.Function]bool{}
	for _, fn := range a.funcs {
		if len(a.events(fn)) > 0 {
			m[fn] = true
		}
	}
	for changed := true; changed; {
		changed = false
		for _, fn := range a.funcs {
			if m[fn] {
				continue
			}
			allInstrs(fn, func(in ssa.Instruction) {
				if ci, ok := in.(ssa.CallInstruction); ok && !m[fn] {
					if cal := staticCallee(ci); cal != nil && m[cal] {
						m[fn] = true
						changed = true
					}
				}
			})
		}
	}
	return m
}

// feedsIf: v decides a branch (through phis, negation and comparisons with constants).
func c05FeedsIf(v ssa.Value, seen map[ssa.Value]bool) bool {
	if seen[v] || len(seen) > 64 {
		return false
	}
	seen[v] = true
	for _, r := range refs(v) {
		switch x := r.(type) {
		case *ssa.If:
			return true
		case *ssa.Phi:
			if c05FeedsIf(x, seen) {
				return true
			}
		case *ssa.UnOp:
			if x.Op == token.NOT && c05FeedsIf(x, seen) {
				return true
			}
		case *ssa.BinOp:
			_, c1 := x.X.(*ssa.Const)
			_, c2 := x.Y.(*ssa.Const)
			if (c1 || c2) && c05FeedsIf(x, seen) {
				return true
			}
		}
	}
	return false
}

func (a *c05) checkStopCase() {
	r := a.r
	cs := a.schedCase(a.fStop)
	if cs == nil || cs.body == nil {
		r.Undecide("C05.S5: the scheduler no longer has a select case receiving from the stop channel (anchor lost)")
		return
	}
	construct := "scheduler: nothing happens after the stop request"
	// path-sensitive flow: bit 1 = the stop request has been taken. Flag
	// variables are tracked, so leaving the loops through a flag set in the stop
	// case is followed exactly.
	f := &c05Flow{a: a, G: 2}
	f.Tracked = c05BoolPhi
	first := cs.body.Instrs[0]
	f.Step = func(in ssa.Instruction, g int) (int, bool) {
		if in == first {
			return 1, false
		}
		return g, false
	}
	f.Exit = func(fn *ssa.Function, g int) int {
		if a.schedRoots[fn] {
			return 0
		}
		return g
	}
	f.Run(nil)
	stoppedAt := func(in ssa.Instruction) bool {
		for _, g := range f.Globals(f.At(in)) {
			if g == 1 {
				return true
			}
		}
		return false
	}
	imprecise := ""
	for fn := range a.schedOnly {
		if f.Imprecise[fn] {
			imprecise = a.name(fn)
		}
	}
	why := ""
	if stoppedAt(cs.sel) {
		why = "goes back to waiting on its timer and request channels (a later wake-up still starts jobs)"
	}
	for _, fn := range a.funcs {
		if !a.schedOnly[fn] {
			continue
		}
		for _, ev := range a.events(fn) {
			if stoppedAt(ev.instr) {
				why = "starts a job at " + a.pos(ev.instr)
			}
		}
		for _, acc := range FieldAccesses(fn, func(id FieldID) bool { return id == a.fEntries }) {
			if stoppedAt(acc.Instr) {
				why = "touches Cron.entries at " + a.pos(acc.Instr) + " (API methods now modify it under running==false)"
			}
		}
	}
	if why != "" && imprecise != "" {
		r.Undecide("C05.S5-stop-final: after the stop request the scheduler may still act, but %s branches on more flag variables than the checker follows", imprecise)
		return
	}
	r.Check(why == "", "C05.S5-stop-final", construct, a.pos(first),
		"after the stop request every path leaves the scheduler without waiting again, starting a job or touching entries",
		"after taking the stop request (Stop's send has completed, Stop may have returned) the scheduler still "+why)
}

// checkRearm (S7-rearm): whenever the scheduler waits, the wake-up it waits for
// was chosen after the last change of Cron.entries / of an entry's Next: a
// mutation (entry added, removed, Next recomputed) is followed by a new arming
// decision before the next wait, otherwise an entry that became the earliest
// is slept through.
func (a *c05) checkRearm() {
	r := a.r
	cs := a.schedCase(a.fStop)
	if cs == nil {
		return
	}
	arms := map[ssa.Instruction]bool{}
	for _, s := range a.armSites() {
		arms[s] = true
	}
	for _, fn := range a.funcs {
		if !a.schedOnly[fn] {
			continue
		}
		allInstrs(fn, func(in ssa.Instruction) {
			if mc, ok := in.(*ssa.MakeChan); ok {
				if ch, ok := mc.Type().Underlying().(*types.Chan); ok && namedKey(ch.Elem()) == "time.Time" {
					arms[in] = true // "nothing to wait for": a channel that never fires
				}
			}
		})
	}
	// the wake-up the scheduler waits for is also (re)chosen whenever the
	// variable holding the channel it selects on is assigned (a timer's channel,
	// a never-firing channel, nil)
	var chLoc *c05Loc
	if _, _, ch := a.wakeCaseChan(); ch != nil {
		chLoc = a.locOf(ch)
	}
	f := &c05Flow{a: a, G: 2}
	f.Tracked = c05BoolPhi
	if chLoc != nil && !chLoc.empty() {
		f.EdgeG = func(from, to *ssa.BasicBlock, g int) int {
			if len(chLoc.edgeAssign(from, to)) > 0 {
				return 1
			}
			return g
		}
	}
	f.Step = func(in ssa.Instruction, g int) (int, bool) {
		if arms[in] {
			return 1, false
		}
		if chLoc != nil {
			if _, ok := chLoc.stepAssign(in); ok {
				return 1, false
			}
		}
		if st, ok := in.(*ssa.Store); ok {
			if _, ok := c05FieldAddr(st.Addr, a.fEntries); ok {
				return 0, false
			}
			if _, ok := c05FieldAddr(st.Addr, a.fNext); ok {
				return 0, false
			}
		}
		return g, false
	}
	f.Run(nil)
	ok, reached := f.All(cs.sel, func(g int) bool { return g == 1 })
	if !ok {
		for fn := range a.schedOnly {
			if f.Imprecise[fn] {
				r.Undecide("C05.S7-rearm: the wait may follow a mutation without a new arming, but %s branches on more flag variables than the checker follows", a.name(fn))
				return
			}
		}
	}
	r.Check(ok && reached, "C05.S7-rearm", "scheduler: timer re-armed after every change of the entries", a.pos(cs.sel),
		"every wait follows an arming decision made after the last change of Cron.entries / Entry.Next",
		"on some path the scheduler goes back to waiting after Cron.entries or an entry's Next changed (entry added/removed, Next recomputed) without choosing the wake-up again: the timer still targets the old earliest entry, the new earliest activation is slept through and started late")
}

// caseFlow: a flow whose state bits are set when the scheduler takes a
// request from channel field f (entry of that select case) and that the rule
// clears; the requirement is that no bit is left when the scheduler waits again.
func (a *c05) caseFlow(cs *c05Case, bits int, clear func(in ssa.Instruction, g int) int, skip ...func(call *ssa.Call) bool) *c05Flow {
	f := &c05Flow{a: a, G: 4}
	first := cs.body.Instrs[0]
	f.Step = func(in ssa.Instruction, g int) (int, bool) {
		if in == first {
			g |= bits
		}
		if call, ok := in.(*ssa.Call); ok {
			for _, sk := range skip {
				if sk(call) {
					return clear(in, g), true // the callee is not applied to this request
				}
			}
		}
		return clear(in, g), false
	}
	f.EdgeG = func(from, to *ssa.BasicBlock, g int) int {
		if bits&1 != 0 && cs.chanField == a.fRemove && a.removalMiss(from, to) {
			return g &^ 1
		}
		return g
	}
	f.Run(nil)
	return f
}

func (a *c05) checkRemoveCase() {
	r := a.r
	cs := a.schedCase(a.fRemove)
	if cs == nil || cs.body == nil {
		r.Undecide("C05.S5: the scheduler no longer has a select case receiving from the removal channel (anchor lost)")
		return
	}
	construct := "scheduler: removal request applied before waiting again"
	f := a.caseFlow(cs, 1, func(in ssa.Instruction, g int) int {
		if st, ok := in.(*ssa.Store); ok {
			if _, ok := c05FieldAddr(st.Addr, a.fEntries); ok {
				return g &^ 1
			}
		}
		return g
	}, func(call *ssa.Call) bool {
		// a remover called directly by the loop with an id other than the received one
		h := staticCallee(call)
		if h == nil || call.Parent() != cs.fn || cs.recv == nil || !a.mayStore(a.fEntries)[h] {
			return false
		}
		takesID, passes := false, false
		for k, arg := range call.Call.Args {
			if k < len(h.Params) && a.idType != nil && types.Identical(h.Params[k].Type(), a.idType) {
				takesID = true
				if c05SameVar(arg, cs.recv) {
					passes = true
				}
			}
		}
		return takesID && !passes
	})
	ok, reached := f.All(cs.sel, func(g int) bool { return g&1 == 0 })
	r.Check(ok && reached, "C05.S5-remove-applied", construct, a.pos(cs.body.Instrs[0]),
		"every path from taking a removal request back to the wait rewrites Cron.entries first (in the loop or in a helper it calls)",
		"the scheduler takes a removal request and goes back to waiting without having rewritten Cron.entries on some path: Remove has returned, yet the entry is started again at its next activation")
	// the code that rewrites the list while a removal is pending keeps exactly the entries whose ID differs
	seen := map[*ssa.Function]bool{}
	for _, fn := range a.funcs {
		allInstrs(fn, func(in ssa.Instruction) {
			st, isSt := in.(*ssa.Store)
			if !isSt || seen[fn] {
				return
			}
			if _, isE := c05FieldAddr(st.Addr, a.fEntries); !isE {
				return
			}
			pending := false
			for _, g := range f.Globals(f.At(in)) {
				if g&1 != 0 {
					pending = true
				}
			}
			if pending {
				seen[fn] = true
				a.checkRemover(fn, cs, func(x ssa.Instruction) bool {
					for _, g := range f.Globals(f.At(x)) {
						if g&1 != 0 {
							return true
						}
					}
					return false
				})
			}
		})
	}
}

// checkRemover: in g every element appended to the list stored into
// Cron.entries is appended under ID != id (id = parameter idx).
func (a *c05) checkRemover(g *ssa.Function, cs *c05Case, isPending func(ssa.Instruction) bool) {
	r := a.r
	construct := "removal keeps only entries with a different ID"
	// the id being removed: a parameter of the ID type, or the value received from the channel
	ids := map[ssa.Value]bool{}
	for _, pa := range g.Params {
		if a.idType != nil && types.Identical(pa.Type(), a.idType) {
			ids[pa] = true
		}
	}
	if cs.recv != nil && cs.fn == g {
		ids[cs.recv] = true
	}
	if len(ids) == 0 {
		r.Note("C05.S5: %s rewrites Cron.entries for a removal but the id being removed is not a parameter/received value; filter condition not checked", a.name(g))
		r.Trivial("C05.S5-remove-applied", construct, a.p.Pos(g.Pos()), "remover stores Cron.entries (filter not decoded)")
		return
	}
	nApp, why, unknown := 0, "", ""
	var walk func(v ssa.Value, seen map[ssa.Value]bool)
	walk = func(v ssa.Value, seen map[ssa.Value]bool) {
		if seen[v] {
			return
		}
		seen[v] = true
		switch x := v.(type) {
		case *ssa.Phi:
			for _, ed := range x.Edges {
				walk(ed, seen)
			}
		case *ssa.Const:
		case *ssa.Call:
			if builtinName(x) != "append" || len(x.Call.Args) != 2 {
				unknown = "list built by " + callDesc(x)
				return
			}
			walk(x.Call.Args[0], seen)
			sl, ok := x.Call.Args[1].(*ssa.Slice)
			if !ok {
				unknown = "append of a slice"
				return
			}
			arr, ok := sl.X.(*ssa.Alloc)
			if !ok {
				unknown = "append of a slice"
				return
			}
			for _, rr := range refs(arr) {
				ia, ok := rr.(*ssa.IndexAddr)
				if !ok {
					continue
				}
				for _, r2 := range refs(ia) {
					st, ok := r2.(*ssa.Store)
					if !ok {
						continue
					}
					nApp++
					elem := st.Val
					guarded := false
					for _, dc := range domConds(x.Block()) {
						cmp, ok := decodeCond(dc.If.Cond, dc.Branch)
						if !ok || cmp.Op != token.NEQ {
							continue
						}
						l, rgt := cmp.X, cmp.Y
						if ids[l] {
							l, rgt = rgt, l
						}
						if !ids[rgt] {
							continue
						}
						if X, ok := c05LoadOf(l, a.fID); ok && X == elem {
							guarded = true
						}
					}
					if !guarded {
						why = "the element appended at " + a.pos(x) + " is kept without the test Entry.ID != id on every path"
					}
				}
			}
		default:
			unknown = "list not built by append in this function"
		}
	}
	nStores := 0
	allInstrs(g, func(in ssa.Instruction) {
		st, ok := in.(*ssa.Store)
		if !ok {
			return
		}
		if _, ok := c05FieldAddr(st.Addr, a.fEntries); ok && isPending(in) {
			nStores++
			walk(st.Val, map[ssa.Value]bool{})
		}
	})
	if unknown != "" || nStores == 0 {
		r.Note("C05.S5: %s removes entries in a form the checker does not decode (%s); filter condition not checked", a.name(g), unknown)
		r.Trivial("C05.S5-remove-applied", construct, a.p.Pos(g.Pos()), "remover stores Cron.entries (filter not decoded)")
		return
	}
	r.Check(why == "", "C05.S5-remove-applied", construct, a.p.Pos(g.Pos()),
		"every kept element is appended under Entry.ID != id",
		"the list written back to Cron.entries by the removal helper can still contain the entry being removed: "+why+" (the entry is started again after Remove returned)")
}

// freshIn: v is a clock reading taken while the flow f is in a state
// satisfying pending (i.e. after the request was taken), through phis,
// location transforms, parameters and helper results.
func (a *c05) freshIn(f *c05Flow, pending func(g int) bool, v ssa.Value, seen map[ssa.Value]bool) bool {
	if seen[v] {
		return true
	}
	seen[v] = true
	switch x := v.(type) {
	case *ssa.Phi:
		for _, ed := range x.Edges {
			if !a.freshIn(f, pending, ed, seen) {
				return false
			}
		}
		return true
	case *ssa.Parameter:
		acts := a.actualsOf(x)
		if acts == nil {
			return false
		}
		for _, av := range acts {
			if !a.freshIn(f, pending, av, seen) {
				return false
			}
		}
		return true
	case *ssa.Call:
		for _, n := range []string{"In", "UTC", "Local"} {
			if c05IsTimeMethod(x, n) {
				return a.freshIn(f, pending, x.Call.Args[0], seen)
			}
		}
		if rets := a.returnsOf(x, 0); rets != nil && x.Call.Signature().Results().Len() == 1 {
			// a helper such as now(): its own reading happens when it is called
			if !a.clockDerived(v) {
				return false
			}
			ok, reached := f.All(x, pending)
			return ok && reached
		}
	case *ssa.Extract:
		if call, ok := x.Tuple.(*ssa.Call); ok {
			if rets := a.returnsOf(call, x.Index); rets != nil {
				if !a.clockDerived(v) {
					return false
				}
				ok, reached := f.All(call, pending)
				return ok && reached
			}
		}
	}
	in, ok := v.(ssa.Instruction)
	if !ok || !a.clockDerived(v) {
		return false
	}
	okAll, reached := f.All(in, pending)
	return okAll && reached
}

func (a *c05) checkAddCase() {
	r := a.r
	cs := a.schedCase(a.fAdd)
	if cs == nil || cs.body == nil {
		r.Undecide("C05.S7: the scheduler no longer has a select case receiving an entry from the add channel (anchor lost)")
		return
	}
	// phase 1: which instructions execute only between taking an entry and waiting again
	p1 := a.caseFlow(cs, 1, func(in ssa.Instruction, g int) int {
		if in == ssa.Instruction(cs.sel) {
			return 0
		}
		return g
	})
	pend := func(g int) bool { return g&1 != 0 }
	whyNext := "no store to the new entry's Next"
	// phase 2: bit 1 = Next still to be computed, bit 2 = still to be appended
	f := a.caseFlow(cs, 3, func(in ssa.Instruction, g int) int {
		st, ok := in.(*ssa.Store)
		if !ok {
			return g
		}
		if X, ok := c05FieldAddr(st.Addr, a.fNext); ok && g&1 != 0 && a.isReceived(X, cs, 0) {
			proper, _, why := a.properNext(st.Val, X)
			if proper {
				if call := st.Val.(*ssa.Call); a.freshIn(p1, pend, call.Call.Args[0], map[ssa.Value]bool{}) {
					return g &^ 1
				}
				why = "the clock reading given to Schedule.Next was taken before the scheduler waited (stale)"
			}
			if ok, reached := p1.All(in, pend); ok && reached {
				whyNext = "store at " + a.pos(in) + ": " + why
			}
			return g
		}
		if _, ok := c05FieldAddr(st.Addr, a.fEntries); ok {
			if call, isCall := st.Val.(*ssa.Call); isCall && builtinName(call) == "append" && a.appendsReceived(call, cs) {
				return g &^ 2
			}
		}
		return g
	})
	okN, reached := f.All(cs.sel, func(g int) bool { return g&1 == 0 })
	okA, _ := f.All(cs.sel, func(g int) bool { return g&2 == 0 })
	r.Check(okN && reached, "C05.S7-add-case", "scheduler: Next of an entry added while running", a.pos(cs.body.Instrs[0]),
		"an entry added while running gets Next = its own Schedule.Next(clock reading taken after the wait) before the scheduler waits again",
		"an entry added while the scheduler runs does not get its first activation from its own schedule and the current time ("+whyNext+"): it is never started, or is started for an instant that passed before it was added")
	r.Check(okA && reached, "C05.S7-add-case", "scheduler: entry added while running is appended", a.pos(cs.body.Instrs[0]),
		"the received entry is appended to Cron.entries on every path before the scheduler waits again",
		"an entry handed to the running scheduler is not added to Cron.entries on some path: Schedule returned an id but the job never starts")
}

func (a *c05) checkRendezvous() {
	r := a.r
	for _, f := range []FieldID{a.fStop, a.fRemove, a.fAdd} {
		construct := "the " + a.roleOf(f) + " channel is a rendezvous channel"
		n, why, unknown, pos := 0, "", "", ""
		for _, fn := range a.p.Funcs {
			allInstrs(fn, func(in ssa.Instruction) {
				st, ok := in.(*ssa.Store)
				if !ok {
					return
				}
				if _, ok := c05FieldAddr(st.Addr, f); !ok {
					return
				}
				n++
				pos = a.pos(in)
				mc, ok := st.Val.(*ssa.MakeChan)
				if !ok {
					unknown = "stored from a value that is not a make(chan) at " + a.pos(in)
					return
				}
				if !c05ConstInt(mc.Size, 0) {
					why = "created with a buffer at " + a.pos(in)
				}
			})
		}
		if n == 0 || unknown != "" {
			r.Undecide("C05.S6: cannot see how %s is created (%s)", f.String(), unknown)
			continue
		}
		if why != "" {
			// an explicit acknowledgement after the send would restore the guarantee
			ack := false
			for _, fn := range a.p.Funcs {
				for _, s := range a.sends(fn) {
					if s.field != f {
						continue
					}
					allInstrs(fn, func(in ssa.Instruction) {
						if u, ok := in.(*ssa.UnOp); ok && u.Op == token.ARROW && instrDominates(s.instr, in) {
							ack = true
						}
					})
				}
			}
			if ack {
				r.Undecide("C05.S6: %s is buffered but the sender waits for a reply afterwards; acknowledgement protocol not decided", f.String())
				continue
			}
		}
		what := map[string]string{"stop": "Stop returns before the scheduler has taken the request: a wake-up in between still starts jobs after Stop returned",
			"remove": "Remove returns before the scheduler has taken the request: the entry can still be started after Remove returned",
			"add":    "Schedule returns before the scheduler has taken the entry: activation instants the clock reaches after Schedule returned but before the scheduler computes Next are never started"}[f.Field]
		r.Check(why == "", "C05.S6-rendezvous", construct, pos,
			"unbuffered: the API call returns only once the scheduler goroutine has received the request",
			f.String()+" is "+why+": "+what)
	}
}

// isReceived: X denotes the value the scheduler received in case cs: the
// received value itself, or a parameter bound to it at every call site.
func (a *c05) isReceived(X ssa.Value, cs *c05Case, depth int) bool {
	if cs.recv != nil && X == cs.recv {
		return true
	}
	par, ok := X.(*ssa.Parameter)
	if !ok || depth > 4 {
		return false
	}
	acts := a.actualsOf(par)
	if len(acts) == 0 {
		return false
	}
	for _, av := range acts {
		if !a.isReceived(av, cs, depth+1) {
			return false
		}
	}
	return true
}

// appendsReceived: the append call adds the received entry.
func (a *c05) appendsReceived(call *ssa.Call, cs *c05Case) bool {
	if len(call.Call.Args) != 2 {
		return false
	}
	sl, ok := call.Call.Args[1].(*ssa.Slice)
	if !ok {
		return false
	}
	arr, ok := sl.X.(*ssa.Alloc)
	if !ok {
		return false
	}
	for _, rr := range refs(arr) {
		if ia, ok := rr.(*ssa.IndexAddr); ok {
			for _, r2 := range refs(ia) {
				if st, ok := r2.(*ssa.Store); ok && a.isReceived(st.Val, cs, 0) {
					return true
				}
			}
		}
	}
	return false
}

// removalMiss: taking the edge from->to establishes that a search of
// Cron.entries for the entry to remove came back empty (so there is nothing to
// rewrite): a negative slices.IndexFunc/Index result, a false
// slices.ContainsFunc/Contains, or the exhaustion of a loop over Cron.entries
// whose body rewrites the list when it finds the entry (find-and-splice).
func (a *c05) removalMiss(from, to *ssa.BasicBlock) bool {
	if len(from.Instrs) == 0 || len(from.Succs) != 2 || from.Succs[0] == from.Succs[1] {
		return false
	}
	ifi, ok := from.Instrs[len(from.Instrs)-1].(*ssa.If)
	if !ok {
		return false
	}
	br := from.Succs[0] == to
	overEntries := func(call *ssa.Call) bool {
		if len(call.Call.Args) == 0 {
			return false
		}
		v := call.Call.Args[0]
		if s, ok := v.(*ssa.Slice); ok {
			v = s.X
		}
		_, ok := c05LoadOf(v, a.fEntries)
		return ok
	}
	libCall := func(v ssa.Value, names ...string) *ssa.Call {
		call, ok := v.(*ssa.Call)
		if !ok {
			return nil
		}
		obj := calleeObj(call)
		if obj == nil || obj.Pkg() == nil || obj.Pkg().Path() != "slices" {
			return nil
		}
		for _, n := range names {
			if obj.Name() == n && overEntries(call) {
				return call
			}
		}
		return nil
	}
	for _, at := range append([]c05Atom{{ifi.Cond, br}}, c05ExpandCond(ifi.Cond, br, 0)...) {
		v, pol := c05CondValue(at.v)
		tv := at.tv == pol
		if libCall(v, "ContainsFunc", "Contains") != nil && !tv {
			return true
		}
		cmp, ok := decodeCond(at.v, at.tv)
		if !ok {
			continue
		}
		x, y, op := cmp.X, cmp.Y, cmp.Op
		if _, isC := x.(*ssa.Const); isC {
			x, y = y, x
			switch op {
			case token.LSS:
				op = token.GTR
			case token.GTR:
				op = token.LSS
			case token.LEQ:
				op = token.GEQ
			case token.GEQ:
				op = token.LEQ
			}
		}
		if k, isK := y.(*ssa.Const); isK && k.Value != nil && libCall(x, "IndexFunc", "Index") != nil {
			kv := k.Int64()
			// the established relation implies x < 0
			switch {
			case op == token.LSS && kv <= 0, op == token.LEQ && kv < 0, op == token.EQL && kv < 0:
				return true
			}
		}
		// loop exhausted: idx >= len(c.entries)
		if op == token.GEQ || (op == token.EQL) {
			if lc, ok := y.(*ssa.Call); ok && builtinName(lc) == "len" && len(lc.Call.Args) == 1 {
				if _, ok := c05LoadOf(lc.Call.Args[0], a.fEntries); ok {
					inLoop := reachableFrom(from.Succs[0], map[*ssa.BasicBlock]bool{from: true})
					if to == from.Succs[0] {
						inLoop = reachableFrom(from.Succs[1], map[*ssa.BasicBlock]bool{from: true})
					}
					for b := range inLoop {
						if !reachableFrom(b, nil)[from] {
							continue
						}
						for _, in := range b.Instrs {
							if st, ok := in.(*ssa.Store); ok {
								if _, ok := c05FieldAddr(st.Addr, a.fEntries); ok {
									return true
								}
							}
						}
					}
				}
			}
		}
	}
	return false
}
