package main

// C19: backward value provenance (context-sensitive through same-package
// helpers) and the fresh-key / one-file-set rule X4 built on it.

import (
	"fmt"
	"go/token"
	"go/types"
	"sort"
	"strings"

	"golang.org/x/tools/go/ssa"
)

// c19Frame is a call-string context: the current function was entered through
// call (from the function of the parent frame). nil = the root function.
type c19Frame struct {
	call   ssa.CallInstruction
	parent *c19Frame
	fn     *ssa.Function // the function entered (nil: the static callee of call)
	// args/argFr (optional): the values seen by fn's parameters and the context
	// each lives in, when they are not simply call.Common().Args in parent
	// (bound method values: the receiver comes from where the value was made)
	args  []ssa.Value
	argFr []*c19Frame
}

func (f *c19Frame) callee() *ssa.Function {
	if f.fn != nil {
		return f.fn
	}
	return staticCallee(f.call)
}

// arg returns the value bound to parameter i of the entered function and the
// context it has to be evaluated in.
func (f *c19Frame) arg(i int) (ssa.Value, *c19Frame, bool) {
	if f.args != nil {
		if i < 0 || i >= len(f.args) {
			return nil, nil, false
		}
		return f.args[i], f.argFr[i], true
	}
	a := f.call.Common().Args
	if i < 0 || i >= len(a) {
		return nil, nil, false
	}
	return a[i], f.parent, true
}

// creatorFrame: the context of the function that created closure fn, found
// among the callers on the call string (nil when the closure was made elsewhere).
func creatorFrame(fr *c19Frame, closure *ssa.Function) *c19Frame {
	par := closure.Parent()
	for f := fr; f != nil; f = f.parent {
		if f.call.Parent() == par {
			return f.parent
		}
	}
	return nil
}

// c19Target is one function a func-typed value can denote.
type c19Target struct {
	fn     *ssa.Function
	obj    *types.Func // extTargets mode: a function outside the package (fn == nil)
	recv   ssa.Value   // bound method value: the receiver ...
	recvFr *c19Frame   // ... and its context
}

// boundMethod: fn is the synthetic wrapper of a bound method value x.M; returns M.
func (x *c19) boundMethod(fn *ssa.Function) *ssa.Function {
	if fn == nil || !strings.HasPrefix(fn.Synthetic, "bound method wrapper") {
		return nil
	}
	if obj, ok := fn.Object().(*types.Func); ok {
		if m := x.p.SSA.FuncValue(obj); m != nil {
			return origin(m)
		}
	}
	return nil
}

// funcTargets resolves a func-typed value to the package functions it can
// denote: function literals and methods values, through temporaries, captured
// variables, parameters (call-string frames, else all visible call sites),
// named func types (every conversion to the type in the package), unexported
// func-typed struct fields (every store in the package) and local literal
// tables. ok=false when some possible value is not a known package function.
func (x *c19) funcTargets(v ssa.Value, fr *c19Frame, depth int) ([]c19Target, bool) {
	if v == nil || depth > 8 {
		return nil, false
	}
	union := func(vals []ssa.Value, frs []*c19Frame) ([]c19Target, bool) {
		var out []c19Target
		seen := map[*ssa.Function]bool{}
		for i, a := range vals {
			ts, ok := x.funcTargets(a, frs[i], depth+1)
			if !ok {
				return nil, false
			}
			for _, t := range ts {
				if t.fn == nil {
					dup := false
					for _, o := range out {
						if o.fn == nil && o.obj == t.obj {
							dup = true
						}
					}
					if !dup {
						out = append(out, t)
					}
					continue
				}
				if !seen[t.fn] {
					seen[t.fn] = true
					out = append(out, t)
				}
			}
		}
		return out, true // (possibly empty: only nil function values)
	}
	same := func(vals []ssa.Value, f *c19Frame) ([]c19Target, bool) {
		frs := make([]*c19Frame, len(vals))
		for i := range frs {
			frs[i] = f
		}
		return union(vals, frs)
	}
	ext := func(f *ssa.Function) ([]c19Target, bool) {
		if x.extTargets && f != nil {
			if obj, ok := f.Object().(*types.Func); ok {
				return []c19Target{{obj: obj}}, true
			}
		}
		return nil, false
	}
	switch t := v.(type) {
	case *ssa.Const:
		if t.IsNil() {
			return nil, true // the nil function value: no target
		}
		return nil, false
	case *ssa.Function:
		f := origin(t)
		if x.inPkg[f] && len(f.Blocks) > 0 {
			return []c19Target{{fn: f}}, true
		}
		return ext(f)
	case *ssa.MakeClosure:
		f, _ := t.Fn.(*ssa.Function)
		if m := x.boundMethod(f); m != nil && x.inPkg[m] && len(t.Bindings) == 1 {
			return []c19Target{{fn: m, recv: t.Bindings[0], recvFr: fr}}, true
		}
		if f != nil && strings.HasPrefix(f.Synthetic, "bound method wrapper") {
			return ext(f) // a method value of another package's type
		}
		f = origin(f)
		if f != nil && x.inPkg[f] && len(f.Blocks) > 0 {
			return []c19Target{{fn: f}}, true
		}
		return ext(f)
	case *ssa.ChangeType:
		return x.funcTargets(t.X, fr, depth+1)
	case *ssa.MakeInterface:
		return x.funcTargets(t.X, fr, depth+1)
	case *ssa.Phi:
		return same(t.Edges, fr)
	case *ssa.FreeVar:
		if b := resolveFreeVar(t); b != nil {
			return x.funcTargets(b, creatorFrame(fr, t.Parent()), depth+1)
		}
	case *ssa.Parameter:
		if fr != nil {
			if a, afr, ok := fr.arg(c19ParamIndex(t)); ok {
				return x.funcTargets(a, afr, depth+1)
			}
		}
		// a value of a named func type of the package: every conversion to it
		if n, ok := types.Unalias(t.Type()).(*types.Named); ok && n.Obj().Pkg() != nil && n.Obj().Pkg().Path() == x.pkg {
			var vals []ssa.Value
			for _, fn := range x.fns {
				allInstrs(fn, func(in ssa.Instruction) {
					if ct, ok := in.(*ssa.ChangeType); ok && types.Identical(ct.Type(), t.Type()) {
						vals = append(vals, ct.X)
					}
					if mc, ok := in.(*ssa.MakeClosure); ok && types.Identical(mc.Type(), t.Type()) {
						vals = append(vals, mc)
					}
				})
			}
			if len(vals) > 0 {
				return same(vals, nil)
			}
		}
		if sites, ok := x.callers(t.Parent()); ok {
			var vals []ssa.Value
			for _, s := range sites {
				args := s.instr.Common().Args
				i := c19ParamIndex(t)
				if i < 0 || i >= len(args) {
					return nil, false
				}
				vals = append(vals, args[i])
			}
			return same(vals, nil)
		}
	case *ssa.UnOp:
		if t.Op != token.MUL {
			return nil, false
		}
		switch a := t.X.(type) {
		case *ssa.Alloc:
			var vals []ssa.Value
			for _, rr := range refs(a) {
				if st, ok := rr.(*ssa.Store); ok && st.Addr == ssa.Value(a) {
					vals = append(vals, st.Val)
				}
			}
			if len(vals) > 0 {
				return same(vals, fr)
			}
		case *ssa.FieldAddr:
			id := fieldIDOfAddr(a)
			if _, local := a.X.(*ssa.Alloc); !local && strings.HasPrefix(id.Type, x.pkg+".") && !token.IsExported(id.Field) {
				// every store to the unexported field in the package
				var vals []ssa.Value
				for _, fn := range x.fns {
					allInstrs(fn, func(in ssa.Instruction) {
						if st, ok := in.(*ssa.Store); ok {
							if fa, ok := st.Addr.(*ssa.FieldAddr); ok && fieldIDOfAddr(fa) == id {
								vals = append(vals, st.Val)
							}
						}
					})
				}
				if len(vals) > 0 {
					return same(vals, nil)
				}
				return nil, false
			}
		}
	}
	// local literal tables, struct values, captured cells: by provenance
	var out []c19Target
	seen := map[*ssa.Function]bool{}
	ok := true
	sig := v.Type().Underlying()
	x.derive(v, fr, func(o c19Origin) {
		if o.v == nil || !types.Identical(o.v.Type().Underlying(), sig) {
			return
		}
		switch o.v.(type) {
		case *ssa.MakeClosure, *ssa.Function:
			ts, tok := x.funcTargets(o.v, o.fr, depth+1)
			if !tok {
				ok = false
				return
			}
			for _, t := range ts {
				if !seen[t.fn] {
					seen[t.fn] = true
					out = append(out, t)
				}
			}
		default:
			ok = false
		}
	})
	return out, ok && len(out) > 0
}

// enter returns the contexts of every same-package function a call can enter:
// its static callee, or the resolved targets of a dynamic call.
func (x *c19) enter(ci ssa.CallInstruction, fr *c19Frame) []*c19Frame {
	if cal := x.pkgCalleeStatic(ci); cal != nil {
		return []*c19Frame{{call: ci, parent: fr, fn: cal}}
	}
	cc := ci.Common()
	if cc.IsInvoke() {
		// a single-implementation seam: an unexported interface of the package
		// implemented by exactly one of its types
		if m := x.soleImplementation(cc.Value.Type(), cc.Method); m != nil {
			f := &c19Frame{call: ci, parent: fr, fn: m}
			f.args = append([]ssa.Value{cc.Value}, cc.Args...)
			f.argFr = make([]*c19Frame, len(f.args))
			for i := range f.argFr {
				f.argFr[i] = fr
			}
			return []*c19Frame{f}
		}
		return nil
	}
	if sc := staticCallee(ci); sc != nil && x.boundMethod(sc) == nil {
		return nil // a static call into another package
	}
	if _, isB := cc.Value.(*ssa.Builtin); isB {
		return nil
	}
	if x.busyTargets {
		return nil
	}
	x.busyTargets = true
	ts, ok := x.funcTargets(cc.Value, fr, 0)
	x.busyTargets = false
	if !ok {
		return nil
	}
	var out []*c19Frame
	for _, t := range ts {
		if t.fn == nil {
			continue
		}
		f := &c19Frame{call: ci, parent: fr, fn: t.fn}
		if t.recv != nil {
			f.args = append([]ssa.Value{t.recv}, cc.Args...)
			f.argFr = make([]*c19Frame, len(f.args))
			f.argFr[0] = t.recvFr
			for i := 1; i < len(f.argFr); i++ {
				f.argFr[i] = fr
			}
		}
		out = append(out, f)
	}
	return out
}

func (x *c19) instrID(in ssa.Instruction) int {
	if id, ok := x.instrIDs[in]; ok {
		return id
	}
	id := len(x.instrIDs) + 1
	x.instrIDs[in] = id
	return id
}

func (x *c19) frameKey(fr *c19Frame) string {
	var parts []string
	for f := fr; f != nil; f = f.parent {
		parts = append(parts, fmt.Sprint(x.instrID(f.call)))
	}
	return strings.Join(parts, "<")
}

func c19FrameHas(fr *c19Frame, fn *ssa.Function) bool {
	for f := fr; f != nil; f = f.parent {
		if f.callee() == fn {
			return true
		}
	}
	return false
}

func c19FrameDepth(fr *c19Frame) int {
	n := 0
	for f := fr; f != nil; f = f.parent {
		n++
	}
	return n
}

// c19Origin is where a value ultimately comes from.
type c19Origin struct {
	kind string    // nil | const | call | field | global | alloc | make | param | unknown
	v    ssa.Value // the call / alloc / make / load instruction
	idx  int       // result index for kind call
	fr   *c19Frame // context in which v sits
	desc string
	fid  FieldID // for kind field
}

func (x *c19) originKey(o c19Origin) string {
	id := 0
	if in, ok := o.v.(ssa.Instruction); ok {
		id = x.instrID(in)
	}
	return fmt.Sprintf("%s:%d#%d@%s", o.kind, id, o.idx, x.frameKey(o.fr))
}

func c19ParamIndex(pa *ssa.Parameter) int {
	for i, q := range pa.Parent().Params {
		if q == pa {
			return i
		}
	}
	return -1
}

type c19Walk struct {
	x    *c19
	seen map[string]bool
	out  []c19Origin
}

// origins computes the provenance of v in context fr.
func (x *c19) origins(v ssa.Value, fr *c19Frame) []c19Origin {
	w := &c19Walk{x: x, seen: map[string]bool{}}
	w.walk(v, -1, fr, 0)
	return w.out
}

func (w *c19Walk) add(o c19Origin) { w.out = append(w.out, o) }

// walk: idx >= 0 selects a component of a tuple-valued v.
func (w *c19Walk) walk(v ssa.Value, idx int, fr *c19Frame, depth int) {
	x := w.x
	if v == nil {
		return
	}
	if depth > 40 {
		w.add(c19Origin{kind: "unknown", v: v, fr: fr, desc: "provenance too deep"})
		return
	}
	key := fmt.Sprintf("%p|%d|%s", v, idx, x.frameKey(fr))
	if w.seen[key] {
		return
	}
	w.seen[key] = true
	switch t := v.(type) {
	case *ssa.Const:
		if t.IsNil() {
			w.add(c19Origin{kind: "nil", v: v, fr: fr})
		} else {
			w.add(c19Origin{kind: "const", v: v, fr: fr})
		}
	case *ssa.Extract:
		w.walk(t.Tuple, t.Index, fr, depth+1)
	case *ssa.Call:
		if c19FrameDepth(fr) < 8 {
			n := 0
			for _, nf := range x.enter(t, fr) {
				if c19FrameHas(fr, nf.fn) {
					continue
				}
				nf := nf
				allInstrs(nf.fn, func(in ssa.Instruction) {
					ret, ok := in.(*ssa.Return)
					if !ok {
						return
					}
					i := idx
					if i < 0 {
						i = 0
					}
					if i >= len(ret.Results) {
						return
					}
					n++
					for _, u := range unspill(ret.Results[i]) {
						w.walk(u, -1, nf, depth+1)
					}
				})
			}
			if n > 0 {
				return
			}
		}
		i := idx
		if i < 0 {
			i = 0
		}
		w.add(c19Origin{kind: "call", v: t, idx: i, fr: fr, desc: callDesc(t)})
	case *ssa.Parameter:
		if fr != nil {
			if a, afr, ok := fr.arg(c19ParamIndex(t)); ok {
				w.walk(a, -1, afr, depth+1)
				return
			}
		}
		w.add(c19Origin{kind: "param", v: v, fr: fr, desc: "parameter " + t.Name()})
	case *ssa.FreeVar:
		// a closure called from the function that created it
		if b := resolveFreeVar(t); b != nil {
			w.walk(b, -1, creatorFrame(fr, t.Parent()), depth+1)
			return
		}
		w.add(c19Origin{kind: "unknown", v: v, fr: fr, desc: "captured variable " + t.Name()})
	case *ssa.Phi:
		for _, e := range t.Edges {
			w.walk(e, -1, fr, depth+1)
		}
	case *ssa.MakeInterface:
		w.walk(t.X, -1, fr, depth+1)
	case *ssa.ChangeInterface:
		w.walk(t.X, -1, fr, depth+1)
	case *ssa.ChangeType:
		w.walk(t.X, -1, fr, depth+1)
	case *ssa.Convert:
		w.walk(t.X, -1, fr, depth+1)
	case *ssa.TypeAssert:
		w.walk(t.X, -1, fr, depth+1)
	case *ssa.Slice:
		w.walk(t.X, -1, fr, depth+1)
	case *ssa.Lookup:
		w.walk(t.X, -1, fr, depth+1)
	case *ssa.Index:
		w.walk(t.X, -1, fr, depth+1)
	case *ssa.Field:
		w.walk(t.X, -1, fr, depth+1)
	case *ssa.BinOp:
		w.walk(t.X, -1, fr, depth+1)
		w.walk(t.Y, -1, fr, depth+1)
	case *ssa.Alloc:
		w.add(c19Origin{kind: "alloc", v: v, fr: fr})
	case *ssa.MakeMap, *ssa.MakeSlice, *ssa.MakeChan, *ssa.MakeClosure:
		w.add(c19Origin{kind: "make", v: v, fr: fr})
	case *ssa.Global:
		w.add(c19Origin{kind: "global", v: v, fr: fr, desc: t.Name()})
	case *ssa.Function:
		w.add(c19Origin{kind: "const", v: v, fr: fr})
	case *ssa.IndexAddr:
		w.walk(t.X, -1, fr, depth+1)
	case *ssa.FieldAddr:
		w.walk(t.X, -1, fr, depth+1)
	case *ssa.UnOp:
		if t.Op != token.MUL {
			w.walk(t.X, -1, fr, depth+1)
			return
		}
		switch a := t.X.(type) {
		case *ssa.Alloc:
			// a local variable cell: what was stored into it, here or by a
			// closure that captured it
			n := 0
			for _, st := range c19CellStores(a) {
				n++
				sfr := fr
				if st.Parent() != a.Parent() {
					sfr = nil
				}
				w.walk(st.Val, -1, sfr, depth+1)
			}
			if n == 0 {
				w.add(c19Origin{kind: "alloc", v: a, fr: fr})
			}
		case *ssa.FreeVar:
			if cell := cellOf(a); cell != nil {
				pf := creatorFrame(fr, a.Parent())
				for _, rr := range refs(cell) {
					if st, ok := rr.(*ssa.Store); ok && st.Addr == cell {
						w.walk(st.Val, -1, pf, depth+1)
					}
				}
				// stores made by this closure itself
				allInstrs(t.Parent(), func(in ssa.Instruction) {
					if st, ok := in.(*ssa.Store); ok && st.Addr == ssa.Value(a) {
						w.walk(st.Val, -1, fr, depth+1)
					}
				})
				return
			}
			w.add(c19Origin{kind: "unknown", v: v, fr: fr, desc: "captured variable " + a.Name()})
		case *ssa.FieldAddr:
			if base, ok := a.X.(*ssa.Alloc); ok {
				// a field of a local struct: the stores into that field
				n := 0
				for _, rr := range refs(base) {
					if fa, ok := rr.(*ssa.FieldAddr); ok && fa.Field == a.Field {
						for _, r2 := range refs(fa) {
							if st, ok := r2.(*ssa.Store); ok && st.Addr == ssa.Value(fa) {
								n++
								w.walk(st.Val, -1, fr, depth+1)
							}
						}
					}
				}
				// the struct variable assigned as a whole (range variable, copy)
				for _, rr := range refs(base) {
					if st, ok := rr.(*ssa.Store); ok && st.Addr == ssa.Value(base) {
						n++
						w.walk(st.Val, -1, fr, depth+1)
					}
				}
				if n > 0 {
					return
				}
			}
			id := fieldIDOfAddr(a)
			w.add(c19Origin{kind: "field", v: v, fr: fr, desc: id.String(), fid: id})
		case *ssa.IndexAddr:
			w.walk(a.X, -1, fr, depth+1)
		case *ssa.Global:
			w.add(c19Origin{kind: "global", v: v, fr: fr, desc: a.Name()})
		default:
			w.walk(t.X, -1, fr, depth+1)
		}
	default:
		w.add(c19Origin{kind: "unknown", v: v, fr: fr, desc: v.String()})
	}
}

// derive visits the origins of v and, transitively, the origins of everything
// the producing (not followed) calls and local aggregates were built from.
func (x *c19) derive(v ssa.Value, fr *c19Frame, visit func(o c19Origin)) {
	seen := map[string]bool{}
	var rec func(v ssa.Value, fr *c19Frame, depth int)
	rec = func(v ssa.Value, fr *c19Frame, depth int) {
		if depth > 12 {
			return
		}
		for _, o := range x.origins(v, fr) {
			k := x.originKey(o)
			if o.kind == "nil" || o.kind == "const" {
				continue
			}
			if seen[k] {
				continue
			}
			seen[k] = true
			visit(o)
			switch o.kind {
			case "call":
				call := o.v.(*ssa.Call)
				if c19IsKeyGen(call) || c19IsRequestCall(call) {
					continue // sources: what they were built from is irrelevant
				}
				if call.Call.IsInvoke() {
					rec(call.Call.Value, o.fr, depth+1)
				}
				for _, a := range call.Call.Args {
					rec(a, o.fr, depth+1)
				}
			case "alloc":
				var stores func(addr ssa.Value, d int)
				stores = func(addr ssa.Value, d int) {
					if d > 3 {
						return
					}
					for _, rr := range refs(addr) {
						switch u := rr.(type) {
						case *ssa.Store:
							if u.Addr == addr {
								rec(u.Val, o.fr, depth+1)
							}
						case *ssa.FieldAddr:
							stores(u, d+1)
						case *ssa.IndexAddr:
							stores(u, d+1)
						case *ssa.Slice:
							// slices of a local array share its elements
						}
					}
				}
				stores(o.v, 0)
			case "make":
				for _, rr := range refs(o.v) {
					if mu, ok := rr.(*ssa.MapUpdate); ok && mu.Map == o.v {
						rec(mu.Value, o.fr, depth+1)
					}
					// maps.Copy(dst, src) / maps.Insert(dst, seq): dst also holds what src holds
					if call, ok := rr.(*ssa.Call); ok && len(call.Call.Args) == 2 && call.Call.Args[0] == o.v {
						if obj := calleeObj(call); obj != nil && obj.Pkg() != nil && obj.Pkg().Path() == "maps" && (obj.Name() == "Copy" || obj.Name() == "Insert") {
							rec(call.Call.Args[1], o.fr, depth+1)
						}
					}
				}
			}
		}
	}
	rec(v, fr, 0)
}

// c19Keyish: a type that denotes private key material.
func c19Keyish(t types.Type) bool {
	k := namedKey(t)
	if k == "" {
		return false
	}
	name := k[strings.LastIndex(k, ".")+1:]
	return strings.Contains(name, "PrivateKey") || name == "Signer"
}

// c19KeySources collects, for a value, the key-generation calls it derives from
// and the key-typed values of other provenance.
type c19KeySources struct {
	gens     map[string]c19Origin
	foreign  []string // definite: key material from a field / global
	unknown  []string // key material of unresolved provenance
	reqs     map[string]c19Origin
	anchors  bool
	anchorAt []c19Origin // the CurrentTrustAnchors calls reached
	entries  int         // map entries seen on the way
	opaque   []string    // byte / map contents of unresolved provenance
}

func (x *c19) sourcesOf(v ssa.Value, fr *c19Frame) *c19KeySources {
	ks := &c19KeySources{gens: map[string]c19Origin{}, reqs: map[string]c19Origin{}}
	x.derive(v, fr, func(o c19Origin) {
		switch o.kind {
		case "call":
			call := o.v.(*ssa.Call)
			switch {
			case c19IsKeyGen(call):
				if c19Keyish(c19ResultType(call, o.idx)) {
					ks.gens[x.originKey(o)] = o
				}
			case c19IsRequestCall(call):
				if o.idx == 0 {
					ks.reqs[x.originKey(o)] = o
				}
			default:
				if obj := calleeObj(call); obj != nil && obj.Name() == "CurrentTrustAnchors" {
					ks.anchors = true
					ks.anchorAt = append(ks.anchorAt, o)
				}
				if c19Keyish(c19ResultType(call, o.idx)) {
					ks.unknown = append(ks.unknown, "result of "+callDesc(call))
				}
			}
		case "field", "global":
			if c19Keyish(o.v.Type()) {
				ks.foreign = append(ks.foreign, o.kind+" "+o.desc)
			}
			if c19IsContent(o.v.Type()) {
				ks.opaque = append(ks.opaque, o.kind+" "+o.desc)
			}
		case "param", "unknown":
			if c19Keyish(o.v.Type()) {
				ks.unknown = append(ks.unknown, o.desc)
			}
			if c19IsContent(o.v.Type()) {
				ks.opaque = append(ks.opaque, o.desc)
			}
		case "make":
			if mm, ok := o.v.(*ssa.MakeMap); ok {
				for _, rr := range refs(mm) {
					if mu, ok := rr.(*ssa.MapUpdate); ok && mu.Map == ssa.Value(mm) {
						ks.entries++
					}
				}
			}
		}
	})
	return ks
}

func c19ResultType(call *ssa.Call, idx int) types.Type {
	res := call.Call.Signature().Results()
	if idx >= 0 && idx < res.Len() {
		return res.At(idx).Type()
	}
	return types.Typ[types.Invalid]
}

func c19GenKeys(m map[string]c19Origin) []string {
	var out []string
	for k := range m {
		out = append(out, k)
	}
	sort.Strings(out)
	return out
}

// explore visits every instruction executed (through static same-package
// calls and deferred calls) by fn, with its call-string context.
func (x *c19) explore(fn *ssa.Function, fr *c19Frame, visit func(in ssa.Instruction, fr *c19Frame)) {
	if c19FrameDepth(fr) > 8 {
		return
	}
	allInstrs(fn, func(in ssa.Instruction) {
		visit(in, fr)
		ci, ok := in.(ssa.CallInstruction)
		if !ok {
			return
		}
		if _, isGo := in.(*ssa.Go); isGo {
			return
		}
		for _, nf := range x.enter(ci, fr) {
			if nf.fn != fn && !c19FrameHas(fr, nf.fn) {
				x.explore(nf.fn, nf, visit)
			}
		}
	})
}

func c19InCycle(in ssa.Instruction) bool {
	b := in.Block()
	for _, s := range b.Succs {
		if reachableFrom(s, nil)[b] {
			return true
		}
	}
	return false
}

// c19IsDirWrite: a call of dir.Dir.Write, or of a Write(map[string][]byte) error method behind an interface.
// isDirWrite: c19IsDirWrite, or a call of a function value (local, func-typed
// field, parameter) all of whose possible values are dir.Dir.Write method values.
func (x *c19) isDirWrite(ci ssa.CallInstruction, fr *c19Frame) bool {
	if c19IsDirWrite(ci) {
		return true
	}
	cc := ci.Common()
	if cc.IsInvoke() || x.busyTargets {
		return false
	}
	if _, isB := cc.Value.(*ssa.Builtin); isB {
		return false
	}
	if sc := staticCallee(ci); sc != nil && !strings.HasPrefix(sc.Synthetic, "bound method wrapper") {
		return false
	}
	sig, ok := cc.Value.Type().Underlying().(*types.Signature)
	if !ok || sig.Params().Len() != 1 || !c19IsContent(sig.Params().At(0).Type()) {
		return false
	}
	x.busyTargets, x.extTargets = true, true
	ts, ok := x.funcTargets(cc.Value, fr, 0)
	x.busyTargets, x.extTargets = false, false
	if !ok || len(ts) == 0 {
		return false
	}
	for _, t := range ts {
		if t.fn != nil || t.obj == nil || t.obj.Name() != "Write" || t.obj.Pkg() == nil || !strings.HasSuffix(t.obj.Pkg().Path(), "/concurrency/dir") {
			return false
		}
	}
	return true
}

func c19IsDirWrite(ci ssa.CallInstruction) bool {
	obj := calleeObj(ci)
	if obj == nil || obj.Name() != "Write" {
		return false
	}
	if obj.Pkg() != nil && strings.HasSuffix(obj.Pkg().Path(), "/concurrency/dir") && !ci.Common().IsInvoke() {
		return true
	}
	sig, ok := obj.Type().(*types.Signature)
	if !ok || sig.Params().Len() != 1 || sig.Results().Len() != 1 || !isErrorType(sig.Results().At(0).Type()) {
		return false
	}
	m, ok := sig.Params().At(0).Type().Underlying().(*types.Map)
	if !ok {
		return false
	}
	sl, ok := m.Elem().Underlying().(*types.Slice)
	return ok && types.Identical(m.Key(), types.Typ[types.String]) && types.Identical(sl.Elem(), types.Typ[types.Byte])
}

func c19IsSVIDAlloc(in ssa.Instruction) (*ssa.Alloc, bool) {
	a, ok := in.(*ssa.Alloc)
	if !ok {
		return nil, false
	}
	return a, c19IsSVIDPtr(a.Type())
}

type c19SinkAt struct {
	in ssa.Instruction
	fr *c19Frame
}

func (x *c19) checkX4() {
	r, p := x.r, x.p
	// top-level fetchers: not reached from another fetcher
	var tops []*ssa.Function
	for _, f := range x.fns {
		if !x.fetchers[f] {
			continue
		}
		top := true
		for g := range x.fetchers {
			if g != f && x.reachableFrom(g)[f] && !x.reachableFrom(f)[g] {
				top = false
			}
		}
		if top {
			tops = append(tops, f)
		}
	}
	if len(tops) == 0 {
		x.undecide("no function of crypto/spiffe returns (*x509svid.SVID, error): the fetch is not recognised")
		return
	}
	for _, F := range tops {
		name := x.name(F)
		var reqs, allocs, writes []c19SinkAt
		x.explore(F, nil, func(in ssa.Instruction, fr *c19Frame) {
			if ci, ok := in.(ssa.CallInstruction); ok {
				if c19IsRequestCall(ci) {
					reqs = append(reqs, c19SinkAt{in, fr})
				}
				if x.isDirWrite(ci, fr) {
					writes = append(writes, c19SinkAt{in, fr})
				}
			}
			if _, ok := c19IsSVIDAlloc(in); ok {
				allocs = append(allocs, c19SinkAt{in, fr})
			}
		})
		if len(reqs) == 0 {
			x.undecide("%s makes no issuer call of type func(context.Context, []byte) ([]*x509.Certificate, error): request not recognised", name)
			continue
		}

		// ---- the key of this fetch
		var bad, und []string
		K := ""
		var kOrigin c19Origin
		note := func(what string, ks *c19KeySources) {
			for _, f := range ks.foreign {
				bad = append(bad, what+" uses key material from "+f+" (a key kept across fetches)")
			}
			for _, u := range ks.unknown {
				und = append(und, what+" uses key material of unresolved provenance ("+u+")")
			}
			gk := c19GenKeys(ks.gens)
			switch {
			case len(gk) == 0 && len(ks.foreign) == 0 && len(ks.unknown) == 0:
				bad = append(bad, what+" does not derive from a key generated by this fetch (no crypto GenerateKey call reaches it)")
			case len(gk) > 1:
				bad = append(bad, what+" may come from different key-generation calls")
			case len(gk) == 1:
				if K == "" {
					K, kOrigin = gk[0], ks.gens[gk[0]]
				} else if K != gk[0] {
					bad = append(bad, what+" derives from a different key-generation call than the CSR: certificate and key can disagree")
				}
			}
		}
		for i, rq := range reqs {
			args := rq.in.(ssa.CallInstruction).Common().Args
			note(fmt.Sprintf("the CSR of issuer request #%d", i+1), x.sourcesOf(args[1], rq.fr))
			if c19InCycle(rq.in) {
				und = append(und, "the issuer request sits in a loop: one fresh key per request is not decided")
			}
		}
		if K != "" {
			if c19InCycle(kOrigin.v.(ssa.Instruction)) {
				und = append(und, "the key generation sits in a loop: one key per fetch is not decided")
			}
		}

		// ---- the SVID returned
		var returned []c19Origin
		allInstrs(F, func(in ssa.Instruction) {
			if ret, ok := in.(*ssa.Return); ok && len(ret.Results) == 2 {
				for _, u := range unspill(ret.Results[0]) {
					returned = append(returned, x.origins(u, nil)...)
				}
			}
		})
		nAlloc := 0
		var badS, undS []string
		seenAlloc := map[string]bool{}
		for _, o := range returned {
			switch o.kind {
			case "nil":
			case "alloc":
				k := x.originKey(o)
				if seenAlloc[k] {
					continue
				}
				seenAlloc[k] = true
				a := o.v.(*ssa.Alloc)
				if !c19IsSVIDPtr(a.Type()) {
					undS = append(undS, "returns a value that is not a freshly built SVID")
					continue
				}
				nAlloc++
				hasKey, hasCerts := false, false
				for _, rr := range refs(a) {
					fa, ok := rr.(*ssa.FieldAddr)
					if !ok {
						continue
					}
					fname := fieldIDOfAddr(fa).Field
					for _, r2 := range refs(fa) {
						st, ok := r2.(*ssa.Store)
						if !ok || st.Addr != ssa.Value(fa) {
							continue
						}
						switch fname {
						case "PrivateKey":
							hasKey = true
							// the key itself, not something computed from it
							ks := &c19KeySources{gens: map[string]c19Origin{}, reqs: map[string]c19Origin{}}
							for _, ko := range x.origins(st.Val, o.fr) {
								switch {
								case ko.kind == "call" && c19IsKeyGen(ko.v.(*ssa.Call)) && c19Keyish(c19ResultType(ko.v.(*ssa.Call), ko.idx)):
									ks.gens[x.originKey(ko)] = ko
								case ko.kind == "nil":
								case ko.kind == "field" || ko.kind == "global":
									ks.foreign = append(ks.foreign, ko.kind+" "+ko.desc)
								default:
									ks.unknown = append(ks.unknown, ko.kind+" "+ko.desc)
								}
							}
							note("the PrivateKey of the SVID built", ks)
						case "Certificates":
							hasCerts = true
							cs := x.sourcesOf(st.Val, o.fr)
							if len(cs.reqs) == 0 {
								undS = append(undS, "the Certificates of the SVID built are not recognised as the result of this fetch's issuer request")
							}
						}
					}
				}
				if !hasKey {
					bad = append(bad, "the SVID built has no PrivateKey")
				}
				if !hasCerts {
					badS = append(badS, "the SVID built has no Certificates")
				}
			case "field", "global":
				badS = append(badS, "returns an SVID loaded from "+o.desc+" instead of a freshly fetched one")
			default:
				undS = append(undS, "returns an SVID of unresolved provenance ("+o.kind+" "+o.desc+")")
			}
		}
		if nAlloc == 0 && len(badS) == 0 && len(undS) == 0 {
			undS = append(undS, "no return of a freshly built SVID recognised")
		}
		sort.Strings(bad)
		for _, u := range append(und, undS...) {
			x.undecide("%s: %s", name, u)
		}
		r.Check(len(bad) == 0, "C19.X4-fresh-key", name+" key", p.Pos(F.Pos()),
			"one key generated in this fetch signs the CSR and is the SVID's PrivateKey", strings.Join(c19Dedup(bad), "; "))
		r.Check(len(badS) == 0, "C19.X4-fresh-key", name+" SVID", p.Pos(F.Pos()),
			"every SVID returned is built in this fetch from this request's certificates", strings.Join(c19Dedup(badS), "; "))

		// ---- one file set
		construct := name + " one file set"
		switch {
		case len(writes) == 0:
			elsewhere := ""
			for _, fn := range x.fns {
				allInstrs(fn, func(in ssa.Instruction) {
					if ci, ok := in.(ssa.CallInstruction); ok && x.isDirWrite(ci, nil) {
						elsewhere = x.name(fn)
					}
				})
			}
			if elsewhere != "" {
				r.OK("C19.X4-fresh-key", construct, p.Pos(F.Pos()), "dir.Write located")
				x.undecide("%s: the identity files are written by %s, outside the statically followed code of the fetch: the file set is not decided", name, elsewhere)
			} else {
				r.Violation("C19.X4-fresh-key", construct, p.Pos(F.Pos()), "the fetch no longer publishes key, chain and trust anchors through dir.Write")
			}
		case len(writes) > 1:
			r.Violation("C19.X4-fresh-key", construct, x.pos(writes[1].in), "key, certificate chain and trust anchors are no longer written as ONE file set by a single dir.Write (readers could pair a new key with an old chain)")
		default:
			wr := writes[0]
			args := wr.in.(ssa.CallInstruction).Common().Args
			// everything the file map handed to Write is built from (map literals,
			// maps filled in loops / by maps.Copy, maps.Clone, helper results)
			ks := x.sourcesOf(args[len(args)-1], wr.fr)
			hasKey, hasChain, hasAnch := false, len(ks.reqs) > 0, ks.anchors
			var badW []string
			n := ks.entries
			for _, f := range ks.foreign {
				badW = append(badW, "a file is built from key material of "+f)
			}
			for gk := range ks.gens {
				if K != "" && gk != K {
					badW = append(badW, "the key file is encoded from a different key than the one in the CSR/SVID: certificate and published key can disagree")
				} else {
					hasKey = true
				}
			}
			// every path that puts the key into the map also puts the trust anchors in:
			// (a map built and written in one function) an entry carrying this fetch's
			// key that can reach the Write on a path avoiding every anchors entry means
			// a file set without ca.pem is published
			for _, o := range x.origins(args[len(args)-1], wr.fr) {
				mm, ok := o.v.(*ssa.MakeMap)
				if !ok || mm.Parent() != wr.in.Parent() {
					continue
				}
				var keyUps, anchUps []*ssa.MapUpdate
				for _, rr := range refs(mm) {
					mu, ok := rr.(*ssa.MapUpdate)
					if !ok || mu.Map != ssa.Value(mm) {
						continue
					}
					ku := x.sourcesOf(mu.Value, o.fr)
					if ku.anchors {
						anchUps = append(anchUps, mu)
					}
					if len(ku.gens) > 0 {
						keyUps = append(keyUps, mu)
					}
				}
				if len(anchUps) == 0 {
					continue
				}
				avoid := map[*ssa.BasicBlock]bool{}
				sameInstr := map[*ssa.MapUpdate]bool{}
				for _, a := range anchUps {
					avoid[a.Block()] = true
					sameInstr[a] = true
				}
				for _, k := range keyUps {
					if sameInstr[k] || avoid[k.Block()] {
						continue
					}
					// from the key entry to the Write, never passing an anchors entry
					reach := false
					if k.Block() == wr.in.Block() && instrIndex(k) < instrIndex(wr.in) {
						reach = true
					}
					for _, sb := range k.Block().Succs {
						if reachableFrom(sb, avoid)[wr.in.Block()] {
							reach = true
						}
					}
					if reach {
						badW = append(badW, "the file map can reach dir.Write with the key of this fetch but WITHOUT the trust anchors (the anchors entry at "+x.pos(anchUps[0])+" is skipped on some path): the published file set is incomplete")
					}
				}
			}
			// the trust anchors written next to the certificate are read after the
			// issuer answered (anchors read before the request can be older than the
			// certificate they are published with)
			chainOf := func(in ssa.Instruction, fr *c19Frame) []ssa.Instruction {
				out := []ssa.Instruction{in}
				for f := fr; f != nil; f = f.parent {
					out = append([]ssa.Instruction{f.call}, out...)
				}
				return out // outermost call first, the instruction itself last
			}
			for _, ao := range ks.anchorAt {
				ac := chainOf(ao.v.(ssa.Instruction), ao.fr)
				for _, rq := range reqs {
					rc := chainOf(rq.in, rq.fr)
					// the first level at which the two call chains part: both instructions sit in one function there
					i := 0
					for i < len(ac)-1 && i < len(rc)-1 && ac[i] == rc[i] {
						i++
					}
					aTop, rTop := ac[i], rc[i]
					switch {
					case aTop.Parent() != rTop.Parent() || aTop == rTop:
						x.undecide("%s: the order of the trust-anchor read and the issuer request is not decided (they sit in different call chains)", name)
					case instrDominates(rTop, aTop):
					case instrDominates(aTop, rTop), !c19CanReach(rTop, aTop) && c19CanReach(aTop, rTop):
						badW = append(badW, "the trust anchors written with the identity are read (at "+x.pos(ao.v.(ssa.Instruction))+") BEFORE the issuer request is made: the file set pairs the new key and chain with anchors from before the request, not the current ones")
					default:
						x.undecide("%s: the trust-anchor read at %s is not ordered with the issuer request on every path", name, x.pos(ao.v.(ssa.Instruction)))
					}
				}
			}
			switch {
			case len(badW) > 0:
				r.Violation("C19.X4-fresh-key", construct, x.pos(wr.in), strings.Join(c19Dedup(badW), "; "))
			case (!hasKey || !hasChain || !hasAnch) && len(ks.opaque) > 0:
				r.OK("C19.X4-fresh-key", construct, x.pos(wr.in), "one dir.Write call")
				x.undecide("%s: part of the file map handed to dir.Write has unresolved contents (%s): whether key, chain and trust anchors are one file set is not decided", name, strings.Join(c19Dedup(ks.opaque), ", "))
			case !hasKey || !hasChain || !hasAnch:
				miss := []string{}
				if !hasKey {
					miss = append(miss, "the key generated by this fetch")
				}
				if !hasChain {
					miss = append(miss, "the certificate chain of this request")
				}
				if !hasAnch {
					miss = append(miss, "the current trust anchors")
				}
				r.Violation("C19.X4-fresh-key", construct, x.pos(wr.in), fmt.Sprintf("the single dir.Write (%d entries) does not publish %s together with the rest: key, chain and trust anchors are not one file set", n, strings.Join(miss, ", ")))
			default:
				r.OK("C19.X4-fresh-key", construct, x.pos(wr.in), fmt.Sprintf("key, chain and trust anchors are published by one dir.Write call (%d entries)", n))
			}
		}
	}
}

func c19Dedup(in []string) []string {
	seen := map[string]bool{}
	var out []string
	for _, s := range in {
		if !seen[s] {
			seen[s] = true
			out = append(out, s)
		}
	}
	sort.Strings(out)
	return out
}

// chanFieldFr resolves a channel value to the struct field it comes from, in
// call-string context fr (parameters of helpers are bound by the frames).
func (x *c19) chanFieldFr(v ssa.Value, fr *c19Frame) (string, bool) {
	if id, ok := x.chanField(v, 0); ok {
		return id, true
	}
	first := ""
	for _, o := range x.origins(v, fr) {
		if o.kind == "nil" {
			continue
		}
		if o.kind != "field" {
			return "", false
		}
		id := x.fieldAlias("field:"+o.fid.Type+"."+o.fid.Field, 0)
		if first == "" {
			first = id
		} else if first != id {
			return "", false
		}
	}
	return first, first != ""
}

// c19ChanUse is one channel awaited by a blocking receive / select reached from a root function.
type c19ChanUse struct {
	in    ssa.Instruction
	sel   int    // index of the blocking operation (to group select cases)
	field string // "field:..." when resolved
	done  bool   // a context's Done channel
	other bool   // anything else (timer, unresolved, ...)
	unres bool   // a struct{} channel of unresolved origin
}

// awaitedFrom lists the channels awaited by the blocking receives and selects
// executed (through static same-package calls) by fn.
func (x *c19) awaitedFrom(fn *ssa.Function) []c19ChanUse {
	var out []c19ChanUse
	n := 0
	classify := func(in ssa.Instruction, v ssa.Value, fr *c19Frame) c19ChanUse {
		u := c19ChanUse{in: in, sel: n}
		if id, ok := x.chanFieldFr(v, fr); ok {
			u.field = id
			return u
		}
		done := false
		for _, o := range x.origins(v, fr) {
			if o.kind == "call" {
				if obj := calleeObj(o.v.(*ssa.Call)); obj != nil && obj.Name() == "Done" {
					done = true
					continue
				}
			}
			done = false
			break
		}
		if done || strings.HasPrefix(chanIdent(v), "done:") {
			u.done = true
			return u
		}
		u.other = true
		u.unres = x.unresolvedChan(v)
		return u
	}
	x.explore(fn, nil, func(in ssa.Instruction, fr *c19Frame) {
		switch t := in.(type) {
		case *ssa.UnOp:
			if t.Op == token.ARROW {
				n++
				out = append(out, classify(in, t.X, fr))
			}
		case *ssa.Select:
			if t.Blocking {
				n++
				for _, st := range t.States {
					if st.Dir == types.RecvOnly {
						out = append(out, classify(in, st.Chan, fr))
					} else {
						out = append(out, c19ChanUse{in: in, sel: n, other: true})
					}
				}
			}
		}
	})
	return out
}

// c19CellStores: the stores into a local variable cell, including those made
// through the captured variable by closures created in the cell's function
// (and closures nested in them).
func c19CellStores(cell *ssa.Alloc) []*ssa.Store {
	var out []*ssa.Store
	var via func(addr ssa.Value, depth int)
	via = func(addr ssa.Value, depth int) {
		if depth > 4 {
			return
		}
		for _, rr := range refs(addr) {
			switch t := rr.(type) {
			case *ssa.Store:
				if t.Addr == addr {
					out = append(out, t)
				}
			case *ssa.MakeClosure:
				fn, _ := t.Fn.(*ssa.Function)
				if fn == nil {
					continue
				}
				for i, b := range t.Bindings {
					if b == addr && i < len(fn.FreeVars) {
						via(fn.FreeVars[i], depth+1)
					}
				}
			}
		}
	}
	via(cell, 0)
	return out
}

// soleImplementation: iface is an unexported interface type declared in the
// package and exactly one named type of the package implements it; returns
// that type's method m.
func (x *c19) soleImplementation(t types.Type, m *types.Func) *ssa.Function {
	n, ok := types.Unalias(t).(*types.Named)
	if !ok || n.Obj().Pkg() == nil || n.Obj().Pkg().Path() != x.pkg || n.Obj().Exported() || m == nil {
		return nil
	}
	iface, ok := n.Underlying().(*types.Interface)
	if !ok {
		return nil
	}
	key := n.Obj().Name() + "." + m.Name()
	if f, ok := x.seamMemo[key]; ok {
		return f
	}
	var found []*ssa.Function
	scope := n.Obj().Pkg().Scope()
	names := scope.Names()
	sort.Strings(names)
	for _, name := range names {
		tn, ok := scope.Lookup(name).(*types.TypeName)
		if !ok || tn.IsAlias() {
			continue
		}
		if _, isIface := tn.Type().Underlying().(*types.Interface); isIface {
			continue
		}
		for _, cand := range []types.Type{tn.Type(), types.NewPointer(tn.Type())} {
			if !types.Implements(cand, iface) {
				continue
			}
			obj, _, _ := types.LookupFieldOrMethod(cand, true, n.Obj().Pkg(), m.Name())
			if fo, ok := obj.(*types.Func); ok {
				if f := x.p.SSA.FuncValue(fo); f != nil && x.inPkg[origin(f)] {
					found = append(found, origin(f))
				}
			}
			break
		}
	}
	var out *ssa.Function
	if len(found) == 1 {
		out = found[0]
	}
	x.seamMemo[key] = out
	return out
}

// c19IsContent: a type that carries file contents (bytes, or a map of them).
func c19IsContent(t types.Type) bool {
	switch u := t.Underlying().(type) {
	case *types.Slice:
		return types.Identical(u.Elem(), types.Typ[types.Byte])
	case *types.Map:
		return c19IsContent(u.Elem())
	case *types.Pointer:
		return c19IsContent(u.Elem())
	}
	return false
}

// c19CanReach: instruction b can execute after instruction a (same function).
func c19CanReach(a, b ssa.Instruction) bool {
	if a.Block() == b.Block() && instrIndex(a) < instrIndex(b) {
		return true
	}
	for _, s := range a.Block().Succs {
		if reachableFrom(s, nil)[b.Block()] {
			return true
		}
	}
	return false
}
