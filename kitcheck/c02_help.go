package main

// Helpers private to property C02 (all names prefixed c02).

import (
	"fmt"
	"go/constant"
	"go/token"
	"go/types"
	"sort"
	"strings"

	"golang.org/x/tools/go/ssa"
)

// c02Carries reports whether v may carry the value src: v == src, or v is a
// phi / interface conversion whose (transitive) operand is src.
func c02Carries(v, src ssa.Value) bool {
	if v == nil || src == nil {
		return false
	}
	seen := map[ssa.Value]bool{}
	var walk func(x ssa.Value) bool
	walk = func(x ssa.Value) bool {
		if x == src {
			return true
		}
		if seen[x] {
			return false
		}
		seen[x] = true
		switch y := x.(type) {
		case *ssa.Phi:
			for _, e := range y.Edges {
				if walk(e) {
					return true
				}
			}
		case *ssa.ChangeInterface:
			return walk(y.X)
		case *ssa.MakeInterface:
			return walk(y.X)
		case *ssa.ChangeType:
			return walk(y.X)
		}
		return false
	}
	return walk(v)
}

// c02CarriesAny reports whether v may carry one of srcs.
func c02CarriesAny(v ssa.Value, srcs []ssa.Value) bool {
	for _, s := range srcs {
		if c02Carries(v, s) {
			return true
		}
	}
	return false
}

// c02StoredToMemory reports whether v is stored into a memory cell (so that a
// later test of it would go through a load the path rules cannot follow).
func c02StoredToMemory(v ssa.Value) bool {
	for _, rr := range refs(v) {
		if st, ok := rr.(*ssa.Store); ok && st.Val == v {
			return true
		}
	}
	return false
}

// c02IsGlobalLoad reports whether v is `*pkg.Name` for a package-level
// variable and returns "pkgpath.Name".
func c02IsGlobalLoad(v ssa.Value) (string, bool) {
	u, ok := v.(*ssa.UnOp)
	if !ok || u.Op != token.MUL {
		return "", false
	}
	g, ok := u.X.(*ssa.Global)
	if !ok || g.Pkg == nil {
		return "", false
	}
	return g.Pkg.Pkg.Path() + "." + g.Name(), true
}

// c02ErrShapeNonNil: v is, by construction, a non-nil error: the result of
// errors.New / fmt.Errorf, or the load of a package-level error variable
// (sentinels are assumed non-nil, see Assumptions).
func c02ErrShapeNonNil(v ssa.Value) bool {
	return c02ErrShapeNonNilD(v, 0)
}

func c02ErrShapeNonNilD(v ssa.Value, depth int) bool {
	switch x := v.(type) {
	case *ssa.Call:
		if callIs(x, "errors", "", "New") || callIs(x, "fmt", "", "Errorf") {
			return true
		}
		// a function/closure whose body is known and all of whose returns are non-nil by construction (an error-wrapping helper)
		if h := staticCallee(x); h != nil && len(h.Blocks) > 0 && depth < 3 && h.Signature.Results().Len() == 1 {
			n, all := 0, true
			allInstrs(h, func(in ssa.Instruction) {
				ret, ok := in.(*ssa.Return)
				if !ok || len(ret.Results) != 1 || (len(ret.Block().Preds) == 0 && ret.Block().Index != 0) {
					return
				}
				n++
				if !c02ErrShapeNonNilD(ret.Results[0], depth+1) {
					all = false
				}
			})
			return n > 0 && all
		}
		return false
	case *ssa.MakeInterface:
		return true // a concrete value boxed into an error interface is non-nil as an interface
	}
	_, ok := c02IsGlobalLoad(v)
	return ok
}

// c02KnownNonNilAt: at block b, value v is known non-nil: by shape, or by a
// dominating `v != nil` edge on a value that is v itself.
func c02KnownNonNilAt(b *ssa.BasicBlock, v ssa.Value) bool {
	if c02ErrShapeNonNil(v) {
		return true
	}
	return errKnownNonNil(b, v)
}

// c02NilTest decodes an If edge into "value V is nil (isNil=true) / non-nil".
func c02NilTest(from, to *ssa.BasicBlock) (v ssa.Value, isNil bool, ok bool) {
	if len(from.Instrs) == 0 || len(from.Succs) != 2 || from.Succs[0] == from.Succs[1] {
		return nil, false, false
	}
	ifi, isIf := from.Instrs[len(from.Instrs)-1].(*ssa.If)
	if !isIf {
		return nil, false, false
	}
	cmp, dec := decodeCond(ifi.Cond, from.Succs[0] == to)
	if !dec || (cmp.Op != token.EQL && cmp.Op != token.NEQ) {
		return nil, false, false
	}
	switch {
	case isNilConst(cmp.Y):
		return cmp.X, cmp.Op == token.EQL, true
	case isNilConst(cmp.X):
		return cmp.Y, cmp.Op == token.EQL, true
	}
	return nil, false, false
}

// c02SentinelTest decodes an If edge that establishes "V is the sentinel
// error pkg.Name": errors.Is(V, pkg.Name) true, or V == pkg.Name.
func c02SentinelTest(from, to *ssa.BasicBlock) (v ssa.Value, sentinel string, ok bool) {
	if len(from.Instrs) == 0 || len(from.Succs) != 2 || from.Succs[0] == from.Succs[1] {
		return nil, "", false
	}
	ifi, isIf := from.Instrs[len(from.Instrs)-1].(*ssa.If)
	if !isIf {
		return nil, "", false
	}
	branch := from.Succs[0] == to
	if call, truth, isCall := boolCallCond(ifi.Cond, branch); isCall && truth && callIs(call, "errors", "", "Is") && len(call.Call.Args) == 2 {
		if name, g := c02IsGlobalLoad(call.Call.Args[1]); g {
			return call.Call.Args[0], name, true
		}
	}
	if cmp, dec := decodeCond(ifi.Cond, branch); dec && cmp.Op == token.EQL {
		if name, g := c02IsGlobalLoad(cmp.Y); g {
			return cmp.X, name, true
		}
		if name, g := c02IsGlobalLoad(cmp.X); g {
			return cmp.Y, name, true
		}
	}
	return nil, "", false
}

// c02SliceBase strips slicing, phis of a single base and conversions.
func c02SliceBase(v ssa.Value) ssa.Value {
	for i := 0; i < 32; i++ {
		switch x := v.(type) {
		case *ssa.Slice:
			v = x.X
			continue
		case *ssa.ChangeType:
			v = x.X
			continue
		case *ssa.Convert:
			v = x.X
			continue
		}
		break
	}
	return v
}

// ---------------------------------------------------------------------------
// Dependence of a function's returned slice on its parameters (used for the
// nonce builder): which parameters influence the bytes of the result?

// c02ValueDeps: the set of parameters (by index in fn.Params) the value v is
// data-dependent on, through arithmetic, conversions, phis (including the
// branch conditions that select the phi edge), and calls (a call result
// depends on all its arguments; in-module callees returning slices are
// summarised with c02ReturnDeps).
func c02ValueDeps(p *Prog, v ssa.Value, depth int) map[int]bool {
	out := map[int]bool{}
	seen := map[ssa.Value]bool{}
	var walk func(x ssa.Value)
	walk = func(x ssa.Value) {
		if x == nil || seen[x] {
			return
		}
		seen[x] = true
		switch y := x.(type) {
		case *ssa.Parameter:
			for i, pa := range y.Parent().Params {
				if pa == y {
					out[i] = true
				}
			}
		case *ssa.BinOp:
			walk(y.X)
			walk(y.Y)
		case *ssa.UnOp:
			walk(y.X)
		case *ssa.Convert:
			walk(y.X)
		case *ssa.ChangeType:
			walk(y.X)
		case *ssa.Slice:
			walk(y.X)
		case *ssa.Extract:
			walk(y.Tuple)
		case *ssa.Phi:
			for _, e := range y.Edges {
				walk(e)
			}
			// control dependence of the selection
			for _, pred := range y.Block().Preds {
				for _, dc := range domConds(pred) {
					walk(dc.If.Cond)
				}
			}
		case *ssa.Call:
			callee := staticCallee(y)
			if callee != nil && p.InModule(callee) && depth > 0 && len(callee.Blocks) > 0 {
				deps := c02ReturnDeps(p, callee, depth-1)
				for i := range deps {
					if i < len(y.Call.Args) {
						walk(y.Call.Args[i])
					}
				}
				return
			}
			for _, a := range y.Call.Args {
				walk(a)
			}
		case *ssa.Alloc, *ssa.MakeSlice:
			// memory: the writes into it
			for _, d := range c02MemoryDeps(p, x, depth) {
				walk(d)
			}
		case *ssa.FieldAddr:
			walk(y.X)
		case *ssa.Field:
			walk(y.X)
		case *ssa.IndexAddr:
			walk(y.X)
		}
	}
	walk(v)
	return out
}

// c02MemoryDeps returns the values written into the memory object base
// (stores through IndexAddr/Slice of it, arguments of calls that receive a
// slice of it), plus the branch conditions under which constant stores differ.
func c02MemoryDeps(p *Prog, base ssa.Value, depth int) []ssa.Value {
	var deps []ssa.Value
	type cstore struct {
		idx   string
		val   string
		conds []DomCond
	}
	var cstores []cstore
	seen := map[ssa.Value]bool{}
	var visit func(v ssa.Value)
	visit = func(v ssa.Value) {
		if seen[v] {
			return
		}
		seen[v] = true
		for _, rr := range refs(v) {
			switch u := rr.(type) {
			case *ssa.Slice:
				if u.X == v {
					visit(u)
				}
			case *ssa.IndexAddr:
				if u.X != v {
					continue
				}
				for _, r2 := range refs(u) {
					if st, ok := r2.(*ssa.Store); ok && st.Addr == u {
						if k, isC := st.Val.(*ssa.Const); isC {
							idx := "?"
							if ik, ok := u.Index.(*ssa.Const); ok && ik.Value != nil {
								idx = ik.Value.ExactString()
							} else {
								deps = append(deps, u.Index)
							}
							val := "nil"
							if k.Value != nil {
								val = k.Value.ExactString()
							}
							cstores = append(cstores, cstore{idx, val, domConds(st.Block())})
						} else {
							deps = append(deps, st.Val)
							for _, dc := range domConds(st.Block()) {
								deps = append(deps, dc.If.Cond)
							}
						}
					}
				}
			case ssa.CallInstruction:
				for _, a := range u.Common().Args {
					if a != v {
						deps = append(deps, a)
					}
				}
			}
		}
	}
	visit(base)
	// constant stores: a branch condition matters only if the bytes written
	// under it differ from what the other branch leaves (fresh memory is zero).
	for i, s := range cstores {
		for _, dc := range s.conds {
			// is there a store to the same index under the opposite branch with the same value?
			same := false
			for j, t := range cstores {
				if i == j || t.idx != s.idx {
					continue
				}
				for _, dd := range t.conds {
					if dd.If == dc.If && dd.Branch != dc.Branch && t.val == s.val {
						same = true
					}
				}
			}
			isZero := s.val == "0"
			hasOpp := false
			for j, t := range cstores {
				if i == j || t.idx != s.idx {
					continue
				}
				for _, dd := range t.conds {
					if dd.If == dc.If && dd.Branch != dc.Branch {
						hasOpp = true
					}
				}
			}
			if same || (isZero && !hasOpp) {
				continue
			}
			deps = append(deps, dc.If.Cond)
		}
	}
	return deps
}

// c02ReturnDeps: parameters (indices) the returned values of fn depend on.
func c02ReturnDeps(p *Prog, fn *ssa.Function, depth int) map[int]bool {
	out := map[int]bool{}
	// several returns with different values: the choice of the return is a dependence
	var rets []*ssa.Return
	allInstrs(fn, func(in ssa.Instruction) {
		if ret, ok := in.(*ssa.Return); ok && len(ret.Block().Preds) > 0 || ok && ret.Block().Index == 0 {
			rets = append(rets, ret)
		}
	})
	differ := false
	for _, a := range rets[min(1, len(rets)):] {
		for i := range a.Results {
			x, y := a.Results[i], rets[0].Results[i]
			kx, okx := x.(*ssa.Const)
			ky, oky := y.(*ssa.Const)
			if okx && oky {
				if kx.Value == nil || ky.Value == nil || kx.Value.ExactString() != ky.Value.ExactString() {
					differ = true
				}
			} else if x != y {
				differ = true
			}
		}
	}
	if differ {
		for _, ret := range rets {
			for _, dc := range domConds(ret.Block()) {
				for i := range c02ValueDeps(p, dc.If.Cond, depth) {
					out[i] = true
				}
			}
		}
	}
	allInstrs(fn, func(in ssa.Instruction) {
		ret, ok := in.(*ssa.Return)
		if !ok {
			return
		}
		for _, res := range ret.Results {
			base := c02SliceBase(res)
			for i := range c02ValueDeps(p, base, depth) {
				out[i] = true
			}
			if base != res {
				for i := range c02ValueDeps(p, res, depth) {
					out[i] = true
				}
			}
		}
	})
	return out
}

// ---------------------------------------------------------------------------
// Path explorer with a small boolean environment: walks the CFG from a start
// point, pruning branches whose condition is decided by the facts collected
// on the path (flags carried through phis, negation, comparisons with
// constants). Over-approximates feasibility: an undecided branch is followed
// both ways.

type c02Env struct {
	bind  map[ssa.Value]ssa.Value // phi -> value it received on the last entry of its block
	known map[ssa.Value]bool      // boolean facts
	facts map[string]c02ExprFact  // facts about comparisons, keyed by a canonical form of the expression (value numbering: two syntactically separate tests of the same operands agree)
}

type c02ExprFact struct {
	val bool
	ops []ssa.Value
}

// c02CanonCmp brings a comparison into a canonical form: equality with sorted
// operands, or "x < y" (x <= y is !(y < x)), or "x < K" for an integer
// constant K (x <= c is x < c+1, x > c is !(x < c+1), x >= c is !(x < c)).
// pol is the truth value the canonical expression has when cond is true.
func (e *c02Env) c02CanonCmp(cond ssa.Value) (key string, pol bool, ops []ssa.Value, ok bool) {
	bo, isBo := cond.(*ssa.BinOp)
	if !isBo {
		return "", false, nil, false
	}
	x, y := e.resolve(bo.X), e.resolve(bo.Y)
	intConst := func(v ssa.Value) (int64, bool) {
		k, isK := v.(*ssa.Const)
		if !isK || k.Value == nil || k.Value.Kind() != constant.Int {
			return 0, false
		}
		return constant.Int64Val(k.Value)
	}
	op := bo.Op
	switch op {
	case token.EQL, token.NEQ:
		a, b := x.Name(), y.Name()
		if _, isK := x.(*ssa.Const); isK {
			a = "const " + a
		}
		if _, isK := y.(*ssa.Const); isK {
			b = "const " + b
		}
		if a > b {
			a, b = b, a
		}
		return "eq|" + a + "|" + b, op == token.EQL, []ssa.Value{x, y}, true
	case token.LSS, token.LEQ, token.GTR, token.GEQ:
	default:
		return "", false, nil, false
	}
	if c, isC := intConst(x); isC {
		// constant on the left: mirror
		_ = c
		x, y = y, x
		switch op {
		case token.LSS:
			op = token.GTR
		case token.GTR:
			op = token.LSS
		case token.LEQ:
			op = token.GEQ
		case token.GEQ:
			op = token.LEQ
		}
	}
	if c, isC := intConst(y); isC {
		switch op {
		case token.LSS:
			return fmt.Sprintf("ltc|%s|%d", x.Name(), c), true, []ssa.Value{x}, true
		case token.LEQ:
			return fmt.Sprintf("ltc|%s|%d", x.Name(), c+1), true, []ssa.Value{x}, true
		case token.GTR:
			return fmt.Sprintf("ltc|%s|%d", x.Name(), c+1), false, []ssa.Value{x}, true
		case token.GEQ:
			return fmt.Sprintf("ltc|%s|%d", x.Name(), c), false, []ssa.Value{x}, true
		}
	}
	switch op {
	case token.LSS:
		return "lt|" + x.Name() + "|" + y.Name(), true, []ssa.Value{x, y}, true
	case token.GEQ:
		return "lt|" + x.Name() + "|" + y.Name(), false, []ssa.Value{x, y}, true
	case token.GTR:
		return "lt|" + y.Name() + "|" + x.Name(), true, []ssa.Value{x, y}, true
	case token.LEQ:
		return "lt|" + y.Name() + "|" + x.Name(), false, []ssa.Value{x, y}, true
	}
	return "", false, nil, false
}

func (e *c02Env) clone() *c02Env {
	n := &c02Env{bind: map[ssa.Value]ssa.Value{}, known: map[ssa.Value]bool{}, facts: map[string]c02ExprFact{}}
	for k, v := range e.bind {
		n.bind[k] = v
	}
	for k, v := range e.known {
		n.known[k] = v
	}
	for k, v := range e.facts {
		n.facts[k] = v
	}
	return n
}

func (e *c02Env) key() string {
	var parts []string
	for k, v := range e.bind {
		parts = append(parts, k.Name()+"="+v.Name())
	}
	for k, v := range e.known {
		parts = append(parts, fmt.Sprintf("%s:%v", k.Name(), v))
	}
	for k, v := range e.facts {
		parts = append(parts, fmt.Sprintf("%s:%v", k, v.val))
	}
	sort.Strings(parts)
	return strings.Join(parts, ",")
}

func (e *c02Env) resolve(v ssa.Value) ssa.Value {
	for i := 0; i < 16; i++ {
		b, ok := e.bind[v]
		if !ok {
			return v
		}
		v = b
	}
	return v
}

// nonZero: v is known to be a non-zero integer (constant, or x + positive
// constant — the no-wrap assumption is listed in Assumptions).
func (e *c02Env) intZeroness(v ssa.Value) (isZero, known bool) {
	v = e.resolve(v)
	switch x := v.(type) {
	case *ssa.Const:
		if x.Value != nil && x.Value.Kind() == constant.Int {
			return constant.Sign(x.Value) == 0, true
		}
	case *ssa.BinOp:
		if x.Op == token.ADD {
			if k, ok := x.Y.(*ssa.Const); ok && k.Value != nil && k.Value.Kind() == constant.Int && constant.Sign(k.Value) > 0 {
				return false, true
			}
		}
	case *ssa.Convert:
		return e.intZeroness(x.X)
	}
	return false, false
}

func (e *c02Env) eval(v ssa.Value) (val, known bool) {
	v = e.resolve(v)
	if k, ok := e.known[v]; ok {
		return k, true
	}
	switch x := v.(type) {
	case *ssa.Const:
		if x.Value != nil && x.Value.Kind() == constant.Bool {
			return constant.BoolVal(x.Value), true
		}
	case *ssa.UnOp:
		if x.Op == token.NOT {
			if b, ok := e.eval(x.X); ok {
				return !b, true
			}
		}
	case *ssa.BinOp:
		if x.Op != token.EQL && x.Op != token.NEQ {
			break
		}
		if c02IsBool(x.X.Type()) {
			a, ok1 := e.eval(x.X)
			b, ok2 := e.eval(x.Y)
			if ok1 && ok2 {
				return (a == b) == (x.Op == token.EQL), true
			}
			break
		}
		// integer compared with the constant zero
		var other ssa.Value
		if k, ok := x.Y.(*ssa.Const); ok && k.Value != nil && k.Value.Kind() == constant.Int && constant.Sign(k.Value) == 0 {
			other = x.X
		} else if k, ok := x.X.(*ssa.Const); ok && k.Value != nil && k.Value.Kind() == constant.Int && constant.Sign(k.Value) == 0 {
			other = x.Y
		}
		if other != nil {
			if z, ok := e.intZeroness(other); ok {
				return z == (x.Op == token.EQL), true
			}
		}
	}
	if key, pol, _, ok := e.c02CanonCmp(v); ok {
		if f, have := e.facts[key]; have {
			return f.val == pol, true
		}
	}
	return false, false
}

func c02IsBool(t types.Type) bool {
	b, ok := t.Underlying().(*types.Basic)
	return ok && b.Info()&types.IsBoolean != 0
}

// learn records that cond has the given truth value.
func (e *c02Env) learn(cond ssa.Value, truth bool) {
	cond = e.resolve(cond)
	switch x := cond.(type) {
	case *ssa.Const:
		return
	case *ssa.UnOp:
		if x.Op == token.NOT {
			e.learn(x.X, !truth)
			return
		}
	case *ssa.BinOp:
		if (x.Op == token.EQL || x.Op == token.NEQ) && c02IsBool(x.X.Type()) {
			if b, ok := e.eval(x.Y); ok {
				e.learn(x.X, (b == truth) == (x.Op == token.EQL))
			} else if a, ok := e.eval(x.X); ok {
				e.learn(x.Y, (a == truth) == (x.Op == token.EQL))
			}
		}
	}
	e.known[cond] = truth
	if key, pol, ops, ok := e.c02CanonCmp(cond); ok {
		if e.facts == nil {
			e.facts = map[string]c02ExprFact{}
		}
		e.facts[key] = c02ExprFact{val: truth == pol, ops: ops}
	}
}

// enter updates the environment for the CFG edge from -> to: values defined
// in `to` are about to be recomputed (facts about them are moved to the phis
// that still hold the old value), then the phis of `to` are bound.
func (e *c02Env) enter(from, to *ssa.BasicBlock) {
	redefined := map[ssa.Value]bool{}
	for _, in := range to.Instrs {
		if v, ok := in.(ssa.Value); ok {
			redefined[v] = true
		}
	}
	// new bindings computed against the old environment (phis are parallel)
	idx := -1
	for i, p := range to.Preds {
		if p == from {
			idx = i
		}
	}
	newBind := map[ssa.Value]ssa.Value{}
	newKnown := map[ssa.Value]bool{}
	for _, in := range to.Instrs {
		phi, ok := in.(*ssa.Phi)
		if !ok {
			break
		}
		if idx >= 0 && idx < len(phi.Edges) {
			inc := e.resolve(phi.Edges[idx])
			if b, ok := e.eval(inc); ok {
				newKnown[phi] = b
			}
			if !redefined[inc] || inc == ssa.Value(phi) {
				if inc != ssa.Value(phi) {
					newBind[phi] = inc
				}
			}
		}
	}
	// holders of old values of redefined things keep the fact, lose the binding
	for ph, tgt := range e.bind {
		if redefined[tgt] {
			if b, ok := e.known[tgt]; ok {
				e.known[ph] = b
			}
			delete(e.bind, ph)
		}
	}
	for v := range redefined {
		delete(e.known, v)
		delete(e.bind, v)
	}
	for k, f := range e.facts {
		for _, op := range f.ops {
			if redefined[op] {
				delete(e.facts, k)
				break
			}
		}
	}
	for k, v := range newBind {
		e.bind[k] = v
	}
	for k, v := range newKnown {
		e.known[k] = v
	}
}

// c02Hit is one target reached by the explorer.
type c02Hit struct {
	Instr  ssa.Instruction
	Trail  []*ssa.BasicBlock
	Opaque []ssa.Value // undecided boolean-flag conditions crossed on the way
}

type c02Action int

const (
	c02Continue c02Action = iota
	c02Stop               // prune this path here
	c02Target             // report and prune
)

// c02Explore walks all feasible paths from (start block, index) under env.
func c02Explore(start *ssa.BasicBlock, startIdx int, env *c02Env, visit func(in ssa.Instruction) c02Action) (hits []c02Hit, exhausted bool) {
	return c02ExploreEdges(start, startIdx, env, visit, nil)
}

// c02ExploreEdges is c02Explore with an edge filter: a CFG edge for which
// edgeStop returns true is not followed.
func c02ExploreEdges(start *ssa.BasicBlock, startIdx int, env *c02Env, visit func(in ssa.Instruction) c02Action, edgeStop func(from, to *ssa.BasicBlock) bool) (hits []c02Hit, exhausted bool) {
	type item struct {
		b      *ssa.BasicBlock
		idx    int
		env    *c02Env
		trail  []*ssa.BasicBlock
		opaque []ssa.Value
	}
	seen := map[string]bool{}
	hitSeen := map[ssa.Instruction]bool{}
	work := []item{{start, startIdx, env, []*ssa.BasicBlock{start}, nil}}
	steps := 0
	for len(work) > 0 {
		it := work[len(work)-1]
		work = work[:len(work)-1]
		steps++
		if steps > 200000 {
			return hits, false
		}
		k := fmt.Sprintf("%d@%d|%s", it.b.Index, it.idx, it.env.key())
		if seen[k] {
			continue
		}
		seen[k] = true
		stopped := false
		for i := it.idx; i < len(it.b.Instrs) && !stopped; i++ {
			switch visit(it.b.Instrs[i]) {
			case c02Stop:
				stopped = true
			case c02Target:
				stopped = true
				if !hitSeen[it.b.Instrs[i]] {
					hitSeen[it.b.Instrs[i]] = true
					hits = append(hits, c02Hit{it.b.Instrs[i], it.trail, it.opaque})
				}
			}
		}
		if stopped || len(it.b.Instrs) == 0 {
			continue
		}
		last := it.b.Instrs[len(it.b.Instrs)-1]
		push := func(to *ssa.BasicBlock, env *c02Env, opq []ssa.Value) {
			if edgeStop != nil && edgeStop(it.b, to) {
				return
			}
			env.enter(it.b, to)
			tr := append(append([]*ssa.BasicBlock{}, it.trail...), to)
			work = append(work, item{to, 0, env, tr, opq})
		}
		if ifi, ok := last.(*ssa.If); ok && len(it.b.Succs) == 2 {
			val, known := it.env.eval(ifi.Cond)
			for bi, to := range it.b.Succs {
				branch := bi == 0
				if known && val != branch {
					continue
				}
				ne := it.env.clone()
				opq := it.opaque
				if !known {
					ne.learn(ifi.Cond, branch)
					if c02OpaqueFlag(ifi.Cond) {
						opq = append(append([]ssa.Value{}, opq...), ifi.Cond)
					}
				}
				push(to, ne, opq)
			}
			continue
		}
		for _, to := range it.b.Succs {
			push(to, it.env.clone(), it.opaque)
		}
	}
	return hits, true
}

// c02OpaqueFlag: an undecided condition that is a boolean *flag* (a call
// result, a load, a parameter, a phi of those) rather than a comparison of
// data (lengths, counters, errors). A refactoring may recompute the finality
// decision through such a flag; paths that depend on one are reported as
// undecided rather than as violations.
func c02OpaqueFlag(cond ssa.Value) bool {
	for {
		if u, ok := cond.(*ssa.UnOp); ok && u.Op == token.NOT {
			cond = u.X
			continue
		}
		break
	}
	switch x := cond.(type) {
	case *ssa.BinOp:
		if c02IsBool(x.X.Type()) {
			return c02OpaqueFlag(x.X) || c02OpaqueFlag(x.Y)
		}
		// a comparison of data is a legitimate unknown — unless an operand is read from
		// memory (a struct field, a captured variable): the explorer does not track memory,
		// so a path that hinges on such a test is not positively established
		for _, op := range []ssa.Value{x.X, x.Y} {
			for i := 0; i < 3; i++ {
				if cv, ok := op.(*ssa.Convert); ok {
					op = cv.X
					continue
				}
				break
			}
			if u, ok := op.(*ssa.UnOp); ok && u.Op == token.MUL {
				if _, isGlobal := u.X.(*ssa.Global); !isGlobal {
					return true
				}
			}
		}
		return false
	case *ssa.Const:
		return false
	case *ssa.Call:
		// error classification helpers are data tests, not flags
		if callIs(x, "errors", "", "Is") || callIs(x, "errors", "", "As") {
			return false
		}
		return true
	}
	return true
}

func c02Trail(p *Prog, tr []*ssa.BasicBlock) []string {
	var out []string
	lastLine := ""
	for _, b := range tr {
		if len(b.Instrs) == 0 {
			continue
		}
		pos := p.Pos(instrPos(b.Instrs[0]))
		if pos == lastLine {
			continue
		}
		lastLine = pos
		out = append(out, fmt.Sprintf("block %d (%s) %s", b.Index, b.Comment, pos))
		if len(out) > 24 {
			out = append(out, "…")
			break
		}
	}
	return out
}

// c02BackSlice: the values v is computed from inside its function (operands,
// phi edges and the branch conditions selecting a phi edge).
func c02BackSlice(v ssa.Value) map[ssa.Value]bool {
	seen := map[ssa.Value]bool{}
	var walk func(x ssa.Value)
	walk = func(x ssa.Value) {
		if x == nil || seen[x] {
			return
		}
		seen[x] = true
		if phi, ok := x.(*ssa.Phi); ok {
			for _, pred := range phi.Block().Preds {
				for _, dc := range domConds(pred) {
					walk(dc.If.Cond)
				}
				if len(pred.Instrs) > 0 {
					if ifi, ok := pred.Instrs[len(pred.Instrs)-1].(*ssa.If); ok {
						walk(ifi.Cond)
					}
				}
			}
		}
		if in, ok := x.(ssa.Instruction); ok {
			for _, op := range in.Operands(nil) {
				if *op != nil {
					walk(*op)
				}
			}
		}
	}
	walk(v)
	return seen
}

// c02UnrelatedFlag returns the first undecided flag condition in opaque that
// is unrelated to the finality argument lv: neither computed from lv nor one
// of lv's own inputs. For a constant (or absent) lv nothing is unrelated —
// there is no finality decision a flag could have re-derived.
func c02UnrelatedFlag(lv ssa.Value, opaque []ssa.Value) ssa.Value {
	if lv == nil || len(opaque) == 0 {
		return nil
	}
	if _, isConst := lv.(*ssa.Const); isConst {
		return nil
	}
	cone := c02BackSlice(lv)
	for _, f := range opaque {
		if cone[f] {
			continue
		}
		if c02BackSlice(f)[lv] {
			continue
		}
		return f
	}
	return nil
}

func c02ValuePos(v ssa.Value) token.Pos {
	if in, ok := v.(ssa.Instruction); ok {
		return instrPos(in)
	}
	return v.Pos()
}

// c02LearnAssumption records "v has truth value val" and, when v is a phi
// materialising a boolean expression, what that implies: if only one incoming
// edge can produce val, the branch conditions leading to that edge hold and
// the incoming value has that truth value too.
func c02LearnAssumption(env *c02Env, v ssa.Value, val bool, depth int) {
	env.learn(v, val)
	if depth > 4 {
		return
	}
	switch x := v.(type) {
	case *ssa.UnOp:
		if x.Op == token.NOT {
			c02LearnAssumption(env, x.X, !val, depth+1)
		}
	case *ssa.Phi:
		surv := -1
		n := 0
		for i, e := range x.Edges {
			if k, ok := e.(*ssa.Const); ok && k.Value != nil && k.Value.Kind() == constant.Bool && constant.BoolVal(k.Value) != val {
				continue
			}
			n++
			surv = i
		}
		if n != 1 {
			return
		}
		pred := x.Block().Preds[surv]
		for _, dc := range domConds(pred) {
			// only conditions that do not already dominate the phi's block tell us something new; learning the others is harmless
			c02LearnAssumption(env, dc.If.Cond, dc.Branch, depth+1)
		}
		if len(pred.Instrs) > 0 && len(pred.Succs) == 2 && pred.Succs[0] != pred.Succs[1] {
			if ifi, ok := pred.Instrs[len(pred.Instrs)-1].(*ssa.If); ok {
				c02LearnAssumption(env, ifi.Cond, pred.Succs[0] == x.Block(), depth+1)
			}
		}
		c02LearnAssumption(env, x.Edges[surv], val, depth+1)
	}
}

// c02PureCarrier: every leaf of v (through phis and interface conversions) is
// one of the allowed values or the nil constant — i.e. v has not been
// re-assigned from some other source (a sentinel, a fresh error).
func c02PureCarrier(v ssa.Value, allowed []ssa.Value) bool {
	seen := map[ssa.Value]bool{}
	var walk func(x ssa.Value) bool
	walk = func(x ssa.Value) bool {
		if seen[x] {
			return true
		}
		seen[x] = true
		for _, a := range allowed {
			if x == a {
				return true
			}
		}
		if isNilConst(x) {
			return true
		}
		switch y := x.(type) {
		case *ssa.Phi:
			for _, e := range y.Edges {
				if !walk(e) {
					return false
				}
			}
			return true
		case *ssa.ChangeInterface:
			return walk(y.X)
		case *ssa.MakeInterface:
			return walk(y.X)
		case *ssa.ChangeType:
			return walk(y.X)
		}
		return false
	}
	return walk(v)
}
