package main

// Helpers private to property C02 (all names prefixed c02).

import (
	"fmt"
	"go/constant"
	"go/token"
	"go/types"
	"sort"
	"strings"

	"golang.org/x/tools/go/ssa"
)

// c02Carries reports whether v may carry the value src: v == src, or v is a
// phi / interface conversion whose (transitive) operand is src.
func c02Carries(v, src ssa.Value) bool {
	if v == nil || src == nil {
		return false
	}
	seen := map[ssa.Value]bool{}
	var walk func(x ssa.Value) bool
	walk = func(x ssa.Value) bool {
		if x == src {
			return true
		}
		if seen[x] {
			return false
		}
		seen[x] = true
		switch y := x.(type) {
		case *ssa.Phi:
			for _, e := range y.Edges {
				if walk(e) {
					return true
				}
			}
		case *ssa.ChangeInterface:
			return walk(y.X)
		case *ssa.MakeInterface:
			return walk(y.X)
		case *ssa.ChangeType:
			return walk(y.X)
		}
		return false
	}
	return walk(v)
}

// c02CarriesAny reports whether v may carry one of srcs.
func c02CarriesAny(v ssa.Value, srcs []ssa.Value) bool {
	for _, s := range srcs {
		if c02Carries(v, s) {
			return true
		}
	}
	return false
}

// c02StoredToMemory reports whether v is stored into a memory cell (so that a
// later test of it would go through a load the path rules cannot follow).
func c02StoredToMemory(v ssa.Value) bool {
	for _, rr := range refs(v) {
		if st, ok := rr.(*ssa.Store); ok && st.Val == v {
			return true
		}
	}
	return false
}

// c02IsGlobalLoad reports whether v is `*pkg.Name` for a package-level
// variable and returns "pkgpath.Name".
func c02IsGlobalLoad(v ssa.Value) (string, bool) {
	u, ok := v.(*ssa.UnOp)
	if !ok || u.Op != token.MUL {
		return "", false
	}
	g, ok := u.X.(*ssa.Global)
	if !ok || g.Pkg == nil {
		return "", false
	}
	return g.Pkg.Pkg.Path() + "." + g.Name(), true
}

// c02ErrShapeNonNil: v is, by construction, a non-nil error: the result of
// errors.New / fmt.Errorf, or the load of a package-level error variable
// (sentinels are assumed non-nil, see Assumptions).
func c02ErrShapeNonNil(v ssa.Value) bool {
	return c02ErrShapeNonNilD(v, 0)
}

func c02ErrShapeNonNilD(v ssa.Value, depth int) bool {
	switch x := v.(type) {
	case *ssa.Call:
		if callIs(x, "errors", "", "New") || callIs(x, "fmt", "", "Errorf") {
			return true
		}
		// a function/closure whose body is known and all of whose returns are non-nil by construction (an error-wrapping helper)
		if h := staticCallee(x); h != nil && len(h.Blocks) > 0 && depth < 3 && h.Signature.Results().Len() == 1 {
			n, all := 0, true
			allInstrs(h, func(in ssa.Instruction) {
				ret, ok := in.(*ssa.Return)
				if !ok || len(ret.Results) != 1 || (len(ret.Block().Preds) == 0 && ret.Block().Index != 0) {
					return
				}
				n++
				if !c02ErrShapeNonNilD(ret.Results[0], depth+1) {
					all = false
				}
			})
			return n > 0 && all
		}
		return false
	case *ssa.MakeInterface:
		return true // a concrete value boxed into an error interface is non-nil as an interface
	}
	_, ok := c02IsGlobalLoad(v)
	return ok
}

// c02KnownNonNilAt: at block b, value v is known non-nil: by shape, or by a
// dominating `v != nil` edge on a value that is v itself.
func c02KnownNonNilAt(b *ssa.BasicBlock, v ssa.Value) bool {
	if c02ErrShapeNonNil(v) {
		return true
	}
	return errKnownNonNil(b, v)
}

// c02NilTest decodes an If edge into "value V is nil (isNil=true) / non-nil".
func c02NilTest(from, to *ssa.BasicBlock) (v ssa.Value, isNil bool, ok bool) {
	if len(from.Instrs) == 0 || len(from.Succs) != 2 || from.Succs[0] == from.Succs[1] {
		return nil, false, false
	}
	ifi, isIf := from.Instrs[len(from.Instrs)-1].(*ssa.If)
	if !isIf {
		return nil, false, false
	}
	cmp, dec := decodeCond(ifi.Cond, from.Succs[0] == to)
	if !dec || (cmp.Op != token.EQL && cmp.Op != token.NEQ) {
		return nil, false, false
	}
	switch {
	case isNilConst(cmp.Y):
		return cmp.X, cmp.Op == token.EQL, true
	case isNilConst(cmp.X):
		return cmp.Y, cmp.Op == token.EQL, true
	}
	return nil, false, false
}

// c02SentinelTest decodes an If edge that establishes "V is the sentinel
// error pkg.Name": errors.Is(V, pkg.Name) true, or V == pkg.Name.
func c02SentinelTest(from, to *ssa.BasicBlock) (v ssa.Value, sentinel string, ok bool) {
	if len(from.Instrs) == 0 || len(from.Succs) != 2 || from.Succs[0] == from.Succs[1] {
		return nil, "", false
	}
	ifi, isIf := from.Instrs[len(from.Instrs)-1].(*ssa.If)
	if !isIf {
		return nil, "", false
	}
	branch := from.Succs[0] == to
	if call, truth, isCall := boolCallCond(ifi.Cond, branch); isCall && truth && callIs(call, "errors", "", "Is") && len(call.Call.Args) == 2 {
		if name, g := c02IsGlobalLoad(call.Call.Args[1]); g {
			return call.Call.Args[0], name, true
		}
	}
	if cmp, dec := decodeCond(ifi.Cond, branch); dec && cmp.Op == token.EQL {
		if name, g := c02IsGlobalLoad(cmp.Y); g {
			return cmp.X, name, true
		}
		if name, g := c02IsGlobalLoad(cmp.X); g {
			return cmp.Y, name, true
		}
	}
	return nil, "", false
}

// c02SliceBase strips slicing, phis of a single base and conversions.
func c02SliceBase(v ssa.Value) ssa.Value {
	for i := 0; i < 32; i++ {
		switch x := v.(type) {
		case *ssa.Slice:
			v = x.X
			continue
		case *ssa.ChangeType:
			v = x.X
			continue
		case *ssa.Convert:
			v = x.X
			continue
		}
		break
	}
	return v
}

// ---------------------------------------------------------------------------
// Dependence of a function's returned slice on its parameters (used for the
// nonce builder): which parameters influence the bytes of the result?

// c02ValueDeps: the set of parameters (by index in fn.Params) the value v is
// data-dependent on, through arithmetic, conversions, phis (including the
// branch conditions that select the phi edge), and calls (a call result
// depends on all its arguments; in-module callees returning slices are
// summarised with c02ReturnDeps).
func c02ValueDeps(p *Prog, v ssa.Value, depth int) map[int]bool {
	out := map[int]bool{}
	seen := map[ssa.Value]bool{}
	var walk func(x ssa.Value)
	walk = func(x ssa.Value) {
		if x == nil || seen[x] {
			return
		}
		seen[x] = true
		switch y := x.(type) {
		case *ssa.Parameter:
			for i, pa := range y.Parent().Params {
				if pa == y {
					out[i] = true
				}
			}
		case *ssa.BinOp:
			walk(y.X)
			walk(y.Y)
		case *ssa.UnOp:
			walk(y.X)
		case *ssa.Convert:
			walk(y.X)
		case *ssa.ChangeType:
			walk(y.X)
		case *ssa.Slice:
			walk(y.X)
		case *ssa.Extract:
			walk(y.Tuple)
		case *ssa.Phi:
			for _, e := range y.Edges {
				walk(e)
			}
			// control dependence of the selection
			for _, pred := range y.Block().Preds {
				for _, dc := range domConds(pred) {
					walk(dc.If.Cond)
				}
			}
		case *ssa.Call:
			callee := staticCallee(y)
			if callee != nil && p.InModule(callee) && depth > 0 && len(callee.Blocks) > 0 {
				deps := c02ReturnDeps(p, callee, depth-1)
				for i := range deps {
					if i < len(y.Call.Args) {
						walk(y.Call.Args[i])
					}
				}
				return
			}
			for _, a := range y.Call.Args {
				walk(a)
			}
		case *ssa.Alloc, *ssa.MakeSlice:
			// memory: the writes into it
			for _, d := range c02MemoryDeps(p, x, depth) {
				walk(d)
			}
		case *ssa.FieldAddr:
			walk(y.X)
		case *ssa.Field:
			walk(y.X)
		case *ssa.IndexAddr:
			walk(y.X)
		}
	}
	walk(v)
	return out
}

// c02MemoryDeps returns the values written into the memory object base
// (stores through IndexAddr/Slice of it, arguments of calls that receive a
// slice of it), plus the branch conditions under which constant stores differ.
func c02MemoryDeps(p *Prog, base ssa.Value, depth int) []ssa.Value {
	var deps []ssa.Value
	type cstore struct {
		idx   string
		val   string
		conds []DomCond
	}
	var cstores []cstore
	seen := map[ssa.Value]bool{}
	var visit func(v ssa.Value)
	visit = func(v ssa.Value) {
		if seen[v] {
			return
		}
		seen[v] = true
		for _, rr := range refs(v) {
			switch u := rr.(type) {
			case *ssa.Slice:
				if u.X == v {
					visit(u)
				}
			case *ssa.IndexAddr:
				if u.X != v {
					continue
				}
				for _, r2 := range refs(u) {
					if st, ok := r2.(*ssa.Store); ok && st.Addr == u {
						if k, isC := st.Val.(*ssa.Const); isC {
							idx := "?"
							if ik, ok := u.Index.(*ssa.Const); ok && ik.Value != nil {
								idx = ik.Value.ExactString()
							} else {
								deps = append(deps, u.Index)
							}
							val := "nil"
							if k.Value != nil {
								val = k.Value.ExactString()
							}
							cstores = append(cstores, cstore{idx, val, domConds(st.Block())})
						} else {
							deps = append(deps, st.Val)
							for _, dc := range domConds(st.Block()) {
								deps = append(deps, dc.If.Cond)
							}
						}
					}
				}
			case ssa.CallInstruction:
				for _, a := range u.Common().Args {
					if a != v {
						deps = append(deps, a)
					}
				}
			}
		}
	}
	visit(base)
	// constant stores: a branch condition matters only if the bytes written
	// under it differ from what the other branch leaves (fresh memory is zero).
	for i, s := range cstores {
		for _, dc := range s.conds {
			// is there a store to the same index under the opposite branch with the same value?
			same := false
			for j, t := range cstores {
				if i == j || t.idx != s.idx {
					continue
				}
				for _, dd := range t.conds {
					if dd.If == dc.If && dd.Branch != dc.Branch && t.val == s.val {
						same = true
					}
				}
			}
			isZero := s.val == "0"
			hasOpp := false
			for j, t := range cstores {
				if i == j || t.idx != s.idx {
					continue
				}
				for _, dd := range t.conds {
					if dd.If == dc.If && dd.Branch != dc.Branch {
						hasOpp = true
					}
				}
			}
			if same || (isZero && !hasOpp) {
				continue
			}
			deps = append(deps, dc.If.Cond)
		}
	}
	return deps
}

// c02ReturnDeps: parameters (indices) the returned values of fn depend on.
func c02ReturnDeps(p *Prog, fn *ssa.Function, depth int) map[int]bool {
	out := map[int]bool{}
	// several returns with different values: the choice of the return is a dependence
	var rets []*ssa.Return
	allInstrs(fn, func(in ssa.Instruction) {
		if ret, ok := in.(*ssa.Return); ok && len(ret.Block().Preds) > 0 || ok && ret.Block().Index == 0 {
			rets = append(rets, ret)
		}
	})
	differ := false
	for _, a := range rets[min(1, len(rets)):] {
		for i := range a.Results {
			x, y := a.Results[i], rets[0].Results[i]
			kx, okx := x.(*ssa.Const)
			ky, oky := y.(*ssa.Const)
			if okx && oky {
				if kx.Value == nil || ky.Value == nil || kx.Value.ExactString() != ky.Value.ExactString() {
					differ = true
				}
			} else if x != y {
				differ = true
			}
		}
	}
	if differ {
		for _, ret := range rets {
			for _, dc := range domConds(ret.Block()) {
				for i := range c02ValueDeps(p, dc.If.Cond, depth) {
					out[i] = true
				}
			}
		}
	}
	allInstrs(fn, func(in ssa.Instruction) {
		ret, ok := in.(*ssa.Return)
		if !ok {
			return
		}
		for _, res := range ret.Results {
			base := c02SliceBase(res)
			for i := range c02ValueDeps(p, base, depth) {
				out[i] = true
			}
			if base != res {
				for i := range c02ValueDeps(p, res, depth) {
					out[i] = true
				}
			}
		}
	})
	return out
}

// ---------------------------------------------------------------------------
// Path explorer with a small boolean environment: walks the CFG from a start
// point, pruning branches whose condition is decided by the facts collected
// on the path (flags carried through phis, negation, comparisons with
// constants). Over-approximates feasibility: an undecided branch is followed
// both ways.

type c02Env struct {
	bind  map[ssa.Value]ssa.Value // phi -> value it received on the last entry of its block
	known map[ssa.Value]bool      // boolean facts
	facts map[string]c02ExprFact  // facts about comparisons, keyed by a canonical form of the expression (value numbering: two syntactically separate tests of the same operands agree)
	mem   map[string]ssa.Value    // content of the memory cells the function owns (see c02CellKey)
	sym   map[ssa.Value]c02Sym    // v = base + off, computed when v is computed (so it survives later re-binding of base's name)
}

// c02Sym: a value known to be base plus a constant offset.
type c02Sym struct {
	base ssa.Value
	off  int64
}

// symOf: the symbolic form of v (v itself plus 0 if nothing better is known).
func (e *c02Env) symOf(v ssa.Value) c02Sym {
	v = e.resolve(v)
	if s, ok := e.sym[v]; ok {
		return s
	}
	return c02Sym{v, 0}
}

// symEffect records the symbolic form of an arithmetic instruction as it executes.
func (e *c02Env) symEffect(in ssa.Instruction) {
	if e.sym == nil {
		e.sym = map[ssa.Value]c02Sym{}
	}
	switch x := in.(type) {
	case *ssa.BinOp:
		delete(e.sym, x)
		if x.Op != token.ADD && x.Op != token.SUB {
			return
		}
		var other ssa.Value
		var k int64
		if c, ok := c02ConstInt(x.Y, 0); ok {
			other, k = x.X, c
		} else if c, ok := c02ConstInt(x.X, 0); ok && x.Op == token.ADD {
			other, k = x.Y, c
		} else {
			return
		}
		if x.Op == token.SUB {
			k = -k
		}
		b := e.symOf(other)
		if n := b.off + k; n > 8 || n < -8 {
			return // keep the state space finite on loops with a counter: far offsets are just "unknown"
		}
		e.sym[x] = c02Sym{b.base, b.off + k}
	case *ssa.Convert:
		delete(e.sym, x)
		if _, isInt := c02IntRange(x.Type()); isInt {
			if _, isInt2 := c02IntRange(x.X.Type()); isInt2 {
				e.sym[x] = e.symOf(x.X)
			}
		}
	}
}

type c02ExprFact struct {
	val bool
	ops []ssa.Value
}

// c02CanonCmp brings a comparison into a canonical form: equality with sorted
// operands, or "x < y" (x <= y is !(y < x)), or "x < K" for an integer
// constant K (x <= c is x < c+1, x > c is !(x < c+1), x >= c is !(x < c)).
// pol is the truth value the canonical expression has when cond is true.
func (e *c02Env) c02CanonCmp(cond ssa.Value) (key string, pol bool, ops []ssa.Value, ok bool) {
	bo, isBo := cond.(*ssa.BinOp)
	if !isBo {
		return "", false, nil, false
	}
	x, y := e.resolve(bo.X), e.resolve(bo.Y)
	intConst := func(v ssa.Value) (int64, bool) {
		k, isK := v.(*ssa.Const)
		if !isK || k.Value == nil || k.Value.Kind() != constant.Int {
			return 0, false
		}
		return constant.Int64Val(k.Value)
	}
	op := bo.Op
	switch op {
	case token.EQL, token.NEQ:
		a, b := x.Name(), y.Name()
		if _, isK := x.(*ssa.Const); isK {
			a = "const " + a
		}
		if _, isK := y.(*ssa.Const); isK {
			b = "const " + b
		}
		if a > b {
			a, b = b, a
		}
		return "eq|" + a + "|" + b, op == token.EQL, []ssa.Value{x, y}, true
	case token.LSS, token.LEQ, token.GTR, token.GEQ:
	default:
		return "", false, nil, false
	}
	if c, isC := intConst(x); isC {
		// constant on the left: mirror
		_ = c
		x, y = y, x
		switch op {
		case token.LSS:
			op = token.GTR
		case token.GTR:
			op = token.LSS
		case token.LEQ:
			op = token.GEQ
		case token.GEQ:
			op = token.LEQ
		}
	}
	if c, isC := intConst(y); isC {
		switch op {
		case token.LSS:
			return fmt.Sprintf("ltc|%s|%d", x.Name(), c), true, []ssa.Value{x}, true
		case token.LEQ:
			return fmt.Sprintf("ltc|%s|%d", x.Name(), c+1), true, []ssa.Value{x}, true
		case token.GTR:
			return fmt.Sprintf("ltc|%s|%d", x.Name(), c+1), false, []ssa.Value{x}, true
		case token.GEQ:
			return fmt.Sprintf("ltc|%s|%d", x.Name(), c), false, []ssa.Value{x}, true
		}
	}
	switch op {
	case token.LSS:
		return "lt|" + x.Name() + "|" + y.Name(), true, []ssa.Value{x, y}, true
	case token.GEQ:
		return "lt|" + x.Name() + "|" + y.Name(), false, []ssa.Value{x, y}, true
	case token.GTR:
		return "lt|" + y.Name() + "|" + x.Name(), true, []ssa.Value{x, y}, true
	case token.LEQ:
		return "lt|" + y.Name() + "|" + x.Name(), false, []ssa.Value{x, y}, true
	}
	return "", false, nil, false
}

func (e *c02Env) clone() *c02Env {
	n := &c02Env{bind: map[ssa.Value]ssa.Value{}, known: map[ssa.Value]bool{}, facts: map[string]c02ExprFact{}, mem: map[string]ssa.Value{}}
	for k, v := range e.mem {
		n.mem[k] = v
	}
	n.sym = map[ssa.Value]c02Sym{}
	for k, v := range e.sym {
		n.sym[k] = v
	}
	for k, v := range e.bind {
		n.bind[k] = v
	}
	for k, v := range e.known {
		n.known[k] = v
	}
	for k, v := range e.facts {
		n.facts[k] = v
	}
	return n
}

func (e *c02Env) key() string {
	var parts []string
	for k, v := range e.bind {
		parts = append(parts, k.Name()+"="+v.Name())
	}
	for k, v := range e.known {
		parts = append(parts, fmt.Sprintf("%s:%v", k.Name(), v))
	}
	for k, v := range e.facts {
		parts = append(parts, fmt.Sprintf("%s:%v", k, v.val))
	}
	for k, v := range e.mem {
		parts = append(parts, "m:"+k+"="+v.Name())
	}
	for k, v := range e.sym {
		parts = append(parts, fmt.Sprintf("s:%s=%s%+d", k.Name(), v.base.Name(), v.off))
	}
	sort.Strings(parts)
	return strings.Join(parts, ",")
}

func (e *c02Env) resolve(v ssa.Value) ssa.Value {
	for i := 0; i < 16; i++ {
		b, ok := e.bind[v]
		if !ok {
			return v
		}
		v = b
	}
	return v
}

// nonZero: v is known to be a non-zero integer (constant, or x + positive
// constant — the no-wrap assumption is listed in Assumptions).
func (e *c02Env) intZeroness(v ssa.Value) (isZero, known bool) {
	v = e.resolve(v)
	switch x := v.(type) {
	case *ssa.Const:
		if x.Value != nil && x.Value.Kind() == constant.Int {
			return constant.Sign(x.Value) == 0, true
		}
	case *ssa.BinOp:
		if x.Op == token.ADD {
			if k, ok := x.Y.(*ssa.Const); ok && k.Value != nil && k.Value.Kind() == constant.Int && constant.Sign(k.Value) > 0 {
				return false, true
			}
		}
	case *ssa.Convert:
		return e.intZeroness(x.X)
	}
	return false, false
}

func (e *c02Env) eval(v ssa.Value) (val, known bool) {
	v = e.resolve(v)
	if k, ok := e.known[v]; ok {
		return k, true
	}
	switch x := v.(type) {
	case *ssa.Const:
		if x.Value != nil && x.Value.Kind() == constant.Bool {
			return constant.BoolVal(x.Value), true
		}
	case *ssa.UnOp:
		if x.Op == token.NOT {
			if b, ok := e.eval(x.X); ok {
				return !b, true
			}
		}
	case *ssa.BinOp:
		if x.Op != token.EQL && x.Op != token.NEQ {
			break
		}
		if c02IsBool(x.X.Type()) {
			a, ok1 := e.eval(x.X)
			b, ok2 := e.eval(x.Y)
			if ok1 && ok2 {
				return (a == b) == (x.Op == token.EQL), true
			}
			break
		}
		// an error (or pointer) compared with nil
		if isNilConst(x.Y) || isNilConst(x.X) {
			o := x.X
			if isNilConst(x.X) {
				o = x.Y
			}
			o = e.resolve(o)
			switch {
			case isNilConst(o):
				return x.Op == token.EQL, true
			case c02ErrShapeNonNil(o) || c02MadeNonNil(o):
				return x.Op == token.NEQ, true
			}
		}
		// integer compared with the constant zero
		var other ssa.Value
		if k, ok := x.Y.(*ssa.Const); ok && k.Value != nil && k.Value.Kind() == constant.Int && constant.Sign(k.Value) == 0 {
			other = x.X
		} else if k, ok := x.X.(*ssa.Const); ok && k.Value != nil && k.Value.Kind() == constant.Int && constant.Sign(k.Value) == 0 {
			other = x.Y
		}
		if other != nil {
			if z, ok := e.intZeroness(other); ok {
				return z == (x.Op == token.EQL), true
			}
		}
	}
	// two constants (e.g. a small enum returned by a phase helper, compared with its cases)
	if bo, ok := v.(*ssa.BinOp); ok {
		kx, okx := e.resolve(bo.X).(*ssa.Const)
		ky, oky := e.resolve(bo.Y).(*ssa.Const)
		if okx && oky && kx.Value != nil && ky.Value != nil && kx.Value.Kind() == ky.Value.Kind() && (kx.Value.Kind() == constant.Int || kx.Value.Kind() == constant.String) {
			switch bo.Op {
			case token.EQL, token.NEQ, token.LSS, token.LEQ, token.GTR, token.GEQ:
				return constant.Compare(kx.Value, bo.Op, ky.Value), true
			}
		}
	}
	if key, pol, _, ok := e.c02CanonCmp(v); ok {
		if f, have := e.facts[key]; have {
			return f.val == pol, true
		}
	}
	return false, false
}

func c02IsBool(t types.Type) bool {
	b, ok := t.Underlying().(*types.Basic)
	return ok && b.Info()&types.IsBoolean != 0
}

// learn records that cond has the given truth value.
func (e *c02Env) learn(cond ssa.Value, truth bool) {
	cond = e.resolve(cond)
	switch x := cond.(type) {
	case *ssa.Const:
		return
	case *ssa.UnOp:
		if x.Op == token.NOT {
			e.learn(x.X, !truth)
			return
		}
	case *ssa.BinOp:
		if (x.Op == token.EQL || x.Op == token.NEQ) && c02IsBool(x.X.Type()) {
			if b, ok := e.eval(x.Y); ok {
				e.learn(x.X, (b == truth) == (x.Op == token.EQL))
			} else if a, ok := e.eval(x.X); ok {
				e.learn(x.Y, (a == truth) == (x.Op == token.EQL))
			}
		}
	}
	e.known[cond] = truth
	if key, pol, ops, ok := e.c02CanonCmp(cond); ok {
		if e.facts == nil {
			e.facts = map[string]c02ExprFact{}
		}
		e.facts[key] = c02ExprFact{val: truth == pol, ops: ops}
	}
}

// enter updates the environment for the CFG edge from -> to: values defined
// in `to` are about to be recomputed (facts about them are moved to the phis
// that still hold the old value), then the phis of `to` are bound.
func (e *c02Env) enter(from, to *ssa.BasicBlock) {
	redefined := map[ssa.Value]bool{}
	for _, in := range to.Instrs {
		if v, ok := in.(ssa.Value); ok {
			redefined[v] = true
		}
	}
	// new bindings computed against the old environment (phis are parallel)
	idx := -1
	for i, p := range to.Preds {
		if p == from {
			idx = i
		}
	}
	newBind := map[ssa.Value]ssa.Value{}
	newKnown := map[ssa.Value]bool{}
	newSym := map[ssa.Value]c02Sym{}
	for _, in := range to.Instrs {
		phi, ok := in.(*ssa.Phi)
		if !ok {
			break
		}
		if idx >= 0 && idx < len(phi.Edges) {
			inc := e.resolve(phi.Edges[idx])
			if b, ok := e.eval(inc); ok {
				newKnown[phi] = b
			}
			if sy := e.symOf(inc); sy.base != ssa.Value(phi) || sy.off != 0 {
				if _, isInt := c02IntRange(phi.Type()); isInt {
					newSym[phi] = sy
				}
			}
			if !redefined[inc] || inc == ssa.Value(phi) {
				if inc != ssa.Value(phi) {
					newBind[phi] = inc
				}
			}
		}
	}
	// holders of old values of redefined things keep the fact, lose the binding
	for ph, tgt := range e.bind {
		if redefined[tgt] {
			if b, ok := e.known[tgt]; ok {
				e.known[ph] = b
			}
			delete(e.bind, ph)
		}
	}
	for v := range redefined {
		delete(e.known, v)
		delete(e.bind, v)
		delete(e.sym, v)
	}
	if e.sym == nil {
		e.sym = map[ssa.Value]c02Sym{}
	}
	for k, v := range newSym {
		e.sym[k] = v
	}
	for k, f := range e.facts {
		for _, op := range f.ops {
			if redefined[op] {
				delete(e.facts, k)
				break
			}
		}
	}
	for k, v := range newBind {
		e.bind[k] = v
	}
	for k, v := range newKnown {
		e.known[k] = v
	}
}

// c02Hit is one target reached by the explorer.
type c02Hit struct {
	Instr  ssa.Instruction
	Trail  []*ssa.BasicBlock
	Opaque []ssa.Value // undecided boolean-flag conditions crossed on the way
}

type c02Action int

const (
	c02Continue c02Action = iota
	c02Stop               // prune this path here
	c02Target             // report and prune
)

// c02Explore walks all feasible paths from (start block, index) under env.
func c02Explore(start *ssa.BasicBlock, startIdx int, env *c02Env, visit func(in ssa.Instruction) c02Action) (hits []c02Hit, exhausted bool) {
	return c02ExploreEdges(start, startIdx, env, visit, nil)
}

// c02ExploreEdges is c02Explore with an edge filter: a CFG edge for which
// edgeStop returns true is not followed.
func c02ExploreEdges(start *ssa.BasicBlock, startIdx int, env *c02Env, visit func(in ssa.Instruction) c02Action, edgeStop func(from, to *ssa.BasicBlock) bool) (hits []c02Hit, exhausted bool) {
	o := &c02XOpts{Visit: func(in ssa.Instruction, _ *c02Env) c02Action { return visit(in) }}
	if edgeStop != nil {
		o.EdgeStop = func(from, to *ssa.BasicBlock, _ *c02Env) bool { return edgeStop(from, to) }
	}
	return c02ExploreX(start, startIdx, env, o)
}

// c02XOpts configures the path explorer.
type c02XOpts struct {
	Visit    func(in ssa.Instruction, env *c02Env) c02Action
	EdgeStop func(from, to *ssa.BasicBlock, env *c02Env) bool
	Opaque   func(cond ssa.Value) bool // extra: undecided conditions that make a hit "not positively established"
	NoCalls  bool                      // do not step into callees
	MaxDepth int                       // how many helper levels to step into (default 2)
}

type c02Frame struct {
	call *ssa.Call
	b    *ssa.BasicBlock
	idx  int
}

// c02LoopFree: fn's CFG has no cycle (cached).
var c02LoopFreeCache = map[*ssa.Function]bool{}

func c02LoopFree(fn *ssa.Function) bool {
	if v, ok := c02LoopFreeCache[fn]; ok {
		return v
	}
	free := true
	for _, b := range fn.Blocks {
		for _, sc := range b.Succs {
			if reachableFrom(sc, nil)[b] {
				free = false
			}
		}
	}
	c02LoopFreeCache[fn] = free
	return free
}

// c02Followable: a static call of a same-package, loop-free, non-recursive
// function whose body is available: the explorer steps into it, so that the
// flags / small enums / tuples a phase helper returns stay correlated with
// the branches its caller takes on them.
func c02Followable(call *ssa.Call, home *ssa.Function) *ssa.Function {
	if call.Call.IsInvoke() {
		return nil
	}
	h := staticCallee(call)
	if h == nil || len(h.Blocks) == 0 || h == home {
		return nil
	}
	hp, fp := c02TopParent(h), c02TopParent(home)
	if hp.Pkg == nil || fp.Pkg == nil || hp.Pkg != fp.Pkg {
		return nil
	}
	if len(h.Blocks) > 40 || !c02LoopFree(h) {
		return nil
	}
	return h
}

// c02ExploreX walks all feasible paths from (start block, index) under env,
// instruction by instruction: memory cells the function owns (locals, fields
// of local structs, fields behind its pointer receiver) are tracked, calls of
// followable helpers are entered, branch conditions are evaluated against the
// facts collected so far.
func c02ExploreX(start *ssa.BasicBlock, startIdx int, env *c02Env, o *c02XOpts) (hits []c02Hit, exhausted bool) {
	type item struct {
		b      *ssa.BasicBlock
		idx    int
		env    *c02Env
		trail  []*ssa.BasicBlock
		opaque []ssa.Value
		stack  []c02Frame
	}
	home := start.Parent()
	seen := map[string]bool{}
	hitSeen := map[ssa.Instruction]bool{}
	if env.facts == nil {
		env.facts = map[string]c02ExprFact{}
	}
	if env.mem == nil {
		env.mem = map[string]ssa.Value{}
	}
	work := []item{{start, startIdx, env, []*ssa.BasicBlock{start}, nil, nil}}
	steps := 0
	for len(work) > 0 {
		it := work[len(work)-1]
		work = work[:len(work)-1]
		steps++
		if steps > 60000 {
			return hits, false
		}
		var sk []string
		for _, fr := range it.stack {
			sk = append(sk, fr.call.Name()+"@"+fr.b.Parent().Name())
		}
		k := fmt.Sprintf("%s/%d@%d|%s|%s", it.b.Parent().Name(), it.b.Index, it.idx, strings.Join(sk, ">"), it.env.key())
		if seen[k] {
			continue
		}
		seen[k] = true
		stopped := false
		for i := it.idx; i < len(it.b.Instrs) && !stopped; i++ {
			in := it.b.Instrs[i]
			it.env.memEffect(in)
			it.env.symEffect(in)
			switch o.Visit(in, it.env) {
			case c02Stop:
				stopped = true
				continue
			case c02Target:
				stopped = true
				if !hitSeen[in] {
					hitSeen[in] = true
					hits = append(hits, c02Hit{in, it.trail, it.opaque})
				}
				continue
			}
			switch x := in.(type) {
			case *ssa.Call:
				maxDepth := 2
				if o.MaxDepth > 0 {
					maxDepth = o.MaxDepth
				}
				if o.NoCalls || len(it.stack) >= maxDepth {
					continue
				}
				h := c02Followable(x, home)
				if h == nil {
					continue
				}
				ne := it.env.clone()
				for j, pa := range h.Params {
					if j < len(x.Call.Args) {
						ne.bindTo(pa, ne.resolve(x.Call.Args[j]))
					}
				}
				ne.enter(nil, h.Blocks[0])
				st := append(append([]c02Frame{}, it.stack...), c02Frame{x, it.b, i + 1})
				tr := append(append([]*ssa.BasicBlock{}, it.trail...), h.Blocks[0])
				work = append(work, item{h.Blocks[0], 0, ne, tr, it.opaque, st})
				stopped = true
			case *ssa.Return:
				if len(it.stack) == 0 {
					stopped = true
					continue
				}
				fr := it.stack[len(it.stack)-1]
				ne := it.env.clone()
				callee := it.b.Parent()
				var results []ssa.Value
				for _, rv := range x.Results {
					results = append(results, ne.resolve(rv))
				}
				// facts about the callee's own values end here, except what the results are made of
				ne.dropFunction(callee, results)
				if len(results) == 1 {
					ne.bindTo(fr.call, results[0])
				} else {
					for _, rr := range refs(fr.call) {
						if ex, ok := rr.(*ssa.Extract); ok && ex.Index < len(results) {
							ne.bindTo(ex, results[ex.Index])
						}
					}
				}
				tr := append(append([]*ssa.BasicBlock{}, it.trail...), fr.b)
				work = append(work, item{fr.b, fr.idx, ne, tr, it.opaque, it.stack[:len(it.stack)-1]})
				stopped = true
			}
		}
		if stopped || len(it.b.Instrs) == 0 {
			continue
		}
		last := it.b.Instrs[len(it.b.Instrs)-1]
		push := func(to *ssa.BasicBlock, env *c02Env, opq []ssa.Value) {
			if o.EdgeStop != nil && o.EdgeStop(it.b, to, env) {
				return
			}
			env.enter(it.b, to)
			tr := append(append([]*ssa.BasicBlock{}, it.trail...), to)
			work = append(work, item{to, 0, env, tr, opq, it.stack})
		}
		if ifi, ok := last.(*ssa.If); ok && len(it.b.Succs) == 2 {
			val, known := it.env.eval(ifi.Cond)
			for bi, to := range it.b.Succs {
				branch := bi == 0
				if known && val != branch {
					continue
				}
				ne := it.env.clone()
				opq := it.opaque
				if !known {
					ne.learn(ifi.Cond, branch)
					if it.env.opaqueCond(ifi.Cond, home) || (o.Opaque != nil && o.Opaque(ifi.Cond)) {
						opq = append(append([]ssa.Value{}, opq...), ifi.Cond)
					}
				}
				push(to, ne, opq)
			}
			continue
		}
		for _, to := range it.b.Succs {
			push(to, it.env.clone(), it.opaque)
		}
	}
	return hits, true
}

// ---------------------------------------------------------------------------
// Memory the analysed function owns.

// c02CellKey names the memory cell behind an address: a non-escaping local
// (Alloc), a field (path) of a local struct, or a field (path) of the struct
// behind a pointer parameter / captured pointer. ok=false for anything else.
func c02CellKey(addr ssa.Value) (root ssa.Value, key string, ok bool) {
	path := ""
	for i := 0; i < 6; i++ {
		switch x := addr.(type) {
		case *ssa.FieldAddr:
			path = fmt.Sprintf(".%d%s", x.Field, path)
			addr = x.X
			continue
		case *ssa.Alloc:
			if !c02OwnedAlloc(x) {
				return nil, "", false
			}
			return x, x.Name() + "@" + x.Parent().Name() + path, true
		case *ssa.Parameter, *ssa.FreeVar:
			if path == "" {
				return nil, "", false
			}
			if _, isPtr := x.Type().Underlying().(*types.Pointer); !isPtr {
				return nil, "", false
			}
			return x, x.Name() + "@" + x.Parent().Name() + path, true
		case *ssa.UnOp:
			// a pointer held in an owned cell (p := &local; p.f) is not followed
			return nil, "", false
		}
		break
	}
	return nil, "", false
}

var c02OwnedCache = map[*ssa.Alloc]bool{}

// c02OwnedAlloc: every use of the allocation is a load, a store into it, or a
// field address used the same way (it never escapes as a pointer).
func c02OwnedAlloc(al *ssa.Alloc) bool {
	if v, ok := c02OwnedCache[al]; ok {
		return v
	}
	var okAddr func(v ssa.Value, depth int) bool
	okAddr = func(v ssa.Value, depth int) bool {
		if depth > 4 {
			return false
		}
		for _, rr := range refs(v) {
			switch x := rr.(type) {
			case *ssa.Store:
				if x.Addr != v {
					return false
				}
			case *ssa.UnOp:
				if x.Op != token.MUL {
					return false
				}
			case *ssa.DebugRef:
			case *ssa.FieldAddr:
				if x.X != v || !okAddr(x, depth+1) {
					return false
				}
			default:
				return false
			}
		}
		return true
	}
	r := okAddr(al, 0)
	c02OwnedCache[al] = r
	return r
}

func c02ZeroConst(t types.Type) ssa.Value {
	if b, ok := t.Underlying().(*types.Basic); ok {
		switch {
		case b.Info()&types.IsBoolean != 0:
			return ssa.NewConst(constant.MakeBool(false), t)
		case b.Info()&types.IsInteger != 0:
			return ssa.NewConst(constant.MakeInt64(0), t)
		case b.Info()&types.IsString != 0:
			return ssa.NewConst(constant.MakeString(""), t)
		}
		return nil
	}
	switch t.Underlying().(type) {
	case *types.Pointer, *types.Interface, *types.Slice, *types.Map, *types.Chan, *types.Signature:
		return ssa.NewConst(nil, t)
	}
	return nil
}

// memEffect applies an instruction's effect on the tracked memory.
func (e *c02Env) memEffect(in ssa.Instruction) {
	if e.mem == nil {
		e.mem = map[string]ssa.Value{}
	}
	switch x := in.(type) {
	case *ssa.Alloc:
		if c02OwnedAlloc(x) {
			// a fresh zero value; forget what an earlier execution left
			prefix := x.Name() + "@" + x.Parent().Name()
			for k := range e.mem {
				if strings.HasPrefix(k, prefix) {
					delete(e.mem, k)
				}
			}
			e.mem["zero:"+prefix] = x
		}
	case *ssa.Store:
		if root, key, ok := c02CellKey(x.Addr); ok {
			if _, isStruct := x.Val.Type().Underlying().(*types.Struct); isStruct {
				// whole-struct store: the fields are no longer known
				prefix := key
				for k := range e.mem {
					if strings.HasPrefix(k, prefix) {
						delete(e.mem, k)
					}
				}
				if al, isAl := root.(*ssa.Alloc); isAl && key == al.Name()+"@"+al.Parent().Name() {
					delete(e.mem, "zero:"+key)
				}
				return
			}
			e.mem[key] = e.resolve(x.Val)
		}
	case *ssa.UnOp:
		if x.Op != token.MUL {
			return
		}
		root, key, ok := c02CellKey(x.X)
		if !ok {
			return
		}
		delete(e.bind, x)
		delete(e.known, x)
		if v, have := e.mem[key]; have {
			if v != ssa.Value(x) {
				e.bindTo(x, v)
			}
			return
		}
		if al, isAl := root.(*ssa.Alloc); isAl {
			if _, zeroed := e.mem["zero:"+al.Name()+"@"+al.Parent().Name()]; zeroed {
				if z := c02ZeroConst(x.Type()); z != nil {
					e.mem[key] = z
					e.bindTo(x, z)
					return
				}
			}
		}
		// first read on this path: this load names the current content
		e.mem[key] = x
	case ssa.CallInstruction:
		// a call that receives the pointer root (or is a method call on it) may change the fields behind it
		cc := x.Common()
		for _, a := range cc.Args {
			switch a.(type) {
			case *ssa.Parameter, *ssa.FreeVar:
				prefix := a.Name() + "@" + a.Parent().Name() + "."
				for k := range e.mem {
					if strings.HasPrefix(k, prefix) {
						delete(e.mem, k)
					}
				}
			}
		}
	}
}

// bindTo makes v stand for target (resolved) from now on.
func (e *c02Env) bindTo(v, target ssa.Value) {
	if v == target {
		delete(e.bind, v)
		return
	}
	e.bind[v] = target
	if b, ok := e.evalNoBind(target); ok {
		e.known[v] = b
	}
	if sy, ok := e.sym[target]; ok {
		if e.sym == nil {
			e.sym = map[ssa.Value]c02Sym{}
		}
		e.sym[v] = sy
	}
}

func (e *c02Env) evalNoBind(v ssa.Value) (bool, bool) {
	if k, ok := v.(*ssa.Const); ok && k.Value != nil && k.Value.Kind() == constant.Bool {
		return constant.BoolVal(k.Value), true
	}
	if b, ok := e.known[v]; ok {
		return b, true
	}
	return false, false
}

// dropFunction forgets bindings and facts about fn's own values (after
// returning from it), except those the kept values are made of.
func (e *c02Env) dropFunction(fn *ssa.Function, keep []ssa.Value) {
	keepSet := map[ssa.Value]bool{}
	for _, k := range keep {
		keepSet[k] = true
	}
	own := func(v ssa.Value) bool {
		if keepSet[v] {
			return false
		}
		switch x := v.(type) {
		case *ssa.Parameter:
			return x.Parent() == fn
		case ssa.Instruction:
			return x.Parent() == fn
		}
		return false
	}
	for v := range e.bind {
		if own(v) {
			delete(e.bind, v)
		}
	}
	for v := range e.known {
		if own(v) {
			delete(e.known, v)
		}
	}
	for v := range e.sym {
		if own(v) {
			delete(e.sym, v)
		}
	}
	for k, f := range e.facts {
		for _, op := range f.ops {
			if own(op) {
				delete(e.facts, k)
				break
			}
		}
	}
	suffix := "@" + fn.Name()
	for k := range e.mem {
		if strings.Contains(k, suffix+".") || strings.HasSuffix(k, suffix) || strings.Contains(k, suffix) && strings.HasPrefix(k, "zero:") {
			delete(e.mem, k)
		}
	}
}

// opaqueCond: an undecided branch condition that the explorer has no way to
// relate to the facts it tracks (see c02OpaqueFlag); loads of tracked cells
// and results of followable helpers are not opaque.
func (e *c02Env) opaqueCond(cond ssa.Value, home *ssa.Function) bool {
	return c02OpaqueFlagX(cond, home)
}

// c02OpaqueFlag: an undecided condition that is a boolean *flag* (a call
// result, a load, a parameter, a phi of those) rather than a comparison of
// data (lengths, counters, errors). A refactoring may recompute the finality
// decision through such a flag; paths that depend on one are reported as
// undecided rather than as violations.
func c02OpaqueFlag(cond ssa.Value) bool {
	for {
		if u, ok := cond.(*ssa.UnOp); ok && u.Op == token.NOT {
			cond = u.X
			continue
		}
		break
	}
	switch x := cond.(type) {
	case *ssa.BinOp:
		if c02IsBool(x.X.Type()) {
			return c02OpaqueFlag(x.X) || c02OpaqueFlag(x.Y)
		}
		// a comparison of data is a legitimate unknown — unless an operand is read from
		// memory (a struct field, a captured variable): the explorer does not track memory,
		// so a path that hinges on such a test is not positively established
		for _, op := range []ssa.Value{x.X, x.Y} {
			for i := 0; i < 3; i++ {
				if cv, ok := op.(*ssa.Convert); ok {
					op = cv.X
					continue
				}
				break
			}
			if u, ok := op.(*ssa.UnOp); ok && u.Op == token.MUL {
				if _, isGlobal := u.X.(*ssa.Global); !isGlobal {
					return true
				}
			}
		}
		return false
	case *ssa.Const:
		return false
	case *ssa.Call:
		// error classification helpers are data tests, not flags
		if callIs(x, "errors", "", "Is") || callIs(x, "errors", "", "As") {
			return false
		}
		return true
	}
	return true
}

// c02OpaqueFlagX: c02OpaqueFlag for the instruction-level explorer: loads of
// cells it tracks and results of helpers it steps into are ordinary data.
func c02OpaqueFlagX(cond ssa.Value, home *ssa.Function) bool {
	for {
		if u, ok := cond.(*ssa.UnOp); ok && u.Op == token.NOT {
			cond = u.X
			continue
		}
		break
	}
	tracked := func(op ssa.Value) (isLoad, ok bool) {
		for i := 0; i < 3; i++ {
			if cv, isCv := op.(*ssa.Convert); isCv {
				op = cv.X
				continue
			}
			break
		}
		if u, isU := op.(*ssa.UnOp); isU && u.Op == token.MUL {
			if _, isGlobal := u.X.(*ssa.Global); isGlobal {
				return false, false
			}
			_, _, t := c02CellKey(u.X)
			return true, t
		}
		return false, false
	}
	followed := func(v ssa.Value) bool {
		if ex, ok := v.(*ssa.Extract); ok {
			v = ex.Tuple
		}
		call, ok := v.(*ssa.Call)
		return ok && c02Followable(call, home) != nil
	}
	switch x := cond.(type) {
	case *ssa.BinOp:
		if c02IsBool(x.X.Type()) {
			return c02OpaqueFlagX(x.X, home) || c02OpaqueFlagX(x.Y, home)
		}
		if isNilConst(x.X) || isNilConst(x.Y) {
			return false // "is it nil" is a test of data, wherever the value is kept
		}
		for _, op := range []ssa.Value{x.X, x.Y} {
			if isLoad, ok := tracked(op); isLoad && !ok {
				return true
			}
		}
		return false
	case *ssa.Const, *ssa.Parameter:
		return false
	case *ssa.Call:
		if callIs(x, "errors", "", "Is") || callIs(x, "errors", "", "As") {
			return false
		}
		return !followed(x)
	case *ssa.Extract:
		return !followed(x)
	case *ssa.UnOp:
		if isLoad, ok := tracked(x); isLoad {
			return !ok
		}
	}
	return c02OpaqueFlag(cond)
}

func c02Trail(p *Prog, tr []*ssa.BasicBlock) []string {
	var out []string
	lastLine := ""
	for _, b := range tr {
		if len(b.Instrs) == 0 {
			continue
		}
		pos := p.Pos(instrPos(b.Instrs[0]))
		if pos == lastLine {
			continue
		}
		lastLine = pos
		out = append(out, fmt.Sprintf("block %d (%s) %s", b.Index, b.Comment, pos))
		if len(out) > 24 {
			out = append(out, "…")
			break
		}
	}
	return out
}

// c02BackSlice: the values v is computed from inside its function (operands,
// phi edges and the branch conditions selecting a phi edge).
func c02BackSlice(v ssa.Value) map[ssa.Value]bool {
	seen := map[ssa.Value]bool{}
	var walk func(x ssa.Value)
	walk = func(x ssa.Value) {
		if x == nil || seen[x] {
			return
		}
		seen[x] = true
		if phi, ok := x.(*ssa.Phi); ok {
			for _, pred := range phi.Block().Preds {
				for _, dc := range domConds(pred) {
					walk(dc.If.Cond)
				}
				if len(pred.Instrs) > 0 {
					if ifi, ok := pred.Instrs[len(pred.Instrs)-1].(*ssa.If); ok {
						walk(ifi.Cond)
					}
				}
			}
		}
		if in, ok := x.(ssa.Instruction); ok {
			for _, op := range in.Operands(nil) {
				if *op != nil {
					walk(*op)
				}
			}
		}
	}
	walk(v)
	return seen
}

// c02UnrelatedFlag returns the first undecided flag condition in opaque that
// is unrelated to the finality argument lv: neither computed from lv nor one
// of lv's own inputs. For a constant (or absent) lv nothing is unrelated —
// there is no finality decision a flag could have re-derived.
func c02UnrelatedFlag(lv ssa.Value, opaque []ssa.Value) ssa.Value {
	if lv == nil || len(opaque) == 0 {
		return nil
	}
	if _, isConst := lv.(*ssa.Const); isConst {
		return nil
	}
	cone := c02BackSlice(lv)
	for _, f := range opaque {
		if cone[f] {
			continue
		}
		if c02BackSlice(f)[lv] {
			continue
		}
		return f
	}
	return nil
}

func c02ValuePos(v ssa.Value) token.Pos {
	if in, ok := v.(ssa.Instruction); ok {
		return instrPos(in)
	}
	return v.Pos()
}

// c02LearnAssumption records "v has truth value val" and, when v is a phi
// materialising a boolean expression, what that implies: if only one incoming
// edge can produce val, the branch conditions leading to that edge hold and
// the incoming value has that truth value too.
func c02LearnAssumption(env *c02Env, v ssa.Value, val bool, depth int) {
	env.learn(v, val)
	if depth > 4 {
		return
	}
	switch x := v.(type) {
	case *ssa.UnOp:
		if x.Op == token.NOT {
			c02LearnAssumption(env, x.X, !val, depth+1)
		}
	case *ssa.Phi:
		surv := -1
		n := 0
		for i, e := range x.Edges {
			if k, ok := e.(*ssa.Const); ok && k.Value != nil && k.Value.Kind() == constant.Bool && constant.BoolVal(k.Value) != val {
				continue
			}
			n++
			surv = i
		}
		if n != 1 {
			return
		}
		pred := x.Block().Preds[surv]
		for _, dc := range domConds(pred) {
			// only conditions that do not already dominate the phi's block tell us something new; learning the others is harmless
			c02LearnAssumption(env, dc.If.Cond, dc.Branch, depth+1)
		}
		if len(pred.Instrs) > 0 && len(pred.Succs) == 2 && pred.Succs[0] != pred.Succs[1] {
			if ifi, ok := pred.Instrs[len(pred.Instrs)-1].(*ssa.If); ok {
				c02LearnAssumption(env, ifi.Cond, pred.Succs[0] == x.Block(), depth+1)
			}
		}
		c02LearnAssumption(env, x.Edges[surv], val, depth+1)
	}
}

// c02PureCarrier: every leaf of v (through phis and interface conversions) is
// one of the allowed values or the nil constant — i.e. v has not been
// re-assigned from some other source (a sentinel, a fresh error).
func c02PureCarrier(v ssa.Value, allowed []ssa.Value) bool {
	seen := map[ssa.Value]bool{}
	var walk func(x ssa.Value) bool
	walk = func(x ssa.Value) bool {
		if seen[x] {
			return true
		}
		seen[x] = true
		for _, a := range allowed {
			if x == a {
				return true
			}
		}
		if isNilConst(x) {
			return true
		}
		switch y := x.(type) {
		case *ssa.Phi:
			for _, e := range y.Edges {
				if !walk(e) {
					return false
				}
			}
			return true
		case *ssa.ChangeInterface:
			return walk(y.X)
		case *ssa.MakeInterface:
			return walk(y.X)
		case *ssa.ChangeType:
			return walk(y.X)
		}
		return false
	}
	return walk(v)
}

// assumeNil / assumeNonNil record the fact "v == nil" is true / false in the
// canonical form every later comparison of v with nil is looked up under.
func (e *c02Env) assumeNilness(v ssa.Value, isNil bool) {
	if e.facts == nil {
		e.facts = map[string]c02ExprFact{}
	}
	nilName := "const nil:" + v.Type().String()
	a, b := nilName, v.Name()
	if a > b {
		a, b = b, a
	}
	e.facts["eq|"+a+"|"+b] = c02ExprFact{val: isNil, ops: []ssa.Value{v}}
}

// c02MadeNonNil: v is non-nil by construction: a freshly made slice / map /
// channel / closure / interface value, an allocation or the address of a part
// of one, a slice of an array that exists (value-or-nil state: a variable that
// is either nil or such a value is a flag).
func c02MadeNonNil(v ssa.Value) bool {
	switch x := v.(type) {
	case *ssa.MakeSlice, *ssa.MakeMap, *ssa.MakeChan, *ssa.MakeClosure, *ssa.MakeInterface, *ssa.Alloc, *ssa.FieldAddr, *ssa.IndexAddr, *ssa.Function, *ssa.Global:
		return true
	case *ssa.Slice:
		// slicing a pointer to an array (make([]T, n) with constant n lowers to this) never yields nil; slicing a slice keeps its nil-ness
		if _, isPtr := x.X.Type().Underlying().(*types.Pointer); isPtr {
			return true
		}
		return c02MadeNonNil(x.X)
	case *ssa.ChangeType:
		return c02MadeNonNil(x.X)
	}
	return false
}
