package main

// E5: lock-held blocking waits (deadlock shapes).

import (
	"fmt"
	"go/token"
	"go/types"
	"sort"
	"strings"

	"golang.org/x/tools/go/ssa"
)

// Unblocker is a site that can make a waiter on a channel proceed.
type Unblocker struct {
	Fn    *ssa.Function
	Instr ssa.Instruction
	Kind  string // close | send | recv
	Chan  string
}

// WaitGraph indexes channel operations of a set of functions.
type WaitGraph struct {
	P     *Prog
	E     *LockEngine
	Funcs []*ssa.Function
	byCh  map[string][]Unblocker
	// mayBlock[fn]: descriptions of blocking things fn (transitively) may do
	mayBlock map[*ssa.Function]map[string]bool
}

func NewWaitGraph(p *Prog, e *LockEngine, funcs []*ssa.Function) *WaitGraph {
	w := &WaitGraph{P: p, E: e, Funcs: funcs, byCh: map[string][]Unblocker{}}
	for _, fn := range funcs {
		allInstrs(fn, func(in ssa.Instruction) {
			switch x := in.(type) {
			case ssa.CallInstruction:
				if builtinName(x) == "close" && len(x.Common().Args) == 1 {
					ch := chanIdent(x.Common().Args[0])
					w.byCh[ch] = append(w.byCh[ch], Unblocker{fn, in, "close", ch})
				}
			case *ssa.Send:
				ch := chanIdent(x.Chan)
				w.byCh[ch] = append(w.byCh[ch], Unblocker{fn, in, "send", ch})
			case *ssa.UnOp:
				if x.Op == token.ARROW {
					ch := chanIdent(x.X)
					w.byCh[ch] = append(w.byCh[ch], Unblocker{fn, in, "recv", ch})
				}
			case *ssa.Select:
				for _, st := range x.States {
					ch := chanIdent(st.Chan)
					k := "recv"
					if st.Dir == types.SendOnly {
						k = "send"
					}
					w.byCh[ch] = append(w.byCh[ch], Unblocker{fn, in, k, ch})
				}
			}
		})
	}
	w.computeMayBlock()
	return w
}

// Closers returns the close/send sites that can release a receiver on ch.
func (w *WaitGraph) Releasers(ch string, forRecv bool) []Unblocker {
	var out []Unblocker
	for _, u := range w.byCh[ch] {
		if forRecv && (u.Kind == "close" || u.Kind == "send") {
			out = append(out, u)
		}
		if !forRecv && (u.Kind == "recv" || u.Kind == "close") {
			out = append(out, u)
		}
	}
	return out
}

// needsLock: the site can only execute while holding (or after acquiring) lock
// id in a mode that conflicts with a waiter holding it in mode waiterMode.
func (w *WaitGraph) needsLock(u Unblocker, id string, waiterMode Mode) bool {
	held := w.E.At(u.Instr)[id]
	if held == ModeNone {
		return false
	}
	if waiterMode == ModeR && held == ModeR {
		return false // two readers coexist
	}
	return true
}

func (w *WaitGraph) computeMayBlock() {
	w.mayBlock = map[*ssa.Function]map[string]bool{}
	direct := func(fn *ssa.Function) map[string]bool {
		m := map[string]bool{}
		for _, op := range blockingOps(w.E, fn) {
			switch op.Kind {
			case "lock":
				m["lock:"+op.Chan] = true
			case "wg.Wait":
				m["wg.Wait"] = true
			case "recv", "send":
				m[op.Kind+":"+op.Chan] = true
			case "select":
				m["select"] = true
			}
		}
		return m
	}
	for _, fn := range w.P.Funcs {
		w.mayBlock[fn] = direct(fn)
	}
	for changed := true; changed; {
		changed = false
		for _, fn := range w.P.Funcs {
			allInstrs(fn, func(in ssa.Instruction) {
				ci, ok := in.(ssa.CallInstruction)
				if !ok {
					return
				}
				if _, isGo := in.(*ssa.Go); isGo {
					return
				}
				cal := staticCallee(ci)
				if cal == nil || !w.P.funcSet[cal] {
					return
				}
				for k := range w.mayBlock[cal] {
					if !w.mayBlock[fn][k] {
						w.mayBlock[fn][k] = true
						changed = true
					}
				}
			})
		}
	}
}

// MayBlock lists what a call to fn may block on (transitively, static calls).
func (w *WaitGraph) MayBlock(fn *ssa.Function) []string {
	var out []string
	for k := range w.mayBlock[origin(fn)] {
		out = append(out, k)
	}
	sort.Strings(out)
	return out
}

// CheckLW1: a receive (or a blocking select all of whose cases are such
// receives) executed with lock L held, on a channel whose every releaser needs
// L in a conflicting mode.
func (w *WaitGraph) CheckLW1(r *Report, rule string) int {
	n := 0
	for _, fn := range w.Funcs {
		for _, op := range blockingOps(w.E, fn) {
			if op.Kind != "recv" && op.Kind != "select" {
				continue
			}
			ls := w.E.At(op.Instr)
			if len(ls) == 0 {
				continue
			}
			for lock, mode := range ls {
				var chans []string
				escapable := false
				if op.Kind == "recv" {
					chans = []string{op.Chan}
				} else {
					for _, cs := range op.Sel.Cases {
						if cs.Dir != types.RecvOnly {
							escapable = true // a send case: released by any reader; handled by LW-4
							continue
						}
						chans = append(chans, cs.Chan)
					}
				}
				var witness []string
				for _, ch := range chans {
					rel := w.Releasers(ch, true)
					if len(rel) == 0 {
						escapable = true // released from outside the analysed code (context, timer, caller)
						continue
					}
					all := true
					for _, u := range rel {
						if !w.needsLock(u, lock, mode) {
							all = false
						} else {
							witness = append(witness, fmt.Sprintf("%s of %s at %s in %s runs with %s held", u.Kind, shortCh(ch), w.P.Pos(instrPos(u.Instr)), FuncName(w.P, u.Fn), shortID(lock)))
						}
					}
					if !all {
						escapable = true
					}
				}
				n++
				construct := fmt.Sprintf("%s waits on %s holding %s", FuncName(w.P, fn), shortChs(chans), shortID(lock))
				if !escapable && len(chans) > 0 {
					r.Violation(rule, construct, w.P.Pos(instrPos(op.Instr)),
						fmt.Sprintf("waits for %s while holding %s(%s), but every site that can release the wait needs that lock: if the waiter gets the lock first, neither side ever proceeds", shortChs(chans), shortID(lock), mode), witness...)
				} else {
					r.OK(rule, construct, w.P.Pos(instrPos(op.Instr)), "some releaser of the wait does not need the held lock")
				}
			}
		}
	}
	return n
}

func shortCh(ch string) string {
	if i := strings.LastIndex(ch, "/"); i >= 0 {
		return ch[:strings.Index(ch, ":")+1] + ch[i+1:]
	}
	return ch
}

func shortChs(chs []string) string {
	var out []string
	for _, c := range chs {
		out = append(out, shortCh(c))
	}
	return "{" + strings.Join(out, ",") + "}"
}

// wgOfCall identifies the WaitGroup a sync.WaitGroup method call operates on:
// the receiver argument, or, for a call of a bound method value (wg.Done kept
// in a variable or deferred as a value), the receiver bound by the closure.
func wgOfCall(ci ssa.CallInstruction) string {
	cc := ci.Common()
	if len(cc.Args) > 0 {
		return wgIdent(cc.Args[0])
	}
	if mc, ok := cc.Value.(*ssa.MakeClosure); ok && len(mc.Bindings) == 1 {
		return wgIdent(mc.Bindings[0])
	}
	return "?"
}

// wgIdent identifies a WaitGroup receiver by field.
func wgIdent(v ssa.Value) string {
	if id, ok := lockIdent(v); ok {
		return id
	}
	return "?"
}

// CheckLW2: wg.Wait() executed with lock L held while a function counted in
// that WaitGroup (it calls/defers wg.Done) acquires L on the way to its end.
func (w *WaitGraph) CheckLW2(r *Report, rule string) int {
	n := 0
	// functions counted per wg
	counted := map[string][]*ssa.Function{}
	for _, fn := range w.Funcs {
		allInstrs(fn, func(in ssa.Instruction) {
			if ci, ok := in.(ssa.CallInstruction); ok && callIs(ci, "sync", "WaitGroup", "Done") {
				id := wgOfCall(ci)
				counted[id] = append(counted[id], fn)
			}
		})
	}
	for _, fn := range w.Funcs {
		allInstrs(fn, func(in ssa.Instruction) {
			call, ok := in.(*ssa.Call)
			if !ok || !callIs(call, "sync", "WaitGroup", "Wait") {
				return
			}
			id := wgOfCall(call)
			ls := w.E.At(call)
			n++
			construct := fmt.Sprintf("%s wg.Wait(%s)", FuncName(w.P, fn), shortID(id))
			var bad []string
			for lock, mode := range ls {
				acq := w.E.Acquirers(lock)
				for _, g := range counted[id] {
					if acq[g] {
						// does g take it in a conflicting mode? conservatively any acquisition conflicts with W; with R only W acquisitions
						if mode == ModeR && !w.acquiresW(g, lock) {
							continue
						}
						bad = append(bad, fmt.Sprintf("%s (counted in the wait group) acquires %s before it can finish", FuncName(w.P, g), shortID(lock)))
					}
				}
			}
			if len(bad) > 0 {
				sort.Strings(bad)
				r.Violation(rule, construct, w.P.Pos(call.Pos()), "waits for the wait group while holding "+ls.String()+"; a goroutine it waits for needs that lock to terminate: Wait never returns", bad...)
			} else {
				r.OK(rule, construct, w.P.Pos(call.Pos()), "no goroutine counted in the wait group needs a lock held across Wait (held: "+ls.String()+")")
			}
		})
	}
	return n
}

func (w *WaitGraph) acquiresW(fn *ssa.Function, lock string) bool {
	found := false
	seen := map[*ssa.Function]bool{}
	var walk func(f *ssa.Function)
	walk = func(f *ssa.Function) {
		if seen[f] || found {
			return
		}
		seen[f] = true
		allInstrs(f, func(in ssa.Instruction) {
			if c, ok := in.(*ssa.Call); ok {
				if id, kind, ok := w.E.lockOp(c); ok && id == lock && kind == opLock {
					found = true
				}
				if cal := staticCallee(c); cal != nil && w.P.funcSet[cal] {
					walk(cal)
				}
			}
		})
	}
	walk(fn)
	return found
}

// CheckEscapeClosable (LW-3): for every blocking select executed with a lock
// held that has a receive case on escape channel esc (a close-only shutdown
// signal), some close site of esc must (a) not need that lock and (b) not be
// dominated by an operation that may wait for the selecting goroutine:
// acquiring that lock, or calling a function that (transitively) blocks on a
// WaitGroup, a lock of the held set, or an unconditional channel operation.
func (w *WaitGraph) CheckEscapeClosable(r *Report, rule, esc string) int {
	n := 0
	// locks held at selects that use esc as a case
	heldAt := map[string]Mode{}
	var selDesc []string
	for _, fn := range w.Funcs {
		for _, op := range blockingOps(w.E, fn) {
			if op.Kind != "select" {
				continue
			}
			has := false
			for _, cs := range op.Sel.Cases {
				if cs.Dir == types.RecvOnly && cs.Chan == esc {
					has = true
				}
			}
			if !has {
				continue
			}
			for l, m := range w.E.At(op.Instr) {
				if heldAt[l] < m {
					heldAt[l] = m
				}
				selDesc = append(selDesc, fmt.Sprintf("%s selects on %s holding %s", FuncName(w.P, fn), shortCh(esc), shortID(l)))
			}
		}
	}
	if len(heldAt) == 0 {
		return 0
	}
	var sites []Unblocker
	for _, u := range w.byCh[esc] {
		if u.Kind == "close" {
			sites = append(sites, u)
		}
	}
	n++
	construct := "close sites of " + shortCh(esc)
	if len(sites) == 0 {
		r.Violation(rule, construct, "-", "a select under a lock relies on "+shortCh(esc)+" to be released but nothing closes it", selDesc...)
		return n
	}
	var reasons []string
	okSite := false
	for _, u := range sites {
		why := ""
		for l, m := range heldAt {
			if w.needsLock(u, l, m) {
				why = fmt.Sprintf("close at %s in %s runs with %s held, which the blocked select holds", w.P.Pos(instrPos(u.Instr)), FuncName(w.P, u.Fn), shortID(l))
			}
		}
		if why == "" {
			// dominated by a blocking operation?
			allInstrs(u.Fn, func(in ssa.Instruction) {
				if why != "" || !instrDominates(in, u.Instr) {
					return
				}
				call, ok := in.(*ssa.Call)
				if !ok {
					return
				}
				if id, kind, ok := w.E.lockOp(call); ok && (kind == opLock || kind == opRLock) {
					if _, h := heldAt[id]; h {
						why = fmt.Sprintf("close at %s in %s comes after acquiring %s, which the blocked select holds", w.P.Pos(instrPos(u.Instr)), FuncName(w.P, u.Fn), shortID(id))
					}
					return
				}
				if callIs(call, "sync", "WaitGroup", "Wait") {
					why = fmt.Sprintf("close at %s in %s comes after wg.Wait()", w.P.Pos(instrPos(u.Instr)), FuncName(w.P, u.Fn))
					return
				}
				if cal := staticCallee(call); cal != nil && w.P.funcSet[cal] {
					for k := range w.mayBlock[cal] {
						blocking := k == "wg.Wait" || strings.HasPrefix(k, "send:") || strings.HasPrefix(k, "recv:")
						if strings.HasPrefix(k, "lock:") {
							if _, h := heldAt[strings.TrimPrefix(k, "lock:")]; h {
								blocking = true
							}
						}
						if blocking {
							why = fmt.Sprintf("close at %s in %s comes after the call to %s, which may block (%s) on the goroutine stuck in the select", w.P.Pos(instrPos(u.Instr)), FuncName(w.P, u.Fn), FuncName(w.P, cal), k)
						}
					}
				}
			})
		}
		if why == "" {
			okSite = true
		} else {
			reasons = append(reasons, why)
		}
	}
	sort.Strings(reasons)
	if okSite {
		r.OK(rule, construct, w.P.Pos(instrPos(sites[0].Instr)), "a close site is reachable without the lock(s) held by the blocked select and without waiting for it")
	} else {
		r.Violation(rule, construct, w.P.Pos(instrPos(sites[0].Instr)), shortCh(esc)+" is the way out of a select that runs with a lock held, but it can only be closed after acquiring that lock / after waiting for the goroutine stuck in that select: both sides wait forever", append(reasons, selDesc...)...)
	}
	return n
}

// goroutineInfo describes a `go` statement.
type goroutineInfo struct {
	Spawner *ssa.Function
	Go      *ssa.Go
	Body    *ssa.Function // nil if dynamic
}

func goroutinesOf(fns []*ssa.Function) []goroutineInfo {
	var out []goroutineInfo
	for _, fn := range fns {
		allInstrs(fn, func(in ssa.Instruction) {
			if g, ok := in.(*ssa.Go); ok {
				out = append(out, goroutineInfo{fn, g, staticCallee(g)})
			}
		})
	}
	return out
}

// CheckTracked: every `go` statement in fns whose body is a module function
// is preceded (dominated) by wg.Add on the WaitGroup wg and its body defers
// (or on every path calls) wg.Done.
func CheckTracked(p *Prog, r *Report, rule string, fns []*ssa.Function, wgID string, exempt map[string]string) int {
	n := 0
	for _, g := range goroutinesOf(fns) {
		name := "dynamic"
		if g.Body != nil {
			name = FuncName(p, g.Body)
		}
		construct := FuncName(p, g.Spawner) + " go " + name
		if why, ok := exempt[name]; ok {
			r.Note("%s: %s not tracked in the wait group — %s", rule, construct, why)
			continue
		}
		n++
		added := false
		allInstrs(g.Spawner, func(in ssa.Instruction) {
			if c, ok := in.(*ssa.Call); ok && callIs(c, "sync", "WaitGroup", "Add") && wgOfCall(c) == wgID && instrDominates(c, g.Go) {
				added = true
			}
		})
		done := false
		if g.Body != nil {
			ff := &FlagFlow{Fn: g.Body, Must: true, Transfer: func(in ssa.Instruction, st uint64) uint64 {
				if ci, ok := in.(ssa.CallInstruction); ok {
					if callIs(ci, "sync", "WaitGroup", "Done") && wgOfCall(ci) == wgID {
						return st | 1
					}
					// a deferred closure that calls Done
					if d, ok := in.(*ssa.Defer); ok {
						if f := staticCallee(d); f != nil {
							hit := false
							allInstrs(f, func(j ssa.Instruction) {
								if cj, ok := j.(ssa.CallInstruction); ok && callIs(cj, "sync", "WaitGroup", "Done") && wgOfCall(cj) == wgID {
									hit = true
								}
							})
							if hit {
								return st | 1
							}
						}
					}
				}
				return st
			}}
			ff.Run()
			done = true
			cnt := 0
			ff.AtReturns(func(ret *ssa.Return, st uint64) {
				cnt++
				if st&1 == 0 {
					done = false
				}
			})
			if cnt == 0 {
				done = false
			}
		}
		r.Check(added && done, rule, construct, p.Pos(g.Go.Pos()), "wg.Add before go, wg.Done on every exit of the goroutine",
			"goroutine is not tracked in "+shortID(wgID)+" (Add before the go statement and Done on every exit): Close can return while it is still running")
	}
	return n
}

// CheckShutdownCases: every blocking operation inside the goroutine bodies is
// a select with a receive case on one of the shutdown channels (prefix match).
func CheckShutdownCases(p *Prog, e *LockEngine, r *Report, rule string, bodies []*ssa.Function, shutdown []string, armed bool) int {
	n := 0
	for _, fn := range bodies {
		for _, op := range blockingOps(e, fn) {
			if op.Kind == "lock" {
				continue
			}
			n++
			// every listed shutdown channel must be a case of the select
			ok := op.Kind == "select"
			missing := ""
			if op.Kind == "select" {
				for _, s := range shutdown {
					has := false
					for _, cs := range op.Sel.Cases {
						if cs.Dir == types.RecvOnly && strings.HasPrefix(cs.Chan, s) {
							has = true
						}
					}
					if !has {
						ok = false
						missing += " " + shortCh(s)
					}
				}
			}
			construct := fmt.Sprintf("%s %s", FuncName(p, fn), op.Desc)
			if op.Kind == "select" {
				var cs []string
				for _, c := range op.Sel.Cases {
					cs = append(cs, shortCh(c.Chan))
				}
				sort.Strings(cs)
				construct = fmt.Sprintf("%s select{%s}", FuncName(p, fn), strings.Join(cs, ","))
			}
			if ok {
				r.OK(rule, construct, p.Pos(instrPos(op.Instr)), "wait has a shutdown case")
			} else if armed {
				r.Violation(rule, construct, p.Pos(instrPos(op.Instr)), "a goroutine that Close waits for can block here without the shutdown case(s)"+missing+": Close (or a departing subscriber's deregistration) may never complete")
			} else {
				r.Note("%s: %s at %s has no shutdown case (liveness not promised by the statement)", rule, construct, p.Pos(instrPos(op.Instr)))
			}
		}
	}
	return n
}
