package main

// C02.K1 — provenance of the file key: a stream is handed to the caller of
// Decrypt (or the segment phase started) only with the key that UnwrapKeyFn
// returned without an error. A placeholder used to keep the MAC computation
// going after a failed unwrap is a public constant: a document whose header
// MAC and segments are computed under it must not be accepted.

import (
	"go/token"
	"go/types"

	"golang.org/x/tools/go/ssa"
)

func c02CheckKeyProvenance(p *Prog, r *Report, ro *c02Roles) {
	entry := ro.entry
	name := FuncName(p, entry)
	pkg := entry.Pkg.Pkg
	rule := "C02.K1-key-provenance"
	// the exported callback type is the anchor
	var unwrapSig *types.Signature
	if tn, ok := pkg.Scope().Lookup("UnwrapKeyFn").(*types.TypeName); ok {
		unwrapSig, _ = types.Unalias(tn.Type()).Underlying().(*types.Signature)
	}
	if unwrapSig == nil {
		r.Undecide("%s: the exported callback type UnwrapKeyFn no longer resolves; the key provenance rule cannot be applied", name)
		return
	}
	isUnwrap := func(in ssa.Instruction) *ssa.Call {
		call, ok := in.(*ssa.Call)
		if !ok || call.Call.IsInvoke() || staticCallee(call) != nil {
			return nil
		}
		sig, ok := call.Call.Value.Type().Underlying().(*types.Signature)
		if !ok || !types.Identical(sig, unwrapSig) {
			return nil
		}
		return call
	}
	var fns []*ssa.Function
	for f := range ro.reach {
		fns = append(fns, f)
	}
	var unwraps []*ssa.Call
	for _, f := range fns {
		allInstrs(f, func(in ssa.Instruction) {
			if c := isUnwrap(in); c != nil {
				unwraps = append(unwraps, c)
			}
		})
	}
	if len(unwraps) == 0 {
		r.Undecide("%s: no call of a function value of type UnwrapKeyFn was found on the way from Decrypt; where the file key comes from cannot be established", name)
		return
	}
	// functions that start the segment phase
	isLoop := map[*ssa.Function]bool{}
	for _, l := range ro.loops {
		isLoop[l] = true
	}
	startsSegments := map[*ssa.Function]bool{}
	for _, f := range fns {
		for g := range c02Reach([]*ssa.Function{f}, pkg) {
			if isLoop[g] {
				startsSegments[f] = true
			}
		}
	}
	handout := func(in ssa.Instruction, env *c02Env) bool {
		switch x := in.(type) {
		case *ssa.Return:
			if x.Parent() == entry && len(x.Results) >= 1 {
				v := env.resolve(c02Ret(x, 0))
				return !isNilConst(v)
			}
		case ssa.CallInstruction:
			if x.Parent() != nil {
				if callee := staticCallee(x); callee != nil && callee != entry && startsSegments[origin(callee)] {
					// only when the call really starts the phase: go, or a call that is not one of the helpers the explorer steps into
					if _, isGo := x.(*ssa.Go); isGo {
						return true
					}
					if isLoop[origin(callee)] {
						return true
					}
				}
			}
		}
		return false
	}
	// the consumer of the key bytes: a same-package call that receives (something that may be) the unwrap result
	keyArg := func(in ssa.Instruction) ssa.Value {
		call, ok := in.(*ssa.Call)
		if !ok || call.Call.IsInvoke() {
			return nil
		}
		h := staticCallee(call)
		if h == nil || !c02SamePkg(h, pkg) {
			return nil
		}
		for _, a := range call.Call.Args {
			if !c02IsByteSlice(a.Type()) {
				continue
			}
			for _, u := range unwraps {
				if res := callResult(u, 0); res != nil && c02Carries(a, res) {
					return a
				}
			}
		}
		return nil
	}
	isUnwrapRes := func(v ssa.Value) bool {
		for _, u := range unwraps {
			if res := callResult(u, 0); res != nil && (v == res || c02SliceBase(v) == res) {
				return true
			}
		}
		return false
	}

	// An undecided branch on *derived* state — a flag, a nil-or-set variable, a value merged from several places — that
	// was computed from the outcome of the unwrap means the explorer lost the correlation: a path through it is not
	// positively established. Direct tests of what UnwrapKeyFn returned (its error, the length of its key) are inputs.
	derivedFromUnwrap := func(cond ssa.Value) bool {
		var operands []ssa.Value
		var collect func(v ssa.Value, depth int)
		collect = func(v ssa.Value, depth int) {
			if depth > 4 {
				return
			}
			switch x := v.(type) {
			case *ssa.UnOp:
				if x.Op == token.NOT {
					collect(x.X, depth+1)
					return
				}
			case *ssa.BinOp:
				collect(x.X, depth+1)
				collect(x.Y, depth+1)
				return
			case *ssa.Convert:
				collect(x.X, depth+1)
				return
			case *ssa.Call:
				if n := builtinName(x); n == "len" || n == "cap" {
					collect(x.Call.Args[0], depth+1)
					return
				}
			}
			operands = append(operands, v)
		}
		collect(cond, 0)
		for _, op := range operands {
			if _, isC := op.(*ssa.Const); isC {
				continue
			}
			direct := false
			for _, u := range unwraps {
				if op == ssa.Value(u) {
					direct = true
				}
				for i := 0; i < 2; i++ {
					if res := callResult(u, i); res != nil && op == res {
						direct = true
					}
				}
			}
			if direct {
				continue
			}
			sl := c02BackSlice(op)
			for _, u := range unwraps {
				if sl[u] {
					return true
				}
			}
		}
		return false
	}
	report := func(construct, okMsg, badMsg string, hits []c02Hit, exhausted, sawUnwrap bool, without []string) {
		switch {
		case !exhausted:
			r.Undecide("%s: path exploration exceeded its budget", construct)
		case len(hits) > 0 && len(hits[0].Opaque) > 0:
			r.Undecide("%s: a path to %s depends on the flag %s (%s) that cannot be related to the outcome of the key unwrap (e.g. the result of a helper that cannot be followed)", construct, p.Pos(instrPos(hits[0].Instr)), hits[0].Opaque[0].Name(), p.Pos(c02ValuePos(hits[0].Opaque[0])))
		case len(hits) > 0:
			r.Violation(rule, construct, p.Pos(instrPos(hits[0].Instr)), badMsg, c02Trail(p, hits[0].Trail)...)
		case !sawUnwrap || len(without) > 0:
			where := ""
			if len(without) > 0 {
				where = " (e.g. " + without[0] + ")"
			}
			r.Undecide("%s: Decrypt can hand out a stream on a path on which no UnwrapKeyFn call was seen%s — the unwrap is probably invoked in a way the path explorer does not follow (a table of steps, a helper with loops); cannot relate the key to the outcome of the unwrap", construct, where)
		default:
			r.OK(rule, construct, p.Pos(entry.Pos()), okMsg)
		}
	}

	// (1) no stream after a failed unwrap
	{
		sawUnwrap := false
		var without []string
		hits, ex := c02ExploreX(entry.Blocks[0], 0, &c02Env{bind: map[ssa.Value]ssa.Value{}, known: map[ssa.Value]bool{}}, &c02XOpts{
			MaxDepth: 4,
			Opaque:   derivedFromUnwrap,
			Visit: func(in ssa.Instruction, env *c02Env) c02Action {
				if u := isUnwrap(in); u != nil {
					sawUnwrap = true
					env.mem["c02:unwrap"] = u
					if e := callResult(u, 1); e != nil {
						env.assumeNilness(e, false)
					}
					return c02Continue
				}
				if handout(in, env) {
					if _, ok := env.mem["c02:unwrap"]; ok {
						return c02Target
					}
					without = append(without, p.Pos(instrPos(in)))
					return c02Stop
				}
				return c02Continue
			}})
		report(name+" stream handed out after a failed key unwrap",
			"when UnwrapKeyFn reports an error, every path ends in an error return before a stream is handed out or the segment phase is started",
			"Decrypt can hand a stream to its caller (or start processing segments) although UnwrapKeyFn reported an error: whatever key is used on that path (typically a placeholder that keeps the MAC computation going) is not a secret, so a document whose header MAC and segments were computed under it — by anyone — is accepted and its attacker-chosen plaintext released with a clean EOF. A failed unwrap must end in an error, whatever the MAC check says",
			hits, ex, sawUnwrap, without)
	}
	// (2) the key that is imported on a path that hands out a stream is the unwrap result
	{
		sawUnwrap := false
		var without []string
		hits, ex := c02ExploreX(entry.Blocks[0], 0, &c02Env{bind: map[ssa.Value]ssa.Value{}, known: map[ssa.Value]bool{}}, &c02XOpts{
			MaxDepth: 4,
			Opaque:   derivedFromUnwrap,
			Visit: func(in ssa.Instruction, env *c02Env) c02Action {
				if u := isUnwrap(in); u != nil {
					sawUnwrap = true
					env.mem["c02:unwrap"] = u
					return c02Continue
				}
				if a := keyArg(in); a != nil {
					if _, done := env.mem["c02:key"]; !done {
						env.mem["c02:key"] = env.resolve(a)
					}
					return c02Continue
				}
				if handout(in, env) {
					if _, ok := env.mem["c02:unwrap"]; !ok {
						without = append(without, p.Pos(instrPos(in)))
						return c02Stop
					}
					if k, ok := env.mem["c02:key"]; ok && !isUnwrapRes(k) {
						return c02Target
					}
					return c02Stop
				}
				return c02Continue
			}})
		report(name+" key of a handed-out stream is the unwrap result",
			"on every path that hands out a stream, the key bytes handed to the key import are the ones UnwrapKeyFn returned",
			"Decrypt can hand a stream to its caller with a file key that is not the value UnwrapKeyFn returned (a fresh or constant buffer substituted e.g. because the returned key has the wrong length): such a placeholder is public, so a document forged under it is accepted. The substitution must be followed by an error return",
			hits, ex, sawUnwrap, without)
	}
}
