package main

// C04: path-sensitive rule for the documented "N/step means N-MAX/step".
// The CFG of the range parser is loop free up to the bit-set builder, so all
// paths to the call are enumerated; phi values are resolved along each path
// and paths whose branch decisions contradict each other (same pure condition
// taken both ways — go/ssa has no CSE, `len(x) == 1` appears twice) are dropped.

import (
	"fmt"
	"go/token"
	"regexp"
	"sort"
	"strings"

	"golang.org/x/tools/go/ssa"
)

// c04PureKey: structural identity of a pure expression (comparisons of
// lengths, constants and SSA values).
func c04PureKey(v ssa.Value, depth int) string { return c04PureKeySub(v, depth, nil) }

// c04PureKeySub: like c04PureKey with the callee's parameters replaced by the caller's arguments.
func c04PureKeySub(v ssa.Value, depth int, sub map[ssa.Value]ssa.Value) string {
	if w, ok := sub[v]; ok {
		return c04PureKeySub(w, depth, nil)
	}
	if depth > 6 {
		return fmt.Sprintf("v%p", v)
	}
	switch x := v.(type) {
	case *ssa.Const:
		return "k(" + x.String() + ")"
	case *ssa.BinOp:
		return "(" + c04PureKeySub(x.X, depth+1, sub) + x.Op.String() + c04PureKeySub(x.Y, depth+1, sub) + ")"
	case *ssa.UnOp:
		if x.Op == token.NOT {
			return "!" + c04PureKeySub(x.X, depth+1, sub)
		}
	case *ssa.Call:
		if builtinName(x) == "len" && len(x.Call.Args) == 1 {
			return "len(" + c04PureKeySub(x.Call.Args[0], depth+1, sub) + ")"
		}
	case *ssa.Convert:
		return c04PureKeySub(x.X, depth+1, sub)
	case *ssa.ChangeType:
		return c04PureKeySub(x.X, depth+1, sub)
	}
	return fmt.Sprintf("v%p", v)
}

// c04CondKey normalises a branch condition to (key, polarity).
func c04CondKey(cond ssa.Value, taken bool) (string, bool) { return c04CondKeySub(cond, taken, nil) }

func c04CondKeySub(cond ssa.Value, taken bool, sub map[ssa.Value]ssa.Value) (string, bool) {
	for {
		u, ok := cond.(*ssa.UnOp)
		if !ok || u.Op != token.NOT {
			break
		}
		cond, taken = u.X, !taken
	}
	if bo, ok := cond.(*ssa.BinOp); ok && bo.Op == token.NEQ {
		return "(" + c04PureKeySub(bo.X, 0, sub) + "==" + c04PureKeySub(bo.Y, 0, sub) + ")", !taken
	}
	return c04PureKeySub(cond, 0, sub), taken
}

type c04Path struct {
	blocks []*ssa.BasicBlock
	index  map[*ssa.BasicBlock]int
	conds  []*ssa.If // decisions taken, with their truth in `truth`
	truth  []bool
}

// resolve follows phis along the path.
func (pa *c04Path) resolve(v ssa.Value) ssa.Value {
	if in, ok := v.(ssa.Instruction); ok {
		if idx, onPath := pa.index[in.Block()]; onPath {
			return pa.resolveAt(v, idx, instrIndex(in), 0)
		}
	}
	return pa.resolveAt(v, len(pa.blocks)-1, 1<<30, 0)
}

// c04LocalField: v is a load of field f of a local struct variable (not a parameter copy).
func c04LocalField(v ssa.Value) (*ssa.Alloc, int, bool) {
	u, ok := v.(*ssa.UnOp)
	if !ok || u.Op != token.MUL {
		return nil, 0, false
	}
	fa, ok := u.X.(*ssa.FieldAddr)
	if !ok {
		return nil, 0, false
	}
	a, ok := fa.X.(*ssa.Alloc)
	if !ok || c04ParamOfAlloc(a) != nil {
		return nil, 0, false
	}
	return a, fa.Field, true
}

// resolveAt follows phis along the path and, for loads of fields of local
// struct variables, the last store on the path before position (bi, ii).
func (pa *c04Path) resolveAt(v ssa.Value, bi, ii, depth int) ssa.Value {
	for i := 0; i < 64 && depth < 16; i++ {
		if a, f, ok := c04LocalField(v); ok {
			if in, isIn := v.(ssa.Instruction); isIn {
				if idx, onPath := pa.index[in.Block()]; onPath {
					bi, ii = idx, instrIndex(in)
				}
			}
			st, sbi, sii := pa.lastStore(a, f, bi, ii)
			if st == nil {
				return v
			}
			v, bi, ii = st.Val, sbi, sii
			depth++
			continue
		}
		ph, ok := v.(*ssa.Phi)
		if !ok {
			return v
		}
		idx, ok := pa.index[ph.Block()]
		if !ok || idx == 0 {
			return v
		}
		pred := pa.blocks[idx-1]
		found := false
		for j, pb := range ph.Block().Preds {
			if pb == pred {
				v = ph.Edges[j]
				found = true
				break
			}
		}
		if !found {
			return v
		}
		bi, ii = idx-1, 1<<30
	}
	return v
}

// lastStore: the last store to field f of local a on the path strictly before (bi, ii).
func (pa *c04Path) lastStore(a *ssa.Alloc, f, bi, ii int) (*ssa.Store, int, int) {
	for b := bi; b >= 0; b-- {
		instrs := pa.blocks[b].Instrs
		hi := len(instrs)
		if b == bi && ii < hi {
			hi = ii
		}
		for k := hi - 1; k >= 0; k-- {
			if st, ok := instrs[k].(*ssa.Store); ok {
				if fa, ok := st.Addr.(*ssa.FieldAddr); ok && fa.X == ssa.Value(a) && fa.Field == f {
					return st, b, k
				}
			}
		}
	}
	return nil, 0, 0
}

// fieldAt: the value of field f of local a at instruction `at` on the path.
func (pa *c04Path) fieldAt(a *ssa.Alloc, f int, at ssa.Instruction) ssa.Value {
	bi, ok := pa.index[at.Block()]
	if !ok {
		return nil
	}
	st, sbi, sii := pa.lastStore(a, f, bi, instrIndex(at))
	if st == nil {
		return nil
	}
	return pa.resolveAt(st.Val, sbi, sii, 0)
}

// c04PathsTo enumerates the acyclic, decision-consistent paths from the entry
// of fn to block target. ok=false when the CFG region has a cycle or too many paths.
func c04PathsTo(fn *ssa.Function, target *ssa.BasicBlock) ([]*c04Path, bool) {
	const limit = 20000
	var out []*c04Path
	ok := true
	canReach := map[*ssa.BasicBlock]bool{}
	for _, b := range fn.Blocks {
		if b == target || reachableFrom(b, nil)[target] {
			canReach[b] = true
		}
	}
	var blocks []*ssa.BasicBlock
	onPath := map[*ssa.BasicBlock]bool{}
	var conds []*ssa.If
	var truth []bool
	decided := map[string]bool{}
	var walk func(b *ssa.BasicBlock)
	walk = func(b *ssa.BasicBlock) {
		if !ok {
			return
		}
		if onPath[b] {
			return // a back edge: only the acyclic paths (first passage through each loop) are enumerated
		}
		blocks = append(blocks, b)
		onPath[b] = true
		defer func() {
			blocks = blocks[:len(blocks)-1]
			onPath[b] = false
		}()
		if b == target {
			pa := &c04Path{blocks: append([]*ssa.BasicBlock(nil), blocks...), index: map[*ssa.BasicBlock]int{},
				conds: append([]*ssa.If(nil), conds...), truth: append([]bool(nil), truth...)}
			for i, x := range pa.blocks {
				pa.index[x] = i
			}
			out = append(out, pa)
			if len(out) > limit {
				ok = false
			}
			return
		}
		n := len(b.Instrs)
		if n == 0 {
			return
		}
		if ifi, isIf := b.Instrs[n-1].(*ssa.If); isIf && b.Succs[0] != b.Succs[1] {
			for i, s := range b.Succs {
				if !canReach[s] {
					continue
				}
				key, pol := c04CondKey(ifi.Cond, i == 0)
				if prev, seen := decided[key]; seen {
					if prev != pol {
						continue // contradicts an earlier decision on the same pure condition
					}
					conds, truth = append(conds, ifi), append(truth, i == 0)
					walk(s)
					conds, truth = conds[:len(conds)-1], truth[:len(truth)-1]
					continue
				}
				decided[key] = pol
				conds, truth = append(conds, ifi), append(truth, i == 0)
				walk(s)
				conds, truth = conds[:len(conds)-1], truth[:len(truth)-1]
				delete(decided, key)
			}
			return
		}
		for _, s := range b.Succs {
			if canReach[s] {
				walk(s)
			}
		}
	}
	if len(fn.Blocks) > 0 {
		walk(fn.Blocks[0])
	}
	return out, ok
}

// c04DependsOn: the operand closure of v (through phis and pure operators, not through calls) contains w.
func c04DependsOn(v, w ssa.Value) bool {
	seen := map[ssa.Value]bool{}
	var walk func(v ssa.Value) bool
	walk = func(v ssa.Value) bool {
		if v == w {
			return true
		}
		if v == nil || seen[v] {
			return false
		}
		seen[v] = true
		in, ok := v.(ssa.Instruction)
		if !ok {
			return false
		}
		if _, isCall := v.(*ssa.Call); isCall {
			return false
		}
		for _, op := range in.Operands(nil) {
			if *op != nil && walk(*op) {
				return true
			}
		}
		return false
	}
	return walk(v)
}

var c04NStepSentence = regexp.MustCompile(`"N/\.\.\."\s+is accepted as meaning\s+"N-MAX/\.\.\."`)

// c04DocHasNStep: the published sentence the rule is tied to.
func c04DocHasNStep(doc string) bool {
	// strip comment leaders and fold white space
	var sb strings.Builder
	for _, ln := range strings.Split(doc, "\n") {
		sb.WriteString(strings.TrimSpace(strings.TrimPrefix(strings.TrimSpace(ln), "//")))
		sb.WriteString(" ")
	}
	return c04NStepSentence.MatchString(strings.Join(strings.Fields(sb.String()), " "))
}

// c04NStepRule: at sink(start, end, step) inside fn (bounds parameter bpar):
// on every consistent path on which the step is a parsed value and the start
// is a parsed value (not the field minimum of '*'), the end is either a second
// parsed value (a-b/step) or the field maximum; it is never the start value
// itself. Returns false if fn has no path with a parsed step (nothing to decide).
func c04NStepRule(p *Prog, r *Report, rule string, fn *ssa.Function, call *ssa.Call, ordinal int, bpar *ssa.Parameter, minF, maxF string) bool {
	if len(call.Call.Args) != 3 {
		return false
	}
	construct := fmt.Sprintf("%s %s#%d: N/step extends to max", FuncName(p, fn), c04CalleeName(call), ordinal)
	return c04NStepRuleAt(p, r, rule, fn, call, construct, func(pa *c04Path) (ssa.Value, ssa.Value, ssa.Value) {
		return pa.resolve(call.Call.Args[0]), pa.resolve(call.Call.Args[1]), pa.resolve(call.Call.Args[2])
	}, bpar, minF, maxF)
}

// c04NStepRuleAt: the rule at an arbitrary site `at` of fn, the three values handed to
// the bit-set builder being given per path by `get` (direct arguments, or the fields of
// a struct handed to a helper that calls the builder with them).
func c04NStepRuleAt(p *Prog, r *Report, rule string, fn *ssa.Function, at ssa.Instruction, construct string, get func(pa *c04Path) (ssa.Value, ssa.Value, ssa.Value), bpar *ssa.Parameter, minF, maxF string) bool {
	pos := p.Pos(instrPos(at))
	if bpar == nil {
		return false
	}
	paths, ok := c04PathsTo(fn, at.Block())
	if !ok {
		r.Undecide("%s: the paths to the call cannot be enumerated (cycle or too many paths)", construct)
		return true
	}
	pv := &c04Prover{fn: fn}
	kmin := "param:" + bpar.Name() + "." + minF
	kmax := "param:" + bpar.Name() + "." + maxF
	var good, bad []*c04Path
	parsedStep := false
	stepLeaves := map[ssa.Value]bool{} // the values a parsed step can be
	otherEnd := 0                      // paths whose end value is of a kind the rule does not classify
	for _, pa := range paths {
		a0, a1, a2 := get(pa)
		if a0 == nil || a1 == nil || a2 == nil {
			otherEnd++
			continue
		}
		if _, isK := a2.(*ssa.Const); isK {
			continue // no step part on this path
		}
		parsedStep = true
		stepLeaves[a2] = true
		if _, isK := a0.(*ssa.Const); isK || pv.key(a0) == kmin {
			continue // '*' / '?': the range already is min-max
		}
		switch {
		case pv.key(a1) == kmax:
			good = append(good, pa)
		case a1 == a0:
			bad = append(bad, pa)
		case c04SingleViaHelper(p, pa, a0, a1):
			// start and end are two results of one helper call, and on some success return of the
			// helper, not excluded by the decisions of this path, they are the same value (N alone)
			bad = append(bad, pa)
		default:
			// a-b/step: the end is another parsed value (second result-bearing call); anything else is unclassified
			if ex, ok := a1.(*ssa.Extract); ok {
				if _, isCall := ex.Tuple.(*ssa.Call); isCall {
					continue
				}
			}
			otherEnd++
		}
	}
	if !parsedStep {
		return false
	}
	c04NumericStep(p, r, fn, at, construct, stepLeaves, bpar)
	describe := func(pa *c04Path, step ssa.Value) (string, bool) {
		// the decisions of the path that look at the step value
		var deps []string
		for i, ifi := range pa.conds {
			if c04DependsOn(ifi.Cond, step) {
				deps = append(deps, fmt.Sprintf("%s is %v", p.Pos(c04IfPos(ifi)), pa.truth[i]))
			}
		}
		return strings.Join(deps, ", "), len(deps) > 0
	}
	switch {
	case len(bad) == 0 && len(good) > 0:
		r.OK(rule, construct, pos, fmt.Sprintf("%d paths with a single start value and a step all hand the field maximum to the builder", len(good)))
	case len(bad) > 0 && len(good) == 0 && otherEnd > 0:
		r.Undecide("%s: the end of a single-value range with a step is computed in a form the rule does not classify", construct)
	case len(bad) > 0 && len(good) == 0:
		r.Violation(rule, construct, pos, "doc.go: 'The form \"N/...\" is accepted as meaning \"N-MAX/...\"' — but on every path with a single start value and a step the end of the range stays the start value: '5/15' means just 5")
	case len(bad) > 0:
		// both: the extension is conditional. Classified bad shape: conditional on the step's value.
		for _, pa := range bad {
			_, _, step := get(pa)
			if why, dep := describe(pa, step); dep {
				// decisions that also guard the call (step != 0) are on every path; look for one that distinguishes bad from good
				distinguishes := false
				for i, ifi := range pa.conds {
					if !c04DependsOn(ifi.Cond, step) {
						continue
					}
					for _, g := range good {
						for j, gi := range g.conds {
							if gi == ifi && g.truth[j] != pa.truth[i] {
								distinguishes = true
							}
						}
					}
				}
				if distinguishes {
					r.Violation(rule, construct, pos, "doc.go: 'The form \"N/...\" is accepted as meaning \"N-MAX/...\"' — but the extension of the end to the field maximum depends on the numeric value of the step (on the path where "+why+" the end stays the start value): e.g. '5/1' means just 5 instead of 5-max")
					return true
				}
			}
		}
		r.Undecide("%s: some paths with a single start value and a step keep end = start; whether they are feasible could not be classified", construct)
	default:
		r.Undecide("%s: no path with a single start value and a step was recognised (end is neither the start value nor the field maximum)", construct)
	}
	return true
}

// c04SingleViaHelper: a0 and a1 are results #j and #i of the same call of a
// module function h, and h has a success return on which both results are the
// same value, whose dominating conditions (with h's parameters replaced by the
// call's arguments) do not contradict the decisions taken on the caller's path.
func c04SingleViaHelper(p *Prog, pa *c04Path, a0, a1 ssa.Value) bool {
	e0, ok0 := a0.(*ssa.Extract)
	e1, ok1 := a1.(*ssa.Extract)
	if !ok0 || !ok1 || e0.Tuple != e1.Tuple {
		return false
	}
	call, ok := e0.Tuple.(*ssa.Call)
	if !ok {
		return false
	}
	h := staticCallee(call)
	if h == nil || !p.InModule(h) || len(h.Blocks) == 0 {
		return false
	}
	sub := map[ssa.Value]ssa.Value{}
	for i, par := range h.Params {
		if i < len(call.Call.Args) {
			sub[par] = call.Call.Args[i]
		}
	}
	decided := map[string]bool{}
	for i, ifi := range pa.conds {
		k, pol := c04CondKey(ifi.Cond, pa.truth[i])
		decided[k] = pol
	}
	errIdx := c04ErrResult(h)
	for _, b := range h.Blocks {
		if len(b.Instrs) == 0 {
			continue
		}
		ret, ok := b.Instrs[len(b.Instrs)-1].(*ssa.Return)
		if !ok || e0.Index >= len(ret.Results) || e1.Index >= len(ret.Results) {
			continue
		}
		if errIdx >= 0 && !isNilConst(ret.Results[errIdx]) {
			continue
		}
		if ret.Results[e0.Index] != ret.Results[e1.Index] {
			continue
		}
		if _, isK := ret.Results[e0.Index].(*ssa.Const); isK {
			continue
		}
		contradicted := false
		for _, dc := range c04DomConds(b) {
			k, pol := c04CondKeySub(dc.If.Cond, dc.Branch, sub)
			if prev, seen := decided[k]; seen && prev != pol {
				contradicted = true
			}
		}
		if !contradicted {
			return true
		}
	}
	return false
}

// c04NumericStep (C04.P6-numeric-step): the step of a range is a number. The
// values a parsed step can take (per path, through helpers) must never be the
// result of a lookup in the field's name table: 'jan', 'mon' ... are values of
// the month / weekday fields, not step sizes, and the property wants
// non-numeric steps refused.
func c04NumericStep(p *Prog, r *Report, fn *ssa.Function, at ssa.Instruction, construct string, leaves map[ssa.Value]bool, bpar *ssa.Parameter) {
	rule := "C04.P6-numeric-step"
	construct = strings.Replace(construct, ": N/step extends to max", ": step is numeric", 1)
	tb := newC04TermBuilder(p)
	root := tb.Root(fn)
	fromNames := false
	unknown := ""
	var where ssa.Value
	var vals []ssa.Value
	for v := range leaves {
		vals = append(vals, v)
	}
	sort.Slice(vals, func(i, j int) bool { return vals[i].Pos() < vals[j].Pos() })
	for _, v := range vals {
		t := tb.Term(root, v)
		t.walk(func(x *c04T) {
			switch x.Op {
			case "lookup":
				// a map lookup: is the map the name table of the field-table parameter?
				if len(x.Args) > 0 && x.Args[0].contains(func(y *c04T) bool {
					return y.Op == "load" && len(y.Args) == 1 && bpar != nil && y.Args[0].Op == "leaf" && y.Args[0].Name == "param:"+bpar.Name()
				}) {
					fromNames = true
					where = v
				}
			case "unknown":
				if x.Name != "loop-carried value" {
					unknown = x.Name
				}
			}
		})
	}
	switch {
	case fromNames:
		r.Violation(rule, construct, p.Pos(instrPos(at)), "the step after '/' can be the result of a lookup in the field's name table ("+c04ValuePos(p, where)+"): names are accepted as step sizes — '*/feb', '2/DEC', 'mon-fri/wed' are given a meaning (steps 2, 12, 3) instead of being refused as non-numeric")
	case unknown != "":
		r.Undecide("%s: where the step value comes from is not fully visible (%s)", construct, unknown)
	default:
		r.OK(rule, construct, p.Pos(instrPos(at)), "every parsed step is the result of a numeric parse, never of a name lookup")
	}
}

func c04ValuePos(p *Prog, v ssa.Value) string {
	if in, ok := v.(ssa.Instruction); ok {
		return p.Pos(instrPos(in))
	}
	return p.Pos(v.Pos())
}
