package main

import (
	"fmt"
	"os"
	"strings"
)

// c03FixtureRule runs the scenario verdicts (accepted / allRejected) used by
// the C03 rules on fixtures/c03sym: every Bad* function must be reported,
// every Good* one must stay silent.
func c03FixtureRule(fp *Prog, fr *Report) {
	e := &c03Env{p: fp, r: fr, mod: fp.ModPath}
	errSize, errAlg := fp.ModPath+".errSize", fp.ModPath+".errAlg"
	fr.Rule("fixture", "scenario rules on decrypt-shaped functions", 0)
	for _, fn := range fp.Funcs {
		if fn.Parent() != nil {
			continue
		}
		low := strings.ToLower(fn.Name())
		if !strings.HasPrefix(low, "good") && !strings.HasPrefix(low, "bad") {
			continue
		}
		name := FuncName(fp, fn)
		sc := func() *c03Scenario {
			return &c03Scenario{KeyLen: -1, NonceSize: -1, Overhead: -1, Fields: map[FieldID]c03V{}}
		}
		var v c03Verdict
		for _, alg := range []string{"A128", "A256"} {
			v.merge(e.accepted(e.run(sc(), fn, e.args(fn, alg, 32, 16), alg+" right sizes")))
			for _, iv := range []int64{0, 12, 17, 24} {
				v.merge(e.allRejected(e.run(sc(), fn, e.args(fn, alg, 32, iv), fmt.Sprintf("%s %d-byte iv", alg, iv)), errSize))
			}
			for _, ml := range []int64{7, 17} {
				v.merge(e.allRejected(e.run(sc(), fn, e.args(fn, alg, ml, 16), fmt.Sprintf("%s %d-byte message", alg, ml)), errSize))
			}
		}
		v.merge(e.allRejected(e.run(sc(), fn, e.args(fn, "A512", 32, 16), "unknown algorithm"), errAlg))
		e.settle("fixture", name, fp.Pos(fn.Pos()), v, "ok", "fixture")
	}
}

// c03KWFixtureRule runs the counter-encoding bit-flow rule on fixtures/c03kw.
func c03KWFixtureRule(fp *Prog, fr *Report) {
	fr.Rule("fixture", "counter encoding bit flow", 0)
	for _, fn := range fp.Funcs {
		if fn.Parent() != nil {
			continue
		}
		low := strings.ToLower(fn.Name())
		if strings.HasPrefix(low, "good") || strings.HasPrefix(low, "bad") {
			c03CheckCounterEncoding(fp, fr, "fixture", FuncName(fp, fn), fn, 32)
		}
	}
}

// c03UnpadFixtureRule runs the unpad branch-fact rules on fixtures/c03unpad.
func c03UnpadFixtureRule(fp *Prog, fr *Report) {
	fr.Rule("fixture", "unpad bounds and verification loop", 0)
	for _, fn := range fp.Funcs {
		if fn.Parent() != nil {
			continue
		}
		low := strings.ToLower(fn.Name())
		if strings.HasPrefix(low, "good") || strings.HasPrefix(low, "bad") {
			c03CheckUnpad(fp, fr, "fixture", fn)
		}
	}
	if os.Getenv("KC_C03_DEBUG") == "unpadfix" {
		for _, o := range fr.Obs {
			fmt.Fprintf(os.Stderr, "FIX %s | %s | %.110s\n", o.Construct, o.Status, o.Message)
		}
		for _, u := range fr.Undecided {
			fmt.Fprintf(os.Stderr, "FIX-UNDECIDED %.160s\n", u)
		}
	}
}
