package main

// C05 — cron scheduler: each job starts once per activation, never early;
// Stop/Remove are clean.

func init() { register("C05", checkC05) }

func checkC05(c *Ctx) {
	r := c.R
	r.Explanation = "Decides structural necessary conditions of C05 on package cron, on every path. " +
		"HOW CONSTRUCTS ARE FOUND: by role, anchored on the exported API (Cron, Entry and its exported fields, Job, Schedule, Start/Run/Stop/Schedule/Remove/Entries) — Cron's unexported fields by type or method set, searched through its own sub-structs held by value, pointer or embedding (the []*Entry list, the bool running flag, the mutex, the Add/Done/Wait job counter, the four request channels by element type, the *time.Location, the ID counter as the field of Entry.ID's type whose value reaches Entry.ID; today's names only break ties); the scheduler loop as the function whose blocking select receives from the stop channel; the scheduler role as the activations that run that loop through calls and are spawned with go or called from an exported method; helpers by what they do. " +
		"HOW FACTS ARE ESTABLISHED: an interprocedural powerset dataflow over the package's functions (callee summaries per entry state and per callback binding, entry states from call sites, go statements handing the scheduler role over), path-sensitive on up to five tracked facts per function (a tested flag, a bool helper's result or one component/enum constant of a result tuple, flag variables, enum-like variables fed by constants and helper results and compared with constants, nil tests) plus one captured boolean through which a callback reports to its caller; a branch that depends on a helper result and is not interpreted makes the verdicts that needed it UNDECIDED; calls are followed through static callees, closures with or without captured variables, closure parameters of callback helpers such as locked(func(){...}), method values in locals or unexported func-typed fields, elements of literal tables of steps, single-implementation unexported interfaces, and callbacks of sort/slices; values are followed through parameters, helper results, named results, temporaries and fields of local structs; a variable is treated as a location (SSA web, local cell, field of a local struct) whose assignments are observed; the mutex state is part of the flow. " +
		"WHAT IS DECIDED (runningMu/running/entries/jobWaiter/add/remove/snapshot/stop denote the roles): " +
		"(S1-ownership) entries and the Next/Prev of its elements are touched only by an activation holding the scheduler role or with the mutex held after running was read false in that critical section; (S1-single-scheduler) from every exported entry point the loop is entered only after running was read false and set true in one critical section. " +
		"(S2-routing) every send on a request channel happens with the mutex held on the running==true branch, never by the scheduler itself; (S2-twin) every return of the exported method that can forward a removal / a new entry has forwarded it or applied it to entries itself (a search that came back empty counts as applied); (S2-stop-clears-running) every return after the stop request has stored running=false under the mutex. " +
		"(S3-counted-start) every Job.Run runs inside another Job (chain wrapper) or in a goroutine whose go statement is dominated by counter.Add(n>0), with Done never before Run; (S3-stop-context) what Stop returns is the context of one context.WithCancel(Background/TODO) and every call of its cancel is dominated by counter.Wait(); (S3-wait-after-stop) in the method that sends the stop request every start of that wait follows the send or a read of running==false; (S3-waiter-reuse) a sync.WaitGroup counter is not waited on by a detached goroutine while a restart can Add to it. " +
		"(S4-guard) every start of an entry's job is reached only with origNext <= a clock reading and !origNext.IsZero() established (After/Before/Equal/Compare/Sub forms, predicate helpers), and every path that examines an entry and does not start it has established origNext.IsZero() or origNext strictly after the reading (an exactly-due entry is not skipped); (S4-bookkeeping) the iteration that starts it stores Prev = origNext and Next = its own Schedule.Next(clock reading), and starts it once. " +
		"(S5-stop-final) after the stop request was taken the scheduler does not wait again, start a job or touch entries; (S5-remove-applied) after a removal request was taken entries is rewritten (or searched in vain) before the next wait, and a decodable remover keeps exactly the entries with another ID. " +
		"(S6-rendezvous) the stop/remove/add channels are created unbuffered. " +
		"(S7-arm-earliest) the timer is armed for entries[0].Next with entries sorted since their last change; (S7-fresh-now) the instant subtracted was assigned a clock reading after the previous wait; (S7-rearm) every wait follows an arming decision made after the last change of entries/Next; (S7-add-case) an entry received while running gets Next from its own schedule and a reading taken after the wait, and is appended; (S7-init-next) before the first wait every existing entry gets Next recomputed; (S7-drain) a blocking drain of the timer channel is not reached with the timer whose value the wake-up consumed; (S8-order) the sort comparator (Less method, sort.Slice closure, slices.SortFunc) puts zero Next last and otherwise orders chronologically by the instants themselves — not reversed, not by a lossy projection such as Unix seconds. " +
		"(S9-next-in-location) every time handed to an entry's Schedule.Next was converted with In(<the location field>). " +
		"(S10-id-unique) the ID counter is accessed only under the mutex, only ever advanced by a non-zero constant, and taking a value for an ID and advancing it happen in one critical section. " +
		"NOT decided: once-per-activation over all histories and interleavings, timing ('never early' only as a guard on every start), behaviour under clock jumps, the values Entries() returns beyond 'Prev is the instant that was compared', the chain wrappers' semantics, user Schedule implementations, liveness (a context that never completes is only a NOTE). Unknown shapes (running not a bool, several reporting cells, more tracked booleans than fit, undecoded comparator or duration form, unclassified clock source) give UNDECIDED, not VIOLATION."
	r.Assumptions = append(r.Assumptions,
		"interface calls (Schedule.Next, Logger, clock.Clock, clock.Timer) do not touch entries, Entry.Next/Prev or the Cron's channels",
		"the clock is monotone: an instant obtained from clock.Now()/a timer channel earlier is <= the current instant",
		"a timer's channel delivers an instant not earlier than the instant the timer was armed for",
		"type-based field and lock identity (all Cron instances are one abstract Cron)",
		"function values passed to functions of packages sort and slices, or to a same-package helper that only calls its parameter, are invoked only during that call, on the caller's goroutine",
		"a literal table of steps run by a range loop is modelled as the whole ordered sequence applied at each iteration (over-approximation)",
		"a function reached through a statically known dynamic route (func-typed field, table, seam) has no other callers than those found",
		"role resolution: if two fields have the same role-defining type, today's field name breaks the tie; no candidate => UNDECIDED")

	a := newC05(c)

	r.Rule("C05.S4-guard", "a job is started only under Entry.Next <= now (clock reading) and !Entry.Next.IsZero(), on every path; an examined entry that is not started was shown not due (zero, or Next strictly after the reading)", 3)
	r.Rule("C05.S4-bookkeeping", "the iteration that starts a job stores Prev = the compared Next and Next = Schedule.Next(clock reading), and starts it once", 3)
	a.checkActivation()

	r.Rule("C05.S1-ownership", "Cron.entries / Entry.Next / Entry.Prev touched only by the scheduler goroutine or under runningMu with running==false", 3)
	r.Rule("C05.S1-single-scheduler", "the scheduler is started only after reading running==false and storing running=true in one runningMu section", 2)
	a.checkOwnership()
	r.Rule("C05.S2-routing", "sends on Cron.add/remove/snapshot/stop only under runningMu on the running==true branch", 4)
	r.Rule("C05.S2-twin", "the method forwarding a removal / an addition applies it to Cron.entries itself when it does not forward it", 2)
	r.Rule("C05.S2-stop-clears-running", "every return of Stop after the stop request has stored running=false under runningMu", 1)
	a.checkRouting()

	r.Rule("C05.S3-counted-start", "every Job.Run runs in a chain wrapper or in a goroutine preceded by jobWaiter.Add(n>0), Done not before Run", 4)
	r.Rule("C05.S3-stop-context", "Stop returns the WithCancel(Background) context; cancel only after jobWaiter.Wait()", 2)
	a.checkJobAccounting()
	a.checkStopContext()
	r.Rule("C05.S3-waiter-reuse", "a sync.WaitGroup counting jobs is not waited on by a detached goroutine while a restart can Add to it (reuse panic)", 1)
	a.checkWaiterReuse()
	r.Rule("C05.S3-wait-after-stop", "the wait whose end completes Stop's context begins only after the stop request was handed to the scheduler (or running was read false)", 1)
	a.checkWaitAfterHandoff()
	r.Rule("C05.S10-id-unique", "entry IDs: the counter is accessed only under the mutex, and taking an ID and advancing the counter happen in one critical section", 2)
	a.checkIDs()

	r.Rule("C05.S5-stop-final", "after receiving the stop request the scheduler never waits again, starts a job or touches entries", 1)
	r.Rule("C05.S5-remove-applied", "after receiving a removal request the scheduler removes that id from Cron.entries before waiting again; the remover keeps only entries with another ID", 2)
	a.checkStopCase()
	r.Rule("C05.S7-rearm", "every wait of the scheduler follows an arming decision made after the last change of entries / Next", 1)
	a.checkRearm()
	a.checkRemoveCase()
	r.Rule("C05.S6-rendezvous", "Cron.stop / Cron.remove / Cron.add are unbuffered", 3)
	a.checkRendezvous()

	r.Rule("C05.S7-arm-earliest", "the timer is armed for Cron.entries[0].Next with entries sorted since their last mutation", 1)
	r.Rule("C05.S7-fresh-now", "the instant subtracted when arming the timer was read after the previous wait", 1)
	r.Rule("C05.S7-add-case", "an entry received on Cron.add gets Next from its own schedule and a fresh clock reading, and is appended", 2)
	r.Rule("C05.S8-order", "the sort comparator puts zero Next last and orders by Before", 3)
	r.Rule("C05.S7-init-next", "before its first wait the scheduler gives every existing entry Next = its Schedule.Next(clock reading)", 1)
	r.Rule("C05.S7-drain", "a blocking drain of the timer channel is never reached with the timer the wake-up case has consumed", 1)
	a.checkArming()
	a.checkAddCase()
	a.checkDrain()
	r.Rule("C05.S9-next-in-location", "every time reaching Entry.Schedule.Next in the scheduler was converted with In(Cron.location) (3 call sites today; a helper supplying the time adds one obligation)", 3)
	a.checkLocation()

	c.Fixture("c05act", func(fp *Prog, fr *Report) {
		fa := newC05Base(fp, fr, fp.ModPath, "", []string{"entries"})
		fa.checkActivation()
	})
}
