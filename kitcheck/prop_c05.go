package main

// C05 — cron scheduler: each job starts once per activation, never early;
// Stop/Remove are clean.

func init() { register("C05", checkC05) }

func checkC05(c *Ctx) {
	r := c.R
	r.Explanation = "Decides structural necessary conditions of C05 on package cron, on every path. Constructs are found by ROLE, not by unexported name: Cron's fields by type/method set (the []*Entry list, the bool flag, the mutex, the Add/Done/Wait counter, the channels by element type, the *time.Location), the scheduler loop as the function whose blocking select receives from the stop channel, helpers by what they do. Facts are established interprocedurally: a path-sensitive powerset flow over the package's functions (callee summaries, entry states from call sites, go statements handing the scheduler role over, callbacks of sort/slices run in the caller's state, branches on a tested flag or on a bool helper's result pruned per path), values followed through parameters, helper results, named results and temporaries. (In the clauses below runningMu/running/entries/jobWaiter/add/remove/snapshot/stop denote those roles.) " +
		"(S1) Cron.entries and the Next/Prev of its elements are touched only by the scheduler goroutine (the function Start spawns and helpers reachable only from it) or, in API methods and shared helpers, with Cron.runningMu held on a branch where Cron.running was read false in the same critical section; the scheduler is started only from a critical section that read running==false and sets it true (one scheduler at a time). " +
		"(S2) every send on Cron.add/remove/snapshot/stop happens with runningMu held on the running==true branch; Stop clears running on every path that sent the stop request; every return of the method that forwards a removal/an addition has either forwarded it or applied it to Cron.entries itself. " +
		"(S3) every goroutine that invokes Job.Run is preceded by jobWaiter.Add(n>0) and does not call jobWaiter.Done before Run; the context Stop returns comes from context.WithCancel(Background) and its cancel is called only after jobWaiter.Wait. " +
		"(S4) every start of an entry's job is dominated by facts origNext <= (reading of the clock) and !origNext.IsZero(), and the iteration that starts it stores Prev = origNext and Next = Schedule.Next(<clock reading>). " +
		"(S5) after the scheduler received the stop request no path returns to the wait, starts a job or touches entries; after it received a removal request every path applies the removal to Cron.entries before waiting again; the helper that applies it keeps exactly the entries whose ID differs. " +
		"(S6) Cron.stop/remove/add are created unbuffered (the API call returns only when the scheduler has taken the request). " +
		"(S7) the timer is armed with entries[0].Next minus a clock reading refreshed after the last wait, entries being sorted (sort.Sort on Cron.entries) with no later mutation; the comparator puts zero Next last and orders by Before; an entry received on Cron.add gets Next from its own schedule and a fresh clock reading and is appended. " +
		"Also: a sync.WaitGroup counting jobs must not be waited on by a detached goroutine while a restart can Add to it (documented reuse restriction, panics); before its first wait the scheduler recomputes Next of every existing entry; the blocking drain of the timer channel is unreachable with the timer the wake-up case consumed; no path starts one entry twice in one wake-up iteration. " +
		"(S9) every time handed to Entry.Schedule.Next (initial pass, add case, wake-up bookkeeping) derives from X.In(Cron.location) through now()/phis/parameters. " +
		"Variables are followed as LOCATIONS (an SSA web through parameters, a local cell, a field of a local struct): 'now refreshed after the wait', 'timer cleared after it fired', 'nothing after stop' and 'timer re-armed after every change of entries/Next' (S7-rearm) are decided by flows that observe the assignments to the location and track flag variables (boolean phis, nil tests), so exit-by-flag loops and value+flag pairs are followed exactly; callbacks handed to same-package helpers (withLock(func(){...})) and calls through unexported func-typed fields are followed; the mutex state is part of the flow. " +
		"(S3-wait-after-stop) in the exported method that sends the stop request, every start of the wait on the job counter (go statement whose goroutine reaches Wait, or a synchronous Wait) follows the send or a read of running==false. (S10) entry IDs come from a counter field of Cron (role: the field of Entry.ID's type whose value reaches Entry.ID): it is read and written only with the mutex held, it is only ever assigned itself plus a non-zero constant, and on every path a critical section that takes a value for an ID also advances it — so two live entries never share an ID and Remove(id) cannot hit another entry. " +
		"NOT decided: once-per-activation over all histories and interleavings, timing ('never early' only as a guard on every start), behaviour under clock jumps, the values Entries() returns beyond 'Prev is the instant that was compared', the chain wrappers' semantics, user Schedule implementations."
	r.Assumptions = append(r.Assumptions,
		"interface calls (Schedule.Next, Logger, clock.Clock, clock.Timer) do not touch Cron.entries, Entry.Next/Prev or the Cron's channels",
		"the clock is monotone: an instant obtained from clock.Now()/a timer channel earlier is <= the current instant",
		"a timer's channel delivers an instant not earlier than the instant the timer was armed for",
		"type-based field and lock identity (all Cron instances are one abstract Cron)",
		"function values passed to functions of packages sort and slices are invoked only during that call, on the caller's goroutine",
		"role resolution: if two fields of Cron have the same role-defining type, today's field name breaks the tie; no candidate => UNDECIDED")

	a := newC05(c)

	r.Rule("C05.S4-guard", "a job is started only under Entry.Next <= now (clock reading) and !Entry.Next.IsZero(), on every path", 2)
	r.Rule("C05.S4-bookkeeping", "the iteration that starts a job stores Prev = the compared Next and Next = Schedule.Next(clock reading), and starts it once", 3)
	a.checkActivation()

	r.Rule("C05.S1-ownership", "Cron.entries / Entry.Next / Entry.Prev touched only by the scheduler goroutine or under runningMu with running==false", 3)
	r.Rule("C05.S1-single-scheduler", "the scheduler is started only after reading running==false and storing running=true in one runningMu section", 2)
	a.checkOwnership()
	r.Rule("C05.S2-routing", "sends on Cron.add/remove/snapshot/stop only under runningMu on the running==true branch", 4)
	r.Rule("C05.S2-twin", "the method forwarding a removal / an addition applies it to Cron.entries itself when it does not forward it", 2)
	r.Rule("C05.S2-stop-clears-running", "every return of Stop after the stop request has stored running=false under runningMu", 1)
	a.checkRouting()

	r.Rule("C05.S3-counted-start", "every Job.Run runs in a chain wrapper or in a goroutine preceded by jobWaiter.Add(n>0), Done not before Run", 4)
	r.Rule("C05.S3-stop-context", "Stop returns the WithCancel(Background) context; cancel only after jobWaiter.Wait()", 2)
	a.checkJobAccounting()
	a.checkStopContext()
	r.Rule("C05.S3-waiter-reuse", "a sync.WaitGroup counting jobs is not waited on by a detached goroutine while a restart can Add to it (reuse panic)", 1)
	a.checkWaiterReuse()
	r.Rule("C05.S3-wait-after-stop", "the wait whose end completes Stop's context begins only after the stop request was handed to the scheduler (or running was read false)", 1)
	a.checkWaitAfterHandoff()
	r.Rule("C05.S10-id-unique", "entry IDs: the counter is accessed only under the mutex, and taking an ID and advancing the counter happen in one critical section", 2)
	a.checkIDs()

	r.Rule("C05.S5-stop-final", "after receiving the stop request the scheduler never waits again, starts a job or touches entries", 1)
	r.Rule("C05.S5-remove-applied", "after receiving a removal request the scheduler removes that id from Cron.entries before waiting again; the remover keeps only entries with another ID", 2)
	a.checkStopCase()
	r.Rule("C05.S7-rearm", "every wait of the scheduler follows an arming decision made after the last change of entries / Next", 1)
	a.checkRearm()
	a.checkRemoveCase()
	r.Rule("C05.S6-rendezvous", "Cron.stop / Cron.remove / Cron.add are unbuffered", 3)
	a.checkRendezvous()

	r.Rule("C05.S7-arm-earliest", "the timer is armed for Cron.entries[0].Next with entries sorted since their last mutation", 1)
	r.Rule("C05.S7-fresh-now", "the instant subtracted when arming the timer was read after the previous wait", 1)
	r.Rule("C05.S7-add-case", "an entry received on Cron.add gets Next from its own schedule and a fresh clock reading, and is appended", 2)
	r.Rule("C05.S8-order", "the sort comparator puts zero Next last and orders by Before", 3)
	r.Rule("C05.S7-init-next", "before its first wait the scheduler gives every existing entry Next = its Schedule.Next(clock reading)", 1)
	r.Rule("C05.S7-drain", "a blocking drain of the timer channel is never reached with the timer the wake-up case has consumed", 1)
	a.checkArming()
	a.checkAddCase()
	a.checkDrain()
	r.Rule("C05.S9-next-in-location", "every time reaching Entry.Schedule.Next in the scheduler was converted with In(Cron.location) (3 call sites today; a helper supplying the time adds one obligation)", 3)
	a.checkLocation()

	c.Fixture("c05act", func(fp *Prog, fr *Report) {
		fa := newC05Base(fp, fr, fp.ModPath, "", []string{"entries"})
		fa.checkActivation()
	})
}
