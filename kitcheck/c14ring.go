package main

// C14.ring-iso — the generic ring behaves like container/ring. Layered
// decision per exported function of the reference:
//
//  1. the declaration (and every package-local function it reaches) is
//     AST-identical to the reference modulo generics and local names  => OK
//  2. the two go/ssa functions are proved equivalent by relational symbolic
//     execution (c14symexec.go)                                       => OK
//  3. the declaration is the reference's up to a small token edit (smallEdit)
//     that the prover cannot equate                           => VIOLATION
//     (a concrete small heap on which the two SSA functions end in different
//     observable states, c14ringexec.go, is attached as an illustration when
//     one is found; it never decides)
//  4. otherwise                                  => UNDECIDED (this function)
//
// Unexported functions and field names are not anchors: helpers are executed
// in place on both sides, the unexported link fields are matched by role
// (the bijection of same-typed fields under which the functions agree).

import (
	"fmt"
	"go/ast"
	"go/parser"
	"go/token"
	"go/types"
	"os"
	"path/filepath"
	"regexp"
	"sort"
	"strings"

	"golang.org/x/tools/go/ssa"
	"golang.org/x/tools/go/ssa/ssautil"
)

type c14RingCmp struct {
	c        *Ctx
	rule     string
	refPkg   *ssa.Package
	refNamed *types.Named
	prtPkg   *ssa.Package
	prtNamed *types.Named
	// API: name ("New", "Ring.Next") -> functions
	names []string
	refFn map[string]*ssa.Function
	prtFn map[string]*ssa.Function
	perm  []int // port leaf index -> reference leaf index
	// leaves of the two Ring structs (by-value sub-structs flattened); flat:
	// the port's Ring has no sub-struct, so leaf index == field index
	prtLeaves, refLeaves []c14RLeaf
	flat                 bool
	refText              map[string]string
	prtText              map[string]string
}

func c14TypeKey(t types.Type) string {
	switch x := t.(type) {
	case *types.TypeParam:
		return "any"
	case *types.Alias:
		return c14TypeKey(types.Unalias(x))
	case *types.Named:
		if x.Obj().Pkg() == nil {
			return x.Obj().Name()
		}
		return x.Origin().Obj().Name()
	case *types.Pointer:
		return "*" + c14TypeKey(x.Elem())
	case *types.Basic:
		return x.Name()
	case *types.Interface:
		if x.NumMethods() == 0 && x.NumEmbeddeds() == 0 {
			return "any"
		}
		return "interface"
	case *types.Signature:
		var ps, rs []string
		for i := 0; i < x.Params().Len(); i++ {
			ps = append(ps, c14TypeKey(x.Params().At(i).Type()))
		}
		for i := 0; i < x.Results().Len(); i++ {
			rs = append(rs, c14TypeKey(x.Results().At(i).Type()))
		}
		return "func(" + strings.Join(ps, ",") + ")(" + strings.Join(rs, ",") + ")"
	case *types.Tuple:
		var ps []string
		for i := 0; i < x.Len(); i++ {
			ps = append(ps, c14TypeKey(x.At(i).Type()))
		}
		return "(" + strings.Join(ps, ",") + ")"
	case *types.Slice:
		return "[]" + c14TypeKey(x.Elem())
	}
	return t.String()
}

func c14Ring(c *Ctx, rule string) {
	r, p := c.R, c.P
	refFile := filepath.Join(goEnvGOROOTOr(), "src", "container", "ring", "ring.go")
	fset := token.NewFileSet()
	f, err := parser.ParseFile(fset, refFile, nil, 0)
	if err != nil {
		r.Undecide("cannot parse the reference %s: %v", refFile, err)
		return
	}
	tpkg := types.NewPackage("container/ring", "ring")
	refPkg, _, err := ssautil.BuildPackage(&types.Config{}, fset, tpkg, []*ast.File{f}, ssa.BuilderMode(0))
	if err != nil {
		r.Undecide("cannot type-check the reference %s: %v", refFile, err)
		return
	}
	rc := &c14RingCmp{c: c, rule: rule, refPkg: refPkg, refFn: map[string]*ssa.Function{}, prtFn: map[string]*ssa.Function{}}
	rn, ok := tpkg.Scope().Lookup("Ring").(*types.TypeName)
	if !ok {
		r.Undecide("the reference has no type Ring")
		return
	}
	rc.refNamed = rn.Type().(*types.Named)
	rc.prtNamed = p.Named("ring", "Ring")
	rc.prtPkg = p.SSA.Package(p.Pkg("ring").Types)
	if rc.prtPkg == nil {
		undecided("package ring has no SSA form")
	}
	// API of the reference: exported functions and exported methods of Ring
	for _, name := range tpkg.Scope().Names() {
		if fn, ok := tpkg.Scope().Lookup(name).(*types.Func); ok && fn.Exported() {
			rc.names = append(rc.names, name)
			rc.refFn[name] = refPkg.Prog.FuncValue(fn)
			if pf, ok := p.Pkg("ring").Types.Scope().Lookup(name).(*types.Func); ok {
				rc.prtFn[name] = p.SSA.FuncValue(pf)
			}
		}
	}
	for i := 0; i < rc.refNamed.NumMethods(); i++ {
		m := rc.refNamed.Method(i)
		if !m.Exported() {
			continue
		}
		name := "Ring." + m.Name()
		rc.names = append(rc.names, name)
		rc.refFn[name] = refPkg.Prog.FuncValue(m)
		for j := 0; j < rc.prtNamed.NumMethods(); j++ {
			if pm := rc.prtNamed.Method(j); pm.Name() == m.Name() {
				rc.prtFn[name] = p.SSA.FuncValue(pm)
			}
		}
	}
	sort.Strings(rc.names)
	// exported methods only the port has: not part of the comparison
	for j := 0; j < rc.prtNamed.NumMethods(); j++ {
		pm := rc.prtNamed.Method(j)
		if _, ok := rc.refFn["Ring."+pm.Name()]; !ok && pm.Exported() {
			r.Note("%s: the port has an exported method Ring.%s the reference does not have (not compared)", rule, pm.Name())
		}
	}
	// AST texts
	rc.refText, err = normDecls(refFile, map[string]string{}, map[string]bool{})
	if err != nil {
		r.Undecide("cannot parse the reference: %v", err)
		return
	}
	rc.prtText = map[string]string{}
	tps := map[string]string{}
	if tp := rc.prtNamed.TypeParams(); tp != nil {
		for i := 0; i < tp.Len(); i++ {
			tps[tp.At(i).Obj().Name()] = "any"
		}
	}
	for _, gf := range p.Pkg("ring").GoFiles {
		m, err := normDecls(gf, tps, map[string]bool{"Ring": true, "New": true})
		if err != nil {
			continue
		}
		for k, v := range m {
			if !strings.Contains(k, "@") {
				rc.prtText[k] = v
			}
		}
	}

	// ---- the representation
	perms := rc.fieldBijections()
	construct := "ring/ring.go type Ring"
	switch {
	case rc.prtText["type Ring"] == rc.refText["type Ring"] && len(perms) > 0:
		r.OK(rule, construct, "ring/ring.go", "identical to the reference modulo generics")
	case len(perms) > 0:
		r.OK(rule, construct, "ring/ring.go", "same representation as the reference (exported field Value, two link fields of type *Ring) modulo unexported field names/order")
	default:
		ps, _ := rc.prtNamed.Underlying().(*types.Struct)
		exportedOK := ps != nil
		if ps != nil {
			rs := rc.refNamed.Underlying().(*types.Struct)
			for i := 0; i < rs.NumFields(); i++ {
				if rf := rs.Field(i); rf.Exported() {
					found := false
					for j := 0; j < ps.NumFields(); j++ {
						if pf := ps.Field(j); pf.Name() == rf.Name() && c14TypeKey(pf.Type()) == c14TypeKey(rf.Type()) {
							found = true
						}
					}
					if !found {
						exportedOK = false
					}
				}
			}
		}
		if !exportedOK {
			r.Violation(rule, construct, "ring/ring.go", "the exported fields of Ring differ from the reference", "port: "+rc.prtText["type Ring"], "reference: "+rc.refText["type Ring"])
		} else {
			r.Undecide("%s: the port's Ring has a different unexported representation than container/ring (%s); behavioural equivalence is not decided", rule, rc.prtText["type Ring"])
		}
		return
	}

	// ---- the decision procedures must be alive: a function is equivalent to
	// itself and Next is not Prev
	if nx, pv := rc.refFn["Ring.Next"], rc.refFn["Ring.Prev"]; nx != nil && pv != nil {
		rc.perm = nil
		if mm := rc.prove(nx, nx, false); mm != nil {
			r.Undecide("checker-dead: %s: the equivalence prover does not prove Ring.Next equivalent to itself (%s)", rule, mm)
		}
		if mm := rc.prove(nx, pv, false); mm == nil {
			r.Undecide("checker-dead: %s: the equivalence prover proves Ring.Next equivalent to Ring.Prev", rule)
		}
	}

	// ---- per function
	type outcome struct {
		how      string
		mismatch *symMismatch
	}
	best := -1
	var bestPerm []int
	var bestOut map[string]*outcome
	for _, perm := range perms {
		rc.perm = perm
		out := map[string]*outcome{}
		n := 0
		for _, name := range rc.names {
			pf, rf := rc.prtFn[name], rc.refFn[name]
			if pf == nil || rf == nil {
				continue
			}
			o := &outcome{}
			out[name] = o
			if rc.astIdentical(name) {
				o.how = "identical to the reference modulo generics (and so is every function it reaches)"
				n++
				continue
			}
			mm := rc.prove(pf, rf, true)
			if mm == nil {
				o.how = "proved equivalent to the reference by relational symbolic execution of the two SSA functions (calls to other exported ring functions matched as calls, helpers executed in place)"
				n++
				continue
			}
			mm2 := rc.prove(pf, rf, false)
			if mm2 == nil {
				o.how = "proved equivalent to the reference by relational symbolic execution of the two SSA functions (all package-local callees executed in place)"
				n++
				continue
			}
			o.mismatch = mm
		}
		if n > best {
			best, bestPerm, bestOut = n, perm, out
		}
	}
	rc.perm = bestPerm
	r.Stats["ring_field_bijection"] = fmt.Sprint(bestPerm)
	for _, name := range rc.names {
		construct := "ring/ring.go " + name
		pf, rf := rc.prtFn[name], rc.refFn[name]
		if pf == nil {
			r.Violation(rule, construct, "ring/ring.go", "function present in the reference implementation is missing from the port", "reference: "+rc.refText[name])
			continue
		}
		if c14TypeKey(pf.Signature) != c14TypeKey(rf.Signature) {
			r.Violation(rule, construct, p.Pos(pf.Pos()), "the signature differs from the reference", "port: "+c14TypeKey(pf.Signature), "reference: "+c14TypeKey(rf.Signature))
			continue
		}
		o := bestOut[name]
		if o.mismatch == nil {
			r.OK(rule, construct, p.Pos(pf.Pos()), o.how)
			continue
		}
		// The verdict is structural: VIOLATION only when the declaration is the
		// reference's up to a small edit (a few tokens replaced, dropped, added
		// or moved: constant, operator, field, operand, one statement) that the
		// prover — which canonicalises comparisons, linear integer arithmetic
		// and commuting stores — cannot equate. A declaration that is not close
		// to the reference and not proved equivalent is UNDECIDED. A concrete input on which the two SSA
		// functions differ (bounded evaluation on small heaps) is attached to
		// the report as an illustration when one is found; it never decides.
		leaf := rc.smallEdit(name)
		witness, note := "", ""
		if os.Getenv("KC_C14_WITNESS") != "" { // debugging aid only: evaluates the two SSA functions on small concrete heaps to print an example; off by default, never decides
			witness, note = rc.refute(pf, rf)
		}
		if leaf != "" {
			ws := []string{"first difference found by the symbolic comparison: " + o.mismatch.String()}
			if witness != "" {
				ws = append(ws, "illustration (not part of the decision): "+witness)
			}
			r.Violation(rule, construct, p.Pos(pf.Pos()), "differs from container/ring: "+leaf+", and the two are not equivalent under the prover's normal forms", ws...)
			continue
		}
		extra := ""
		if witness != "" {
			extra = "; an input on which the two differ exists (" + witness + "), but the declaration does not have the reference's shape, so no leaf can be named"
		}
		r.Undecide("%s %s: not proved equivalent to the reference (%s)%s %s", rule, construct, o.mismatch.String(), extra, note)
	}
}

func goEnvGOROOTOr() string {
	if gr := goEnvGOROOT(); gr != "" {
		return gr
	}
	return runtimeGOROOT()
}

type c14RLeaf struct {
	sub      string // index path "i" or "i/j"
	name     string
	typ      types.Type
	exported bool
	top      bool
}

// ringLeaves: the non-struct fields of the struct, by-value sub-structs
// (link fields grouped in a sub-struct) flattened.
func c14RingLeaves(t types.Type, prefix string, top bool) []c14RLeaf {
	st, ok := t.Underlying().(*types.Struct)
	if !ok {
		return nil
	}
	var out []c14RLeaf
	for i := 0; i < st.NumFields(); i++ {
		f := st.Field(i)
		sub := prefix + fmt.Sprint(i)
		if _, isStruct := f.Type().Underlying().(*types.Struct); isStruct {
			out = append(out, c14RingLeaves(f.Type(), sub+"/", false)...)
			continue
		}
		out = append(out, c14RLeaf{sub: sub, name: f.Name(), typ: f.Type(), exported: f.Exported(), top: top})
	}
	return out
}

// fieldBijections: the mappings of the port's fields (leaves) onto the
// reference's fields that respect types and exported names; the
// name-preserving one first. perm[i] = index of the reference leaf the i-th
// port leaf stands for.
func (rc *c14RingCmp) fieldBijections() [][]int {
	if _, ok := rc.prtNamed.Underlying().(*types.Struct); !ok {
		return nil
	}
	pl := c14RingLeaves(rc.prtNamed, "", true)
	rl := c14RingLeaves(rc.refNamed, "", true)
	rc.prtLeaves, rc.refLeaves = pl, rl
	ps := rc.prtNamed.Underlying().(*types.Struct)
	rc.flat = ps.NumFields() == len(pl)
	if len(pl) != len(rl) {
		return nil
	}
	n := len(pl)
	var out [][]int
	perm := make([]int, n)
	used := make([]bool, n)
	var rec func(i int)
	rec = func(i int) {
		if i == n {
			out = append(out, append([]int{}, perm...))
			return
		}
		pf := pl[i]
		for j := 0; j < n; j++ {
			rf := rl[j]
			if used[j] || c14TypeKey(pf.typ) != c14TypeKey(rf.typ) {
				continue
			}
			if rf.exported && !(pf.exported && pf.top && pf.name == rf.name) {
				continue // an exported field of the API stays a direct field of that name
			}
			if pf.exported && pf.top && !rf.exported {
				continue
			}
			used[j] = true
			perm[i] = j
			rec(i + 1)
			used[j] = false
		}
	}
	rec(0)
	score := func(pm []int) int {
		s := 0
		for i, j := range pm {
			if pl[i].name == rl[j].name {
				s++
			}
		}
		return s
	}
	sort.SliceStable(out, func(a, b int) bool { return score(out[a]) > score(out[b]) })
	return out
}

// canonLeaf maps the raw path of a field of the port's Ring to the key of
// the reference field it stands for under the current bijection.
func (rc *c14RingCmp) canonLeaf(port bool, raw string) string {
	if !port || rc.perm == nil || !strings.HasPrefix(raw, "Ring.") {
		return raw
	}
	sub := strings.TrimPrefix(raw, "Ring.")
	for i, l := range rc.prtLeaves {
		if l.sub == sub && i < len(rc.perm) {
			return "Ring." + rc.refLeaves[rc.perm[i]].sub
		}
	}
	return raw
}

// refFieldRole: index of the reference field with the given name.
func (rc *c14RingCmp) refFieldIndex(name string) int {
	rs := rc.refNamed.Underlying().(*types.Struct)
	for i := 0; i < rs.NumFields(); i++ {
		if rs.Field(i).Name() == name {
			return i
		}
	}
	return -1
}

// canonical field index (reference numbering) of field idx of struct type t on the given side
func (rc *c14RingCmp) canonField(port bool, t types.Type, idx int) (int, bool) {
	n, ok := deref(t).(*types.Named)
	if !ok {
		return idx, false
	}
	if port && n.Origin() == rc.prtNamed.Origin() && rc.perm != nil && rc.flat {
		return rc.perm[idx], true
	}
	if n.Origin() == rc.refNamed.Origin() {
		return idx, true
	}
	if !port && n.Origin() == rc.refNamed.Origin() {
		return idx, true
	}
	return idx, false
}

// astIdentical: the declaration and every package-local function it reaches
// in the reference have the same normalised text in the port.
func (rc *c14RingCmp) astIdentical(name string) bool {
	if os.Getenv("KC_C14_NOAST") != "" { // debugging aid: force the SSA-level proof
		return false
	}
	if rc.prtText["type Ring"] != rc.refText["type Ring"] {
		return false
	}
	// textual identity speaks about fields by name: it is only meaningful
	// under the name-preserving field bijection
	ps, _ := rc.prtNamed.Underlying().(*types.Struct)
	rs, _ := rc.refNamed.Underlying().(*types.Struct)
	if ps == nil || rs == nil || rc.perm == nil || !rc.flat {
		return false
	}
	for i, j := range rc.perm {
		if ps.Field(i).Name() != rs.Field(j).Name() {
			return false
		}
	}
	seen := map[string]bool{}
	var walk func(fn *ssa.Function) bool
	walk = func(fn *ssa.Function) bool {
		k := fn.Name()
		if recv := fn.Signature.Recv(); recv != nil {
			k = typeBaseName(recv.Type()) + "." + fn.Name()
		}
		if seen[k] {
			return true
		}
		seen[k] = true
		if rc.refText[k] == "" || rc.refText[k] != rc.prtText[k] {
			return false
		}
		ok := true
		allInstrs(fn, func(in ssa.Instruction) {
			if ci, isCall := in.(ssa.CallInstruction); isCall {
				if cal := staticCallee(ci); cal != nil && cal.Pkg == rc.refPkg && len(cal.Blocks) > 0 {
					if !walk(cal) {
						ok = false
					}
				}
			}
		})
		return ok
	}
	return walk(rc.refFn[name])
}

// leafDiff: the normalised declarations have the same token sequence except
// for at most two tokens.
func (rc *c14RingCmp) leafDiff(name string) string {
	a, b := strings.Fields(rc.prtText[name]), strings.Fields(rc.refText[name])
	if len(a) != len(b) || len(a) == 0 {
		return ""
	}
	var diffs []string
	for i := range a {
		if a[i] != b[i] {
			lo, hi := i-2, i+3
			if lo < 0 {
				lo = 0
			}
			if hi > len(a) {
				hi = len(a)
			}
			diffs = append(diffs, fmt.Sprintf("the port has `%s` where the reference has `%s`", strings.Join(a[lo:hi], " "), strings.Join(b[lo:hi], " ")))
		}
	}
	if len(diffs) == 0 || len(diffs) > 2 {
		return ""
	}
	// a difference in the name of an unexported selector (helper or field
	// rename) is not a semantic leaf
	unexp := regexp.MustCompile(`\.[a-z_]\w*`)
	for i := range a {
		if a[i] != b[i] && unexp.ReplaceAllString(a[i], ".·") == unexp.ReplaceAllString(b[i], ".·") {
			return ""
		}
	}
	return strings.Join(diffs, "; ")
}

// smallEdit: the port's normalised declaration equals the reference's up to a
// token edit distance of at most c14MaxEdit (unexported link fields mapped
// through the field bijection, names of unexported helpers ignored). Returns a
// description of the first difference, "" if the texts are equal or far apart.
const c14MaxEdit = 12

func (rc *c14RingCmp) smallEdit(name string) string {
	if d := rc.smallEdit1(name); d != "" {
		return d
	}
	if rc.prtText[name] != "" && rc.prtText[name] == rc.refText[name] {
		// the function itself is the reference's: the difference sits in an
		// unexported helper of the same name on both sides
		var ks []string
		for k := range rc.refText {
			if _, isAPI := rc.refFn[k]; !isAPI && !strings.HasPrefix(k, "type ") && !strings.Contains(k, "@") && rc.prtText[k] != "" {
				ks = append(ks, k)
			}
		}
		sort.Strings(ks)
		for _, k := range ks {
			if d := rc.smallEdit1(k); d != "" {
				return "in the helper " + k + ", " + d
			}
		}
	}
	return ""
}

func (rc *c14RingCmp) smallEdit1(name string) string {
	pt, rt := rc.prtText[name], rc.refText[name]
	if pt == "" || rt == "" {
		return ""
	}
	ps, _ := rc.prtNamed.Underlying().(*types.Struct)
	rs, _ := rc.refNamed.Underlying().(*types.Struct)
	if ps != nil && rs != nil && rc.perm != nil && rc.flat {
		// two passes so that a swap of names does not collide
		for i, j := range rc.perm {
			if i < ps.NumFields() && j < rs.NumFields() && !ps.Field(i).Exported() {
				pt = regexp.MustCompile(`\.`+regexp.QuoteMeta(ps.Field(i).Name())+`\b`).ReplaceAllString(pt, fmt.Sprintf(".\x00%d", j))
			}
		}
		for j := 0; j < rs.NumFields(); j++ {
			pt = strings.ReplaceAll(pt, fmt.Sprintf(".\x00%d", j), "."+rs.Field(j).Name())
		}
	}
	// unexported helper names are not semantic
	helper := regexp.MustCompile(`\.([a-z_]\w*)\(`)
	fields := map[string]bool{}
	if rs != nil {
		for j := 0; j < rs.NumFields(); j++ {
			fields[rs.Field(j).Name()] = true
		}
	}
	canon := func(t string) string {
		return helper.ReplaceAllStringFunc(t, func(m string) string {
			if fields[m[1:len(m)-1]] {
				return m
			}
			return ".·("
		})
	}
	a, b := strings.Fields(canon(pt)), strings.Fields(canon(rt))
	if len(a) == 0 || len(b) == 0 {
		return ""
	}
	d := c14EditDistance(a, b, c14MaxEdit+1)
	if d == 0 || d > c14MaxEdit {
		return ""
	}
	i := 0
	for i < len(a) && i < len(b) && a[i] == b[i] {
		i++
	}
	win := func(x []string) string {
		lo, hi := i-3, i+6
		if lo < 0 {
			lo = 0
		}
		if hi > len(x) {
			hi = len(x)
		}
		if lo > hi {
			lo = hi
		}
		return strings.Join(x[lo:hi], " ")
	}
	return fmt.Sprintf("the declaration is the reference's up to an edit of %d tokens; first difference: the port has `%s` where the reference has `%s`", d, win(a), win(b))
}

// c14EditDistance: Levenshtein distance over tokens, cut off at limit.
func c14EditDistance(a, b []string, limit int) int {
	if d := len(a) - len(b); d > limit || -d > limit {
		return limit
	}
	prev := make([]int, len(b)+1)
	cur := make([]int, len(b)+1)
	for j := range prev {
		prev[j] = j
	}
	for i := 1; i <= len(a); i++ {
		cur[0] = i
		for j := 1; j <= len(b); j++ {
			c := prev[j-1]
			if a[i-1] != b[j-1] {
				c++
			}
			if v := prev[j] + 1; v < c {
				c = v
			}
			if v := cur[j-1] + 1; v < c {
				c = v
			}
			cur[j] = c
		}
		prev, cur = cur, prev
	}
	if prev[len(b)] > limit {
		return limit
	}
	return prev[len(b)]
}

// apiKey: fn is an exported function of the compared API on its side.
func (rc *c14RingCmp) apiKey(port bool, fn *ssa.Function) (string, bool) {
	m := rc.refFn
	if port {
		m = rc.prtFn
	}
	for k, f := range m {
		if f == fn || (fn.Origin() != nil && fn.Origin() == f) {
			if rc.refFn[k] != nil && rc.prtFn[k] != nil {
				return k, true
			}
		}
	}
	return "", false
}

// prove runs the relational symbolic execution; nil = proved equivalent.
func (rc *c14RingCmp) prove(pf, rf *ssa.Function, opaqueAPI bool) *symMismatch {
	if len(pf.Params) != len(rf.Params) {
		return &symMismatch{what: "different number of parameters"}
	}
	x := &symExec{pool: newSymPool(), maxSteps: 150000}
	x.tracef("=== prove %s vs %s opaqueAPI=%v perm=%v", pf.Name(), rf.Name(), opaqueAPI, rc.perm)
	mk := func(name string, fn *ssa.Function, port bool) *symSide {
		s := &symSide{name: name, x: x, mem: map[string]*symTerm{}, derefs: map[int]*symTerm{}}
		s.typeKey = c14TypeKey
		s.leafKey = func(raw string) string { return rc.canonLeaf(port, raw) }
		_ = func(t types.Type, idx int) string {
			ci, _ := rc.canonField(port, t, idx)
			return fmt.Sprintf("%s.%d", c14TypeKey(deref(t)), ci)
		}
		s.opaque = func(callee *ssa.Function) (string, bool) {
			if !opaqueAPI {
				return "", false
			}
			if k, ok := rc.apiKey(port, callee); ok && callee != fn {
				return k, true
			}
			return "", false
		}
		fr := &symFrame{fn: fn, env: map[ssa.Value]*symTerm{}, blk: fn.Blocks[0]}
		for i, pa := range fn.Params {
			fr.env[pa] = x.pool.sym("param", fmt.Sprint(i))
		}
		s.frame = fr
		return s
	}
	st := &symState{L: mk("port", pf, true), R: mk("reference", rf, false), pc: newSymPC(x.pool)}
	var res symResult
	func() {
		defer func() {
			if e := recover(); e != nil {
				if _, isU := e.(*UndecidedError); isU {
					panic(e)
				}
				res = symResult{mismatch: &symMismatch{what: fmt.Sprintf("symbolic execution failed: %v", e)}}
			}
		}()
		res = x.explore(st, nil)
	}()
	if res.ok {
		return nil
	}
	if res.mismatch != nil {
		return res.mismatch
	}
	return &symMismatch{what: "loop generalisation did not converge"}
}

// refute searches the bounded input space for an input on which the port and
// the reference behave differently.
func (rc *c14RingCmp) refute(pf, rf *ssa.Function) (witness, note string) {
	if !rc.flat {
		return "", "(no illustration: the evaluator does not model grouped link fields)"
	}
	defer func() {
		if e := recover(); e != nil {
			if _, isU := e.(*UndecidedError); isU {
				panic(e)
			}
			witness, note = "", fmt.Sprintf("the bounded differential run failed (%v)", e)
		}
	}()
	kinds := ""
	for _, pa := range rf.Params {
		switch t := pa.Type().Underlying().(type) {
		case *types.Pointer:
			if n, ok := t.Elem().(*types.Named); ok && n.Origin() == rc.refNamed {
				kinds += "p"
				continue
			}
			return "", "no bounded differential run (parameter " + pa.Name() + " is not modelled)"
		case *types.Basic:
			if t.Info()&types.IsInteger != 0 {
				kinds += "i"
				continue
			}
			return "", "no bounded differential run (parameter " + pa.Name() + " is not modelled)"
		case *types.Signature:
			kinds += "f"
		default:
			return "", "no bounded differential run (parameter " + pa.Name() + " is not modelled)"
		}
	}
	idx := func(port bool) func(t types.Type, i int) int {
		return func(t types.Type, i int) int {
			ci, isRing := rc.canonField(port, t, i)
			if !isRing {
				return i
			}
			// canonical layout of the evaluator: next, prev, Value
			switch ci {
			case rc.refFieldIndex("next"):
				return c14FNext
			case rc.refFieldIndex("prev"):
				return c14FPrev
			case rc.refFieldIndex("Value"):
				return c14FValue
			}
			return ci
		}
	}
	if rc.refFieldIndex("next") < 0 || rc.refFieldIndex("prev") < 0 || rc.refFieldIndex("Value") < 0 {
		return "", "no bounded differential run (the reference's fields next/prev/Value were not found)"
	}
	scs := c14Scenarios(kinds)
	ran, aborted := 0, 0
	abortWhy := ""
	for _, sc := range scs {
		po, pa := c14Observe(pf, sc, idx(true))
		ro, ra := c14Observe(rf, sc, idx(false))
		if pa == "skip" || ra == "skip" {
			continue
		}
		if pa != "" || ra != "" {
			aborted++
			abortWhy = pa + ra
			continue
		}
		ran++
		if po != ro {
			return fmt.Sprintf("%s(%s): the port %s — container/ring %s", rf.Name(), sc.desc, po, ro), ""
		}
	}
	if ran == 0 {
		return "", "the bounded differential run could not evaluate the functions (" + abortWhy + ")"
	}
	return "", fmt.Sprintf("a bounded differential run over %d small heaps (nil, zero-value nodes, rings of 1..5 nodes, n in -7..7) found no behavioural difference", ran)
}
