package main

import (
	"fmt"
	"go/constant"
	"go/types"
	"os"
	"sort"
	"strings"

	"golang.org/x/tools/go/ssa"
)

// C18 — dir.Write: target always one complete file set; crashes never block
// later writes.

func init() { register("C18", checkC18) }

func c18RuleSet(prefix string) c18Rules {
	return c18Rules{
		Order:    prefix + "W1-order",
		Complete: prefix + "W1-complete",
		NilRet:   prefix + "W1-nil-published",
		Prev:     prefix + "W1-prev",
		Paths:    prefix + "W2-paths",
		Fresh:    prefix + "W2-fresh",
		Leftover: prefix + "W3-leftover",
	}
}

func checkC18(c *Ctx) {
	r, p := c.R, c.P
	r.Explanation = "Decides structural necessary conditions of C18 on concurrency/dir.Dir.Write. The analysis is shape-independent in three ways. (i) It runs on an interprocedural control-flow graph of Write in which every same-module callee that touches the file system or reads or writes Dir's state (methods, functions, local closures, bound method values, thin wrappers) is expanded at its call site; the nil-ness of a callee's error result is carried back (a `return <call>` of unknown nil-ness is split into a nil and a non-nil continuation) and the caller's test of that result follows only the feasible branch, so steps written inline or in helpers are seen alike; a function-typed value is followed to the one function it denotes (closure variable, parameter bound at the call site of the frame — callback helpers such as withLock(func() error {…}) —, construction-time func / single-implementation interface field, element of a literal slice); a result of an expanded callee stays correlated with the caller: the return site control came back from is remembered, so a flag / small enum / (value, ok) result decides the caller's branch on it and a value result is read as what that return site returned; an error variable assigned on several paths (`err := a(); if err == nil { err = b() }; if err == nil { … }; return err`) is, at each merge, the result of the call the path came from, so later tests of the variable are decided per path (a file-system call whose error flows into such a variable is followed on its success and on its failure continuation separately); a test of a merged error variable whose origin on the path is not known keeps both branches and makes every failing path-dependent obligation downstream of it UNDECIDED; cmp.Or / errors.Join of error results are nil exactly when every part is nil; counted loops over small literal slices (`for _, dir := range []string{base, newDir}`, `for _, step := range []func() error{…}`) are unrolled by tracking the loop counter (any loop form: range over slice or int, classic, rotated; also a variadic/slice parameter bound to a literal at the call site), one frame per iteration, so each element is a step of its own. Bounds: callee frames nest at most 6 deep and never recurse, literal slices of at most 8 elements are unrolled, at most 20 file-system operations are tracked; beyond a bound the affected findings are UNDECIDED. (ii) Dir's fields are resolved by ROLE: string fields stored only into freshly constructed values are read as the term the constructor stored (over the exported Options.Target), the target is the path the constructor received, the previous-version field is the *string (or non-constructor string) field of Dir, fields of structs nested in Dir by value or by pointer included; with a string field, a bool field that the writer sets to true is the flag saying that a previous version is recorded (its false branch counts as none, and it must be set together with prev); accessors with a single return are looked through, and a previous-version value (or its flag) handed to a helper as an argument is the caller's field there; a nil test on a value of that field's type that cannot be traced to the field makes a failing removed-or-none obligation UNDECIDED; unexported names are not used. (iii) File-system calls are compared by symbolic path terms (constants, filepath.Join / concatenation with the separator / Sprintf / strconv, time.Now with the identity of each evaluation, pure helpers inlined, values travelling through variable cells chased). " +
		"(W1-order) there is exactly one os.Rename whose destination is the target, its source is the path of an os.Symlink made in the same call, that link points at the version directory (directly, or by base name from the same directory); the creation of the version directory, every write below it and the Symlink have their error tested and no path on which one of them failed (or was skipped) reaches the rename; nothing touches the version directory after the rename — including deferred calls: `defer os.X(…)`, deferred closure literals and deferred same-package functions are modelled as running at every return of their frame that follows the defer statement, under their own condition (tests of the named error result against nil — also through a *error parameter —, captured/pointed-to bool flags whose must-value at the return is tracked); a deferred mutation of the version directory that can run at a return reachable after the successful rename is a violation, one whose condition cannot be evaluated is UNDECIDED. " +
		"(W1-complete) the files are written in a complete enumeration of the map parameter: a range loop over the map (value = range value or m[key]), or a complete index/range walk over a slice that provably holds exactly the map's keys (collected by an unconditional append in a complete range loop, or maps.Keys/slices.Collect/slices.Sorted; sorting allowed; a filtered collection or a walk starting after index 0 is a violation); path = join(version dir, key) and content = value of the same entry, every iteration passes the success edge of the write before the back edge, and the rename is reached only through the loop's end. " +
		"(W1-nil-published) every return that yields a nil error is dominated by the success edge of the rename (named results, bare returns and returns of a callee's result included; a return whose nil-ness cannot be established makes a failing obligation UNDECIDED). " +
		"(W1-prev) the removal of *prev exists, runs only after the successful rename and before prev is overwritten; every nil return has prev==nil-or-removed and prev = (address of) this call's version directory. " +
		"(W2-paths) every os mutation in Write and its expanded callees acts on a path that is classified (target only as Rename destination; base only MkdirAll; *prev only Remove/RemoveAll; version dir; temporary link), anything else is UNDECIDED. " +
		"(W2-fresh) the version directory name contains a per-call unique component (time.Now at nano/microsecond resolution or a temp/random name). " +
		"(W2-frozen) the path fields of Dir are written only at construction; the previous-version field only by Write and the functions it calls. " +
		"(W3-leftover) every create-type call that fails with EEXIST (Symlink/Link/Mkdir, os.OpenFile with O_CREATE|O_EXCL — lock and marker files included; for a path no rename consumes the finding needs every failure of the creation to abort the write) on a path that is identical on every call is preceded on all paths by a removal of that path; if it is not, a may-dataflow follows the fact 'the creation may have failed because a leftover exists and the path was not re-created since' (dropped where the error is known nil, known not to be ErrExist via errors.Is/os.IsExist/IsNotExist, or on the success edge of a later creation of the same link): reaching the consuming rename with that fact is a VIOLATION (the stale link of the crashed call is published and nil returned), never reaching it without a re-creation is the 'file exists forever' VIOLATION, a successful re-creation discharges it; error handling that cannot be classified, or an os.Readlink comparison, is UNDECIDED. " +
		"(S2-dir-lifetime) the Dir an in-module caller writes to is traced to its dir.New call (through locals, helpers that return it, the field it is kept in): a Dir constructed in a function that provably runs again for every write (called from a loop, from several places, or by such a function; or constructed in a loop) is a VIOLATION — every Write then sees an empty previous-version field and superseded version directories pile up without any crash; a Dir constructed once by a constructor and kept is OK; an origin that cannot be traced, or a caller that is not provably repeated, is only noted. (S1, NOTE only) crypto/spiffe hands key, chain and anchors to one Write call in one map. " +
		"A call that matters and cannot be expanded (recursion, go statements, *os.File methods, os functions outside the model) makes every 'required step missing' finding UNDECIDED, never a VIOLATION. " +
		"NOT decided: the actual file-system states at each crash point, durability (no fsync is demanded), the atomicity of rename(2) and symlink semantics of the OS (assumed), concurrent Writes on one Dir or two Dirs on one target, version directories orphaned by a crash (the statement only asks for cleanup without crashes), relative target paths, clock steps backwards, effects of dynamic calls (interface methods such as the logger, function values of unknown origin are assumed not to touch the target's directory)."
	r.Assumptions = append(r.Assumptions,
		"rename(2) replaces its destination atomically; os.Symlink/os.Link/os.Mkdir fail with EEXIST on an existing path; os.MkdirAll and os.WriteFile succeed on existing paths; os.RemoveAll succeeds on a missing path",
		"Write is not called concurrently on one Dir (as in spiffe, which serialises it)",
		"two Writes never obtain the same time.Now().UnixNano()/UnixMicro() value",
		"callers that receive (value, error) from a helper use the value only when the error is nil (the value term of such a helper ignores its error returns)",
		"a + \"/\" + b names the same path as filepath.Join(a, b) (operands are clean paths / single names)")
	R := c18RuleSet("C18.")
	r.Rule(R.Order, "one rename over target, fed by the symlink of this call; mkdir(version), every write, symlink checked and never bypassed; version dir untouched after publish", 5)
	r.Rule(R.Complete, "range over the file map: join(version,key) <- value, every iteration written, rename only after the loop's end", 2)
	r.Rule(R.NilRet, "return nil only after the rename succeeded", 1)
	r.Rule(R.Prev, "RemoveAll(*prev) after successful rename and before prev is overwritten; nil return => prev removed-or-nil and prev = this version", 4)
	r.Rule(R.Paths, "every mutated path is target(rename dest only)/base(MkdirAll only)/*prev(remove only)/version dir/temporary link", 6)
	r.Rule(R.Fresh, "version directory name unique per call", 1)
	r.Rule("C18.W2-frozen", "the path fields of Dir are stored only into freshly constructed values (read as the constructor's term over Options.Target); the previous-version field only by Write and its callees", 2)
	r.Rule(R.Leftover, "EEXIST-failing creation on a call-invariant path is preceded by its removal, or the link is provably created again after the failure; tolerating/ignoring EEXIST is a violation (stale link published)", 1)
	r.Rule("C18.S2-dir-lifetime", "every in-module Write acts on a Dir that is constructed once and kept, not constructed anew for every write (else prev is always empty and old versions accumulate without any crash)", 1)
	r.Rule("C18.S1-spiffe", "(NOTE only) crypto/spiffe: one Write call with one map literal", 1)

	write := p.Func("concurrency/dir", "Dir.Write")
	dirT := p.Named("concurrency/dir", "Dir")
	tkey := namedKey(dirT)
	fid := func(f string) string { return FieldID{tkey, f}.String() }
	// The names below are only hints for the fixture mode of the writer rules; on the repository the
	// fields are resolved by role (c18ResolveRoles): construction-time path fields through what the
	// constructor stores, prev as the *string field of Dir.
	cfg := &c18Cfg{Target: fid("target"), Prev: fid("prev"), Base: fid("base"), TargetDir: fid("targetDir"),
		Frozen: map[string]bool{}, Rules: R}

	// ---- W2-frozen --------------------------------------------------------------
	probe := *cfg
	info := c18ResolveRoles(p, newC18Terms(p), write, &probe)
	if info == nil {
		r.Undecide("the fields of dir.Dir that hold the target path are not recognised: no string field of Dir is initialised by a constructor from Options.Target (layout of the writer's state not established)")
	} else {
		for _, f := range info.Fields {
			r.OK("C18.W2-frozen", "concurrency/dir.Dir construction-time field = "+info.CtorTerm[f], p.Pos(instrPos(info.CtorPos[f])), "stored only into freshly constructed Dir values, as "+info.CtorTerm[f])
		}
		var nf []string
		for f := range info.NotFrozen {
			nf = append(nf, f)
		}
		sort.Strings(nf)
		for _, f := range nf {
			r.Note("W2-frozen: string field Dir.%s is not fixed at construction (%s): paths built from it are treated as varying", f, info.NotFrozen[f])
		}
		// prev: written only by Write and the functions it runs (and constructors)
		inWrite := map[*ssa.Function]bool{}
		var visit func(f *ssa.Function)
		visit = func(f *ssa.Function) {
			if f == nil || inWrite[f] {
				return
			}
			inWrite[f] = true
			for _, a := range f.AnonFuncs {
				visit(a)
			}
			allInstrs(f, func(in ssa.Instruction) {
				if ci, ok := in.(ssa.CallInstruction); ok {
					if t := staticCallee(ci); t != nil && p.InModule(t) {
						visit(t)
					}
				}
			})
		}
		visit(write)
		stores := info.PrevStore[probe.Prev]
		where := ""
		for _, st := range stores {
			if fa, ok := st.Addr.(*ssa.FieldAddr); ok && isFreshBase(fa.X) {
				continue
			}
			if !inWrite[st.Parent()] {
				where = FuncName(p, st.Parent())
			}
		}
		construct := "concurrency/dir.Dir previous-version field set only by Write"
		switch {
		case where != "":
			r.Violation("C18.W2-frozen", construct, p.Pos(write.Pos()), "the field of Dir that remembers the previous version directory is overwritten by "+where+": Write's RemoveAll(*prev) may then delete a directory other than the superseded version (possibly the published one)")
		case len(stores) > 0:
			r.OK("C18.W2-frozen", construct, p.Pos(stores[0].Pos()), "stored only by Write (and the functions it calls)")
		}
		// (no store at all is reported by W1-prev)
	}

	// ---- the writer rules ----------------------------------------------------------
	c18CheckWriter(p, r, write, FuncName(p, write), cfg)

	// other functions of the package that touch the file system
	for _, fn := range p.FuncsOfPkg("concurrency/dir") {
		if fn == write || fn.Parent() != nil {
			continue
		}
		if ops, unk := c18CollectOps(p, newC18Terms(p), fn); len(ops)+len(unk) > 0 {
			r.Note("%s also performs file-system operations; only Dir.Write is analysed", FuncName(p, fn))
		}
	}

	// ---- S1 (NOTE only) ---------------------------------------------------------------
	c18Spiffe(c, write)
	c18Lifetime(c, write, p.Func("concurrency/dir", "New"))

	c.Fixture("c18life", func(fp *Prog, fr *Report) {
		c18LifetimeOn(fp, fr, fp.Func("", "W.Write"), fp.Func("", "NewW"), "S2-dir-lifetime", true)
	})

	// ---- fixtures ------------------------------------------------------------------------
	c.Fixture("c18dir", func(fp *Prog, fr *Report) {
		for _, fn := range fp.Funcs {
			if fn.Parent() != nil {
				continue
			}
			l := strings.ToLower(fn.Name())
			if strings.HasPrefix(l, "bad") || strings.HasPrefix(l, "good") {
				// the fixture types have no constructor: their fields are named (hints are authoritative there)
				fk := fp.ModPath + ".D"
				if n := c18RecvNamed(fn); n != nil {
					fk = namedKey(n)
				}
				ffid := func(f string) string { return FieldID{fk, f}.String() }
				fcfg := &c18Cfg{Target: ffid("target"), Prev: ffid("prev"), Base: ffid("base"), TargetDir: ffid("targetDir"),
					Frozen: map[string]bool{ffid("target"): true, ffid("base"): true, ffid("targetDir"): true}, Rules: c18RuleSet("")}
				c18CheckWriter(fp, fr, fn, FuncName(fp, fn), fcfg)
			}
		}
		if os.Getenv("KC_C18_DEBUG") != "" {
			for _, o := range fr.Obs {
				if o.Status == StViolation {
					fmt.Println("FIXTURE:", o.Rule, "|", o.Construct, "|", o.Message)
				}
			}
			for _, u := range fr.Undecided {
				fmt.Println("FIXTURE-UNDECIDED:", u)
			}
		}
		// an UNDECIDED inside a fixture function means the example is not judged: surface it
		for _, u := range fr.Undecided {
			fr.Violation("fixture-undecided", strings.Replace(u, ":", " :", 1), "-", u)
		}
	})
}

// c18Spiffe: NOTE-only agreement check of the in-module user of Dir.Write
// (whichever function of crypto/spiffe calls it).
func c18Spiffe(c *Ctx, write *ssa.Function) {
	r, p := c.R, c.P
	construct := "crypto/spiffe -> dir.Dir.Write"
	var calls []*ssa.Call
	var callers []string
	for _, fn := range p.Funcs {
		allInstrs(fn, func(in ssa.Instruction) {
			if ci, ok := in.(ssa.CallInstruction); ok && staticCallee(ci) == write {
				callers = append(callers, FuncName(p, fn))
				if call, ok := in.(*ssa.Call); ok && fn.Pkg != nil && fn.Pkg.Pkg.Path() == p.ModPath+"/crypto/spiffe" {
					calls = append(calls, call)
				}
			}
		})
	}
	sort.Strings(callers)
	if len(calls) != 1 {
		r.Note("S1: crypto/spiffe calls dir.Write at %d places (callers in module: %v): key, chain and anchors are not handed over as one set in one place", len(calls), callers)
		r.Trivial("C18.S1-spiffe", construct, "-", "NOTE only")
		return
	}
	call := calls[0]
	var keys []string
	if mm, ok := call.Call.Args[1].(*ssa.MakeMap); ok {
		for _, ref := range refs(mm) {
			if mu, ok := ref.(*ssa.MapUpdate); ok {
				if k, ok := mu.Key.(*ssa.Const); ok && k.Value != nil && k.Value.Kind() == constant.String {
					keys = append(keys, constant.StringVal(k.Value))
				}
			}
		}
	}
	sort.Strings(keys)
	inLoop := false
	for _, s := range call.Block().Succs {
		if reachableFrom(s, nil)[call.Block()] {
			inLoop = true
		}
	}
	if len(keys) < 3 || inLoop {
		r.Note("S1: the single dir.Write call of crypto/spiffe is given %d constant file names %v (expected key, chain and anchors in one map literal; in a loop: %v)", len(keys), keys, inLoop)
	}
	r.OK("C18.S1-spiffe", construct, p.Pos(call.Pos()), "one Write call with a map literal of "+strings.Join(keys, ",")+" (NOTE only)")
}

// c18HasField is also used by other properties' checks.
func c18HasField(st *types.Struct, name string) bool {
	if st == nil {
		return false
	}
	for i := 0; i < st.NumFields(); i++ {
		if st.Field(i).Name() == name {
			return true
		}
	}
	return false
}
