package main

import (
	"fmt"
	"go/constant"
	"go/types"
	"os"
	"sort"
	"strings"

	"golang.org/x/tools/go/ssa"
)

// C18 — dir.Write: target always one complete file set; crashes never block
// later writes.

func init() { register("C18", checkC18) }

func c18RuleSet(prefix string) c18Rules {
	return c18Rules{
		Order:    prefix + "W1-order",
		Complete: prefix + "W1-complete",
		NilRet:   prefix + "W1-nil-published",
		Prev:     prefix + "W1-prev",
		Paths:    prefix + "W2-paths",
		Fresh:    prefix + "W2-fresh",
		Leftover: prefix + "W3-leftover",
	}
}

func checkC18(c *Ctx) {
	r, p := c.R, c.P
	r.Explanation = "Decides structural necessary conditions of C18 on concurrency/dir.Dir.Write, from the SSA of today's source, comparing file-system calls by symbolic path terms (fields of Dir, constants, filepath.Join/concatenation/Sprintf, time.Now, pure in-module helpers inlined): " +
		"(W1-order) there is exactly one os.Rename whose destination is Dir.target, its source is the path of an os.Symlink made in the same call, that link points at the version directory; the creation of the version directory, every write below it and the Symlink have their error tested and no path on which one of them failed (or was skipped) reaches the rename; nothing touches the version directory after the rename — including deferred calls: `defer os.X(…)` and deferred closure literals are modelled as running at every return that follows the defer statement, under the closure's own condition (tests of the named error result against nil, captured bool flags whose must-value at the return is tracked); a deferred mutation of the version directory that can run at a return reachable after the successful rename is a violation, one whose condition cannot be evaluated is UNDECIDED. Error values that travel through a variable cell (named/captured err) are chased to the call that produced them. " +
		"(W1-complete) the files are written in a range loop over the map parameter, path = join(version dir, key) and content = value of the same entry, every iteration passes the success edge of the write before the back edge, and the rename is reached only through the loop's end. " +
		"(W1-nil-published) every `return nil` is dominated by the success edge of the rename. " +
		"(W1-prev) RemoveAll(*prev) exists, runs only after the successful rename and before prev is overwritten; every nil return has prev==nil-or-removed and prev = address of this call's version directory. " +
		"(W2-paths) every os mutation in Write acts on a path that is classified (target only as Rename destination; base only MkdirAll; *prev only Remove/RemoveAll; version dir; temporary link), anything else is UNDECIDED. " +
		"(W2-fresh) the version directory name contains a per-call unique component (time.Now at nano/microsecond resolution or a temp/random name). " +
		"(W2-frozen) Dir.target/base/targetDir are stored only by dir.New with base=filepath.Dir(T), targetDir=filepath.Base(T), target=T, and Dir.prev only by Write. " +
		"(W3-leftover) every create-type call that fails with EEXIST (Symlink/Link/Mkdir) on a path that is identical on every call is preceded on all paths by a removal of that path; if it is not, a may-dataflow follows the fact 'the creation may have failed because a leftover exists and the path was not re-created since' (dropped where the error is known nil, known not to be ErrExist via errors.Is/os.IsExist/IsNotExist, or on the success edge of a later creation of the same link): reaching the consuming rename with that fact is a VIOLATION (the stale link of the crashed call is published and nil returned), never reaching it without a re-creation is the 'file exists forever' VIOLATION, a successful re-creation discharges it; error handling that cannot be classified, or an os.Readlink comparison, is UNDECIDED. " +
		"(S1, NOTE only) spiffe.fetchIdentityCertificate hands key, chain and anchors to one Write call in one map. " +
		"NOT decided: the actual file-system states at each crash point, durability (no fsync is demanded), the atomicity of rename(2) and symlink semantics of the OS (assumed), concurrent Writes on one Dir or two Dirs on one target, version directories orphaned by a crash (the statement only asks for cleanup without crashes), relative target paths, clock steps backwards."
	r.Assumptions = append(r.Assumptions,
		"rename(2) replaces its destination atomically; os.Symlink/os.Link/os.Mkdir fail with EEXIST on an existing path; os.MkdirAll and os.WriteFile succeed on existing paths; os.RemoveAll succeeds on a missing path",
		"Write is not called concurrently on one Dir (as in spiffe, which serialises it)",
		"two Writes never obtain the same time.Now().UnixNano()/UnixMicro() value")
	R := c18RuleSet("C18.")
	r.Rule(R.Order, "one rename over target, fed by the symlink of this call; mkdir(version), every write, symlink checked and never bypassed; version dir untouched after publish", 5)
	r.Rule(R.Complete, "range over the file map: join(version,key) <- value, every iteration written, rename only after the loop's end", 2)
	r.Rule(R.NilRet, "return nil only after the rename succeeded", 1)
	r.Rule(R.Prev, "RemoveAll(*prev) after successful rename and before prev is overwritten; nil return => prev removed-or-nil and prev = this version", 4)
	r.Rule(R.Paths, "every mutated path is target(rename dest only)/base(MkdirAll only)/*prev(remove only)/version dir/temporary link", 6)
	r.Rule(R.Fresh, "version directory name unique per call", 1)
	r.Rule("C18.W2-frozen", "Dir.target/base/targetDir written only by New (Dir(T)/Base(T)/T); prev only by Write", 4)
	r.Rule(R.Leftover, "EEXIST-failing creation on a call-invariant path is preceded by its removal, or the link is provably created again after the failure; tolerating/ignoring EEXIST is a violation (stale link published)", 1)
	r.Rule("C18.S1-spiffe", "(NOTE only) fetchIdentityCertificate: one Write call with one map literal", 1)

	write := p.Func("concurrency/dir", "Dir.Write")
	newFn := p.Func("concurrency/dir", "New")
	dirT := p.Named("concurrency/dir", "Dir")
	_ = dirT
	tkey := p.ModPath + "/concurrency/dir.Dir"
	fid := func(f string) string { return FieldID{tkey, f}.String() }
	for _, f := range []string{"target", "base", "targetDir", "prev"} {
		if !c18HasField(structOf(dirT), f) {
			undecided("anchor field dir.Dir.%s no longer resolves", f)
		}
	}
	cfg := &c18Cfg{Target: fid("target"), Prev: fid("prev"), Base: fid("base"), TargetDir: fid("targetDir"),
		Frozen: map[string]bool{}, Rules: R}

	// ---- W2-frozen --------------------------------------------------------------
	tt := newC18Terms(p)
	stores := map[string][]*ssa.Store{}
	for _, fn := range p.Funcs {
		allInstrs(fn, func(in ssa.Instruction) {
			st, ok := in.(*ssa.Store)
			if !ok {
				return
			}
			fa, ok := st.Addr.(*ssa.FieldAddr)
			if !ok {
				return
			}
			id := fieldIDOfAddr(fa)
			if id.Type == tkey {
				stores[id.Field] = append(stores[id.Field], st)
			}
		})
	}
	src := "F(" + FieldID{tkey[:len(tkey)-len("Dir")] + "Options", "Target"}.String() + ")"
	wantNew := map[string]string{"target": src, "base": "Dir(" + src + ")", "targetDir": "Base(" + src + ")"}
	for _, f := range []string{"target", "base", "targetDir"} {
		construct := "concurrency/dir.Dir." + f + " set only by New"
		ok, layout := true, true
		where := ""
		for _, st := range stores[f] {
			if st.Parent() != newFn {
				ok = false
				where = FuncName(p, st.Parent())
			} else if got := tt.Term(st.Val).String(); got != wantNew[f] {
				layout = false
				where = got
			}
		}
		switch {
		case len(stores[f]) == 0:
			r.Undecide("dir.New no longer initialises Dir.%s: layout assumption of the check not established", f)
		case !ok:
			r.Undecide("Dir.%s is also written by %s: the check treats it as fixed at construction", f, where)
		case !layout:
			r.Undecide("dir.New sets Dir.%s to %s (expected %s): layout assumption target = base/targetDir not established", f, where, wantNew[f])
		default:
			cfg.Frozen[fid(f)] = true
			r.OK("C18.W2-frozen", construct, p.Pos(stores[f][0].Pos()), "stored only by New as "+wantNew[f])
		}
	}
	{
		ok := len(stores["prev"]) > 0
		where := ""
		for _, st := range stores["prev"] {
			if st.Parent() != write {
				ok = false
				where = FuncName(p, st.Parent())
			}
		}
		if !ok && where != "" {
			r.Violation("C18.W2-frozen", "concurrency/dir.Dir.prev set only by Write", p.Pos(write.Pos()), "Dir.prev is overwritten by "+where+": Write's RemoveAll(*prev) may then delete a directory other than the superseded version (possibly the published one)")
		} else if ok {
			r.OK("C18.W2-frozen", "concurrency/dir.Dir.prev set only by Write", p.Pos(stores["prev"][0].Pos()), "stored only by Write")
		}
		// (no store at all is reported by W1-prev)
	}

	// ---- the writer rules ----------------------------------------------------------
	c18CheckWriter(p, r, write, FuncName(p, write), cfg)

	// other functions of the package that touch the file system
	for _, fn := range p.FuncsOfPkg("concurrency/dir") {
		if fn == write || fn.Parent() != nil {
			continue
		}
		if ops, unk := c18CollectOps(p, newC18Terms(p), fn); len(ops)+len(unk) > 0 {
			r.Note("%s also performs file-system operations; only Dir.Write is analysed", FuncName(p, fn))
		}
	}

	// ---- S1 (NOTE only) ---------------------------------------------------------------
	c18Spiffe(c, write)

	// ---- fixtures ------------------------------------------------------------------------
	c.Fixture("c18dir", func(fp *Prog, fr *Report) {
		fk := fp.ModPath + ".D"
		ffid := func(f string) string { return FieldID{fk, f}.String() }
		fcfg := &c18Cfg{Target: ffid("target"), Prev: ffid("prev"), Base: ffid("base"), TargetDir: ffid("targetDir"),
			Frozen: map[string]bool{ffid("target"): true, ffid("base"): true, ffid("targetDir"): true}, Rules: c18RuleSet("")}
		for _, fn := range fp.Funcs {
			if fn.Parent() != nil {
				continue
			}
			l := strings.ToLower(fn.Name())
			if strings.HasPrefix(l, "bad") || strings.HasPrefix(l, "good") {
				c18CheckWriter(fp, fr, fn, FuncName(fp, fn), fcfg)
			}
		}
		if os.Getenv("KC_C18_DEBUG") != "" {
			for _, o := range fr.Obs {
				if o.Status == StViolation {
					fmt.Println("FIXTURE:", o.Rule, "|", o.Construct, "|", o.Message)
				}
			}
			for _, u := range fr.Undecided {
				fmt.Println("FIXTURE-UNDECIDED:", u)
			}
		}
		// an UNDECIDED inside a fixture function means the example is not judged: surface it
		for _, u := range fr.Undecided {
			fr.Violation("fixture-undecided", strings.Replace(u, ":", " :", 1), "-", u)
		}
	})
}

func c18HasField(st *types.Struct, name string) bool {
	if st == nil {
		return false
	}
	for i := 0; i < st.NumFields(); i++ {
		if st.Field(i).Name() == name {
			return true
		}
	}
	return false
}

// c18Spiffe: NOTE-only agreement check of the one in-module user of Dir.Write.
func c18Spiffe(c *Ctx, write *ssa.Function) {
	r, p := c.R, c.P
	fetch := p.FuncOpt("crypto/spiffe", "SPIFFE.fetchIdentityCertificate")
	if fetch == nil {
		r.Note("S1: crypto/spiffe.SPIFFE.fetchIdentityCertificate no longer resolves; the spiffe use of dir.Write is not looked at")
		r.Trivial("C18.S1-spiffe", "crypto/spiffe.SPIFFE.fetchIdentityCertificate", "-", "anchor absent (NOTE only)")
		return
	}
	// all in-module callers of Write
	var callers []string
	var calls []*ssa.Call
	for _, fn := range p.Funcs {
		allInstrs(fn, func(in ssa.Instruction) {
			if ci, ok := in.(ssa.CallInstruction); ok && staticCallee(ci) == write {
				callers = append(callers, FuncName(p, fn))
				if call, ok := in.(*ssa.Call); ok && fn == fetch {
					calls = append(calls, call)
				}
			}
		})
	}
	sort.Strings(callers)
	construct := "crypto/spiffe.SPIFFE.fetchIdentityCertificate -> dir.Dir.Write"
	if len(calls) != 1 {
		r.Note("S1: fetchIdentityCertificate calls dir.Write %d times (callers in module: %v): key, chain and anchors are no longer handed over as one set", len(calls), callers)
		r.Trivial("C18.S1-spiffe", construct, p.Pos(fetch.Pos()), "NOTE only")
		return
	}
	call := calls[0]
	var keys []string
	if mm, ok := call.Call.Args[1].(*ssa.MakeMap); ok {
		for _, ref := range refs(mm) {
			if mu, ok := ref.(*ssa.MapUpdate); ok {
				if k, ok := mu.Key.(*ssa.Const); ok && k.Value != nil && k.Value.Kind() == constant.String {
					keys = append(keys, constant.StringVal(k.Value))
				}
			}
		}
	}
	sort.Strings(keys)
	inLoop := false
	for _, s := range call.Block().Succs {
		if reachableFrom(s, nil)[call.Block()] {
			inLoop = true
		}
	}
	if len(keys) < 3 || inLoop {
		r.Note("S1: the single dir.Write call of fetchIdentityCertificate is given %d constant file names %v (expected key, chain and anchors in one map literal; in a loop: %v)", len(keys), keys, inLoop)
	}
	r.OK("C18.S1-spiffe", construct, p.Pos(call.Pos()), "one Write call with a map literal of "+strings.Join(keys, ",")+" (NOTE only)")
}
