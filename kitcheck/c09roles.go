package main

// C09: resolution of the constructs the rules talk about BY ROLE (types,
// exported API, dataflow), not by unexported names. Unexported names are only
// a fallback when a role is ambiguous.

import (
	"go/constant"
	"go/token"
	"go/types"
	"sort"
	"strings"

	"golang.org/x/tools/go/ssa"
)

type c09 struct {
	c *Ctx
	r *Report
	p *Prog
	e *LockEngine

	rel     string
	pkgPath string
	T       *types.Named
	tkey    string
	// state types: the limiter struct and the same-package structs its state is
	// grouped into (fields held by value, by pointer or embedded, recursively);
	// maps the type key to the prefix of its field keys ("" for the limiter itself)
	stateTypes map[string]string
	flds       []c09Fld
	st         *types.Struct

	run, add, closeFn, ctor *ssa.Function
	fns                     []*ssa.Function
	inFns                   map[*ssa.Function]bool
	ctorOnly                map[*ssa.Function]bool

	// field names by role ("" = unresolved)
	fLock, fWG, fTimer, fFlag, fPend, fCur, fBackoff, fInit, fMax, fCap, fInput, fCloseCh, fClosed string
	lockID, wgID                                                                                   string

	evParam  *ssa.Parameter // Run's event channel
	ctxParam *ssa.Parameter // Run's context
	fc       *PFactCtx
	rc       *PRootCtx
	roleNote []string
}

// c09Fld is one field of the limiter state. key is the field name for the
// limiter's own fields and "SubType.name" for fields of a grouped sub-struct.
type c09Fld struct {
	key, owner, name string
	typ              types.Type
}

func (k *c09) fld(key string) *c09Fld {
	for i := range k.flds {
		if k.flds[i].key == key {
			return &k.flds[i]
		}
	}
	return nil
}

// fieldID / lockKey: the type-based identities the shared engines use.
func (k *c09) fieldID(key string) FieldID {
	if f := k.fld(key); f != nil {
		return FieldID{f.owner, f.name}
	}
	return FieldID{k.tkey, key}
}

func (k *c09) lockKey(key string) string {
	id := k.fieldID(key)
	return id.Type + "." + id.Field
}

// collectState flattens the limiter struct.
func (k *c09) collectState() {
	k.stateTypes = map[string]string{k.tkey: ""}
	var visit func(st *types.Struct, owner, prefix string, depth int)
	visit = func(st *types.Struct, owner, prefix string, depth int) {
		for i := 0; i < st.NumFields(); i++ {
			f := st.Field(i)
			t := f.Type()
			if n, ok := deref(t).(*types.Named); ok && depth < 3 {
				if sub, isStruct := n.Underlying().(*types.Struct); isStruct && n.Obj().Pkg() != nil && n.Obj().Pkg().Path() == k.pkgPath {
					key := namedKey(n)
					if _, seen := k.stateTypes[key]; !seen {
						k.stateTypes[key] = n.Obj().Name() + "."
						visit(sub, key, n.Obj().Name()+".", depth+1)
					}
					continue
				}
			}
			k.flds = append(k.flds, c09Fld{key: prefix + f.Name(), owner: owner, name: f.Name(), typ: t})
		}
	}
	visit(k.st, k.tkey, "", 0)
}

func (k *c09) fname(fn *ssa.Function) string { return FuncName(k.p, fn) }

// flow: a PathFlow configured for this package (no rule callbacks yet).
func (k *c09) flow() *PathFlow {
	return &PathFlow{Follow: k.follow, Facts: k.fc, Funcs: k.fns, RootsOf: k.rootsOf}
}

func (k *c09) rootsOf(pf *PathFlow, v ssa.Value) []ssa.Value { return pf.Roots(k.rc, v) }

func (k *c09) follow(fn *ssa.Function) bool { return k.inFns[fn] && !k.ctorOnly[fn] }

// tField: v is &x.f with x of the limiter type; returns f.
func (k *c09) addrField(v ssa.Value) (string, bool) { return k.addrFieldX(v, false) }

// addrFieldR is addrField for READS: a field of a local COPY of a state
// struct (next := *w; next.f) reads what the state held when it was copied.
func (k *c09) addrFieldR(v ssa.Value) (string, bool) { return k.addrFieldX(v, true) }

// c09StateCopy: local is a local struct variable initialised by copying a
// struct value that is not itself a local literal (i.e. the state).
func c09StateCopy(local *ssa.Alloc) bool {
	for _, r := range refs(local) {
		if st, ok := r.(*ssa.Store); ok && st.Addr == ssa.Value(local) {
			if u, ok := st.Val.(*ssa.UnOp); ok && u.Op == token.MUL {
				if _, isLocal := u.X.(*ssa.Alloc); !isLocal {
					return true
				}
			}
		}
	}
	return false
}

func (k *c09) addrFieldX(v ssa.Value, allowCopy bool) (string, bool) {
	fa, ok := v.(*ssa.FieldAddr)
	if !ok {
		return "", false
	}
	id := fieldIDOfAddr(fa)
	prefix, ok := k.stateTypes[id.Type]
	if !ok {
		return "", false
	}
	// a field of a local struct value (a composite literal being built, a copy) is not the state
	if a, isAlloc := fa.X.(*ssa.Alloc); isAlloc && !a.Heap && !(allowCopy && c09StateCopy(a)) {
		return "", false
	}
	if k.fld(prefix+id.Field) == nil {
		return "", false // the container field of a grouped sub-struct, not a leaf of the state
	}
	return prefix + id.Field, true
}

// c09Store is one field of the state being assigned.
type c09Store struct {
	field string
	val   ssa.Value // nil when zero
	zero  bool
	multi bool // one of several possible values (a struct value assembled on several paths/steps)
}

// structFieldVals: the values the fields of the struct value v may hold, when
// v is (a load of) a local/fresh struct assembled by a composite literal,
// whole-struct copies and field assignments. ok=false: not such a value.
// c09Self marks, in structFieldVals, a field that keeps the value the state already has.
var c09Self = ssa.NewConst(nil, types.Typ[types.UntypedNil])

func structFieldVals(v ssa.Value, depth int) (map[string][]ssa.Value, bool) {
	if depth > 4 {
		return nil, false
	}
	// a struct built by a constructor helper of the package (idleWindow(x)): the
	// literal(s) it returns, with its parameters replaced by the arguments
	if call, ok := v.(*ssa.Call); ok && !call.Call.IsInvoke() {
		cal := staticCallee(call)
		if cal == nil || len(cal.Blocks) == 0 || cal.Signature.Results().Len() != 1 || call.Parent() == nil || cal.Pkg != call.Parent().Pkg {
			return nil, false
		}
		out := map[string][]ssa.Value{}
		n := 0
		for _, rv := range c09ReturnValues(cal, 0) {
			vals, ok := structFieldVals(rv, depth+1)
			if !ok {
				return nil, false
			}
			n++
			for f, vs := range vals {
				for _, fv := range vs {
					if pa, isParam := fv.(*ssa.Parameter); isParam && pa.Parent() == cal {
						for i, p := range cal.Params {
							if p == pa && i < len(call.Call.Args) {
								fv = call.Call.Args[i]
							}
						}
					}
					out[f] = append(out[f], fv)
				}
			}
			// fields the literal does not mention are zero on that path: only exact when there is one return
		}
		if n != 1 {
			if n == 0 {
				return nil, false
			}
			// several returns: every field becomes one-of-several
			for f := range out {
				if len(out[f]) == 1 {
					out[f] = append(out[f], out[f][0])
				}
			}
		}
		return out, true
	}
	var lit *ssa.Alloc
	switch x := v.(type) {
	case *ssa.Alloc:
		lit = x
	case *ssa.UnOp:
		if x.Op == token.MUL {
			lit, _ = x.X.(*ssa.Alloc)
		}
	case *ssa.Const:
		return map[string][]ssa.Value{}, true // T{} / nil
	}
	if lit == nil {
		// a copy of an existing struct (the state itself): every field keeps its value
		if st, ok := deref(v.Type()).Underlying().(*types.Struct); ok && depth > 0 {
			out := map[string][]ssa.Value{}
			for i := 0; i < st.NumFields(); i++ {
				out[st.Field(i).Name()] = []ssa.Value{c09Self}
			}
			return out, true
		}
		return nil, false
	}
	out := map[string][]ssa.Value{}
	for _, r := range refs(lit) {
		switch x := r.(type) {
		case *ssa.Store:
			if x.Addr == ssa.Value(lit) {
				base, ok := structFieldVals(x.Val, depth+1)
				if !ok {
					return nil, false
				}
				for f, vs := range base {
					out[f] = append(out[f], vs...)
				}
			}
		case *ssa.FieldAddr:
			for _, rr := range refs(x) {
				if ls, ok := rr.(*ssa.Store); ok && ls.Addr == ssa.Value(x) {
					f := fieldIDOfAddr(x).Field
					out[f] = append(out[f], ls.Val)
				}
			}
		}
	}
	return out, true
}

// stateStores: the state fields instruction in assigns: a plain store to a
// field, or the assignment of a whole grouped sub-struct (by value or by a
// fresh pointer), expanded into its fields (fields not mentioned in the
// composite literal get the zero value).
func (k *c09) stateStores(in ssa.Instruction) []c09Store {
	st, ok := in.(*ssa.Store)
	if !ok {
		return nil
	}
	if f, ok := k.addrField(st.Addr); ok {
		return []c09Store{{field: f, val: st.Val}}
	}
	if fa, ok := st.Addr.(*ssa.FieldAddr); ok {
		// c.sub = T{...} / c.sub = &T{...}
		if _, isState := k.stateTypes[fieldIDOfAddr(fa).Type]; !isState {
			return nil
		}
		if a, isAlloc := fa.X.(*ssa.Alloc); isAlloc && !a.Heap {
			return nil
		}
	} else {
		// *c.sub = T{...}: the whole sub-struct assigned through its pointer
		if _, isStruct := st.Val.Type().Underlying().(*types.Struct); !isStruct {
			return nil
		}
		if a, isAlloc := st.Addr.(*ssa.Alloc); isAlloc {
			_ = a
			return nil
		}
	}
	// the value is a grouped sub-struct of the state
	sub, isNamed := deref(st.Val.Type()).(*types.Named)
	if !isNamed {
		return nil
	}
	prefix, isState := k.stateTypes[namedKey(sub)]
	if !isState || prefix == "" {
		return nil
	}
	sst, _ := sub.Underlying().(*types.Struct)
	if sst == nil {
		return nil
	}
	vals, ok := structFieldVals(st.Val, 0)
	var out []c09Store
	for i := 0; i < sst.NumFields(); i++ {
		n := sst.Field(i).Name()
		if ok {
			// explicit assignments override the copied value
			var explicit []ssa.Value
			self := false
			for _, v := range vals[n] {
				if v == ssa.Value(c09Self) {
					self = true
				} else {
					explicit = append(explicit, v)
				}
			}
			if self {
				if len(explicit) == 0 {
					continue // keeps its value: not a store
				}
				vals[n] = explicit
			}
		}
		switch {
		case !ok:
			out = append(out, c09Store{field: prefix + n, val: st.Val, multi: true}) // unknown value
		case len(vals[n]) == 0:
			out = append(out, c09Store{field: prefix + n, zero: true})
		case len(vals[n]) == 1:
			out = append(out, c09Store{field: prefix + n, val: vals[n][0]})
		default:
			for _, v := range vals[n] {
				out = append(out, c09Store{field: prefix + n, val: v, multi: true})
			}
		}
	}
	return out
}

// loadField: v is a load of field f of the limiter (through conversions).
func (k *c09) loadField(v ssa.Value) (string, *ssa.UnOp, bool) {
	for i := 0; i < 6 && v != nil; i++ {
		switch x := v.(type) {
		case *ssa.ChangeType:
			v = x.X
			continue
		case *ssa.Convert:
			v = x.X
			continue
		case *ssa.UnOp:
			if x.Op == token.MUL {
				if f, ok := k.addrFieldR(x.X); ok {
					return f, x, true
				}
			}
		}
		break
	}
	return "", nil, false
}

func c09IsNamed(t types.Type, key string) bool {
	return namedKey(types.Unalias(t)) == key && !c09IsPtr(t)
}

func c09IsPtr(t types.Type) bool {
	_, ok := t.Underlying().(*types.Pointer)
	return ok
}

func c09HasMethods(t types.Type, names ...string) bool {
	ms := types.NewMethodSet(t)
	for _, n := range names {
		found := false
		for i := 0; i < ms.Len(); i++ {
			if ms.At(i).Obj().Name() == n {
				found = true
			}
		}
		if !found {
			return false
		}
	}
	return true
}

func c09IsIntKind(t types.Type) bool {
	b, ok := t.Underlying().(*types.Basic)
	return ok && b.Info()&types.IsInteger != 0
}

func c09Uniq(m map[string]bool) (string, bool) {
	if len(m) != 1 {
		return "", false
	}
	for k := range m {
		return k, true
	}
	return "", false
}

func c09Keys(m map[string]bool) string {
	var ks []string
	for k := range m {
		ks = append(ks, k)
	}
	sort.Strings(ks)
	return "{" + strings.Join(ks, ",") + "}"
}

// pick: the unique candidate, else the historical name if it is a candidate
// (or, when there is no candidate at all, if the struct still has it).
func (k *c09) pick(role string, cands map[string]bool, hist string, required bool) string {
	if f, ok := c09Uniq(cands); ok {
		return f
	}
	if cands[hist] {
		k.roleNote = append(k.roleNote, role+": ambiguous "+c09Keys(cands)+", took the historical name "+hist)
		return hist
	}
	if len(cands) == 0 {
		for _, f := range k.flds {
			if f.name == hist {
				k.roleNote = append(k.roleNote, role+": not resolved by role, took the historical name "+hist)
				return f.key
			}
		}
	}
	if required {
		undecided("C09: cannot resolve the %s of the limiter type %s by role (candidates %s)", role, k.tkey, c09Keys(cands))
	}
	return ""
}

func (k *c09) fieldType(key string) types.Type {
	if f := k.fld(key); f != nil {
		return f.typ
	}
	return nil
}

func c09Resolve(c *Ctx) *c09 { return c09ResolveIn(c, c.P, c.R, nil, "events/ratelimiting") }

// c09ResolveIn resolves the roles in package rel of program p (the repo, or a fixture with the same exported anchors).
func c09ResolveIn(c *Ctx, p *Prog, r *Report, e *LockEngine, rel string) *c09 {
	k := &c09{c: c, r: r, p: p, rel: rel, e: e}
	k.pkgPath = p.ModPath
	if k.rel != "" {
		k.pkgPath += "/" + k.rel
	}
	k.ctor = p.Func(k.rel, "NewCoalescing")
	iface, _ := p.Named(k.rel, "RateLimiter").Underlying().(*types.Interface)
	if iface == nil {
		undecided("C09: RateLimiter is no longer an interface")
	}
	pkgFns := p.FuncsOfPkg(k.rel)
	inPkg := map[*ssa.Function]bool{}
	for _, f := range pkgFns {
		inPkg[f] = true
	}
	// reachability inside the package
	reach := func(roots []*ssa.Function) map[*ssa.Function]bool {
		seen := map[*ssa.Function]bool{}
		var visit func(f *ssa.Function)
		visit = func(f *ssa.Function) {
			f = origin(f)
			if f == nil || seen[f] || !inPkg[f] {
				return
			}
			seen[f] = true
			allInstrs(f, func(in ssa.Instruction) {
				for _, op := range in.Operands(nil) {
					if op == nil || *op == nil {
						continue
					}
					switch v := (*op).(type) {
					case *ssa.Function:
						visit(v)
					case *ssa.MakeClosure:
						if g, ok := v.Fn.(*ssa.Function); ok {
							visit(g)
						}
					}
				}
			})
		}
		for _, f := range roots {
			visit(f)
		}
		return seen
	}
	fromCtor := reach([]*ssa.Function{k.ctor})
	// the limiter type: implements RateLimiter and is allocated by the constructor
	scope := p.Pkg(k.rel).Types.Scope()
	var cands []*types.Named
	for _, n := range scope.Names() {
		tn, ok := scope.Lookup(n).(*types.TypeName)
		if !ok || tn.IsAlias() {
			continue
		}
		named, ok := tn.Type().(*types.Named)
		if !ok {
			continue
		}
		if _, isStruct := named.Underlying().(*types.Struct); !isStruct {
			continue
		}
		if types.Implements(types.NewPointer(named), iface) {
			cands = append(cands, named)
		}
	}
	if len(cands) > 1 {
		var alloc []*types.Named
		for _, n := range cands {
			key := namedKey(n)
			hit := false
			for f := range fromCtor {
				allInstrs(f, func(in ssa.Instruction) {
					if a, ok := in.(*ssa.Alloc); ok && namedKey(a.Type()) == key {
						hit = true
					}
				})
			}
			if hit {
				alloc = append(alloc, n)
			}
		}
		cands = alloc
	}
	if len(cands) != 1 {
		undecided("C09: cannot identify the limiter type built by NewCoalescing (%d candidates)", len(cands))
	}
	k.T = cands[0]
	k.tkey = namedKey(k.T)
	k.st = k.T.Underlying().(*types.Struct)
	k.collectState()
	var methods []*ssa.Function
	for i := 0; i < k.T.NumMethods(); i++ {
		m := p.SSA.FuncValue(k.T.Method(i))
		if m == nil {
			continue
		}
		methods = append(methods, m)
		switch k.T.Method(i).Name() {
		case "Run":
			k.run = m
		case "Add":
			k.add = m
		case "Close":
			k.closeFn = m
		}
	}
	if k.run == nil || k.add == nil || k.closeFn == nil {
		undecided("C09: Run/Add/Close of %s do not resolve", k.tkey)
	}
	// function values kept in struct fields (assigned in the constructor, called by the methods) run as part of the methods
	stored := append([]*ssa.Function{}, methods...)
	for _, f := range pkgFns {
		allInstrs(f, func(in ssa.Instruction) {
			st, ok := in.(*ssa.Store)
			if !ok {
				return
			}
			switch st.Addr.(type) {
			case *ssa.FieldAddr, *ssa.IndexAddr:
				// kept in a field, or in a table (that may itself be kept in a field)
			default:
				return
			}
			v := st.Val
			if w := c09OnceFuncArg(v); w != nil {
				v = w
			}
			switch x := v.(type) {
			case *ssa.Function:
				stored = append(stored, x)
			case *ssa.MakeClosure:
				if g, ok := x.Fn.(*ssa.Function); ok {
					stored = append(stored, g)
				}
			}
		})
	}
	fromMethods := reach(stored)
	k.inFns = map[*ssa.Function]bool{}
	k.ctorOnly = map[*ssa.Function]bool{}
	for _, f := range pkgFns {
		if fromMethods[f] || fromCtor[f] {
			k.fns = append(k.fns, f)
			k.inFns[f] = true
			if !fromMethods[f] {
				k.ctorOnly[f] = true
			}
		}
	}
	if len(k.run.Params) < 3 {
		undecided("C09: Run has an unexpected signature")
	}
	for _, pa := range k.run.Params[1:] {
		if _, ok := pa.Type().Underlying().(*types.Chan); ok {
			k.evParam = pa
		} else if c09HasMethods(pa.Type(), "Done", "Err") {
			k.ctxParam = pa
		}
	}
	if k.evParam == nil || k.ctxParam == nil {
		undecided("C09: Run's context / event channel parameters do not resolve")
	}
	k.fc = &PFactCtx{InPkg: k.follow}
	k.rc = &PRootCtx{Fns: k.fns, InPkg: k.follow}
	if k.e == nil {
		k.e = c.Locks()
	}
	k.resolveFields()
	return k
}

func (k *c09) resolveFields() {
	locks, wgs, timers, flags, chans, ints, durs := map[string]bool{}, map[string]bool{}, map[string]bool{}, map[string]bool{}, map[string]bool{}, map[string]bool{}, map[string]bool{}
	for _, f := range k.flds {
		t := f.typ
		switch {
		case c09IsNamed(t, "sync.RWMutex") || c09IsNamed(t, "sync.Mutex"):
			locks[f.key] = true
		case c09IsNamed(t, "sync.WaitGroup"):
			wgs[f.key] = true
		case c09IsNamed(t, "sync/atomic.Bool") || c09IsBoolType(t):
			flags[f.key] = true
		case c09IsNamed(t, "time.Duration"):
			durs[f.key] = true
		case c09IsIntKind(t):
			ints[f.key] = true
		default:
			if _, ok := t.Underlying().(*types.Chan); ok {
				chans[f.key] = true
			} else if c09HasMethods(t, "Stop", "Reset", "C") {
				timers[f.key] = true
			}
		}
	}
	// the lock: the mutex Add takes
	if len(locks) > 1 {
		inAdd := map[string]bool{}
		WalkCalls(k.flow(), k.add, false, func(pf *PathFlow, in ssa.Instruction) {
			if ci, ok := in.(ssa.CallInstruction); ok {
				if id, kind, ok := k.e.lockOp(ci); ok && kind == opLock {
					for f := range locks {
						if k.lockKey(f) == id {
							inAdd[f] = true
						}
					}
				}
			}
		})
		locks = inAdd
	}
	k.fLock = k.pick("lock (the mutex Add takes)", locks, "lock", true)
	k.fWG = k.pick("wait group", wgs, "wg", true)
	k.fTimer = k.pick("window timer (field with Stop/Reset/C)", timers, "timer", true)
	k.lockID = k.lockKey(k.fLock)
	k.wgID = k.lockKey(k.fWG)

	// stores outside the constructor
	storedOutside := map[string]bool{}
	for _, fn := range k.fns {
		if k.ctorOnly[fn] {
			continue
		}
		allInstrs(fn, func(in ssa.Instruction) {
			for _, s := range k.stateStores(in) {
				storedOutside[s.field] = true
			}
		})
	}
	// pending counter: the integer field Add increments
	pend := map[string]bool{}
	WalkCalls(k.flow(), k.add, false, func(pf *PathFlow, in ssa.Instruction) {
		for _, s := range k.stateStores(in) {
			if ints[s.field] && !s.zero && k.isIncOf(s.val, s.field) {
				pend[s.field] = true
			}
		}
	})
	k.fPend = k.pick("pending counter (integer field Add increments)", pend, "pendingEvents", true)
	// token channel: the channel field a goroutine started by Add sends on
	input := map[string]bool{}
	WalkCalls(k.flow(), k.add, true, func(pf *PathFlow, in ssa.Instruction) {
		for _, ch := range c09SendChans(in) {
			for _, root := range pf.Roots(k.rc, ch) {
				if f, _, ok := k.loadField(root); ok && chans[f] {
					input[f] = true
				}
			}
		}
	})
	k.fInput = k.pick("token channel (channel field the goroutine started by Add sends on)", input, "inputCh", true)
	// close channel / closed flag: what Close closes / sets
	closeCh, closed := map[string]bool{}, map[string]bool{}
	WalkCalls(k.flow(), k.closeFn, false, func(pf *PathFlow, in ssa.Instruction) {
		ci, ok := in.(ssa.CallInstruction)
		if !ok {
			for _, s := range k.stateStores(in) {
				if flags[s.field] {
					closed[s.field] = true
				}
			}
			return
		}
		if builtinName(ci) == "close" && len(ci.Common().Args) == 1 {
			for _, root := range pf.Roots(k.rc, ci.Common().Args[0]) {
				if f, _, ok := k.loadField(root); ok && chans[f] {
					closeCh[f] = true
				}
			}
		}
		if obj := calleeObj(ci); obj != nil && len(ci.Common().Args) > 0 {
			switch obj.Name() {
			case "CompareAndSwap", "Store", "Swap":
				if f, ok := k.addrField(ci.Common().Args[0]); ok && flags[f] {
					closed[f] = true
				}
			}
		}
	})
	k.fCloseCh = k.pick("shutdown channel (channel field Close closes)", closeCh, "closeCh", true)
	k.fClosed = k.pick("closed flag (flag Close sets)", closed, "closed", false)
	// window flag: the flag that is set both true and false by the run loop
	setT, setF := map[string]bool{}, map[string]bool{}
	WalkCalls(k.flow(), k.run, false, func(pf *PathFlow, in ssa.Instruction) {
		if f, val, ok := k.flagStore(in); ok {
			if val {
				setT[f] = true
			} else {
				setF[f] = true
			}
		}
	})
	win := map[string]bool{}
	for f := range setT {
		if setF[f] && f != k.fClosed {
			win[f] = true
		}
	}
	k.fFlag = k.pick("window-open flag (flag the run loop sets true and false)", win, "hasTimer", false)
	// durations: the mutable one is the current window, the others configuration
	cur, cfg := map[string]bool{}, map[string]bool{}
	for f := range durs {
		if storedOutside[f] {
			cur[f] = true
		} else {
			cfg[f] = true
		}
	}
	k.fCur = k.pick("current window length (time.Duration field written by the run loop)", cur, "currentDur", true)
	deps := k.ctorDeps()
	initC, maxC, capC := map[string]bool{}, map[string]bool{}, map[string]bool{}
	for f := range cfg {
		d := deps[f]
		if d["InitialDelay"] && !d["MaxDelay"] {
			initC[f] = true
		}
		if d["MaxDelay"] && !d["InitialDelay"] {
			maxC[f] = true
		}
	}
	for _, fl := range k.flds {
		f := fl.key
		// the cap itself is an integer or a pointer to one (a companion "is set" flag is not)
		if deps[f]["MaxPendingEvents"] && !storedOutside[f] && c09IsIntKind(deref(fl.typ)) {
			capC[f] = true
		}
	}
	k.fInit = k.pick("initial delay (immutable duration built from OptionsCoalescing.InitialDelay)", initC, "initialDelay", true)
	k.fMax = k.pick("maximum delay (immutable duration built from OptionsCoalescing.MaxDelay)", maxC, "maxDelay", true)
	k.fCap = k.pick("pending-events cap (built from OptionsCoalescing.MaxPendingEvents)", capC, "maxPendingEvents", true)
	// back-off factor: the other integer field whose own value, grown, is stored back into it
	grow := map[string]bool{}
	var otherInts []string
	for f := range ints {
		if f != k.fPend && storedOutside[f] {
			otherInts = append(otherInts, f)
		}
	}
	sort.Strings(otherInts)
	for _, f := range otherInts {
		k.fBackoff = f
		if len(k.growthOps()) > 0 {
			grow[f] = true
		}
	}
	k.fBackoff = ""
	if len(grow) == 0 && len(otherInts) == 1 {
		grow[otherInts[0]] = true
	}
	k.fBackoff = k.pick("back-off factor (integer field multiplied by the run loop)", grow, "backoffFactor", false)
}

// isIncOf: v is load(f)+1.
func (k *c09) isIncOf(v ssa.Value, f string) bool {
	bo, ok := v.(*ssa.BinOp)
	if !ok || bo.Op != token.ADD {
		return false
	}
	one := func(v ssa.Value) bool {
		c, ok := v.(*ssa.Const)
		return ok && c.Value != nil && c.Value.Kind() == constant.Int && c.Int64() == 1
	}
	ld := func(v ssa.Value) bool { g, _, ok := k.loadField(v); return ok && g == f }
	return (ld(bo.X) && one(bo.Y)) || (ld(bo.Y) && one(bo.X))
}

// isGrowthOf: v is load(f) op something (multiplication, shift, addition).
func (k *c09) isGrowthOf(v ssa.Value, f string) bool {
	bo, ok := v.(*ssa.BinOp)
	if !ok || (bo.Op != token.MUL && bo.Op != token.SHL && bo.Op != token.ADD) {
		return false
	}
	ld := func(v ssa.Value) bool { g, _, ok := k.loadField(v); return ok && g == f }
	return ld(bo.X) || ld(bo.Y)
}

// c09SendChans: the channels instruction in sends on.
func c09SendChans(in ssa.Instruction) []ssa.Value {
	switch x := in.(type) {
	case *ssa.Send:
		return []ssa.Value{x.Chan}
	case *ssa.Select:
		var out []ssa.Value
		for _, st := range x.States {
			if st.Dir == types.SendOnly {
				out = append(out, st.Chan)
			}
		}
		return out
	}
	return nil
}

// flagStore: instruction in stores a constant into a flag field of the
// limiter (atomic.Bool.Store(k) or a plain bool store).
func (k *c09) flagStore(in ssa.Instruction) (string, bool, bool) {
	switch x := in.(type) {
	case *ssa.Store:
		if f, ok := k.addrField(x.Addr); ok {
			if v, ok := c09BoolConst(x.Val); ok {
				return f, v, true
			}
		}
	case ssa.CallInstruction:
		if obj := calleeObj(x); obj != nil && !x.Common().IsInvoke() && len(x.Common().Args) >= 2 {
			// atomic.Bool: Store(v), Swap(v), CompareAndSwap(old, v) all leave v stored (when they store)
			var nv ssa.Value
			switch {
			case (obj.Name() == "Store" || obj.Name() == "Swap") && len(x.Common().Args) == 2:
				nv = x.Common().Args[1]
			case obj.Name() == "CompareAndSwap" && len(x.Common().Args) == 3:
				nv = x.Common().Args[2]
			}
			if nv != nil {
				if f, ok := k.addrField(x.Common().Args[0]); ok {
					if v, ok := c09BoolConst(nv); ok {
						return f, v, true
					}
				}
			}
		}
	}
	return "", false, false
}

// flagLoad: v is the current value of flag field f (atomic Load or plain load).
func (k *c09) flagLoad(v ssa.Value) (string, bool) {
	if call, ok := v.(*ssa.Call); ok && !call.Call.IsInvoke() {
		if obj := calleeObj(call); obj != nil && obj.Name() == "Load" && len(call.Call.Args) == 1 {
			if f, ok := k.addrField(call.Call.Args[0]); ok {
				return f, true
			}
		}
		return "", false
	}
	if f, _, ok := k.loadField(v); ok && c09IsBoolType(v.Type()) {
		return f, true
	}
	return "", false
}

// ctorDeps: for every limiter field initialised by the constructor, the
// exported OptionsCoalescing fields its value is built from.
func (k *c09) ctorDeps() map[string]map[string]bool {
	out := map[string]map[string]bool{}
	optKey := k.pkgPath + ".OptionsCoalescing"
	rc := &PRootCtx{Fns: k.fns, InPkg: func(f *ssa.Function) bool { return k.inFns[f] }}
	var deps func(v ssa.Value, acc map[string]bool, depth int)
	deps = func(v ssa.Value, acc map[string]bool, depth int) {
		if depth > 6 {
			return
		}
		for _, r := range rc.Roots(v) {
			// strip loads down to a field of the options struct
			x := r
			for i := 0; i < 4; i++ {
				if u, ok := x.(*ssa.UnOp); ok && u.Op == token.MUL {
					x = u.X
					continue
				}
				break
			}
			switch y := x.(type) {
			case *ssa.FieldAddr:
				if id := fieldIDOfAddr(y); id.Type == optKey {
					acc[id.Field] = true
				}
			case *ssa.Field:
				if id := fieldIDOfField(y); id.Type == optKey {
					acc[id.Field] = true
				}
			case *ssa.BinOp:
				deps(y.X, acc, depth+1)
				deps(y.Y, acc, depth+1)
			case *ssa.Parameter, *ssa.Phi, *ssa.Extract:
				if ssa.Value(x) != v {
					deps(x, acc, depth+1)
				}
			case *ssa.Call:
				// a builtin or library function (min, max, cmp.Or, ...): depends on its arguments
				if builtinName(y) != "" || (staticCallee(y) != nil && !k.inFns[staticCallee(y)]) {
					for _, a := range y.Call.Args {
						deps(a, acc, depth+1)
					}
				}
			}
		}
	}
	for _, fn := range k.fns {
		if !k.ctorOnly[fn] && fn != k.ctor {
			continue
		}
		allInstrs(fn, func(in ssa.Instruction) {
			for _, ss := range k.stateStores(in) {
				if out[ss.field] == nil {
					out[ss.field] = map[string]bool{}
				}
				if !ss.zero {
					deps(ss.val, out[ss.field], 0)
				}
			}
		})
	}
	return out
}
