package main

import (
	"fmt"
	"go/types"
	"sort"
	"strings"

	"golang.org/x/tools/go/ssa"
)

// C17 — crypto helpers never write to memory owned by the caller.

func init() { register("C17", checkC17) }

var c17Pkgs = []string{"crypto", "crypto/aeskw", "crypto/padding", "crypto/aescbcaead"}

// c17ReadOnly: external functions reviewed as neither writing, retaining nor
// returning an alias of their byte-slice arguments (documented behaviour).
var c17ReadOnly = []string{
	"crypto/aes.NewCipher", "crypto/cipher.NewGCM", "crypto/cipher.NewCBCEncrypter", "crypto/cipher.NewCBCDecrypter",
	"crypto/hmac.New", "crypto/hmac.Equal", "crypto/subtle.ConstantTimeCompare",
	"golang.org/x/crypto/chacha20poly1305.New", "golang.org/x/crypto/chacha20poly1305.NewX",
	"crypto/rsa.EncryptOAEP", "crypto/rsa.DecryptOAEP", "crypto/rsa.EncryptPKCS1v15", "crypto/rsa.DecryptPKCS1v15",
	"crypto/rsa.SignPKCS1v15", "crypto/rsa.VerifyPKCS1v15", "crypto/rsa.SignPSS", "crypto/rsa.VerifyPSS",
	"crypto/ecdsa.SignASN1", "crypto/ecdsa.VerifyASN1", "crypto/ed25519.Sign", "crypto/ed25519.Verify",
	"bytes.Repeat", "bytes.Equal", "bytes.Compare", "bytes.HasPrefix", "bytes.HasSuffix", "bytes.Index", "bytes.IndexByte", "bytes.Contains",
	"encoding/base64.Encoding.EncodeToString", "encoding/base64.Encoding.DecodeString", "encoding/hex.EncodeToString",
	"encoding/json.Unmarshal", "encoding/json.Marshal", "encoding/pem.EncodeToMemory",
	"crypto/x509.ParsePKCS8PrivateKey", "crypto/x509.ParsePKCS1PrivateKey", "crypto/x509.ParseECPrivateKey", "crypto/x509.ParsePKIXPublicKey", "crypto/x509.ParsePKCS1PublicKey", "crypto/x509.ParseCertificate", "crypto/x509.ParseCertificates",
	"github.com/lestrrat-go/jwx/v2/jwk.ParseKey", "github.com/lestrrat-go/jwx/v2/jwk.FromRaw", "github.com/lestrrat-go/jwx/v2/jwk.Key.Raw",
	"fmt.Errorf", "fmt.Sprintf", "errors.New", "hash.Hash.Write", "io.Writer.Write", "encoding/binary.bigEndian.Uint64", "encoding/binary.bigEndian.Uint32",
	"encoding/binary.Write",
}

func checkC17(c *Ctx) {
	r, p := c.R, c.P
	r.Explanation = "Decides the may-write relation for C17: for every exported function and method of crypto, crypto/aeskw, crypto/padding and crypto/aescbcaead and each of its []byte (and [][]byte) parameters, a summary-based alias analysis over go/ssa (slices, re-slices, phis, conversions, local cells, struct fields (field-based), closures, in-module calls through function summaries, interface calls and standard-library calls through a reviewed model table) computes every value that may share memory with the parameter, including the spare capacity behind its length; no write sink (element store, append without a capacity-capping full slice expression, copy/clear destination, a written argument position of a modelled library function) may be reached. Exempt by contract: the dst parameter of cipher.AEAD Seal/Open implementations. A library call that receives such a value and is in neither the writer/aliaser model nor the reviewed read-only list makes the check UNDECIDED. NOT decided: writes through unsafe or reflection (absent from these packages: checked), correctness of the model table."
	r.Assumptions = append(r.Assumptions,
		"standard-library and x/crypto functions in the reviewed read-only list neither write, retain nor return aliases of their byte-slice arguments (documented behaviour); writers/aliasers are modelled explicitly (cipher.Block/BlockMode/AEAD, hash.Sum, copy, binary.Put*, bytes.Trim*, …)",
		"append(x, ys...) writes x's spare capacity unless x was produced by a full slice expression x[a:b:b]")
	r.Rule("C17.W-no-write", "no write sink reachable from a []byte parameter of an exported crypto function", 30)
	r.Rule("C17.W-field", "a parameter captured in a struct field is not written through that field", 1)
	r.Rule("C17.W-nounsafe", "the four packages import neither unsafe nor reflect", 4)

	t := NewTaintEngine(p)
	for _, k := range c17ReadOnly {
		t.ReadOnly[k] = true
	}
	t.Run()

	inScope := map[*ssa.Function]bool{}
	nParams := 0
	aeadDst := func(fn *ssa.Function, i int) bool {
		// methods named Seal/Open with signature (dst, nonce, x, ad []byte): param 0 is receiver, 1 is dst
		if fn.Signature.Recv() == nil {
			return false
		}
		if fn.Name() != "Seal" && fn.Name() != "Open" {
			return false
		}
		return i == 1 && fn.Signature.Params().Len() == 4
	}
	for _, rel := range c17Pkgs {
		pkg := p.Pkg(rel)
		imports := []string{}
		for path := range pkg.Imports {
			imports = append(imports, path)
		}
		bad := ""
		for _, im := range imports {
			if im == "unsafe" || im == "reflect" {
				bad = im
			}
		}
		r.Check(bad == "", "C17.W-nounsafe", rel+" imports", rel, "no unsafe/reflect import", "package imports "+bad+": writes through it are invisible to the alias analysis")
		for _, fn := range p.FuncsOfPkg(rel) {
			if fn.Parent() != nil || fn.Object() == nil || !fn.Object().Exported() {
				continue
			}
			// methods of unexported types implementing interfaces count too (exported method name)
			inScope[fn] = true
			sum := t.Sum[fn]
			for i, pa := range fn.Params {
				if !c17IsBytes(pa.Type()) {
					continue
				}
				if aeadDst(fn, i) {
					r.Note("C17: %s parameter %s is the AEAD destination buffer (exempt by contract)", FuncName(p, fn), pa.Name())
					continue
				}
				nParams++
				construct := fmt.Sprintf("%s(%s)", FuncName(p, fn), pa.Name())
				sites := sum.Writes[fmt.Sprintf("p%d", i)]
				if len(sites) > 0 {
					var w []string
					for _, s := range sites {
						w = append(w, fmt.Sprintf("%s at %s in %s", s.What, p.Pos(s.Pos), FuncName(p, s.Fn)))
					}
					sort.Strings(w)
					r.Violation("C17.W-no-write", construct, p.Pos(sites[0].Pos), "memory of the caller's "+pa.Name()+" (its elements or the spare capacity behind its length) may be written", w...)
				} else {
					r.OK("C17.W-no-write", construct, p.Pos(fn.Pos()), "no write sink reachable")
				}
			}
		}
	}
	r.Stats["byte_slice_parameters"] = nParams

	// field flows
	roots := t.FieldRoots()
	nField := 0
	for f, rs := range roots {
		var from []string
		for _, rr := range rs {
			if inScope[rr.Fn] && rr.Param < len(rr.Fn.Params) && c17IsBytes(rr.Fn.Params[rr.Param].Type()) && !aeadDst(rr.Fn, rr.Param) {
				from = append(from, fmt.Sprintf("%s(%s)", FuncName(p, rr.Fn), rr.Fn.Params[rr.Param].Name()))
			}
		}
		if len(from) == 0 {
			continue
		}
		sort.Strings(from)
		nField++
		var w []string
		for fn, s := range t.Sum {
			for _, site := range s.Writes[f] {
				w = append(w, fmt.Sprintf("%s at %s in %s", site.What, p.Pos(site.Pos), FuncName(p, fn)))
			}
		}
		sort.Strings(w)
		construct := shortCh(f) + " <- " + strings.Join(from, ",")
		if len(w) > 0 {
			r.Violation("C17.W-field", construct, "-", "a caller's byte slice is kept in "+shortCh(f)+" and that field's memory is written later", w...)
		} else {
			r.OK("C17.W-field", construct, "-", "captured in a field that is only read")
		}
	}
	if nField == 0 {
		r.Trivial("C17.W-field", "no parameter captured in a field", "-", "")
	}

	// unmodelled library calls with tracked arguments in the scope's transitive summaries
	unm := map[string]string{}
	for fn := range inScope {
		for _, u := range t.Sum[fn].Unmodelled {
			unm[u.What] = fmt.Sprintf("%s at %s in %s", u.What, p.Pos(u.Pos), FuncName(p, u.Fn))
		}
	}
	var ul []string
	for _, v := range unm {
		ul = append(ul, v)
	}
	sort.Strings(ul)
	if len(ul) > 0 {
		r.Undecide("library calls receiving a caller's byte slice that are in neither the writer/aliaser model nor the reviewed read-only list: %s", strings.Join(ul, "; "))
	}
	var used []string
	for k, n := range t.UsedModels {
		used = append(used, fmt.Sprintf("%s×%d", shortID(k), n))
	}
	sort.Strings(used)
	r.Stats["library_models_used"] = used

	c.Fixture("c17write", func(fp *Prog, fr *Report) {
		ft := NewTaintEngine(fp)
		ft.Run()
		for _, fn := range fp.Funcs {
			if fn.Parent() != nil || fn.Object() == nil || !fn.Object().Exported() {
				continue
			}
			for i, pa := range fn.Params {
				if !c17IsBytes(pa.Type()) {
					continue
				}
				if sites := ft.Sum[fn].Writes[fmt.Sprintf("p%d", i)]; len(sites) > 0 {
					fr.Violation("w", FuncName(fp, fn)+" "+pa.Name(), "", sites[0].What)
				}
			}
		}
		for f, rs := range ft.FieldRoots() {
			for fn, s := range ft.Sum {
				if len(s.Writes[f]) > 0 {
					_ = fn
					for _, rr := range rs {
						fr.Violation("w", FuncName(fp, rr.Fn)+" field", "", "field write")
					}
				}
			}
		}
	})
}

func c17IsBytes(t types.Type) bool {
	s, ok := t.Underlying().(*types.Slice)
	if !ok {
		return false
	}
	if b, ok := s.Elem().Underlying().(*types.Basic); ok && b.Kind() == types.Byte {
		return true
	}
	return c17IsBytes(s.Elem())
}
