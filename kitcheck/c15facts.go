package main

// C15 helpers: provenance-based terms (expiry of an entry, a reading of the
// cache clock, constants, the MaxTTL field), branch facts between such terms
// (time comparisons normalised to > / >= / == / !=), facts implied by a boolean
// value (through !, &&/|| phis, comma-ok results and one level of in-module
// boolean helpers) and symbolic case-splitting of a value over phis/helpers.
//
// Everything is keyed by provenance, never by SSA register: go/ssa has no CSE,
// so `val.exp` read twice gives two values with the same key.

import (
	"fmt"
	"go/constant"
	"go/token"
	"go/types"
	"sort"
	"strings"

	"golang.org/x/tools/go/ssa"
)

// c15Cfg names the anchors by (type, field); used for /repo and for fixtures.
type c15Cfg struct {
	CacheT string // "pkgpath.Cache"
	EntryT string // "pkgpath.cacheEntry"
	ClockF string // field of CacheT holding the clock (interface with Now())
	ExpF   string // field of EntryT holding the absolute expiry
	MaxF   string // field of CacheT holding the TTL cap ("" = none)
}

type c15X struct {
	p   *Prog
	cfg c15Cfg
}

// c15Env maps the parameters of an inlined helper to the caller's values.
type c15Env struct {
	params map[*ssa.Parameter]ssa.Value
	up     *c15Env
}

type c15Kind int

const (
	c15Other   c15Kind = iota
	c15Now             // result of <cache>.clock.Now()
	c15WallNow         // result of time.Now()
	c15Exp             // <entry>.exp
	c15Const           // integer constant
	c15MaxTTL          // <cache>.maxTTL
)

type c15Term struct {
	Key   string
	Kind  c15Kind
	V     ssa.Value
	Entry ssa.Value // c15Exp: the (stripped) entry value whose expiry this is
	Int   int64     // c15Const
	Off   int64     // c15Now: constant offset added with Time.Add (clock.Now().Add(k))
}

func (t c15Term) String() string {
	switch t.Kind {
	case c15Now:
		if t.Off != 0 {
			return fmt.Sprintf("clock.Now().Add(%d)", t.Off)
		}
		return "clock.Now()"
	case c15WallNow:
		return "time.Now()"
	case c15Exp:
		return "entry." + "exp"
	case c15Const:
		return fmt.Sprint(t.Int)
	case c15MaxTTL:
		return "maxTTL"
	}
	if t.V != nil {
		s := t.V.String()
		if len(s) > 60 {
			s = s[:60] + "…"
		}
		return "«" + s + "»"
	}
	return t.Key
}

// c15Fact: X Op Y with Op in {">", ">=", "==", "!="}, or Op "found"/"notfound"
// with X the comma-ok producing call (Y unused).
type c15Fact struct {
	Op   string
	X, Y c15Term
}

func (f c15Fact) key() string { return f.Op + "|" + f.X.Key + "|" + f.Y.Key }

func (f c15Fact) String() string {
	if f.Op == "found" || f.Op == "notfound" {
		return f.Op + "(" + f.X.String() + ")"
	}
	return f.X.String() + " " + f.Op + " " + f.Y.String()
}

// negKey is the key of the negation of f.
func (f c15Fact) negKey() string {
	switch f.Op {
	case ">":
		return ">=|" + f.Y.Key + "|" + f.X.Key
	case ">=":
		return ">|" + f.Y.Key + "|" + f.X.Key
	case "==":
		return "!=|" + f.X.Key + "|" + f.Y.Key
	case "!=":
		return "==|" + f.X.Key + "|" + f.Y.Key
	case "found":
		return "notfound|" + f.X.Key + "|"
	case "notfound":
		return "found|" + f.X.Key + "|"
	}
	return "?"
}

type c15Set map[string]c15Fact

func (s c15Set) add(fs ...c15Fact) c15Set {
	for _, f := range fs {
		s[f.key()] = f
	}
	return s
}

func (s c15Set) union(o c15Set) c15Set {
	out := c15Set{}
	for k, v := range s {
		out[k] = v
	}
	for k, v := range o {
		out[k] = v
	}
	return out
}

func (s c15Set) intersect(o c15Set) c15Set {
	out := c15Set{}
	for k, v := range s {
		if _, ok := o[k]; ok {
			out[k] = v
		}
	}
	return out
}

// contradictory: the set contains a fact and its negation (infeasible path).
func (s c15Set) contradictory() bool {
	for _, f := range s {
		if _, ok := s[f.negKey()]; ok {
			return true
		}
		if f.Op == ">" {
			// a > b and b > a
			if _, ok := s[">|"+f.Y.Key+"|"+f.X.Key]; ok {
				return true
			}
			if _, ok := s["==|"+f.X.Key+"|"+f.Y.Key]; ok {
				return true
			}
			if _, ok := s["==|"+f.Y.Key+"|"+f.X.Key]; ok {
				return true
			}
		}
	}
	return false
}

// saturate adds the consequences a >= b ∧ a != b ⇒ a > b.
func (s c15Set) saturate() c15Set {
	var extra []c15Fact
	for _, f := range s {
		if f.Op != ">=" {
			continue
		}
		_, ne1 := s["!=|"+f.X.Key+"|"+f.Y.Key]
		_, ne2 := s["!=|"+f.Y.Key+"|"+f.X.Key]
		if ne1 || ne2 {
			extra = append(extra, c15Fact{">", f.X, f.Y})
		}
	}
	if len(extra) == 0 {
		return s
	}
	return s.union(c15Set{}).add(extra...)
}

func (s c15Set) keys() []string {
	var out []string
	for k := range s {
		out = append(out, k)
	}
	sort.Strings(out)
	return out
}

func (s c15Set) list() []string {
	var out []string
	for _, f := range s {
		out = append(out, f.String())
	}
	sort.Strings(out)
	return out
}

// ---------------------------------------------------------------- stripping

// c15AllocStore: if a is written exactly once, as a whole, and is otherwise
// only read (directly, through field/index addresses, or by closures that only
// read it), returns the stored value.
func c15AllocStore(a *ssa.Alloc) ssa.Value {
	var val ssa.Value
	n := 0
	var onlyRead func(v ssa.Value, depth int) bool
	onlyRead = func(v ssa.Value, depth int) bool {
		if depth > 4 {
			return false
		}
		for _, r := range refs(v) {
			switch x := r.(type) {
			case *ssa.UnOp:
				if x.Op != token.MUL {
					return false
				}
			case *ssa.FieldAddr:
				if !onlyRead(x, depth+1) {
					return false
				}
			case *ssa.IndexAddr:
				if !onlyRead(x, depth+1) {
					return false
				}
			case *ssa.DebugRef:
			case *ssa.Store:
				if x.Addr == v && v == ssa.Value(a) {
					n++
					val = x.Val
				} else {
					return false
				}
			case *ssa.MakeClosure:
				fn, ok := x.Fn.(*ssa.Function)
				if !ok {
					return false
				}
				for i, b := range x.Bindings {
					if b == v {
						if i >= len(fn.FreeVars) || !onlyRead(fn.FreeVars[i], depth+1) {
							return false
						}
					}
				}
			default:
				return false
			}
		}
		return true
	}
	if !onlyRead(a, 0) || n != 1 {
		return nil
	}
	return val
}

// strip follows representation-only steps: type changes, loads of write-once
// cells (locals copied for addressability, captured variables), free-variable
// bindings and inlined-helper parameters.
func (x *c15X) strip(v ssa.Value, env *c15Env) (ssa.Value, *c15Env) {
outer:
	for i := 0; i < 32 && v != nil; i++ {
		switch t := v.(type) {
		case *ssa.ChangeType:
			v = t.X
			continue
		case *ssa.Convert:
			// numeric width/kind conversions between integer types only
			if isIntegerType(t.Type()) && isIntegerType(t.X.Type()) {
				v = t.X
				continue
			}
			return v, env
		case *ssa.Parameter:
			for e := env; e != nil; e = e.up {
				if a, ok := e.params[t]; ok {
					v, env = a, e.up
					continue outer
				}
			}
			return v, env
		case *ssa.FreeVar:
			if b := resolveFreeVar(t); b != nil {
				v, env = b, nil
				continue
			}
			return v, env
		case *ssa.UnOp:
			if t.Op != token.MUL {
				return v, env
			}
			switch a := t.X.(type) {
			case *ssa.Alloc:
				if w := c15AllocStore(a); w != nil {
					v = w
					continue
				}
			case *ssa.FreeVar:
				if b := resolveFreeVar(a); b != nil {
					if al, ok := b.(*ssa.Alloc); ok {
						if w := c15AllocStore(al); w != nil {
							v, env = w, nil
							continue
						}
					}
				}
			}
			return v, env
		default:
			return v, env
		}
	}
	return v, env
}

func isIntegerType(t types.Type) bool {
	b, ok := t.Underlying().(*types.Basic)
	return ok && b.Info()&types.IsInteger != 0
}

// fieldRead: v is a read of struct field id of base (base is the struct value
// or the pointer to it, stripped).
func (x *c15X) fieldRead(v ssa.Value, env *c15Env) (base ssa.Value, benv *c15Env, id FieldID, ok bool) {
	v, env = x.strip(v, env)
	switch t := v.(type) {
	case *ssa.UnOp:
		if t.Op != token.MUL {
			return
		}
		fa, isFA := t.X.(*ssa.FieldAddr)
		if !isFA {
			return
		}
		id = fieldIDOfAddr(fa)
		bx, be := x.strip(fa.X, env)
		if a, isA := bx.(*ssa.Alloc); isA {
			if w := c15AllocStore(a); w != nil {
				wb, we := x.strip(w, be)
				return wb, we, id, true
			}
		}
		return bx, be, id, true
	case *ssa.Field:
		bx, be := x.strip(t.X, env)
		return bx, be, fieldIDOfField(t), true
	}
	return
}

// nowCall: v is the result of Now() on the cache's clock field (kind c15Now)
// or of time.Now() (kind c15WallNow).
func (x *c15X) nowKind(v ssa.Value, env *c15Env) c15Kind {
	call, ok := v.(*ssa.Call)
	if !ok {
		return c15Other
	}
	if callIs(call, "time", "", "Now") {
		return c15WallNow
	}
	obj := calleeObj(call)
	if obj == nil || obj.Name() != "Now" {
		return c15Other
	}
	var recv ssa.Value
	if call.Call.IsInvoke() {
		recv = call.Call.Value
	} else if len(call.Call.Args) > 0 {
		recv = call.Call.Args[0]
	}
	if recv == nil {
		return c15Other
	}
	if _, _, id, ok := x.fieldRead(recv, env); ok && id.Type == x.cfg.CacheT && id.Field == x.cfg.ClockF {
		return c15Now
	}
	return c15Other
}

func (x *c15X) term(v ssa.Value, env *c15Env) c15Term {
	return x.termD(v, env, 0)
}

func (x *c15X) termD(v ssa.Value, env *c15Env, depth int) c15Term {
	sv, senv := x.strip(v, env)
	if depth > 6 || sv == nil {
		return c15Term{Key: fmt.Sprintf("v:%p", sv), V: sv}
	}
	switch t := sv.(type) {
	case *ssa.Const:
		if t.Value != nil && t.Value.Kind() == constant.Int {
			if i, ok := constant.Int64Val(t.Value); ok {
				return c15Term{Key: fmt.Sprintf("const:%d", i), Kind: c15Const, V: sv, Int: i}
			}
		}
		return c15Term{Key: "const:" + t.String(), V: sv}
	case *ssa.Call:
		switch x.nowKind(t, senv) {
		case c15Now:
			return c15Term{Key: fmt.Sprintf("now:%p", t), Kind: c15Now, V: sv}
		case c15WallNow:
			return c15Term{Key: fmt.Sprintf("wallnow:%p", t), Kind: c15WallNow, V: sv}
		}
		// clock.Now().Add(<constant>)
		if name, args, aenv, ok := x.timeMethod(t, senv); ok && name == "Add" && len(args) == 2 {
			if k, ok := args[1].(*ssa.Const); ok && k.Value != nil && k.Value.Kind() == constant.Int {
				if off, ok := constant.Int64Val(k.Value); ok {
					if bt := x.termD(args[0], aenv, depth+1); bt.Kind == c15Now {
						return c15Term{Key: fmt.Sprintf("%s+%d", bt.Key, off), Kind: c15Now, V: sv, Off: bt.Off + off}
					}
				}
			}
		}
		return c15Term{Key: fmt.Sprintf("call:%p", t), V: sv}
	case *ssa.Extract:
		tt := x.termD(t.Tuple, senv, depth+1)
		return c15Term{Key: fmt.Sprintf("ext(%s)#%d", tt.Key, t.Index), V: sv}
	case *ssa.Parameter:
		return c15Term{Key: fmt.Sprintf("param:%p:%s", t, t.Name()), V: sv}
	}
	if base, benv, id, ok := x.fieldRead(sv, senv); ok {
		bt := x.termD(base, benv, depth+1)
		key := "fld(" + bt.Key + ")." + id.String()
		switch {
		case id.Type == x.cfg.EntryT && id.Field == x.cfg.ExpF:
			return c15Term{Key: key, Kind: c15Exp, V: sv, Entry: base}
		case x.cfg.MaxF != "" && id.Type == x.cfg.CacheT && id.Field == x.cfg.MaxF:
			// one cache per method: keyed by field only (the field is written
			// only by the constructor, checked separately)
			return c15Term{Key: "maxTTL", Kind: c15MaxTTL, V: sv}
		}
		return c15Term{Key: key, V: sv}
	}
	return c15Term{Key: fmt.Sprintf("v:%p", sv), V: sv}
}

// ------------------------------------------------------------------- facts

func c15Rel(op token.Token, a, b c15Term) []c15Fact {
	switch op {
	case token.GTR:
		return []c15Fact{{">", a, b}}
	case token.GEQ:
		return []c15Fact{{">=", a, b}}
	case token.LSS:
		return []c15Fact{{">", b, a}}
	case token.LEQ:
		return []c15Fact{{">=", b, a}}
	case token.EQL, token.NEQ:
		o := "=="
		if op == token.NEQ {
			o = "!="
		}
		if b.Key < a.Key {
			a, b = b, a
		}
		return []c15Fact{{o, a, b}}
	}
	return nil
}

func flipOp(op token.Token) token.Token {
	switch op {
	case token.LSS:
		return token.GTR
	case token.GTR:
		return token.LSS
	case token.LEQ:
		return token.GEQ
	case token.GEQ:
		return token.LEQ
	}
	return op
}

// timeMethod: v (stripped) is a static call of time.Time.<name>; returns args.
func (x *c15X) timeMethod(v ssa.Value, env *c15Env) (name string, args []ssa.Value, aenv *c15Env, ok bool) {
	sv, senv := x.strip(v, env)
	call, isCall := sv.(*ssa.Call)
	if !isCall {
		return
	}
	obj := calleeObj(call)
	if obj == nil || obj.Pkg() == nil || obj.Pkg().Path() != "time" {
		return
	}
	sig := obj.Type().(*types.Signature)
	if sig.Recv() == nil || typeBaseName(sig.Recv().Type()) != "Time" {
		return
	}
	return obj.Name(), call.Call.Args, senv, true
}

func isZeroConst(v ssa.Value) bool {
	c, ok := v.(*ssa.Const)
	if !ok || c.Value == nil || c.Value.Kind() != constant.Int {
		return false
	}
	i, ok := constant.Int64Val(c.Value)
	return ok && i == 0
}

// UnrecognisedExp is set when a condition involves the expiry in a form the
// decoder does not understand (so "no fact" must not be read as "no test").
type c15Ctx struct {
	x      *c15X
	seen   map[ssa.Value]bool
	Opaque []string
	memo   map[c15PathKey][]c15Set
}

type c15PathKey struct {
	b   *ssa.BasicBlock
	env *c15Env
}

// paths returns, for every acyclic CFG path from the function entry to b, the
// set of branch facts established along it (infeasible paths — contradictory
// facts — are dropped). A condition "holds at b" iff it holds for every set.
// Back edges contribute no facts (conservative). If the number of paths
// explodes the result collapses to the single set of facts common to all.
func (c *c15Ctx) paths(b *ssa.BasicBlock, env *c15Env) []c15Set {
	if c.memo == nil {
		c.memo = map[c15PathKey][]c15Set{}
	}
	return c.pathsD(b, env, map[*ssa.BasicBlock]bool{})
}

func (c *c15Ctx) pathsD(b *ssa.BasicBlock, env *c15Env, stack map[*ssa.BasicBlock]bool) []c15Set {
	if b.Index == 0 || len(b.Preds) == 0 {
		return []c15Set{{}}
	}
	if m, ok := c.memo[c15PathKey{b, env}]; ok {
		return m
	}
	stack[b] = true
	var out []c15Set
	seen := map[string]bool{}
	cyclic := false
	for _, p := range b.Preds {
		var ps []c15Set
		if stack[p] {
			ps = []c15Set{{}}
			cyclic = true
		} else {
			ps = c.pathsD(p, env, stack)
		}
		ef := c.edgeFacts(p, b, env, 0)
		for _, s := range ps {
			u := s.union(ef)
			if u.contradictory() {
				continue
			}
			k := strings.Join(u.keys(), "&")
			if !seen[k] {
				seen[k] = true
				out = append(out, u)
			}
		}
	}
	delete(stack, b)
	if len(out) > 128 {
		acc := out[0]
		for _, s := range out[1:] {
			acc = acc.intersect(s)
		}
		out = []c15Set{acc}
	}
	if !cyclic && len(stack) == 0 {
		c.memo[c15PathKey{b, env}] = out
	}
	return out
}

// factsWhen returns facts that hold whenever boolean v has value want.
// vacuous=true means v can never have that value (constant).
func (c *c15Ctx) factsWhen(v ssa.Value, want bool, env *c15Env, depth int) (facts c15Set, vacuous bool) {
	x := c.x
	facts = c15Set{}
	if depth > 8 {
		return
	}
	sv, senv := x.strip(v, env)
	switch t := sv.(type) {
	case *ssa.Const:
		if t.Value != nil && t.Value.Kind() == constant.Bool {
			if constant.BoolVal(t.Value) != want {
				return facts, true
			}
		}
		return
	case *ssa.UnOp:
		if t.Op == token.NOT {
			return c.factsWhen(t.X, !want, senv, depth+1)
		}
		return
	case *ssa.BinOp:
		op := t.Op
		switch op {
		case token.EQL, token.NEQ, token.LSS, token.LEQ, token.GTR, token.GEQ:
		default:
			return
		}
		if !want {
			op = negateOp(op)
		}
		a, b := t.X, t.Y
		// bool == const
		if bt, ok := a.Type().Underlying().(*types.Basic); ok && bt.Info()&types.IsBoolean != 0 {
			if k, ok := b.(*ssa.Const); ok && k.Value != nil && k.Value.Kind() == constant.Bool && (op == token.EQL || op == token.NEQ) {
				w := constant.BoolVal(k.Value)
				if op == token.NEQ {
					w = !w
				}
				return c.factsWhen(a, w, senv, depth+1)
			}
			return
		}
		// x.Compare(y) ⋈ 0, x.Sub(y) ⋈ 0
		if isZeroConst(b) || isZeroConst(a) {
			o, other := op, a
			if isZeroConst(a) {
				o, other = flipOp(op), b
			}
			if name, args, aenv, ok := x.timeMethod(other, senv); ok && len(args) == 2 && (name == "Compare" || name == "Sub") {
				facts.add(c15Rel(o, x.term(args[0], aenv), x.term(args[1], aenv))...)
				return
			}
			// clock.Since(t) ⋈ 0  ≡  now ⋈ t ; clock.Until / time.Until likewise
			if sc, scenv := x.strip(other, senv); sc != nil {
				if call, ok := sc.(*ssa.Call); ok {
					if obj := calleeObj(call); obj != nil && (obj.Name() == "Since" || obj.Name() == "Until") {
						c.Opaque = append(c.Opaque, obj.Name()+"(…) compared with 0")
						_ = scenv
						return
					}
				}
			}
		}
		// comparisons of derived quantities (x.Unix() ⋈ y.Unix(), …) are not
		// decoded: truncation makes them weaker than the time relation
		if na, _, _, ok := x.timeMethod(a, senv); ok {
			c.Opaque = append(c.Opaque, "comparison of time.Time."+na+"() results")
		}
		if nb, _, _, ok := x.timeMethod(b, senv); ok {
			c.Opaque = append(c.Opaque, "comparison of time.Time."+nb+"() results")
		}
		ta, tb := x.term(a, senv), x.term(b, senv)
		facts.add(c15Rel(op, ta, tb)...)
		return
	case *ssa.Extract:
		// comma-ok of a call / lookup / type assertion
		tup := t.Tuple
		tt, ok := tup.Type().(*types.Tuple)
		if ok && t.Index == tt.Len()-1 {
			if bt, ok := tt.At(t.Index).Type().Underlying().(*types.Basic); ok && bt.Info()&types.IsBoolean != 0 {
				op := "found"
				if !want {
					op = "notfound"
				}
				facts.add(c15Fact{Op: op, X: x.term(tup, senv)})
			}
		}
		return
	case *ssa.Phi:
		if c.seen[t] {
			return
		}
		c.seen[t] = true
		defer delete(c.seen, t)
		first := true
		var acc c15Set
		blk := t.Block()
		for i, ev := range t.Edges {
			pred := blk.Preds[i]
			ef, vac := c.factsWhen(ev, want, senv, depth+1)
			if vac {
				continue
			}
			ef = ef.union(c.domFacts(pred, senv, depth+1)).union(c.edgeFacts(pred, blk, senv, depth+1))
			if ef.contradictory() {
				continue
			}
			if first {
				acc, first = ef, false
			} else {
				acc = acc.intersect(ef)
			}
		}
		if first {
			return facts, true
		}
		return acc, false
	case *ssa.Call:
		if name, args, aenv, ok := x.timeMethod(t, senv); ok && len(args) == 2 {
			a, b := x.term(args[0], aenv), x.term(args[1], aenv)
			switch name {
			case "After":
				if want {
					facts.add(c15Rel(token.GTR, a, b)...)
				} else {
					facts.add(c15Rel(token.LEQ, a, b)...)
				}
				return
			case "Before":
				if want {
					facts.add(c15Rel(token.LSS, a, b)...)
				} else {
					facts.add(c15Rel(token.GEQ, a, b)...)
				}
				return
			case "Equal":
				if want {
					facts.add(c15Rel(token.EQL, a, b)...)
				} else {
					facts.add(c15Rel(token.NEQ, a, b)...)
				}
				return
			}
			c.Opaque = append(c.Opaque, "time.Time."+name)
			return
		}
		// one level (at most 3 nested) of in-module boolean helpers
		callee := staticCallee(t)
		if callee != nil && x.p.InModule(callee) && len(callee.Blocks) > 0 && depth < 6 {
			res := callee.Signature.Results()
			if res.Len() == 1 {
				nenv := &c15Env{params: map[*ssa.Parameter]ssa.Value{}, up: senv}
				for i, pa := range callee.Params {
					if i < len(t.Call.Args) {
						nenv.params[pa] = t.Call.Args[i]
					}
				}
				first := true
				var acc c15Set
				for _, b := range callee.Blocks {
					if b.Index != 0 && len(b.Preds) == 0 {
						continue
					}
					ret, ok := b.Instrs[len(b.Instrs)-1].(*ssa.Return)
					if !ok || len(ret.Results) != 1 {
						continue
					}
					rf, vac := c.factsWhen(ret.Results[0], want, nenv, depth+2)
					if vac {
						continue
					}
					rf = rf.union(c.domFacts(b, nenv, depth+2))
					if rf.contradictory() {
						continue
					}
					if first {
						acc, first = rf, false
					} else {
						acc = acc.intersect(rf)
					}
				}
				if first {
					return facts, true
				}
				return acc, false
			}
		}
		// an unknown call fed with an expiry or an entry: remember
		for _, a := range t.Call.Args {
			if tt := x.term(a, senv); tt.Kind == c15Exp {
				c.Opaque = append(c.Opaque, "call "+callDescC15(t)+" on the expiry")
			} else if namedKey(a.Type()) == x.cfg.EntryT {
				c.Opaque = append(c.Opaque, "call "+callDescC15(t)+" on the entry")
			}
		}
		return
	}
	return
}

func callDescC15(c *ssa.Call) string {
	if obj := calleeObj(c); obj != nil {
		return obj.FullName()
	}
	return c.Call.Value.Name()
}

// edgeFacts: facts established by taking the CFG edge from -> to.
func (c *c15Ctx) edgeFacts(from, to *ssa.BasicBlock, env *c15Env, depth int) c15Set {
	out := c15Set{}
	if len(from.Instrs) == 0 || len(from.Succs) != 2 || from.Succs[0] == from.Succs[1] {
		return out
	}
	ifi, ok := from.Instrs[len(from.Instrs)-1].(*ssa.If)
	if !ok {
		return out
	}
	f, _ := c.factsWhen(ifi.Cond, from.Succs[0] == to, env, depth+1)
	return f
}

// domFacts: facts established by the branch edges that dominate b.
func (c *c15Ctx) domFacts(b *ssa.BasicBlock, env *c15Env, depth int) c15Set {
	out := c15Set{}
	if depth > 8 {
		return out
	}
	for _, dc := range domConds(b) {
		f, _ := c.factsWhen(dc.If.Cond, dc.Branch, env, depth+1)
		out = out.union(f)
	}
	return out
}

func (x *c15X) newCtx() *c15Ctx { return &c15Ctx{x: x, seen: map[ssa.Value]bool{}} }

// ------------------------------------------------------------------- cases

// c15Case: on some path the value is V (in Env) and Facts hold.
type c15Case struct {
	V     ssa.Value
	Env   *c15Env
	Facts c15Set
}

// cases splits v over phis and single-result in-module helpers. Facts are
// the facts at the use plus those of every edge/return chosen.
func (c *c15Ctx) cases(v ssa.Value, env *c15Env, facts c15Set, depth int) []c15Case {
	x := c.x
	sv, senv := x.strip(v, env)
	if depth > 6 {
		return []c15Case{{sv, senv, facts}}
	}
	switch t := sv.(type) {
	case *ssa.Phi:
		if c.seen[t] {
			return []c15Case{{sv, senv, facts}}
		}
		c.seen[t] = true
		defer delete(c.seen, t)
		var out []c15Case
		blk := t.Block()
		for i, ev := range t.Edges {
			pred := blk.Preds[i]
			edge := c.edgeFacts(pred, blk, senv, depth+1)
			for _, ps := range c.paths(pred, senv) {
				ef := facts.union(ps).union(edge)
				if ef.contradictory() {
					continue
				}
				out = append(out, c.cases(ev, senv, ef, depth+1)...)
			}
		}
		return out
	case *ssa.Call:
		callee := staticCallee(t)
		if callee != nil && x.p.InModule(callee) && len(callee.Blocks) > 0 && callee.Signature.Results().Len() == 1 {
			nenv := &c15Env{params: map[*ssa.Parameter]ssa.Value{}, up: senv}
			for i, pa := range callee.Params {
				if i < len(t.Call.Args) {
					nenv.params[pa] = t.Call.Args[i]
				}
			}
			var out []c15Case
			for _, b := range callee.Blocks {
				if b.Index != 0 && len(b.Preds) == 0 {
					continue
				}
				ret, ok := b.Instrs[len(b.Instrs)-1].(*ssa.Return)
				if !ok || len(ret.Results) != 1 {
					continue
				}
				for _, ps := range c.paths(b, nenv) {
					rf := facts.union(ps)
					if rf.contradictory() {
						continue
					}
					out = append(out, c.cases(ret.Results[0], nenv, rf, depth+1)...)
				}
			}
			if len(out) > 0 {
				return out
			}
		}
	}
	return []c15Case{{sv, senv, facts}}
}

// ---------------------------------------------------------- small queries

// has reports whether some fact satisfies pred.
func (s c15Set) has(pred func(f c15Fact) bool) bool {
	for _, f := range s {
		if pred(f) {
			return true
		}
	}
	return false
}

// gt: the set proves a > b (terms selected by predicates).
func (s c15Set) gt(a, b func(c15Term) bool) bool {
	return s.has(func(f c15Fact) bool { return f.Op == ">" && a(f.X) && b(f.Y) })
}

// ge: the set proves a >= b.
func (s c15Set) ge(a, b func(c15Term) bool) bool {
	return s.has(func(f c15Fact) bool {
		switch f.Op {
		case ">", ">=":
			return a(f.X) && b(f.Y)
		case "==":
			return (a(f.X) && b(f.Y)) || (a(f.Y) && b(f.X))
		}
		return false
	})
}

func isKind(k c15Kind) func(c15Term) bool { return func(t c15Term) bool { return t.Kind == k } }
func isKey(k string) func(c15Term) bool   { return func(t c15Term) bool { return t.Key == k } }

// positive: the set proves t > 0 (t > c with c >= 0, or t >= c with c >= 1).
func (s c15Set) positive(a func(c15Term) bool) bool {
	return s.has(func(f c15Fact) bool {
		if !a(f.X) || f.Y.Kind != c15Const {
			return false
		}
		return (f.Op == ">" && f.Y.Int >= 0) || (f.Op == ">=" && f.Y.Int >= 1) || (f.Op == "==" && f.Y.Int >= 1)
	}) || s.has(func(f c15Fact) bool { // canonical order of == may put the constant first
		return f.Op == "==" && a(f.Y) && f.X.Kind == c15Const && f.X.Int >= 1
	})
}

// nonPositive: the set proves t <= 0.
func (s c15Set) nonPositive(a func(c15Term) bool) bool {
	return s.has(func(f c15Fact) bool {
		if f.X.Kind == c15Const && a(f.Y) {
			return (f.Op == ">=" && f.X.Int <= 0) || (f.Op == ">" && f.X.Int <= 1) || (f.Op == "==" && f.X.Int <= 0)
		}
		if f.Op == "==" && a(f.X) && f.Y.Kind == c15Const {
			return f.Y.Int <= 0
		}
		return false
	})
}

// c15ExpDecodable: every read of the expiry field in fns feeds only
// comparisons the decoder understands (so a missing fact means a missing
// test, not an undecoded one).
func c15ExpDecodable(fns []*ssa.Function, cfg c15Cfg) (bool, string) {
	ok, why := true, ""
	bad := func(in ssa.Instruction) {
		ok = false
		why = "the expiry flows into `" + in.String() + "`"
	}
	var checkUses func(v ssa.Value, depth int)
	checkUses = func(v ssa.Value, depth int) {
		for _, r := range refs(v) {
			switch t := r.(type) {
			case *ssa.DebugRef:
			case *ssa.Call:
				obj := calleeObj(t)
				if obj == nil || obj.Pkg() == nil || obj.Pkg().Path() != "time" {
					bad(r)
					continue
				}
				switch obj.Name() {
				case "After", "Before", "Equal":
				case "Compare", "Sub":
					for _, rr := range refs(t) {
						bo, isB := rr.(*ssa.BinOp)
						if _, isD := rr.(*ssa.DebugRef); isD {
							continue
						}
						if !isB || !(isZeroConst(bo.X) || isZeroConst(bo.Y)) {
							bad(rr)
						}
					}
				default:
					bad(r)
				}
			case *ssa.ChangeType:
				if depth < 3 {
					checkUses(t, depth+1)
				} else {
					bad(r)
				}
			default:
				bad(r)
			}
		}
	}
	for _, fn := range fns {
		allInstrs(fn, func(in ssa.Instruction) {
			switch t := in.(type) {
			case *ssa.FieldAddr:
				if id := fieldIDOfAddr(t); id.Type == cfg.EntryT && id.Field == cfg.ExpF {
					for _, r := range refs(t) {
						if u, isU := r.(*ssa.UnOp); isU && u.Op == token.MUL {
							checkUses(u, 0)
						} else if _, isD := r.(*ssa.DebugRef); !isD {
							bad(r)
						}
					}
				}
			case *ssa.Field:
				if id := fieldIDOfField(t); id.Type == cfg.EntryT && id.Field == cfg.ExpF {
					checkUses(t, 0)
				}
			}
		})
	}
	return ok, why
}
