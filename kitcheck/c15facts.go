package main

// C15 helpers: provenance-based terms (expiry of an entry, a reading of the
// cache clock, constants, the MaxTTL field), branch facts between such terms
// (time comparisons normalised to > / >= / == / !=), facts implied by a boolean
// value (through !, &&/|| phis, comma-ok results and one level of in-module
// boolean helpers) and symbolic case-splitting of a value over phis/helpers.
//
// Everything is keyed by provenance, never by SSA register: go/ssa has no CSE,
// so `val.exp` read twice gives two values with the same key.

import (
	"fmt"
	"go/constant"
	"go/token"
	"go/types"
	"sort"
	"strings"

	"golang.org/x/tools/go/ssa"
)

// c15Cfg names the anchors by (type, field); used for /repo and for fixtures.
type c15Cfg struct {
	CacheT string // "pkgpath.Cache"
	EntryT string // "pkgpath.cacheEntry"
	ClockF string // field of CacheT holding the clock (interface with Now())
	ExpF   string // field of EntryT holding the absolute expiry
	MaxF   string // field of CacheT holding the TTL cap ("" = none)
	// Holders: the struct types whose fields are the cache's state: CacheT and
	// the struct types nested in it. ClockF / MaxF (and the role names of the
	// property file) are holder keys, see hkey. nil = {CacheT}.
	Holders map[string]bool
	OptsT   string // the options struct type ("" = none); its MaxTTL field is the cap too
	// NowFuncs: func() time.Time fields of a holder whose only store binds the
	// Now method of a clock-typed value (true) or time.Now (false = wall clock).
	NowFuncs map[string]bool
}

// hkey names a field of the cache's state: "Cache.clock", "timing.maxTTL", …
// ("" if id is not a field of a holder type).
func (c c15Cfg) hkey(id FieldID) string {
	if id.Type != c.CacheT && !c.Holders[id.Type] {
		return ""
	}
	return id.String()
}

type c15X struct {
	p   *Prog
	cfg c15Cfg
	// noInline: functions whose calls are anchors themselves and must not be
	// looked through (fixtures use in-module stand-ins for the map library).
	noInline func(*ssa.Function) bool
	stores   map[FieldID][]*ssa.Store
	// mustUnsure is set (sticky; callers reset it) when must() met a call into
	// the program that it could not follow (unresolved func value, recursion,
	// depth): a "missing" event may then be hidden in that call.
	mustUnsure bool
}

// c15Env maps the parameters of an inlined helper to the caller's values.
// A c15Env is one activation of a function reached by following calls:
// params are bound to the caller's argument values (which live in up); lex is
// the activation of the lexically enclosing function (for closures: where the
// free variables live); via/how say how the activation was entered; pre are the
// branch facts (one set per path) known at via.
type c15Arg struct {
	V   ssa.Value
	Env *c15Env
}

type c15Env struct {
	params map[*ssa.Parameter]c15Arg
	up     *c15Env
	lex    *c15Env
	fn     *ssa.Function
	via    ssa.Instruction
	how    string // "call", "go", "defer", "callback"
	pre    []c15Set
	depth  int
	tab    int // 1-based position in a literal table of steps the call went through (0 = none)
}

func (e *c15Env) lexOf() *c15Env {
	if e == nil {
		return nil
	}
	return e.lex
}

func (e *c15Env) depthOf() int {
	if e == nil {
		return 0
	}
	return e.depth
}

// c15Target is one possible callee of a call, with the activation in which
// its free variables live.
type c15Target struct {
	Fn    *ssa.Function
	Lex   *c15Env
	Bound []ssa.Value // receiver(s) bound by a method value, prepended to the arguments
	BEnv  *c15Env
}

// unwrap maps bound-method / thunk / instantiation wrappers to the origin of
// the declared function they stand for.
func (x *c15X) unwrap(f *ssa.Function) *ssa.Function {
	if f == nil {
		return nil
	}
	f = origin(f)
	if f.Synthetic != "" {
		if obj, ok := f.Object().(*types.Func); ok && obj != nil {
			if t := x.p.SSA.FuncValue(obj.Origin()); t != nil {
				return origin(t)
			}
		}
	}
	return f
}

// funcValues resolves the functions a func value can denote (function,
// closure, bound method value, phi of them, a local / captured variable all
// of whose stores resolve, a parameter bound by an activation).
func (x *c15X) funcValues(v ssa.Value, env *c15Env, depth int) (out []c15Target, unknown bool) {
	if depth > 6 || v == nil {
		return nil, true
	}
	sv, senv := x.strip(v, env)
	switch t := sv.(type) {
	case *ssa.Function:
		return []c15Target{{Fn: x.unwrap(t)}}, false
	case *ssa.MakeClosure:
		f, ok := t.Fn.(*ssa.Function)
		if !ok {
			return nil, true
		}
		if strings.HasPrefix(f.Synthetic, "bound method wrapper") {
			return []c15Target{{Fn: x.unwrap(f), Bound: t.Bindings, BEnv: senv}}, false
		}
		return []c15Target{{Fn: origin(f), Lex: senv}}, false
	case *ssa.Phi:
		for _, e := range t.Edges {
			if e == ssa.Value(t) {
				continue
			}
			o, u := x.funcValues(e, senv, depth+1)
			out = append(out, o...)
			unknown = unknown || u
		}
		return
	case *ssa.UnOp:
		if t.Op != token.MUL {
			return nil, true
		}
		cell := c15CellOf(t)
		if cell == nil {
			// an element of a small literal slice / array of funcs: any of its elements
			if ia, ok := t.X.(*ssa.IndexAddr); ok {
				base := ia.X
				if sl, isSl := base.(*ssa.Slice); isSl {
					base = sl.X
				}
				if arr, isA := base.(*ssa.Alloc); isA {
					n := 0
					for _, r := range refs(arr) {
						if ea, isEA := r.(*ssa.IndexAddr); isEA {
							for _, rr := range refs(ea) {
								if st, isSt := rr.(*ssa.Store); isSt && st.Addr == ea {
									o, u := x.funcValues(st.Val, senv, depth+1)
									out = append(out, o...)
									unknown = unknown || u
									n++
								}
							}
						}
					}
					if n > 0 {
						return out, unknown
					}
				}
				return nil, true
			}
			// a func-typed field written exactly once in the program
			if fa, ok := t.X.(*ssa.FieldAddr); ok {
				if sts := x.fieldStores(fieldIDOfAddr(fa)); len(sts) == 1 {
					return x.funcValues(sts[0].Val, nil, depth+1)
				}
			}
			return nil, true
		}
		cenv := senv
		if _, isFV := t.X.(*ssa.FreeVar); isFV {
			cenv = senv.lexOf()
		}
		stores, ok := c15CellStores(cell)
		if !ok || len(stores) == 0 {
			return nil, true
		}
		for _, st := range stores {
			e := cenv
			if st.Parent() != cell.Parent() {
				e = nil // stored from inside a closure: its activation is not tracked
			}
			o, u := x.funcValues(st.Val, e, depth+1)
			out = append(out, o...)
			unknown = unknown || u
		}
		return
	case *ssa.Const:
		if t.IsNil() {
			return nil, false
		}
	}
	return nil, true
}

// callTargets resolves the in-program functions a call instruction can
// enter. unknown=true if the callee is a func value that cannot be resolved
// (interface method calls and builtins are neither targets nor unknown).
func (x *c15X) callTargets(cc *ssa.CallCommon, env *c15Env) (out []c15Target, unknown bool) {
	if cc.IsInvoke() {
		if tg, ok := x.invokeTarget(cc, env); ok {
			return []c15Target{tg}, false
		}
		return nil, false
	}
	switch t := cc.Value.(type) {
	case *ssa.Builtin:
		return nil, false
	case *ssa.Function:
		return []c15Target{{Fn: x.unwrap(t)}}, false
	case *ssa.MakeClosure:
		return x.funcValues(t, env, 0)
	}
	return x.funcValues(cc.Value, env, 0)
}

// invokeTarget resolves an interface method call whose dynamic type is known:
// the receiver is (or is a state field stored exactly once from) a value boxed
// from a concrete type, or the interface is declared in the program and
// exactly one named type of the program implements it (a single-implementation
// seam). Library interfaces without such evidence (clocks, tickers) stay opaque.
func (x *c15X) invokeTarget(cc *ssa.CallCommon, env *c15Env) (c15Target, bool) {
	recv, renv := x.strip(cc.Value, env)
	var boxed ssa.Value
	switch t := recv.(type) {
	case *ssa.MakeInterface:
		boxed = t.X
	case *ssa.UnOp:
		if fa, ok := t.X.(*ssa.FieldAddr); ok && t.Op == token.MUL {
			if sts := x.fieldStores(fieldIDOfAddr(fa)); len(sts) == 1 {
				if mi, ok := sts[0].Val.(*ssa.MakeInterface); ok {
					boxed, renv = mi.X, nil
				}
			}
		}
	}
	lookup := func(T types.Type) *ssa.Function {
		sel := x.p.SSA.MethodSets.MethodSet(T).Lookup(cc.Method.Pkg(), cc.Method.Name())
		if sel == nil {
			return nil
		}
		if mo, ok := sel.Obj().(*types.Func); ok {
			// the declared (possibly generic) method: instantiations are not needed
			if f := x.p.SSA.FuncValue(mo.Origin()); f != nil {
				return f
			}
		}
		return nil
	}
	if boxed != nil {
		if f := lookup(boxed.Type()); f != nil {
			return c15Target{Fn: x.unwrap(f), Bound: []ssa.Value{boxed}, BEnv: renv}, true
		}
		return c15Target{}, false
	}
	// a seam declared in the program with a single implementation in the program
	iface, _ := cc.Value.Type().Underlying().(*types.Interface)
	named, isNamed := types.Unalias(cc.Value.Type()).(*types.Named)
	if iface == nil || !isNamed || named.Obj().Pkg() == nil || !strings.HasPrefix(named.Obj().Pkg().Path(), x.p.ModPath) {
		return c15Target{}, false
	}
	var impl []types.Type
	for _, pkg := range x.p.Pkgs {
		if !strings.HasPrefix(pkg.PkgPath, x.p.ModPath) {
			continue
		}
		sc := pkg.Types.Scope()
		for _, nm := range sc.Names() {
			tn, ok := sc.Lookup(nm).(*types.TypeName)
			if !ok || tn.IsAlias() {
				continue
			}
			T := tn.Type()
			if _, isI := T.Underlying().(*types.Interface); isI {
				continue
			}
			if nt, ok := T.(*types.Named); ok && nt.TypeParams().Len() > 0 {
				// generic implementation: matched by method names (instantiation is not attempted)
				ms := types.NewMethodSet(types.NewPointer(T))
				all := iface.NumMethods() > 0
				for i := 0; i < iface.NumMethods(); i++ {
					if ms.Lookup(iface.Method(i).Pkg(), iface.Method(i).Name()) == nil {
						all = false
					}
				}
				if all {
					impl = append(impl, types.NewPointer(T))
				}
				continue
			}
			if types.Implements(T, iface) {
				impl = append(impl, T)
			} else if types.Implements(types.NewPointer(T), iface) {
				impl = append(impl, types.NewPointer(T))
			}
		}
	}
	if len(impl) != 1 {
		return c15Target{}, false
	}
	ms := types.NewMethodSet(impl[0])
	sel := ms.Lookup(cc.Method.Pkg(), cc.Method.Name())
	if sel == nil {
		return c15Target{}, false
	}
	mobj, _ := sel.Obj().(*types.Func)
	if mobj == nil {
		return c15Target{}, false
	}
	f := x.p.SSA.FuncValue(mobj.Origin())
	if f == nil {
		return c15Target{}, false
	}
	return c15Target{Fn: origin(f), Bound: []ssa.Value{recv}, BEnv: renv}, true
}

// activate builds the activation of tgt for a call with the given arguments
// (evaluated in env).
func (x *c15X) activate(tgt c15Target, args []ssa.Value, env *c15Env, via ssa.Instruction, how string) *c15Env {
	n := &c15Env{params: map[*ssa.Parameter]c15Arg{}, up: env, lex: tgt.Lex, fn: tgt.Fn, via: via, how: how, depth: env.depthOf() + 1}
	ps := tgt.Fn.Params
	i := 0
	for _, b := range tgt.Bound {
		if i < len(ps) {
			n.params[ps[i]] = c15Arg{b, tgt.BEnv}
			i++
		}
	}
	for _, a := range args {
		if i < len(ps) {
			n.params[ps[i]] = c15Arg{a, env}
			i++
		}
	}
	return n
}

// inlinable: calls of f may be looked through.
func (x *c15X) inlinable(f *ssa.Function) bool {
	if f == nil || len(f.Blocks) == 0 || !x.p.InModule(f) {
		return false
	}
	return x.noInline == nil || !x.noInline(f)
}

// singleReturn: call enters exactly one inlinable function that has exactly
// one live return; returns that return and the callee's activation.
func (x *c15X) singleReturn(call *ssa.Call, env *c15Env) (*ssa.Return, *c15Env) {
	if env.depthOf() > 6 {
		return nil, nil
	}
	ts, unknown := x.callTargets(&call.Call, env)
	if unknown || len(ts) != 1 || !x.inlinable(ts[0].Fn) {
		return nil, nil
	}
	for e := env; e != nil; e = e.up {
		if e.fn == ts[0].Fn {
			return nil, nil // recursion
		}
	}
	var only *ssa.Return
	for _, b := range ts[0].Fn.Blocks {
		if (b.Index != 0 && len(b.Preds) == 0) || len(b.Instrs) == 0 {
			continue
		}
		if ret, ok := b.Instrs[len(b.Instrs)-1].(*ssa.Return); ok {
			if only != nil {
				return nil, nil
			}
			only = ret
		}
	}
	if only == nil {
		return nil, nil
	}
	return only, x.activate(ts[0], call.Call.Args, env, call, "call")
}

type c15Kind int

const (
	c15Other   c15Kind = iota
	c15Now             // result of <cache>.clock.Now()
	c15WallNow         // result of time.Now()
	c15Exp             // <entry>.exp
	c15Const           // integer constant
	c15MaxTTL          // <cache>.maxTTL
)

type c15Term struct {
	Key   string
	Kind  c15Kind
	V     ssa.Value
	Entry ssa.Value // c15Exp: the (stripped) entry value whose expiry this is
	Int   int64     // c15Const
	Off   int64     // c15Now: constant offset added with Time.Add (clock.Now().Add(k))
}

func (t c15Term) String() string {
	switch t.Kind {
	case c15Now:
		if t.Off != 0 {
			return fmt.Sprintf("clock.Now().Add(%d)", t.Off)
		}
		return "clock.Now()"
	case c15WallNow:
		return "time.Now()"
	case c15Exp:
		return "entry." + "exp"
	case c15Const:
		return fmt.Sprint(t.Int)
	case c15MaxTTL:
		return "maxTTL"
	}
	if t.V != nil {
		s := t.V.String()
		if len(s) > 60 {
			s = s[:60] + "…"
		}
		return "«" + s + "»"
	}
	return t.Key
}

// c15Fact: X Op Y with Op in {">", ">=", "==", "!="}, or Op "found"/"notfound"
// with X the comma-ok producing call (Y unused).
type c15Fact struct {
	Op   string
	X, Y c15Term
}

func (f c15Fact) key() string { return f.Op + "|" + f.X.Key + "|" + f.Y.Key }

func (f c15Fact) String() string {
	if f.Op == "found" || f.Op == "notfound" {
		return f.Op + "(" + f.X.String() + ")"
	}
	return f.X.String() + " " + f.Op + " " + f.Y.String()
}

// negKey is the key of the negation of f.
func (f c15Fact) negKey() string {
	switch f.Op {
	case ">":
		return ">=|" + f.Y.Key + "|" + f.X.Key
	case ">=":
		return ">|" + f.Y.Key + "|" + f.X.Key
	case "==":
		return "!=|" + f.X.Key + "|" + f.Y.Key
	case "!=":
		return "==|" + f.X.Key + "|" + f.Y.Key
	case "found":
		return "notfound|" + f.X.Key + "|"
	case "notfound":
		return "found|" + f.X.Key + "|"
	}
	return "?"
}

type c15Set map[string]c15Fact

func (s c15Set) add(fs ...c15Fact) c15Set {
	for _, f := range fs {
		s[f.key()] = f
	}
	return s
}

func (s c15Set) union(o c15Set) c15Set {
	out := c15Set{}
	for k, v := range s {
		out[k] = v
	}
	for k, v := range o {
		out[k] = v
	}
	return out
}

func (s c15Set) intersect(o c15Set) c15Set {
	out := c15Set{}
	for k, v := range s {
		if _, ok := o[k]; ok {
			out[k] = v
		}
	}
	return out
}

// contradictory: the set contains a fact and its negation (infeasible path).
func (s c15Set) contradictory() bool {
	for _, f := range s {
		if _, ok := s[f.negKey()]; ok {
			return true
		}
		if f.Op == ">" {
			// a > b and b > a
			if _, ok := s[">|"+f.Y.Key+"|"+f.X.Key]; ok {
				return true
			}
			if _, ok := s["==|"+f.X.Key+"|"+f.Y.Key]; ok {
				return true
			}
			if _, ok := s["==|"+f.Y.Key+"|"+f.X.Key]; ok {
				return true
			}
		}
	}
	return false
}

// saturate adds the consequences a >= b ∧ a != b ⇒ a > b.
func (s c15Set) saturate() c15Set {
	var extra []c15Fact
	for _, f := range s {
		if f.Op != ">=" {
			continue
		}
		_, ne1 := s["!=|"+f.X.Key+"|"+f.Y.Key]
		_, ne2 := s["!=|"+f.Y.Key+"|"+f.X.Key]
		if ne1 || ne2 {
			extra = append(extra, c15Fact{">", f.X, f.Y})
		}
	}
	if len(extra) == 0 {
		return s
	}
	return s.union(c15Set{}).add(extra...)
}

func (s c15Set) keys() []string {
	var out []string
	for k := range s {
		out = append(out, k)
	}
	sort.Strings(out)
	return out
}

func (s c15Set) list() []string {
	var out []string
	for _, f := range s {
		out = append(out, f.String())
	}
	sort.Strings(out)
	return out
}

// ---------------------------------------------------------------- stripping

// c15AllocStore: if a is written exactly once, as a whole, and is otherwise
// only read (directly, through field/index addresses, or by closures that only
// read it), returns the stored value.
func c15AllocStore(a *ssa.Alloc) ssa.Value {
	var val ssa.Value
	n := 0
	var onlyRead func(v ssa.Value, depth int) bool
	onlyRead = func(v ssa.Value, depth int) bool {
		if depth > 4 {
			return false
		}
		for _, r := range refs(v) {
			switch x := r.(type) {
			case *ssa.UnOp:
				if x.Op != token.MUL {
					return false
				}
			case *ssa.FieldAddr:
				if !onlyRead(x, depth+1) {
					return false
				}
			case *ssa.IndexAddr:
				if !onlyRead(x, depth+1) {
					return false
				}
			case *ssa.DebugRef:
			case *ssa.Store:
				if x.Addr == v && v == ssa.Value(a) {
					n++
					val = x.Val
				} else {
					return false
				}
			case *ssa.MakeClosure:
				fn, ok := x.Fn.(*ssa.Function)
				if !ok {
					return false
				}
				for i, b := range x.Bindings {
					if b == v {
						if i >= len(fn.FreeVars) || !onlyRead(fn.FreeVars[i], depth+1) {
							return false
						}
					}
				}
			default:
				return false
			}
		}
		return true
	}
	if !onlyRead(a, 0) || n != 1 {
		return nil
	}
	return val
}

// strip follows representation-only steps: type changes, loads of write-once
// cells (locals copied for addressability, captured variables), free-variable
// bindings and inlined-helper parameters.
func (x *c15X) strip(v ssa.Value, env *c15Env) (ssa.Value, *c15Env) {
outer:
	for i := 0; i < 32 && v != nil; i++ {
		switch t := v.(type) {
		case *ssa.ChangeType:
			v = t.X
			continue
		case *ssa.Convert:
			// numeric width/kind conversions between integer types only
			if isIntegerType(t.Type()) && isIntegerType(t.X.Type()) {
				v = t.X
				continue
			}
			return v, env
		case *ssa.Parameter:
			for e := env; e != nil; e = e.up {
				if a, ok := e.params[t]; ok {
					v, env = a.V, a.Env
					continue outer
				}
			}
			return v, env
		case *ssa.FreeVar:
			if b := resolveFreeVar(t); b != nil {
				v, env = b, env.lexOf()
				continue
			}
			return v, env
		case *ssa.Call:
			// a helper with a single return: the value it returns
			if ret, nenv := x.singleReturn(t, env); ret != nil && len(ret.Results) == 1 {
				v, env = ret.Results[0], nenv
				continue
			}
			return v, env
		case *ssa.Extract:
			if call, ok := t.Tuple.(*ssa.Call); ok {
				if ret, nenv := x.singleReturn(call, env); ret != nil && t.Index < len(ret.Results) {
					v, env = ret.Results[t.Index], nenv
					continue
				}
			}
			return v, env
		case *ssa.UnOp:
			if t.Op != token.MUL {
				return v, env
			}
			switch a := t.X.(type) {
			case *ssa.FieldAddr:
				// a field of an object created locally (new T / &T{…}) that is
				// written exactly once in the whole package: the value stored
				if w, wenv, ok := x.localObjectField(a, env); ok {
					v, env = w, wenv
					continue
				}
			case *ssa.Alloc:
				if w := c15AllocStore(a); w != nil {
					v = w
					continue
				}
			case *ssa.FreeVar:
				if b := resolveFreeVar(a); b != nil {
					if al, ok := b.(*ssa.Alloc); ok {
						if w := c15AllocStore(al); w != nil {
							v, env = w, env.lexOf()
							continue
						}
					}
				}
			}
			return v, env
		default:
			return v, env
		}
	}
	return v, env
}

// fieldStores: every store to a field (by type and name) in the program's packages.
func (x *c15X) fieldStores(id FieldID) []*ssa.Store {
	if x.stores == nil {
		x.stores = map[FieldID][]*ssa.Store{}
		for _, fn := range x.p.Funcs {
			allInstrs(fn, func(in ssa.Instruction) {
				if st, ok := in.(*ssa.Store); ok {
					if fa, ok := st.Addr.(*ssa.FieldAddr); ok {
						fid := fieldIDOfAddr(fa)
						x.stores[fid] = append(x.stores[fid], st)
					}
				}
			})
		}
	}
	return x.stores[id]
}

// localObjectField: fa addresses a field of an object allocated by `new` in
// some activation, and that field (by type) is stored exactly once in the
// program, into that very object: returns the stored value.
func (x *c15X) localObjectField(fa *ssa.FieldAddr, env *c15Env) (ssa.Value, *c15Env, bool) {
	id := fieldIDOfAddr(fa)
	if id.Type == "" || x.cfg.hkey(id) != "" || id.Type == x.cfg.EntryT {
		return nil, nil, false
	}
	bx, benv := x.strip(fa.X, env)
	obj, ok := bx.(*ssa.Alloc)
	if !ok || !obj.Heap {
		return nil, nil, false
	}
	sts := x.fieldStores(id)
	if len(sts) != 1 {
		return nil, nil, false
	}
	sfa := sts[0].Addr.(*ssa.FieldAddr)
	if sfa.X != ssa.Value(obj) {
		return nil, nil, false
	}
	return sts[0].Val, benv, true
}

func isIntegerType(t types.Type) bool {
	b, ok := t.Underlying().(*types.Basic)
	return ok && b.Info()&types.IsInteger != 0
}

// fieldRead: v is a read of struct field id of base (base is the struct value
// or the pointer to it, stripped).
func (x *c15X) fieldRead(v ssa.Value, env *c15Env) (base ssa.Value, benv *c15Env, id FieldID, ok bool) {
	v, env = x.strip(v, env)
	switch t := v.(type) {
	case *ssa.UnOp:
		if t.Op != token.MUL {
			return
		}
		fa, isFA := t.X.(*ssa.FieldAddr)
		if !isFA {
			return
		}
		id = fieldIDOfAddr(fa)
		bx, be := x.strip(fa.X, env)
		if a, isA := bx.(*ssa.Alloc); isA {
			if w := c15AllocStore(a); w != nil {
				wb, we := x.strip(w, be)
				return wb, we, id, true
			}
		}
		return bx, be, id, true
	case *ssa.Field:
		bx, be := x.strip(t.X, env)
		return bx, be, fieldIDOfField(t), true
	}
	return
}

// nowCall: v is the result of Now() on the cache's clock field (kind c15Now)
// or of time.Now() (kind c15WallNow).
func (x *c15X) nowKind(v ssa.Value, env *c15Env) c15Kind {
	call, ok := v.(*ssa.Call)
	if !ok {
		return c15Other
	}
	if callIs(call, "time", "", "Now") {
		return c15WallNow
	}
	if !call.Call.IsInvoke() && len(x.cfg.NowFuncs) > 0 {
		// a call of a func-typed state field bound once to <clock>.Now / time.Now
		if _, _, id, ok := x.fieldRead(call.Call.Value, env); ok {
			if isClock, known := x.cfg.NowFuncs[x.cfg.hkey(id)]; known {
				if isClock {
					return c15Now
				}
				return c15WallNow
			}
		}
	}
	obj := calleeObj(call)
	if obj == nil || obj.Name() != "Now" {
		return c15Other
	}
	var recv ssa.Value
	if call.Call.IsInvoke() {
		recv = call.Call.Value
	} else if len(call.Call.Args) > 0 {
		recv = call.Call.Args[0]
	}
	if recv == nil {
		return c15Other
	}
	if _, _, id, ok := x.fieldRead(recv, env); ok && x.cfg.hkey(id) == x.cfg.ClockF {
		return c15Now
	}
	return c15Other
}

func (x *c15X) term(v ssa.Value, env *c15Env) c15Term {
	return x.termD(v, env, 0)
}

func (x *c15X) termD(v ssa.Value, env *c15Env, depth int) c15Term {
	sv, senv := x.strip(v, env)
	if depth > 6 || sv == nil {
		return c15Term{Key: fmt.Sprintf("v:%p", sv), V: sv}
	}
	switch t := sv.(type) {
	case *ssa.Const:
		if t.Value != nil && t.Value.Kind() == constant.Int {
			if i, ok := constant.Int64Val(t.Value); ok {
				return c15Term{Key: fmt.Sprintf("const:%d", i), Kind: c15Const, V: sv, Int: i}
			}
		}
		return c15Term{Key: "const:" + t.String(), V: sv}
	case *ssa.Call:
		switch x.nowKind(t, senv) {
		case c15Now:
			return c15Term{Key: fmt.Sprintf("now:%p", t), Kind: c15Now, V: sv}
		case c15WallNow:
			return c15Term{Key: fmt.Sprintf("wallnow:%p", t), Kind: c15WallNow, V: sv}
		}
		// clock.Now().Add(<constant>)
		if name, args, aenv, ok := x.timeMethod(t, senv); ok && name == "Add" && len(args) == 2 {
			if k, ok := args[1].(*ssa.Const); ok && k.Value != nil && k.Value.Kind() == constant.Int {
				if off, ok := constant.Int64Val(k.Value); ok {
					if bt := x.termD(args[0], aenv, depth+1); bt.Kind == c15Now {
						return c15Term{Key: fmt.Sprintf("%s+%d", bt.Key, off), Kind: c15Now, V: sv, Off: bt.Off + off}
					}
				}
			}
		}
		return c15Term{Key: fmt.Sprintf("call:%p", t), V: sv}
	case *ssa.Extract:
		tt := x.termD(t.Tuple, senv, depth+1)
		return c15Term{Key: fmt.Sprintf("ext(%s)#%d", tt.Key, t.Index), V: sv}
	case *ssa.Parameter:
		return c15Term{Key: fmt.Sprintf("param:%p:%s", t, t.Name()), V: sv}
	}
	if base, benv, id, ok := x.fieldRead(sv, senv); ok {
		bt := x.termD(base, benv, depth+1)
		key := "fld(" + bt.Key + ")." + id.String()
		switch {
		case id.Type == x.cfg.EntryT && id.Field == x.cfg.ExpF:
			return c15Term{Key: key, Kind: c15Exp, V: sv, Entry: base}
		case (x.cfg.MaxF != "" && x.cfg.hkey(id) == x.cfg.MaxF) || (x.cfg.OptsT != "" && id.Type == x.cfg.OptsT && id.Field == "MaxTTL"):
			// one cache per method: keyed by field only (the field is written
			// only by the constructor, checked separately)
			return c15Term{Key: "maxTTL", Kind: c15MaxTTL, V: sv}
		}
		return c15Term{Key: key, V: sv}
	}
	return c15Term{Key: fmt.Sprintf("v:%p", sv), V: sv}
}

// ------------------------------------------------------------------- facts

func c15Rel(op token.Token, a, b c15Term) []c15Fact {
	switch op {
	case token.GTR:
		return []c15Fact{{">", a, b}}
	case token.GEQ:
		return []c15Fact{{">=", a, b}}
	case token.LSS:
		return []c15Fact{{">", b, a}}
	case token.LEQ:
		return []c15Fact{{">=", b, a}}
	case token.EQL, token.NEQ:
		o := "=="
		if op == token.NEQ {
			o = "!="
		}
		if b.Key < a.Key {
			a, b = b, a
		}
		return []c15Fact{{o, a, b}}
	}
	return nil
}

func flipOp(op token.Token) token.Token {
	switch op {
	case token.LSS:
		return token.GTR
	case token.GTR:
		return token.LSS
	case token.LEQ:
		return token.GEQ
	case token.GEQ:
		return token.LEQ
	}
	return op
}

// timeMethod: v (stripped) is a static call of time.Time.<name>; returns args.
func (x *c15X) timeMethod(v ssa.Value, env *c15Env) (name string, args []ssa.Value, aenv *c15Env, ok bool) {
	sv, senv := x.strip(v, env)
	call, isCall := sv.(*ssa.Call)
	if !isCall {
		return
	}
	obj := calleeObj(call)
	if obj == nil || obj.Pkg() == nil || obj.Pkg().Path() != "time" {
		return
	}
	sig := obj.Type().(*types.Signature)
	if sig.Recv() == nil || typeBaseName(sig.Recv().Type()) != "Time" {
		return
	}
	return obj.Name(), call.Call.Args, senv, true
}

func isZeroConst(v ssa.Value) bool {
	c, ok := v.(*ssa.Const)
	if !ok || c.Value == nil || c.Value.Kind() != constant.Int {
		return false
	}
	i, ok := constant.Int64Val(c.Value)
	return ok && i == 0
}

// UnrecognisedExp is set when a condition involves the expiry in a form the
// decoder does not understand (so "no fact" must not be read as "no test").
type c15Ctx struct {
	x      *c15X
	seen   map[ssa.Value]bool
	Opaque []string
	memo   map[c15PathKey][]c15Set
}

type c15PathKey struct {
	b   *ssa.BasicBlock
	env *c15Env
}

// paths returns, for every acyclic CFG path from the function entry to b, the
// set of branch facts established along it (infeasible paths — contradictory
// facts — are dropped). A condition "holds at b" iff it holds for every set.
// Back edges contribute no facts (conservative). If the number of paths
// explodes the result collapses to the single set of facts common to all.
func (c *c15Ctx) paths(b *ssa.BasicBlock, env *c15Env) []c15Set {
	if c.memo == nil {
		c.memo = map[c15PathKey][]c15Set{}
	}
	return c.pathsD(b, env, map[*ssa.BasicBlock]bool{})
}

func (c *c15Ctx) pathsD(b *ssa.BasicBlock, env *c15Env, stack map[*ssa.BasicBlock]bool) []c15Set {
	if b.Index == 0 || len(b.Preds) == 0 {
		return []c15Set{{}}
	}
	if m, ok := c.memo[c15PathKey{b, env}]; ok {
		return m
	}
	stack[b] = true
	var out []c15Set
	seen := map[string]bool{}
	cyclic := false
	for _, p := range b.Preds {
		var ps []c15Set
		if stack[p] {
			ps = []c15Set{{}}
			cyclic = true
		} else {
			ps = c.pathsD(p, env, stack)
		}
		ef, never := c.edgeFactsX(p, b, env, 0)
		if never {
			continue
		}
		for _, s := range ps {
			u := s.union(ef)
			if u.contradictory() {
				continue
			}
			k := strings.Join(u.keys(), "&")
			if !seen[k] {
				seen[k] = true
				out = append(out, u)
			}
		}
	}
	delete(stack, b)
	if len(out) > 128 {
		acc := out[0]
		for _, s := range out[1:] {
			acc = acc.intersect(s)
		}
		out = []c15Set{acc}
	}
	if !cyclic && len(stack) == 0 {
		c.memo[c15PathKey{b, env}] = out
	}
	return out
}

// factsWhen returns facts that hold whenever boolean v has value want.
// vacuous=true means v can never have that value (constant).
func (c *c15Ctx) factsWhen(v ssa.Value, want bool, env *c15Env, depth int) (facts c15Set, vacuous bool) {
	x := c.x
	facts = c15Set{}
	if depth > 8 {
		return
	}
	sv, senv := x.strip(v, env)
	switch t := sv.(type) {
	case *ssa.Const:
		if t.Value != nil && t.Value.Kind() == constant.Bool {
			if constant.BoolVal(t.Value) != want {
				return facts, true
			}
		}
		return
	case *ssa.UnOp:
		if t.Op == token.NOT {
			return c.factsWhen(t.X, !want, senv, depth+1)
		}
		if fa, ok := t.X.(*ssa.FieldAddr); ok && t.Op == token.MUL {
			// a boolean state field (flag) decided once: what was stored
			if id := fieldIDOfAddr(fa); x.cfg.hkey(id) != "" {
				if sts := x.fieldStores(id); len(sts) == 1 {
					return c.factsWhen(sts[0].Val, want, nil, depth+1)
				}
				c.Opaque = append(c.Opaque, "flag "+id.String())
			}
		}
		return
	case *ssa.BinOp:
		op := t.Op
		switch op {
		case token.EQL, token.NEQ, token.LSS, token.LEQ, token.GTR, token.GEQ:
		default:
			return
		}
		if !want {
			op = negateOp(op)
		}
		a, b := t.X, t.Y
		// bool == const
		if bt, ok := a.Type().Underlying().(*types.Basic); ok && bt.Info()&types.IsBoolean != 0 {
			if k, ok := b.(*ssa.Const); ok && k.Value != nil && k.Value.Kind() == constant.Bool && (op == token.EQL || op == token.NEQ) {
				w := constant.BoolVal(k.Value)
				if op == token.NEQ {
					w = !w
				}
				return c.factsWhen(a, w, senv, depth+1)
			}
			return
		}
		// f == nil / f != nil for a func value whose binding is known
		if (isNilConst(a) || isNilConst(b)) && (op == token.EQL || op == token.NEQ) {
			other := a
			if isNilConst(a) {
				other = b
			}
			if _, isSig := other.Type().Underlying().(*types.Signature); isSig {
				ov, _ := x.strip(other, senv)
				isNil, known := false, false
				switch k := ov.(type) {
				case *ssa.Const:
					isNil, known = k.IsNil(), true
				case *ssa.MakeClosure, *ssa.Function:
					isNil, known = false, true
				}
				if known {
					if (op == token.EQL) != isNil {
						return facts, true // this outcome is impossible
					}
					return
				}
			}
		}
		// x.Compare(y) ⋈ 0, x.Sub(y) ⋈ 0
		if isZeroConst(b) || isZeroConst(a) {
			o, other := op, a
			if isZeroConst(a) {
				o, other = flipOp(op), b
			}
			if name, args, aenv, ok := x.timeMethod(other, senv); ok && len(args) == 2 && (name == "Compare" || name == "Sub") {
				facts.add(c15Rel(o, x.term(args[0], aenv), x.term(args[1], aenv))...)
				return
			}
			// clock.Since(t) ⋈ 0  ≡  now ⋈ t ; Until(t) ⋈ 0  ≡  t ⋈ now
			if sc, scenv := x.strip(other, senv); sc != nil {
				if call, ok := sc.(*ssa.Call); ok {
					if obj := calleeObj(call); obj != nil && (obj.Name() == "Since" || obj.Name() == "Until") {
						if now, arg, ok := x.sinceCall(call, scenv); ok {
							if obj.Name() == "Since" {
								facts.add(c15Rel(o, now, x.term(arg, scenv))...)
							} else {
								facts.add(c15Rel(o, x.term(arg, scenv), now)...)
							}
							return
						}
						c.Opaque = append(c.Opaque, obj.Name()+"(…) compared with 0")
						return
					}
				}
			}
		}
		// a*k ⋈ b*k and a*k ⋈ 0 with a positive constant k (seconds -> Duration):
		// the relation of a and b (overflow is not modelled)
		{
			ba, ka, oka := x.scaled(a, senv)
			bb, kb, okb := x.scaled(b, senv)
			switch {
			case oka && okb && ka == kb:
				facts.add(c15Rel(op, x.term(ba.V, ba.Env), x.term(bb.V, bb.Env))...)
				return
			case oka && isZeroConst(b):
				facts.add(c15Rel(op, x.term(ba.V, ba.Env), x.term(b, senv))...)
				return
			case okb && isZeroConst(a):
				facts.add(c15Rel(op, x.term(a, senv), x.term(bb.V, bb.Env))...)
				return
			}
		}
		// comparisons of derived quantities (x.Unix() ⋈ y.Unix(), …) are not
		// decoded: truncation makes them weaker than the time relation
		if na, _, _, ok := x.timeMethod(a, senv); ok {
			c.Opaque = append(c.Opaque, "comparison of time.Time."+na+"() results")
		}
		if nb, _, _, ok := x.timeMethod(b, senv); ok {
			c.Opaque = append(c.Opaque, "comparison of time.Time."+nb+"() results")
		}
		// max(x, K) ⋈ K for a constant K: max(x,K) != K / > K  ⇒ x > K ; == K / <= K ⇒ x <= K
		for _, pr := range [][2]ssa.Value{{a, b}, {b, a}} {
			mc, isCall := pr[0].(*ssa.Call)
			kc, isK := pr[1].(*ssa.Const)
			if !isCall || !isK || builtinName(mc) != "max" || len(mc.Call.Args) != 2 {
				continue
			}
			for _, ar := range [][2]ssa.Value{{mc.Call.Args[0], mc.Call.Args[1]}, {mc.Call.Args[1], mc.Call.Args[0]}} {
				k2, isK2 := ar[1].(*ssa.Const)
				if !isK2 || k2.Value == nil || kc.Value == nil || k2.Value.Kind() != constant.Int || kc.Value.Kind() != constant.Int || !constant.Compare(k2.Value, token.EQL, kc.Value) {
					continue
				}
				o := op
				if pr[0] == b {
					o = flipOp(op)
				}
				switch o {
				case token.NEQ, token.GTR:
					facts.add(c15Rel(token.GTR, x.term(ar[0], senv), x.term(kc, senv))...)
					return
				case token.EQL, token.LEQ:
					facts.add(c15Rel(token.LEQ, x.term(ar[0], senv), x.term(kc, senv))...)
					return
				}
			}
		}
		// the result of a phase helper compared with a constant (a small enum, a
		// count): what the returns that can produce such a value establish
		if op == token.EQL || op == token.NEQ {
			for _, pr := range [][2]ssa.Value{{a, b}, {b, a}} {
				kc, isK := pr[1].(*ssa.Const)
				if !isK || kc.Value == nil || depth >= 6 || senv.depthOf() >= 6 {
					continue
				}
				if _, isConst := pr[0].(*ssa.Const); isConst {
					continue
				}
				if f, vac, ok := c.enumFacts(pr[0], senv, kc, op == token.EQL, depth); ok {
					return f, vac
				}
			}
		}
		ta, tb := x.term(a, senv), x.term(b, senv)
		facts.add(c15Rel(op, ta, tb)...)
		return
	case *ssa.Extract:
		// a flag returned (among other results) by a phase helper of the program:
		// what each of its returns says about the flag
		if call, isCall := t.Tuple.(*ssa.Call); isCall && depth < 6 && senv.depthOf() < 6 {
			if f, vac, ok := c.helperResultFacts(call, t.Index, want, senv, depth); ok {
				return f, vac
			}
		}
		// comma-ok of a call / lookup / type assertion
		tup := t.Tuple
		tt, ok := tup.Type().(*types.Tuple)
		if ok && t.Index == tt.Len()-1 {
			if bt, ok := tt.At(t.Index).Type().Underlying().(*types.Basic); ok && bt.Info()&types.IsBoolean != 0 {
				op := "found"
				if !want {
					op = "notfound"
				}
				facts.add(c15Fact{Op: op, X: x.term(tup, senv)})
			}
		}
		return
	case *ssa.Phi:
		if c.seen[t] {
			return
		}
		c.seen[t] = true
		defer delete(c.seen, t)
		first := true
		var acc c15Set
		blk := t.Block()
		for i, ev := range t.Edges {
			pred := blk.Preds[i]
			ef, vac := c.factsWhen(ev, want, senv, depth+1)
			if vac {
				continue
			}
			edge, never := c.edgeFactsX(pred, blk, senv, depth+1)
			if never {
				continue
			}
			ef = ef.union(c.domFacts(pred, senv, depth+1)).union(edge)
			if ef.contradictory() {
				continue
			}
			if first {
				acc, first = ef, false
			} else {
				acc = acc.intersect(ef)
			}
		}
		if first {
			return facts, true
		}
		return acc, false
	case *ssa.Call:
		if name, args, aenv, ok := x.timeMethod(t, senv); ok && len(args) == 2 {
			a, b := x.term(args[0], aenv), x.term(args[1], aenv)
			switch name {
			case "After":
				if want {
					facts.add(c15Rel(token.GTR, a, b)...)
				} else {
					facts.add(c15Rel(token.LEQ, a, b)...)
				}
				return
			case "Before":
				if want {
					facts.add(c15Rel(token.LSS, a, b)...)
				} else {
					facts.add(c15Rel(token.GEQ, a, b)...)
				}
				return
			case "Equal":
				if want {
					facts.add(c15Rel(token.EQL, a, b)...)
				} else {
					facts.add(c15Rel(token.NEQ, a, b)...)
				}
				return
			}
			c.Opaque = append(c.Opaque, "time.Time."+name)
			return
		}
		// boolean helpers / predicates: static callees, bound methods, closures and
		// func values whose possible targets are all known are looked through
		if depth < 6 && senv.depthOf() < 6 {
			if f, vac, ok := c.helperResultFacts(t, 0, want, senv, depth); ok {
				return f, vac
			}
		}
		// an unknown call fed with an expiry or an entry: remember
		for _, a := range t.Call.Args {
			if tt := x.term(a, senv); tt.Kind == c15Exp {
				c.Opaque = append(c.Opaque, "call "+callDescC15(t)+" on the expiry")
			} else if namedKey(a.Type()) == x.cfg.EntryT {
				c.Opaque = append(c.Opaque, "call "+callDescC15(t)+" on the entry")
			}
		}
		return
	}
	return
}

// scaled: v is base*k for a positive integer constant k.
func (x *c15X) scaled(v ssa.Value, env *c15Env) (base c15Arg, k int64, ok bool) {
	sv, senv := x.strip(v, env)
	mul, isMul := sv.(*ssa.BinOp)
	if !isMul || mul.Op != token.MUL {
		return
	}
	for _, pr := range [][2]ssa.Value{{mul.X, mul.Y}, {mul.Y, mul.X}} {
		if kc, isK := pr[1].(*ssa.Const); isK && kc.Value != nil && kc.Value.Kind() == constant.Int {
			if kv, exact := constant.Int64Val(kc.Value); exact && kv > 0 {
				return c15Arg{pr[0], senv}, kv, true
			}
		}
	}
	return
}

// sinceCall: call is <cache clock>.Since(t) / .Until(t) (term kind c15Now keyed
// by the call) or time.Since(t) / time.Until(t) (kind c15WallNow).
func (x *c15X) sinceCall(call *ssa.Call, env *c15Env) (now c15Term, arg ssa.Value, ok bool) {
	obj := calleeObj(call)
	if obj == nil {
		return
	}
	if obj.Pkg() != nil && obj.Pkg().Path() == "time" && obj.Type().(*types.Signature).Recv() == nil && len(call.Call.Args) == 1 {
		return c15Term{Key: fmt.Sprintf("wallnow:%p", call), Kind: c15WallNow, V: call}, call.Call.Args[0], true
	}
	var recv ssa.Value
	args := call.Call.Args
	if call.Call.IsInvoke() {
		recv = call.Call.Value
	} else if len(args) > 0 {
		recv, args = args[0], args[1:]
	}
	if recv == nil || len(args) != 1 {
		return
	}
	if _, _, id, isF := x.fieldRead(recv, env); isF && x.cfg.hkey(id) == x.cfg.ClockF {
		return c15Term{Key: fmt.Sprintf("now:%p", call), Kind: c15Now, V: call}, args[0], true
	}
	return
}

// enumFacts: the facts that hold whenever v == kc (wantEq) / v != kc, for a
// value produced by phase helpers of the program returning constants (a
// small enum, a count), possibly forwarded through other helpers and phis.
// ok=false if v is not such a value.
func (c *c15Ctx) enumFacts(v ssa.Value, env *c15Env, kc *ssa.Const, wantEq bool, depth int) (c15Set, bool, bool) {
	x := c.x
	if depth > 8 {
		return nil, false, false
	}
	sv, senv := x.strip(v, env)
	switch t := sv.(type) {
	case *ssa.Const:
		if t.Value == nil || t.Value.Kind() != kc.Value.Kind() {
			return nil, false, false
		}
		if constant.Compare(t.Value, token.EQL, kc.Value) != wantEq {
			return nil, true, true
		}
		return c15Set{}, false, true
	case *ssa.Phi:
		if c.seen[t] {
			return nil, false, false
		}
		c.seen[t] = true
		defer delete(c.seen, t)
		first := true
		var acc c15Set
		blk := t.Block()
		for i, ev := range t.Edges {
			pred := blk.Preds[i]
			ef, vac, ok := c.enumFacts(ev, senv, kc, wantEq, depth+1)
			if !ok {
				ef, vac = c15Set{}, false
			}
			if vac {
				continue
			}
			edge, never := c.edgeFactsX(pred, blk, senv, depth+1)
			if never {
				continue
			}
			ef = ef.union(c.domFacts(pred, senv, depth+1)).union(edge)
			if ef.contradictory() {
				continue
			}
			if first {
				acc, first = ef, false
			} else {
				acc = acc.intersect(ef)
			}
		}
		if first {
			return c15Set{}, true, true
		}
		return acc, false, true
	}
	idx := 0
	call, _ := sv.(*ssa.Call)
	if ex, isEx := sv.(*ssa.Extract); isEx {
		if cl, isCl := ex.Tuple.(*ssa.Call); isCl {
			call, idx = cl, ex.Index
		}
	}
	if call == nil || senv.depthOf() >= 6 {
		return nil, false, false
	}
	return c.helperResultMatch(call, idx, senv, depth, func(rv ssa.Value, e *c15Env) (c15Set, bool) {
		if f, vac, ok := c.enumFacts(rv, e, kc, wantEq, depth+2); ok {
			return f, vac
		}
		return c15Set{}, false
	})
}

// helperResultFacts: the facts that hold whenever result #idx of call (a call
// into functions of the program, all possible targets known) has value want:
// for every return of every target, the facts of the returned value plus the
// facts common to the paths reaching that return; the intersection over the
// returns that can produce want. ok=false if the call cannot be looked through.
func (c *c15Ctx) helperResultFacts(call *ssa.Call, idx int, want bool, senv *c15Env, depth int) (facts c15Set, vacuous bool, ok bool) {
	return c.helperResultMatch(call, idx, senv, depth, func(rv ssa.Value, env *c15Env) (c15Set, bool) {
		return c.factsWhen(rv, want, env, depth+2)
	})
}

// helperResultMatch is helperResultFacts for an arbitrary condition on the
// result: match tells, for a returned value, the facts that hold when the
// condition is met by it, or that it can never meet it.
func (c *c15Ctx) helperResultMatch(call *ssa.Call, idx int, senv *c15Env, depth int, match func(rv ssa.Value, env *c15Env) (c15Set, bool)) (facts c15Set, vacuous bool, ok bool) {
	x := c.x
	ts, unknown := x.callTargets(&call.Call, senv)
	if unknown || len(ts) == 0 {
		return nil, false, false
	}
	for _, tg := range ts {
		if !x.inlinable(tg.Fn) || tg.Fn.Signature.Results().Len() <= idx || x.onStack(senv, tg.Fn) {
			return nil, false, false
		}
	}
	first := true
	var acc c15Set
	for _, tg := range ts {
		nenv := x.activate(tg, call.Call.Args, senv, call, "call")
		for _, b := range tg.Fn.Blocks {
			if (b.Index != 0 && len(b.Preds) == 0) || len(b.Instrs) == 0 {
				continue
			}
			ret, isRet := b.Instrs[len(b.Instrs)-1].(*ssa.Return)
			if !isRet || len(ret.Results) <= idx {
				continue
			}
			rf, vac := match(ret.Results[idx], nenv)
			if vac {
				continue
			}
			ps := c.paths(b, nenv)
			if len(ps) == 0 {
				continue // unreachable return
			}
			var pf c15Set
			for i, p1 := range ps {
				if i == 0 {
					pf = p1
				} else {
					pf = pf.intersect(p1)
				}
			}
			rf = rf.union(pf)
			if rf.contradictory() {
				continue
			}
			if first {
				acc, first = rf, false
			} else {
				acc = acc.intersect(rf)
			}
		}
	}
	if first {
		return c15Set{}, true, true
	}
	return acc, false, true
}

func callDescC15(c *ssa.Call) string {
	if obj := calleeObj(c); obj != nil {
		return obj.FullName()
	}
	return c.Call.Value.Name()
}

// edgeFacts: facts established by taking the CFG edge from -> to.
func (c *c15Ctx) edgeFacts(from, to *ssa.BasicBlock, env *c15Env, depth int) c15Set {
	f, _ := c.edgeFactsX(from, to, env, depth)
	return f
}

// edgeFactsX also reports that the edge can never be taken (its condition can
// never have the required value).
func (c *c15Ctx) edgeFactsX(from, to *ssa.BasicBlock, env *c15Env, depth int) (c15Set, bool) {
	out := c15Set{}
	if len(from.Instrs) == 0 || len(from.Succs) != 2 || from.Succs[0] == from.Succs[1] {
		return out, false
	}
	ifi, ok := from.Instrs[len(from.Instrs)-1].(*ssa.If)
	if !ok {
		return out, false
	}
	return c.factsWhen(ifi.Cond, from.Succs[0] == to, env, depth+1)
}

// at: the facts known at block b of activation env: the paths inside the
// function combined with the facts known where the activation was entered.
func (c *c15Ctx) at(b *ssa.BasicBlock, env *c15Env) []c15Set {
	local := c.paths(b, env)
	if env == nil || len(env.pre) == 0 {
		return local
	}
	var out []c15Set
	seen := map[string]bool{}
	for _, p := range env.pre {
		for _, l := range local {
			u := p.union(l)
			if u.contradictory() {
				continue
			}
			k := strings.Join(u.keys(), "&")
			if !seen[k] {
				seen[k] = true
				out = append(out, u)
			}
		}
	}
	if len(out) > 256 {
		acc := out[0]
		for _, s := range out[1:] {
			acc = acc.intersect(s)
		}
		out = []c15Set{acc}
	}
	return out
}

// domFacts: facts established by the branch edges that dominate b.
func (c *c15Ctx) domFacts(b *ssa.BasicBlock, env *c15Env, depth int) c15Set {
	out := c15Set{}
	if depth > 8 {
		return out
	}
	for _, dc := range domConds(b) {
		f, _ := c.factsWhen(dc.If.Cond, dc.Branch, env, depth+1)
		out = out.union(f)
	}
	return out
}

func (x *c15X) newCtx() *c15Ctx { return &c15Ctx{x: x, seen: map[ssa.Value]bool{}} }

// ------------------------------------------------------------------- cases

// c15Case: on some path the value is V (in Env) and Facts hold.
type c15Case struct {
	V     ssa.Value
	Env   *c15Env
	Facts c15Set
}

// cases splits v over phis and single-result in-module helpers. Facts are
// the facts at the use plus those of every edge/return chosen.
func (c *c15Ctx) cases(v ssa.Value, env *c15Env, facts c15Set, depth int) []c15Case {
	x := c.x
	sv, senv := x.strip(v, env)
	if depth > 6 {
		return []c15Case{{sv, senv, facts}}
	}
	idx := 0
	call, _ := sv.(*ssa.Call)
	if ex, ok := sv.(*ssa.Extract); ok {
		if cl, ok := ex.Tuple.(*ssa.Call); ok {
			call, idx = cl, ex.Index
		}
	}
	switch t := sv.(type) {
	case *ssa.Phi:
		if c.seen[t] {
			return []c15Case{{sv, senv, facts}}
		}
		c.seen[t] = true
		defer delete(c.seen, t)
		var out []c15Case
		blk := t.Block()
		for i, ev := range t.Edges {
			pred := blk.Preds[i]
			edge, never := c.edgeFactsX(pred, blk, senv, depth+1)
			if never {
				continue
			}
			for _, ps := range c.paths(pred, senv) {
				ef := facts.union(ps).union(edge)
				if ef.contradictory() {
					continue
				}
				out = append(out, c.cases(ev, senv, ef, depth+1)...)
			}
		}
		return out
	}
	if call != nil && senv.depthOf() < 6 {
		ts, unknown := x.callTargets(&call.Call, senv)
		ok := !unknown && len(ts) > 0
		for _, tg := range ts {
			if !x.inlinable(tg.Fn) || tg.Fn.Signature.Results().Len() <= idx {
				ok = false
			}
		}
		if ok {
			var out []c15Case
			for _, tg := range ts {
				nenv := x.activate(tg, call.Call.Args, senv, call, "call")
				for _, b := range tg.Fn.Blocks {
					if (b.Index != 0 && len(b.Preds) == 0) || len(b.Instrs) == 0 {
						continue
					}
					ret, isRet := b.Instrs[len(b.Instrs)-1].(*ssa.Return)
					if !isRet || len(ret.Results) <= idx {
						continue
					}
					for _, ps := range c.paths(b, nenv) {
						rf := facts.union(ps)
						if rf.contradictory() {
							continue
						}
						out = append(out, c.cases(ret.Results[idx], nenv, rf, depth+1)...)
					}
				}
			}
			if len(out) > 0 {
				return out
			}
		}
	}
	return []c15Case{{sv, senv, facts}}
}

// ---------------------------------------------------------- small queries

// has reports whether some fact satisfies pred.
func (s c15Set) has(pred func(f c15Fact) bool) bool {
	for _, f := range s {
		if pred(f) {
			return true
		}
	}
	return false
}

// gt: the set proves a > b (terms selected by predicates).
func (s c15Set) gt(a, b func(c15Term) bool) bool {
	return s.has(func(f c15Fact) bool { return f.Op == ">" && a(f.X) && b(f.Y) })
}

// ge: the set proves a >= b.
func (s c15Set) ge(a, b func(c15Term) bool) bool {
	return s.has(func(f c15Fact) bool {
		switch f.Op {
		case ">", ">=":
			return a(f.X) && b(f.Y)
		case "==":
			return (a(f.X) && b(f.Y)) || (a(f.Y) && b(f.X))
		}
		return false
	})
}

func isKind(k c15Kind) func(c15Term) bool { return func(t c15Term) bool { return t.Kind == k } }
func isKey(k string) func(c15Term) bool   { return func(t c15Term) bool { return t.Key == k } }

// positive: the set proves t > 0 (t > c with c >= 0, or t >= c with c >= 1).
func (s c15Set) positive(a func(c15Term) bool) bool {
	return s.has(func(f c15Fact) bool {
		if !a(f.X) || f.Y.Kind != c15Const {
			return false
		}
		return (f.Op == ">" && f.Y.Int >= 0) || (f.Op == ">=" && f.Y.Int >= 1) || (f.Op == "==" && f.Y.Int >= 1)
	}) || s.has(func(f c15Fact) bool { // canonical order of == may put the constant first
		return f.Op == "==" && a(f.Y) && f.X.Kind == c15Const && f.X.Int >= 1
	})
}

// nonPositive: the set proves t <= 0.
func (s c15Set) nonPositive(a func(c15Term) bool) bool {
	return s.has(func(f c15Fact) bool {
		if f.X.Kind == c15Const && a(f.Y) {
			return (f.Op == ">=" && f.X.Int <= 0) || (f.Op == ">" && f.X.Int <= 1) || (f.Op == "==" && f.X.Int <= 0)
		}
		if f.Op == "==" && a(f.X) && f.Y.Kind == c15Const {
			return f.Y.Int <= 0
		}
		return false
	})
}

// c15ExpDecodable: every read of the expiry field in fns feeds only
// comparisons the decoder understands (so a missing fact means a missing
// test, not an undecoded one).
func c15ExpDecodable(fns []*ssa.Function, cfg c15Cfg) (bool, string) {
	ok, why := true, ""
	bad := func(in ssa.Instruction) {
		ok = false
		why = "the expiry flows into `" + in.String() + "`"
	}
	var checkUses func(v ssa.Value, depth int)
	checkUses = func(v ssa.Value, depth int) {
		for _, r := range refs(v) {
			switch t := r.(type) {
			case *ssa.DebugRef:
			case *ssa.Call:
				obj := calleeObj(t)
				if g := staticCallee(t); g != nil && len(g.Blocks) > 0 && g.Pkg != nil && depth < 3 && strings.HasPrefix(cfg.EntryT, g.Pkg.Pkg.Path()+".") {
					// passed on to a helper of the program: follow the parameter
					for i, a := range t.Call.Args {
						if a == v && i < len(g.Params) {
							checkUses(g.Params[i], depth+1)
						}
					}
					continue
				}
				if obj == nil || obj.Pkg() == nil || (obj.Pkg().Path() != "time" && obj.Name() != "Since" && obj.Name() != "Until") {
					bad(r)
					continue
				}
				switch obj.Name() {
				case "After", "Before", "Equal":
				case "Compare", "Sub", "Since", "Until":
					for _, rr := range refs(t) {
						bo, isB := rr.(*ssa.BinOp)
						if _, isD := rr.(*ssa.DebugRef); isD {
							continue
						}
						if !isB || !(isZeroConst(bo.X) || isZeroConst(bo.Y)) {
							bad(rr)
						}
					}
				default:
					bad(r)
				}
			case *ssa.ChangeType:
				if depth < 3 {
					checkUses(t, depth+1)
				} else {
					bad(r)
				}
			default:
				bad(r)
			}
		}
	}
	for _, fn := range fns {
		allInstrs(fn, func(in ssa.Instruction) {
			switch t := in.(type) {
			case *ssa.FieldAddr:
				if id := fieldIDOfAddr(t); id.Type == cfg.EntryT && id.Field == cfg.ExpF {
					for _, r := range refs(t) {
						if u, isU := r.(*ssa.UnOp); isU && u.Op == token.MUL {
							checkUses(u, 0)
						} else if _, isD := r.(*ssa.DebugRef); !isD {
							bad(r)
						}
					}
				}
			case *ssa.Field:
				if id := fieldIDOfField(t); id.Type == cfg.EntryT && id.Field == cfg.ExpF {
					checkUses(t, 0)
				}
			}
		})
	}
	return ok, why
}

// ------------------------------------------------------ following the calls

// c15Site is an instruction in one activation.
type c15Site struct {
	In  ssa.Instruction
	Env *c15Env
}

func c15LiveBlock(b *ssa.BasicBlock) bool { return b.Index == 0 || len(b.Preds) > 0 }

func (x *c15X) onStack(env *c15Env, f *ssa.Function) bool {
	for e := env; e != nil; e = e.up {
		if e.fn == f {
			return true
		}
	}
	return false
}

// c15TableElems: v is an element, selected by a variable index, of a literal
// array / slice of func values; returns the element values in table order.
func c15TableElems(v ssa.Value) ([]ssa.Value, *ssa.IndexAddr, bool) {
	u, ok := v.(*ssa.UnOp)
	if !ok || u.Op != token.MUL {
		return nil, nil, false
	}
	ia, ok := u.X.(*ssa.IndexAddr)
	if !ok {
		return nil, nil, false
	}
	if _, isConst := ia.Index.(*ssa.Const); isConst {
		return nil, nil, false
	}
	base := ia.X
	if sl, isSl := base.(*ssa.Slice); isSl {
		base = sl.X
	}
	arr, ok := base.(*ssa.Alloc)
	if !ok {
		return nil, nil, false
	}
	at, ok := deref(arr.Type()).Underlying().(*types.Array)
	if !ok {
		return nil, nil, false
	}
	if _, isSig := at.Elem().Underlying().(*types.Signature); !isSig {
		return nil, nil, false
	}
	elems := make([]ssa.Value, at.Len())
	for _, r := range refs(arr) {
		ea, isEA := r.(*ssa.IndexAddr)
		if !isEA || ea == ia {
			continue
		}
		kc, isK := ea.Index.(*ssa.Const)
		if !isK {
			continue
		}
		i := int(kc.Int64())
		for _, rr := range refs(ea) {
			if st, isSt := rr.(*ssa.Store); isSt && st.Addr == ea && i >= 0 && i < len(elems) {
				if elems[i] != nil {
					return nil, nil, false
				}
				elems[i] = st.Val
			}
		}
	}
	for _, e := range elems {
		if e == nil {
			return nil, nil, false
		}
	}
	return elems, ia, len(elems) > 0
}

// c15TableLoopRunsAll: the call of a table element (index ia.Index) sits in a
// counted loop whose every iteration executes it and which is left only by
// its header test (no break / return in the body): all elements run, in order.
func c15TableLoopRunsAll(ia *ssa.IndexAddr, call ssa.Instruction) bool {
	var phi *ssa.Phi
	switch t := ia.Index.(type) {
	case *ssa.Phi:
		phi = t
	case *ssa.BinOp:
		if p, ok := t.X.(*ssa.Phi); ok && t.Op == token.ADD {
			phi = p
		}
	}
	if phi == nil {
		return false
	}
	h := phi.Block()
	reach := func(from *ssa.BasicBlock) bool { return reachableFrom(from, nil)[h] }
	nLatch := 0
	for _, p := range h.Preds {
		if h.Dominates(p) {
			nLatch++
			if !call.Block().Dominates(p) && call.Block() != p {
				return false
			}
		}
	}
	if nLatch == 0 {
		return false
	}
	for _, b := range h.Parent().Blocks {
		if b == h || !h.Dominates(b) || !reach(b) {
			continue
		}
		for _, s := range b.Succs {
			if s != h && !reach(s) && len(s.Succs) > 0 {
				return false // leaves the loop from its body
			}
			if s != h && !reach(s) {
				if _, isRet := s.Instrs[len(s.Instrs)-1].(*ssa.Return); isRet {
					return false
				}
			}
		}
	}
	return true
}

// walk visits every instruction executed by an activation of fn, following
// calls (static, bound methods, closures, func values with known targets,
// go / defer) into the functions of the program, and function-typed arguments
// handed to code outside the program (ForEach callbacks, sync.Once.Do, …),
// which are visited as activations of kind "callback" entered at that call.
// skip(f) stops the descent into f. unknown is called for calls through func
// values whose targets cannot be resolved.
func (x *c15X) walk(ctx *c15Ctx, fn *ssa.Function, env *c15Env, skip func(*ssa.Function) bool, visit func(in ssa.Instruction, env *c15Env), unknown func(in ssa.Instruction, env *c15Env)) {
	root := fn
	var rec func(fn *ssa.Function, env *c15Env)
	tab := 0
	enter := func(tg c15Target, args []ssa.Value, env *c15Env, in ssa.Instruction, how string) {
		if !x.inlinable(tg.Fn) || (skip != nil && skip(tg.Fn)) || x.onStack(env, tg.Fn) || tg.Fn == root || env.depthOf() > 8 {
			return
		}
		nenv := x.activate(tg, args, env, in, how)
		nenv.tab = tab
		nenv.pre = ctx.at(in.Block(), env)
		rec(tg.Fn, nenv)
	}
	rec = func(fn *ssa.Function, env *c15Env) {
		for _, b := range fn.Blocks {
			if !c15LiveBlock(b) {
				continue
			}
			for _, in := range b.Instrs {
				visit(in, env)
				ci, ok := in.(ssa.CallInstruction)
				if !ok {
					continue
				}
				cc := ci.Common()
				how := "call"
				switch in.(type) {
				case *ssa.Go:
					how = "go"
				case *ssa.Defer:
					how = "defer"
				}
				// a step taken from a literal table: every element, in table order
				if elems, _, isTab := c15TableElems(cc.Value); isTab {
					for i, e := range elems {
						fts, unk := x.funcValues(e, env, 0)
						if unk && unknown != nil {
							unknown(in, env)
						}
						tab = i + 1
						for _, tg := range fts {
							enter(tg, cc.Args, env, in, how)
						}
						tab = 0
					}
					continue
				}
				ts, unk := x.callTargets(cc, env)
				if unk && unknown != nil {
					unknown(in, env)
				}
				internal := false
				for _, tg := range ts {
					if x.inlinable(tg.Fn) {
						internal = true
						enter(tg, cc.Args, env, in, how)
					}
				}
				if internal || unk {
					continue
				}
				// the callee is outside the program: function-typed arguments may run during the call
				for _, a := range cc.Args {
					if _, isSig := a.Type().Underlying().(*types.Signature); !isSig {
						continue
					}
					fts, _ := x.funcValues(a, env, 0)
					for _, tg := range fts {
						enter(tg, nil, env, in, "callback")
					}
				}
			}
		}
	}
	rec(fn, env)
}

// must: every return of the activation (fn, env) is preceded by an instruction
// satisfying ev. Deferred calls count where they run; a call all of whose
// possible targets are functions of the program that themselves always pass ev
// counts. nRet is the number of live returns.
func (x *c15X) must(fn *ssa.Function, env *c15Env, ev func(in ssa.Instruction, env *c15Env) bool, depth int) (ok bool, nRet int, where token.Pos) {
	hit := func(in ssa.Instruction) bool {
		if ev(in, env) {
			return true
		}
		ci, isCall := in.(ssa.CallInstruction)
		if !isCall {
			return false
		}
		if _, isGo := in.(*ssa.Go); isGo {
			return false
		}
		if depth > 4 {
			x.mustUnsure = true
			return false
		}
		if elems, ia, isTab := c15TableElems(ci.Common().Value); isTab {
			if !c15TableLoopRunsAll(ia, in) {
				x.mustUnsure = true
				return false
			}
			// all steps run: the event is passed if some step always passes it
			for _, e := range elems {
				fts, unk := x.funcValues(e, env, 0)
				if unk || len(fts) == 0 {
					x.mustUnsure = true
					continue
				}
				all := true
				for _, tg := range fts {
					if !x.inlinable(tg.Fn) || x.onStack(env, tg.Fn) || tg.Fn == fn {
						all = false
						continue
					}
					o, n, _ := x.must(tg.Fn, x.activate(tg, ci.Common().Args, env, in, "call"), ev, depth+1)
					if !o || n == 0 {
						all = false
					}
				}
				if all {
					return true
				}
			}
			return false
		}
		ts, unk := x.callTargets(ci.Common(), env)
		if unk {
			x.mustUnsure = true
			return false
		}
		if len(ts) == 0 {
			return false
		}
		pass, fail := 0, 0
		for _, tg := range ts {
			if !x.inlinable(tg.Fn) {
				fail++
				continue
			}
			if x.onStack(env, tg.Fn) || tg.Fn == fn {
				x.mustUnsure = true
				return false
			}
			o, n, _ := x.must(tg.Fn, x.activate(tg, ci.Common().Args, env, in, "call"), ev, depth+1)
			if !o || n == 0 {
				fail++
			} else {
				pass++
			}
		}
		if pass > 0 && fail > 0 {
			x.mustUnsure = true // several possible callees (e.g. a loop over a slice of steps): which one runs is not modelled
		}
		return fail == 0 && pass > 0
	}
	// a literal table of steps run by a counted loop executes every step: if one
	// of them always passes the event, the event has been passed when the loop
	// is left (the CFG alone also contains the zero-iteration path)
	tableHeaders := map[*ssa.BasicBlock]bool{}
	memo := map[ssa.Instruction]bool{}
	allInstrs(fn, func(in ssa.Instruction) {
		ci, isCall := in.(ssa.CallInstruction)
		if !isCall {
			return
		}
		if _, ia, isTab := c15TableElems(ci.Common().Value); isTab && c15TableLoopRunsAll(ia, in) {
			if memo[in] = hit(in); memo[in] {
				switch t := ia.Index.(type) {
				case *ssa.Phi:
					tableHeaders[t.Block()] = true
				case *ssa.BinOp:
					if p, ok := t.X.(*ssa.Phi); ok {
						tableHeaders[p.Block()] = true
					}
				}
			}
		}
	})
	var ff *FlagFlow
	ff = &FlagFlow{Fn: fn, Must: true, Transfer: func(in ssa.Instruction, st uint64) uint64 {
		if _, isD := in.(*ssa.Defer); isD && !ff.Replaying {
			return st
		}
		if v, done := memo[in]; done {
			if v {
				return st | 1
			}
			return st
		}
		if hit(in) {
			return st | 1
		}
		return st
	}, EdgeTransfer: func(from, to *ssa.BasicBlock, st uint64) uint64 {
		if tableHeaders[from] && !reachableFrom(to, nil)[from] {
			return st | 1
		}
		return st
	}}
	ff.Run()
	ok = true
	ff.AtReturns(func(ret *ssa.Return, st uint64) {
		if !c15LiveBlock(ret.Block()) {
			return
		}
		nRet++
		if st&1 == 0 {
			ok = false
			where = instrPos(ret)
		}
	})
	return
}

// feasibleMust: on every feasible acyclic path of the activation (fn, env)
// from entry to a return, an instruction satisfying ev is executed. Paths
// whose branch conditions can never hold in this activation (a predicate
// bound to a closure that always returns true, a func value known to be nil,
// contradictory tests) are not paths.
func (c *c15Ctx) feasibleMust(fn *ssa.Function, env *c15Env, ev func(in ssa.Instruction) bool) (ok bool, where token.Pos, witness c15Set) {
	ok = true
	onPath := map[*ssa.BasicBlock]bool{}
	budget := 4096
	var dfs func(b *ssa.BasicBlock, facts c15Set, seen bool)
	dfs = func(b *ssa.BasicBlock, facts c15Set, seen bool) {
		if budget <= 0 || !ok {
			return
		}
		budget--
		onPath[b] = true
		defer delete(onPath, b)
		for _, in := range b.Instrs {
			if ev(in) {
				seen = true
			}
			if ret, isRet := in.(*ssa.Return); isRet && !seen {
				ok, where, witness = false, instrPos(ret), facts
				return
			}
		}
		for _, s := range b.Succs {
			if onPath[s] {
				continue
			}
			ef, never := c.edgeFactsX(b, s, env, 0)
			if never {
				continue
			}
			u := facts.union(ef)
			if u.contradictory() {
				continue
			}
			dfs(s, u, seen)
		}
	}
	if len(fn.Blocks) > 0 {
		starts := []c15Set{{}}
		if env != nil && len(env.pre) > 0 {
			starts = env.pre
		}
		for _, st := range starts {
			dfs(fn.Blocks[0], st, false)
		}
	}
	return
}

// c15Reach: starting at the terminator of block `from` reached through
// `pred` (nil = mid-block start), with the boolean values in known, can
// control reach block target again? 0 = no; 1 = only through branches whose
// outcome is not determined; 2 = yes, through jumps and determined branches
// only. Reaching a return calls atReturn with the values known there.
func c15Reach(from, pred, target *ssa.BasicBlock, known map[ssa.Value]bool, atReturn func(ret *ssa.Return, known map[ssa.Value]bool, certain bool)) int {
	best := 0
	type key struct {
		b, p    *ssa.BasicBlock
		certain bool
	}
	visited := map[key]bool{}
	var eval func(v ssa.Value, kn map[ssa.Value]bool) (bool, bool)
	eval = func(v ssa.Value, kn map[ssa.Value]bool) (bool, bool) {
		if b, ok := kn[v]; ok {
			return b, true
		}
		switch t := v.(type) {
		case *ssa.Const:
			if t.Value != nil && t.Value.Kind() == constant.Bool {
				return constant.BoolVal(t.Value), true
			}
		case *ssa.UnOp:
			if t.Op == token.NOT {
				if b, ok := eval(t.X, kn); ok {
					return !b, true
				}
			}
		case *ssa.BinOp:
			if t.Op == token.EQL || t.Op == token.NEQ {
				a, oka := eval(t.X, kn)
				b, okb := eval(t.Y, kn)
				if oka && okb {
					return (a == b) == (t.Op == token.EQL), true
				}
			}
		}
		return false, false
	}
	var visit func(b, p *ssa.BasicBlock, kn map[ssa.Value]bool, certain bool, first bool)
	visit = func(b, p *ssa.BasicBlock, kn map[ssa.Value]bool, certain bool, first bool) {
		if !first {
			if b == target {
				if certain {
					best = 2
				} else if best < 1 {
					best = 1
				}
				return
			}
			k := key{b, p, certain}
			if visited[k] {
				return
			}
			visited[k] = true
			// phis take the value of the edge we came through
			if p != nil {
				nk := map[ssa.Value]bool{}
				for a, v := range kn {
					nk[a] = v
				}
				for _, in := range b.Instrs {
					phi, ok := in.(*ssa.Phi)
					if !ok {
						break
					}
					delete(nk, phi)
					for i, pr := range b.Preds {
						if pr == p && i < len(phi.Edges) {
							if val, ok := eval(phi.Edges[i], kn); ok {
								nk[phi] = val
							}
						}
					}
				}
				kn = nk
			}
		}
		if len(b.Instrs) == 0 {
			return
		}
		switch t := b.Instrs[len(b.Instrs)-1].(type) {
		case *ssa.Return:
			if atReturn != nil {
				atReturn(t, kn, certain)
			}
		case *ssa.If:
			if val, ok := eval(t.Cond, kn); ok {
				if val {
					visit(b.Succs[0], b, kn, certain, false)
				} else {
					visit(b.Succs[1], b, kn, certain, false)
				}
				return
			}
			visit(b.Succs[0], b, kn, false, false)
			visit(b.Succs[1], b, kn, false, false)
		default:
			for _, s := range b.Succs {
				visit(s, b, kn, certain, false)
			}
		}
	}
	visit(from, pred, known, true, true)
	return best
}
