package main

// C01.R2 — id/name tables, JSON, getCipher, Manifest tags.

import (
	"fmt"
	"go/constant"
	"go/types"
	"reflect"
	"sort"
	"strings"

	"golang.org/x/tools/go/ssa"
)

const c01R2 = "C01.R2-tables"

// constsOfType lists the string constants of the named type declared in the package.
func (x *c01Ctx) constsOfType(named *types.Named) []string {
	var out []string
	scope := x.p.Pkg(c01Rel).Types.Scope()
	for _, n := range scope.Names() {
		if c, ok := scope.Lookup(n).(*types.Const); ok && types.Identical(c.Type(), named) && c.Val().Kind() == constant.String {
			out = append(out, constant.StringVal(c.Val()))
		}
	}
	sort.Strings(out)
	return out
}

type c01Table struct {
	x        *c01Ctx
	kind     string // "KeyAlgorithm" / "Cipher"
	validate *ssa.Function
	id       *ssa.Function
	fromID   *ssa.Function
	foldCase bool
}

// evalOne runs fn with its first parameter bound to k and requires a unique result tuple.
func (t *c01Table) evalOne(fn *ssa.Function, k constant.Value) ([]c01Val, bool) {
	if len(fn.Params) == 0 {
		return nil, false
	}
	rets, ok := c01Eval(fn, c01Env{Params: map[*ssa.Parameter]constant.Value{fn.Params[0]: k}})
	if !ok || len(rets) == 0 {
		return nil, false
	}
	for _, r := range rets[1:] {
		if len(r) != len(rets[0]) {
			return nil, false
		}
		for i := range r {
			if r[i].String() != rets[0][i].String() {
				return nil, false
			}
		}
	}
	return rets[0], true
}

// Validate(name) -> (canonical, accepted, decided)
func (t *c01Table) doValidate(name string) (string, bool, bool) {
	res, ok := t.evalOne(t.validate, constant.MakeString(name))
	if !ok || len(res) != 2 {
		return "", false, false
	}
	switch c01ErrState(res[1]) {
	case "nil":
		if res[0].known() && res[0].K.Kind() == constant.String {
			return constant.StringVal(res[0].K), true, true
		}
		return "", false, false
	case "nonnil":
		return "", false, true
	}
	return "", false, false
}

func (t *c01Table) doID(name string) (int64, bool) {
	res, ok := t.evalOne(t.id, constant.MakeString(name))
	if !ok || len(res) != 1 || !res[0].known() || res[0].K.Kind() != constant.Int {
		return 0, false
	}
	v, ok := constant.Int64Val(res[0].K)
	return v, ok
}

// FromID(id) -> (name, accepted, decided)
func (t *c01Table) doFromID(id int64) (string, bool, bool) {
	res, ok := t.evalOne(t.fromID, constant.MakeInt64(id))
	if !ok || len(res) != 2 {
		return "", false, false
	}
	switch c01ErrState(res[1]) {
	case "nil":
		if res[0].known() && res[0].K.Kind() == constant.String {
			return constant.StringVal(res[0].K), true, true
		}
	case "nonnil":
		return "", false, true
	}
	return "", false, false
}

func (t *c01Table) same(a, b string) bool {
	if t.foldCase {
		return strings.EqualFold(a, b)
	}
	return a == b
}

func (t *c01Table) check(specRows map[int64]string, declared []string) (accepted []string) {
	r, p := t.x.r, t.x.p
	pos := p.Pos(t.validate.Pos())
	ids := make([]int64, 0, len(specRows))
	for id := range specRows {
		ids = append(ids, id)
	}
	sort.Slice(ids, func(i, j int) bool { return ids[i] < ids[j] })
	for _, id := range ids {
		want := specRows[id]
		cons := fmt.Sprintf("README %s 0x%02x = %s", t.kind, id, want)
		name, acc, dec := t.doFromID(id)
		if !dec {
			r.Undecide("C01.R2: cannot evaluate %s on id %d", FuncName(p, t.fromID), id)
			continue
		}
		if !acc || !t.same(name, want) {
			r.Violation(c01R2, cons, p.Pos(t.fromID.Pos()), fmt.Sprintf("the spec assigns id %d to %s but %s(%d) gives %q (accepted=%v): a document written by a spec implementation with this id is rejected or decrypted with the wrong algorithm", id, want, t.fromID.Name(), id, name, acc))
			continue
		}
		gotID, ok := t.doID(name)
		if !ok {
			r.Undecide("C01.R2: cannot evaluate %s on %q", FuncName(p, t.id), name)
			continue
		}
		canon, vacc, vdec := t.doValidate(name)
		if !vdec {
			r.Undecide("C01.R2: cannot evaluate %s on %q", FuncName(p, t.validate), name)
			continue
		}
		r.Check(gotID == id && vacc && canon == name, c01R2, cons, pos, "FromID, ID and Validate agree with the spec row",
			fmt.Sprintf("%q: ID()=%d (spec id %d), Validate accepted=%v -> %q: Encrypt with this algorithm writes an id the spec assigns to something else, or Decrypt rejects its own output", name, gotID, id, vacc, canon))
	}
	for _, c := range declared {
		canon, acc, dec := t.doValidate(c)
		if !dec {
			r.Undecide("C01.R2: cannot evaluate %s on %q", FuncName(p, t.validate), c)
			continue
		}
		if !acc {
			continue
		}
		accepted = append(accepted, canon)
		cons := fmt.Sprintf("%s %q round trip", t.kind, c)
		id, ok := t.doID(canon)
		if !ok {
			r.Undecide("C01.R2: cannot evaluate %s on %q", FuncName(p, t.id), canon)
			continue
		}
		back, bacc, bdec := t.doFromID(id)
		canon2, acc2, dec2 := t.doValidate(back)
		if !bdec || (bacc && !dec2) {
			r.Undecide("C01.R2: cannot evaluate the id round trip of %q", c)
			continue
		}
		_, inSpec := specRows[id]
		r.Check(bacc && back == canon && acc2 && canon2 == canon && inSpec, c01R2, cons, pos,
			fmt.Sprintf("Validate(%q)=%q -> id %d -> %q -> Validate ok; id is in the README table", c, canon, id, back),
			fmt.Sprintf("Encrypt accepts %q (canonical %q) and writes id %d into the manifest, but reading id %d back gives %q (accepted=%v, revalidated=%q/%v, id in spec=%v): a document encrypted with this option cannot be decrypted with the same algorithm", c, canon, id, id, back, bacc, canon2, acc2, inSpec))
		if c != canon {
			if aid, ok := t.doID(c); ok && aid != id {
				r.Note("C01.R2: alias %q has ID %d but its canonical name %q has ID %d (not armed: Encrypt canonicalises before marshalling)", c, aid, canon, id)
			}
		}
	}
	return accepted
}

// jsonMethods checks MarshalJSON / UnmarshalJSON of the named type.
func (t *c01Table) jsonMethods(named *types.Named) {
	r, p := t.x.r, t.x.p
	find := func(typ types.Type, name string) *ssa.Function {
		ms := types.NewMethodSet(typ)
		sel := ms.Lookup(named.Obj().Pkg(), name)
		if sel == nil {
			sel = ms.Lookup(nil, name)
		}
		if sel == nil {
			return nil
		}
		f, _ := sel.Obj().(*types.Func)
		if f == nil {
			return nil
		}
		return p.SSA.FuncValue(f)
	}
	// Marshal (value method set: json.Marshal of a struct field of this type sees it)
	cons := t.kind + ".MarshalJSON"
	m := find(named, "MarshalJSON")
	if m == nil || m.Signature.Params().Len() != 0 || m.Signature.Results().Len() != 2 {
		r.Violation(c01R2, cons, p.Pos(t.id.Pos()), "type "+t.kind+" has no MarshalJSON() ([]byte, error) in its value method set: encoding/json writes the name as a JSON string, but the spec's manifest carries the numeric id")
	} else {
		dependsID, fmtOK := false, false
		for _, b := range m.Blocks {
			if len(b.Instrs) == 0 {
				continue
			}
			ret, ok := b.Instrs[len(b.Instrs)-1].(*ssa.Return)
			if !ok || len(ret.Results) == 0 {
				continue
			}
			for _, c := range c01ConeCalls(ret.Results[0]) {
				if staticCallee(c) == t.id {
					dependsID = true
				}
				if obj := calleeObj(c); obj != nil && obj.Pkg() != nil && obj.Pkg().Path() == "strconv" {
					switch obj.Name() {
					case "Itoa", "FormatInt", "AppendInt", "FormatUint", "AppendUint":
						fmtOK = true
					}
				}
			}
		}
		switch {
		case !dependsID:
			r.Violation(c01R2, cons, p.Pos(m.Pos()), "MarshalJSON does not derive its output from "+t.kind+".ID(): the manifest no longer carries the id the README table defines")
		case !fmtOK:
			r.Undecide("C01.R2: %s formats the id with something other than strconv Itoa/Format/Append", cons)
		default:
			r.OK(c01R2, cons, p.Pos(m.Pos()), "JSON value = decimal ID()")
		}
	}
	// Unmarshal
	cons = t.kind + ".UnmarshalJSON"
	u := find(types.NewPointer(named), "UnmarshalJSON")
	if u == nil || u.Signature.Params().Len() != 1 {
		r.Violation(c01R2, cons, p.Pos(t.fromID.Pos()), "type *"+t.kind+" has no UnmarshalJSON([]byte) error: a numeric id in a manifest cannot be decoded into the string-typed field")
		return
	}
	okStore, parse := false, false
	allInstrs(u, func(in ssa.Instruction) {
		st, ok := in.(*ssa.Store)
		if !ok || len(u.Params) == 0 || st.Addr != u.Params[0] {
			return
		}
		for _, c := range c01ConeCalls(st.Val) {
			if staticCallee(c) == t.fromID {
				okStore = true
				for _, a := range c.Call.Args {
					for _, c2 := range c01ConeCalls(a) {
						if obj := calleeObj(c2); obj != nil && obj.Pkg() != nil && obj.Pkg().Path() == "strconv" {
							switch obj.Name() {
							case "Atoi", "ParseInt", "ParseUint":
								parse = len(u.Params) > 1 && c01DependsOn(c2, u.Params[1])
							}
						}
					}
				}
			}
		}
	})
	switch {
	case !okStore:
		r.Violation(c01R2, cons, p.Pos(u.Pos()), "UnmarshalJSON does not store the result of "+t.fromID.Name()+"(id) into the receiver: the id written by Encrypt (or by a spec implementation) is not mapped back through the table")
	case !parse:
		r.Undecide("C01.R2: %s does not parse its input with strconv.Atoi/ParseInt", cons)
	default:
		r.OK(c01R2, cons, p.Pos(u.Pos()), "receiver = FromID(Atoi(data))")
	}
}

func (x *c01Ctx) tables() {
	r, p := x.r, x.p
	ka := p.Named(c01Rel, "KeyAlgorithm")
	ci := p.Named(c01Rel, "Cipher")
	tk := &c01Table{x: x, kind: "KeyAlgorithm", validate: p.Func(c01Rel, "KeyAlgorithm.Validate"), id: p.Func(c01Rel, "KeyAlgorithm.ID"), fromID: p.Func(c01Rel, "NewKeyAlgorithmFromID")}
	tc := &c01Table{x: x, kind: "Cipher", validate: p.Func(c01Rel, "Cipher.Validate"), id: p.Func(c01Rel, "Cipher.ID"), fromID: p.Func(c01Rel, "NewCipherFromID"), foldCase: true}
	tk.check(x.spec.KeyAlgs, x.constsOfType(ka))
	ciphers := tc.check(x.spec.Ciphers, x.constsOfType(ci))
	tk.jsonMethods(ka)
	tc.jsonMethods(ci)

	// getCipher: every accepted cipher gets the AEAD the spec names, keyed by the payload key
	gc := x.aeadFactory()
	if gc == nil {
		r.Undecide("C01.R2: no function constructing the AEAD (cipher.NewGCM / chacha20poly1305.New) found in %s", c01Rel)
	} else {
		seen := map[string]bool{}
		for _, name := range ciphers {
			if seen[name] {
				continue
			}
			seen[name] = true
			cons := "getCipher " + name
			rets, ok := c01Eval(gc, c01Env{Fields: map[string]constant.Value{x.cipherFieldName(gc): constant.MakeString(name)}})
			if !ok {
				r.Undecide("C01.R2: cannot evaluate %s for cipher %q", FuncName(p, gc), name)
				continue
			}
			var ctor []string
			for _, ret := range rets {
				if len(ret) == 0 || ret[0].IsNil || ret[0].Src == nil {
					continue
				}
				ctor = append(ctor, x.aeadCtor(ret[0].Src))
			}
			want := ""
			switch strings.ToUpper(name) {
			case "AES-GCM":
				want = "crypto/cipher.NewGCM(crypto/aes.NewCipher)"
			case "CHACHA20-POLY1305":
				want = "golang.org/x/crypto/chacha20poly1305.New"
			default:
				r.Undecide("C01.R2: accepted cipher %q is not one the checker has a constructor model for", name)
				continue
			}
			good := len(ctor) > 0
			for _, c := range ctor {
				if c != want {
					good = false
				}
			}
			r.Check(good, c01R2, cons, p.Pos(gc.Pos()), "built with "+want,
				fmt.Sprintf("cipher %q is accepted by Validate but %s builds %v for it (want %s): segments cannot be sealed/opened with the AEAD the spec names for this id", name, gc.Name(), ctor, want))
		}
	}

	// Manifest JSON tags and field types vs README
	mf := p.Named(c01Rel, "Manifest")
	st, _ := mf.Underlying().(*types.Struct)
	if st == nil {
		r.Undecide("C01.R2: Manifest is no longer a struct")
		return
	}
	fields := make([]string, 0, len(x.spec.Tags))
	for f := range x.spec.Tags {
		fields = append(fields, f)
	}
	sort.Strings(fields)
	for _, f := range fields {
		cons := "Manifest." + f + " json tag"
		found := false
		for i := 0; i < st.NumFields(); i++ {
			if st.Field(i).Name() != f {
				continue
			}
			found = true
			tag := reflect.StructTag(st.Tag(i)).Get("json")
			good := tag == x.spec.Tags[f]
			msg := fmt.Sprintf("json tag is %q, the README says %q: a spec implementation does not find the field", tag, x.spec.Tags[f])
			// field type: []byte stays []byte; int ids are named types with the JSON methods (checked above); string stays string
			ft := st.Field(i).Type()
			switch x.spec.FieldTypes[f] {
			case "[]byte":
				if sl, ok := ft.Underlying().(*types.Slice); !ok || !types.Identical(sl.Elem(), types.Typ[types.Byte]) {
					good, msg = false, "field is no longer []byte (README: []byte, i.e. base64 in JSON)"
				}
			case "string":
				if b, ok := ft.Underlying().(*types.Basic); !ok || b.Kind() != types.String {
					good, msg = false, "field is no longer a string"
				}
			case "int":
				if !types.Identical(ft, mfType(ka, ci, f)) {
					good, msg = false, "field no longer has the id-marshalling type "+f
				}
			}
			r.Check(good, c01R2, cons, p.Pos(st.Field(i).Pos()), "tag and type match the README struct", msg)
		}
		if !found {
			r.Violation(c01R2, cons, p.Pos(mf.Obj().Pos()), "Manifest has no field "+f+" although the README's manifest has it")
		}
	}
}

func mfType(ka, ci *types.Named, field string) types.Type {
	if field == "Cipher" {
		return ci
	}
	return ka
}

// aeadFactory: the package function that calls cipher.NewGCM or chacha20poly1305.New.
func (x *c01Ctx) aeadFactory() *ssa.Function {
	var out *ssa.Function
	for _, fn := range x.fns {
		allInstrs(fn, func(in ssa.Instruction) {
			if c, ok := in.(*ssa.Call); ok {
				if obj := calleeObj(c); obj != nil && obj.Pkg() != nil {
					pp := obj.Pkg().Path()
					if (pp == "crypto/cipher" && strings.HasPrefix(obj.Name(), "NewGCM")) || strings.HasSuffix(pp, "/chacha20poly1305") {
						out = fn
					}
				}
			}
		})
	}
	return out
}

// cipherFieldName: the receiver field of Cipher type read by the factory.
func (x *c01Ctx) cipherFieldName(fn *ssa.Function) string {
	ci := x.p.Named(c01Rel, "Cipher")
	name := ""
	allInstrs(fn, func(in ssa.Instruction) {
		if v, ok := in.(ssa.Value); ok {
			if id, ok := c01RecvField(fn, v); ok && types.Identical(v.Type(), ci) {
				name = id.Field
			}
		}
	})
	return name
}

// aeadCtor describes how the AEAD value v was built.
func (x *c01Ctx) aeadCtor(v ssa.Value) string {
	ex, ok := v.(*ssa.Extract)
	var call *ssa.Call
	if ok {
		call, _ = ex.Tuple.(*ssa.Call)
	} else {
		call, _ = v.(*ssa.Call)
	}
	if call == nil {
		return "<" + v.String() + ">"
	}
	obj := calleeObj(call)
	if obj == nil || obj.Pkg() == nil {
		return "<dynamic>"
	}
	d := obj.Pkg().Path() + "." + obj.Name()
	if d == "crypto/cipher.NewGCM" && len(call.Call.Args) == 1 {
		if e2, ok := call.Call.Args[0].(*ssa.Extract); ok {
			if c2, ok := e2.Tuple.(*ssa.Call); ok {
				if o2 := calleeObj(c2); o2 != nil && o2.Pkg() != nil {
					return d + "(" + o2.Pkg().Path() + "." + o2.Name() + ")"
				}
			}
		}
	}
	return d
}
