package main

// c03kwflow: which bits of a loop-variant integer (the RFC 3394 step counter
// t = n*j+i) reach a byte-level encoding inside one function.
//
// Every integer SSA value that depends on a loop-carried Phi gets a descriptor
// (shift, width): "this value is (root >> shift) truncated to width bits",
// where a root is a full-width arithmetic combination of loop counters and
// loop-invariant ints. Descriptors are propagated through +,-,*,/,% (full
// width only), >> by a constant, & with a 2^k-1 mask, integer conversions and
// ^,|,& with a loop-invariant operand (bit positions kept). Anything else,
// and a Phi merging different descriptors, is Unknown.
//
// Sinks (where the integer leaves arithmetic):
//   - argument of encoding/binary bigEndian.PutUintN / AppendUintN  -> bits [shift, shift+min(width,N))
//   - stored as a single byte                                        -> bits [shift, shift+min(width,8))
//   - littleEndian.PutUintN / AppendUintN                            -> wrong byte order
//   - any other call argument, wider store, return, interface box    -> unclassified
// Addressing uses (index, slice bound, make length) and comparisons are not sinks.

import (
	"fmt"
	"go/constant"
	"go/token"
	"go/types"
	"strings"

	"golang.org/x/tools/go/ssa"
)

type c03Desc struct {
	known        bool // false = Unknown
	shift, width int
}

type c03CounterFlow struct {
	Coverage     uint64   // union of root bits reaching a classified big-endian / byte sink
	Sinks        []string // description of classified sinks
	LittleEndian []string
	Unclassified []string
}

func c03IntWidth(t types.Type) int {
	b, ok := t.Underlying().(*types.Basic)
	if !ok || b.Info()&types.IsInteger == 0 {
		return 0
	}
	switch b.Kind() {
	case types.Int8, types.Uint8:
		return 8
	case types.Int16, types.Uint16:
		return 16
	case types.Int32, types.Uint32:
		return 32
	}
	return 64
}

func c03Bits(d c03Desc, limit int) uint64 {
	w := d.width
	if limit < w {
		w = limit
	}
	var m uint64
	for b := d.shift; b < d.shift+w && b < 64; b++ {
		if b >= 0 {
			m |= 1 << uint(b)
		}
	}
	return m
}

func c03ConstInt(v ssa.Value) (int64, bool) {
	k, ok := v.(*ssa.Const)
	if !ok || k.Value == nil || k.Value.Kind() != constant.Int {
		return 0, false
	}
	return constant.Int64Val(k.Value)
}

// c03AnalyseCounterFlow runs the descriptor propagation on fn.
func c03AnalyseCounterFlow(p *Prog, fn *ssa.Function) c03CounterFlow {
	desc := map[ssa.Value]c03Desc{} // present = loop-variant
	full := c03Desc{known: true, shift: 0, width: 64}
	get := func(v ssa.Value) (c03Desc, bool) { d, ok := desc[v]; return d, ok }
	changed := true
	set := func(v ssa.Value, d c03Desc) {
		if old, ok := desc[v]; ok {
			if !old.known || old == d {
				return // Unknown is final; equal = no change
			}
			if d.known && d != old {
				d = c03Desc{} // conflicting -> Unknown
			}
		}
		desc[v] = d
		changed = true
	}
	// the functions analysed: fn and, transitively, every same-module function (or closure)
	// that receives a loop-variant integer from one of them
	fset := []*ssa.Function{fn}
	inSet := map[*ssa.Function]bool{fn: true}
	var addAnon func(f *ssa.Function)
	addAnon = func(f *ssa.Function) {
		for _, a := range f.AnonFuncs { // closures see the enclosing function's counters through captured variables
			if !inSet[a] {
				inSet[a] = true
				fset = append(fset, a)
				addAnon(a)
			}
		}
	}
	addAnon(fn)
	// integer variables that live in memory (captured by closures, per-iteration copies of loop
	// variables): a load is loop-variant when the cell is written more than once or the pointer
	// may denote several cells
	var cellsOf func(v ssa.Value, seen map[ssa.Value]bool) []*ssa.Alloc
	cellsOf = func(v ssa.Value, seen map[ssa.Value]bool) []*ssa.Alloc {
		if seen[v] {
			return nil
		}
		seen[v] = true
		switch x := v.(type) {
		case *ssa.Alloc:
			return []*ssa.Alloc{x}
		case *ssa.Phi:
			var out []*ssa.Alloc
			for _, e := range x.Edges {
				out = append(out, cellsOf(e, seen)...)
			}
			return out
		case *ssa.FreeVar:
			if b := resolveFreeVar(x); b != nil {
				return cellsOf(b, seen)
			}
		}
		return nil
	}
	storeCount := map[*ssa.Alloc]int{}
	countStores := func(f *ssa.Function) {
		allInstrs(f, func(in ssa.Instruction) {
			if st, ok := in.(*ssa.Store); ok {
				for _, a := range cellsOf(st.Addr, map[ssa.Value]bool{}) {
					storeCount[a]++
				}
			}
		})
	}
	counted := map[*ssa.Function]bool{}
	addFn := func(g *ssa.Function) {
		if !inSet[g] {
			inSet[g] = true
			fset = append(fset, g)
			changed = true
		}
	}
	follow := func(c ssa.CallInstruction) *ssa.Function {
		g := staticCallee(c)
		if g == nil || c.Common().IsInvoke() || len(g.Blocks) == 0 {
			return nil
		}
		if !p.InModule(g) && !strings.Contains(g.Synthetic, "wrapper") && !strings.Contains(g.Synthetic, "thunk") {
			return nil
		}
		return g
	}
	// every same-module function reachable from fn is analysed: statically called ones (the
	// rounds may live in a phase helper that receives no counter), closures, and functions whose
	// address is taken there (method values, func-typed fields, table elements); a call through
	// a function value hands its loop-variant arguments to every such function of that signature
	var taken []*ssa.Function
	for k := 0; k < len(fset) && len(fset) < 200; k++ {
		allInstrs(fset[k], func(in ssa.Instruction) {
			if c, ok := in.(ssa.CallInstruction); ok {
				if g := follow(c); g != nil {
					addFn(g)
					addAnon(g)
				}
			}
			for _, op := range in.Operands(nil) {
				if op == nil || *op == nil {
					continue
				}
				var g *ssa.Function
				switch v := (*op).(type) {
				case *ssa.Function:
					g = origin(v)
				case *ssa.MakeClosure:
					g, _ = v.Fn.(*ssa.Function)
				}
				if g != nil && len(g.Blocks) > 0 && (p.InModule(g) || strings.Contains(g.Synthetic, "wrapper") || strings.Contains(g.Synthetic, "thunk")) {
					if c, isCall := in.(ssa.CallInstruction); !isCall || c.Common().Value != *op {
						taken = append(taken, g)
					}
					addFn(g)
					addAnon(g)
				}
			}
		})
	}
	for iter := 0; changed && iter < 64; iter++ {
		changed = false
		for k := 0; k < len(fset); k++ {
			if !counted[fset[k]] {
				counted[fset[k]] = true
				countStores(fset[k])
				changed = true
			}
		}
		for k := 0; k < len(fset); k++ {
			allInstrs(fset[k], func(in ssa.Instruction) {
				switch i := in.(type) {
				case ssa.CallInstruction:
					g := follow(i)
					if g == nil {
						if cc := i.Common(); !cc.IsInvoke() && staticCallee(i) == nil {
							if _, isB := cc.Value.(*ssa.Builtin); !isB {
								for _, t := range taken {
									ps := t.Params
									if t.Signature.Recv() != nil && len(ps) > 0 {
										ps = ps[1:]
									}
									if !types.Identical(t.Signature.Params(), cc.Signature().Params()) || len(ps) != len(cc.Args) {
										continue
									}
									for k, a := range cc.Args {
										if d, lv := get(a); lv {
											set(ps[k], d)
										}
									}
								}
							}
						}
						return
					}
					cc := i.Common()
					for k, a := range cc.Args {
						if d, lv := get(a); lv && k < len(g.Params) {
							addFn(g)
							set(g.Params[k], d)
						}
					}
					if mc, ok := cc.Value.(*ssa.MakeClosure); ok {
						for k, b := range mc.Bindings {
							if d, lv := get(b); lv && k < len(g.FreeVars) {
								addFn(g)
								set(g.FreeVars[k], d)
							}
						}
					}
					if v, ok := i.(ssa.Value); ok && inSet[g] && c03IntWidth(v.Type()) > 0 {
						allInstrs(g, func(rin ssa.Instruction) {
							if ret, ok := rin.(*ssa.Return); ok && len(ret.Results) == 1 {
								if d, lv := get(ret.Results[0]); lv {
									set(v, d)
								}
							}
						})
					}
				case *ssa.Phi:
					if c03IntWidth(i.Type()) == 0 {
						return
					}
					d := full
					if c03IntWidth(i.Type()) < 64 {
						d.width = c03IntWidth(i.Type())
					}
					for _, e := range i.Edges {
						if ed, ok := get(e); ok && (!ed.known || ed != d) {
							d = c03Desc{}
							break
						}
					}
					set(i, d)
				case *ssa.BinOp:
					if c03IntWidth(i.Type()) == 0 {
						return
					}
					dx, lx := get(i.X)
					dy, ly := get(i.Y)
					if !lx && !ly {
						return
					}
					switch i.Op {
					case token.ADD, token.SUB, token.MUL, token.QUO, token.REM:
						if (lx && dx != full) || (ly && dy != full) {
							set(i, c03Desc{})
						} else {
							set(i, full)
						}
					case token.SHR:
						if c, ok := c03ConstInt(i.Y); ok && lx && dx.known && c >= 0 && int(c) < dx.width {
							set(i, c03Desc{known: true, shift: dx.shift + int(c), width: dx.width - int(c)})
						} else {
							set(i, c03Desc{})
						}
					case token.AND:
						if c, ok := c03ConstInt(i.Y); ok && lx && dx.known && c > 0 && (c&(c+1)) == 0 {
							k := 0
							for m := c; m > 0; m >>= 1 {
								k++
							}
							if k > dx.width {
								k = dx.width
							}
							set(i, c03Desc{known: true, shift: dx.shift, width: k})
							return
						}
						fallthrough
					case token.XOR, token.OR:
						switch {
						case lx && !ly:
							set(i, dx)
						case ly && !lx:
							set(i, dy)
						default:
							set(i, c03Desc{})
						}
					default:
						set(i, c03Desc{})
					}
				case *ssa.Convert:
					dx, lx := get(i.X)
					if !lx {
						return
					}
					w := c03IntWidth(i.Type())
					if w == 0 || !dx.known {
						set(i, c03Desc{})
						return
					}
					if w < dx.width {
						dx.width = w
					}
					set(i, dx)
				case *ssa.ChangeType:
					if dx, lx := get(i.X); lx {
						set(i, dx)
					}
				case *ssa.UnOp:
					if _, lx := get(i.X); lx && i.Op != token.MUL {
						set(i, c03Desc{})
					}
					if w := c03IntWidth(i.Type()); i.Op == token.MUL && w > 0 {
						cells := cellsOf(i.X, map[ssa.Value]bool{})
						variant := len(cells) > 1
						for _, a := range cells {
							if storeCount[a] > 1 {
								variant = true
							}
						}
						if variant {
							set(i, c03Desc{known: true, shift: 0, width: w})
						}
					}
				}
			})
		}
	}

	var out c03CounterFlow
	pos := func(in ssa.Instruction) string { return p.Pos(instrPos(in)) }
	show := func(d c03Desc) string {
		if !d.known {
			return "a value the analysis cannot express as bits of the counter"
		}
		return fmt.Sprintf("bits %d..%d of the counter", d.shift, d.shift+d.width-1)
	}
	for _, cur := range fset {
		cur := cur
		allInstrs(cur, func(in ssa.Instruction) {
			switch i := in.(type) {
			case *ssa.Store:
				d, lv := get(i.Val)
				if !lv {
					return
				}
				if len(cellsOf(i.Addr, map[ssa.Value]bool{})) > 0 {
					return // the integer moves into a local variable; its loads are followed
				}
				if c03IntWidth(i.Val.Type()) == 8 && d.known {
					out.Coverage |= c03Bits(d, 8)
					out.Sinks = append(out.Sinks, fmt.Sprintf("byte store of %s at %s", show(d), pos(i)))
				} else {
					out.Unclassified = append(out.Unclassified, fmt.Sprintf("store of %s at %s", show(d), pos(i)))
				}
			case ssa.CallInstruction:
				cc := i.Common()
				name := c03CalleeName(i)
				if g := follow(i); g != nil && inSet[g] {
					return // followed into the callee
				}
				if !cc.IsInvoke() && staticCallee(i) == nil {
					if _, isB := cc.Value.(*ssa.Builtin); !isB {
						for _, t := range taken {
							if types.Identical(t.Signature.Params(), cc.Signature().Params()) {
								return // handed to the visible targets of that signature
							}
						}
					}
				}
				for _, a := range cc.Args {
					d, lv := get(a)
					if !lv {
						continue
					}
					n := 0
					switch {
					case strings.HasSuffix(name, "Uint64"):
						n = 64
					case strings.HasSuffix(name, "Uint32"):
						n = 32
					case strings.HasSuffix(name, "Uint16"):
						n = 16
					}
					isPut := strings.HasPrefix(name, "encoding/binary.") && (strings.Contains(name, ".PutUint") || strings.Contains(name, ".AppendUint")) && n > 0
					switch {
					case isPut && strings.Contains(name, ".bigEndian.") && d.known:
						out.Coverage |= c03Bits(d, n)
						out.Sinks = append(out.Sinks, fmt.Sprintf("%s of %s at %s", strings.TrimPrefix(name, "encoding/binary."), show(d), pos(i)))
					case isPut && strings.Contains(name, ".littleEndian."):
						out.LittleEndian = append(out.LittleEndian, fmt.Sprintf("%s at %s", strings.TrimPrefix(name, "encoding/binary."), pos(i)))
					default:
						what := name
						if what == "" {
							what = "a dynamic call"
						}
						out.Unclassified = append(out.Unclassified, fmt.Sprintf("argument of %s at %s", what, pos(i)))
					}
				}
			case *ssa.Return:
				if cur != fn {
					return // flows back to the followed call sites
				}
				for _, rv := range i.Results {
					if _, lv := get(rv); lv {
						out.Unclassified = append(out.Unclassified, "returned at "+pos(i))
					}
				}
			case *ssa.MakeInterface:
				if _, lv := get(i.X); lv {
					out.Unclassified = append(out.Unclassified, "boxed into an interface at "+pos(i))
				}
			case *ssa.MapUpdate:
				if _, lv := get(i.Value); lv {
					out.Unclassified = append(out.Unclassified, "stored into a map at "+pos(i))
				}
			case *ssa.Send:
				if _, lv := get(i.X); lv {
					out.Unclassified = append(out.Unclassified, "sent on a channel at "+pos(i))
				}
			}
		})
	}
	return out
}

// c03CheckCounterEncoding turns the flow facts of fn into one obligation.
// need = number of low bits of the counter that must reach the encoding
// (32: t = 6n+... stays below 2^32 for every input that fits in memory).
func c03CheckCounterEncoding(p *Prog, r *Report, rule, construct string, fn *ssa.Function, need int) {
	fl := c03AnalyseCounterFlow(p, fn)
	pos := p.Pos(fn.Pos())
	var want uint64 = 1<<uint(need) - 1
	switch {
	case len(fl.LittleEndian) > 0:
		r.Violation(rule, construct, pos, "the step counter is serialised little-endian ("+fl.LittleEndian[0]+"); RFC 3394 XORs the 64-bit big-endian encoding of t into A, so every output differs from the standard", fl.LittleEndian...)
	case fl.Coverage&want == want:
		r.OK(rule, construct, pos, "the loop counter reaches a big-endian encoding with at least its low "+fmt.Sprint(need)+" bits: "+strings.Join(fl.Sinks, "; "))
	case len(fl.Unclassified) > 0:
		r.Undecide("%s %s: a loop counter leaves integer arithmetic in a way the analysis does not classify (%s)", rule, construct, fl.Unclassified[0])
		r.Trivial(rule, construct, pos, "undecided (unclassified flow)")
	case len(fl.Sinks) == 0:
		r.Undecide("%s %s: no serialisation of a loop-variant integer found (the step counter encoding has an unknown shape)", rule, construct)
		r.Trivial(rule, construct, pos, "undecided (no sink)")
	case fl.Coverage&want != want:
		missing := 0
		for fl.Coverage&(1<<uint(missing)) != 0 {
			missing++
		}
		r.Violation(rule, construct, pos, fmt.Sprintf("only the low %d bits of the step counter t = n*j+i reach its byte encoding (RFC 3394: MSB64(B) XOR t with t a 64-bit big-endian integer): outputs differ from the standard as soon as t >= %d, i.e. for key data of %d or more 64-bit blocks, although Wrap and Unwrap may stay mutually consistent", missing, 1<<uint(missing), ((1<<uint(missing))+5)/6), fl.Sinks...)
	default:
		r.OK(rule, construct, pos, "the loop counter reaches a big-endian encoding with at least its low "+fmt.Sprint(need)+" bits: "+strings.Join(fl.Sinks, "; "))
	}
}
