package main

// C18 helper: the writer's state is identified by ROLE, not by the names of
// its unexported fields:
//   - construction-time fields: string fields of the receiver type that are
//     stored only into freshly allocated objects (the constructor's composite
//     literal), always with the same term; reads of such a field are replaced
//     by that term, so paths are expressed in the constructor's inputs
//     (the exported Options.Target) whatever the fields are called and however
//     many of them cache derived paths;
//   - target: the path the constructor received (Options.Target, possibly
//     Clean/Abs-ed);
//   - prev: the *string field of the receiver type.

import (
	"go/types"
	"sort"
	"strings"

	"golang.org/x/tools/go/ssa"
)

// c18FuncFields: function-typed fields of the state type that only ever hold one known function
// (stored at construction): calls through them are calls of that function.
func c18FuncFields(p *Prog, tkey string) map[string]*ssa.Function {
	stypes := c18StateTypes(p, tkey)
	out := map[string]*ssa.Function{}
	bad := map[string]bool{}
	for _, f := range p.Funcs {
		allInstrs(f, func(in ssa.Instruction) {
			s, ok := in.(*ssa.Store)
			if !ok {
				return
			}
			fa, ok := s.Addr.(*ssa.FieldAddr)
			if !ok {
				return
			}
			id := fieldIDOfAddr(fa)
			if !stypes[id.Type] {
				return
			}
			if _, isFn := s.Val.Type().Underlying().(*types.Signature); !isFn {
				return
			}
			var tgt *ssa.Function
			switch v := s.Val.(type) {
			case *ssa.Function:
				tgt = v
			case *ssa.MakeClosure:
				tgt, _ = v.Fn.(*ssa.Function)
			}
			if tgt == nil || !isFreshBase(fa.X) || (out[id.String()] != nil && out[id.String()] != tgt) {
				bad[id.String()] = true
				return
			}
			out[id.String()] = tgt
		})
	}
	for k := range bad {
		delete(out, k)
	}
	return out
}

// c18IfaceFields: interface-typed fields of the state type that only ever hold values of one
// concrete type (stored at construction): method calls through them are calls on that type.
func c18IfaceFields(p *Prog, tkey string) map[string]types.Type {
	stypes := c18StateTypes(p, tkey)
	out := map[string]types.Type{}
	bad := map[string]bool{}
	for _, f := range p.Funcs {
		allInstrs(f, func(in ssa.Instruction) {
			s, ok := in.(*ssa.Store)
			if !ok {
				return
			}
			fa, ok := s.Addr.(*ssa.FieldAddr)
			if !ok {
				return
			}
			id := fieldIDOfAddr(fa)
			if !stypes[id.Type] {
				return
			}
			if _, isIface := s.Val.Type().Underlying().(*types.Interface); !isIface {
				return
			}
			mi, ok := s.Val.(*ssa.MakeInterface)
			if !ok || !isFreshBase(fa.X) || (out[id.String()] != nil && !types.Identical(out[id.String()], mi.X.Type())) {
				bad[id.String()] = true
				return
			}
			out[id.String()] = mi.X.Type()
		})
	}
	for k := range bad {
		delete(out, k)
	}
	return out
}

type c18RoleInfo struct {
	RecvKey   string
	Fields    []string          // construction-time string fields (sorted)
	CtorTerm  map[string]string // field -> constructor term (string)
	CtorPos   map[string]ssa.Instruction
	NotFrozen map[string]string // string field -> reason it is not construction-time
	PrevStore map[string][]*ssa.Store
}

// c18RecvNamed: the named struct type the writer function works on (receiver,
// or first parameter that points to a named struct).
func c18RecvNamed(fn *ssa.Function) *types.Named {
	for _, pa := range fn.Params {
		if pt, ok := pa.Type().Underlying().(*types.Pointer); ok {
			if n, ok := types.Unalias(pt.Elem()).(*types.Named); ok {
				if _, ok := n.Underlying().(*types.Struct); ok {
					return n
				}
			}
		}
	}
	return nil
}

// c18ResolveRoles fills cfg from the program when the receiver type has a
// constructor; otherwise (fixtures) the names given in cfg are used as they are.
func c18ResolveRoles(p *Prog, tt *c18Terms, fn *ssa.Function, cfg *c18Cfg) *c18RoleInfo {
	named := c18RecvNamed(fn)
	if named == nil {
		return nil
	}
	tkey := namedKey(named)
	stypes := c18StateTypes(p, tkey)
	info := &c18RoleInfo{RecvKey: tkey, CtorTerm: map[string]string{}, CtorPos: map[string]ssa.Instruction{}, NotFrozen: map[string]string{}, PrevStore: map[string][]*ssa.Store{}}
	type fstore struct {
		st    *ssa.Store
		fresh bool
	}
	// fields (of the state type and of the structs nested in it by value) are keyed by FieldID.String()
	stores := map[string][]fstore{}
	ftypes := map[string]types.Type{}
	for _, f := range p.Funcs {
		allInstrs(f, func(in ssa.Instruction) {
			s, ok := in.(*ssa.Store)
			if !ok {
				return
			}
			fa, ok := s.Addr.(*ssa.FieldAddr)
			if !ok {
				return
			}
			id := fieldIDOfAddr(fa)
			if !stypes[id.Type] {
				return
			}
			stores[id.String()] = append(stores[id.String()], fstore{s, isFreshBase(fa.X)})
		})
	}
	var fieldKeys []string
	{
		var visit func(t types.Type, depth int)
		seenT := map[string]bool{}
		visit = func(t types.Type, depth int) {
			key := namedKey(t)
			sst, ok := t.Underlying().(*types.Struct)
			if !ok || seenT[key] || depth > 3 {
				return
			}
			seenT[key] = true
			for i := 0; i < sst.NumFields(); i++ {
				f := sst.Field(i)
				k := FieldID{key, f.Name()}.String()
				ftypes[k] = f.Type()
				fieldKeys = append(fieldKeys, k)
				nt := types.Unalias(f.Type())
				if pt, ok := nt.Underlying().(*types.Pointer); ok {
					nt = types.Unalias(pt.Elem()) // sub-struct held by pointer
				}
				if n, ok := nt.(*types.Named); ok && stypes[namedKey(n)] {
					visit(n, depth+1)
				}
			}
		}
		visit(named, 0)
	}
	subst := map[string]*c18T{}
	var prevCands []string
	for _, k := range fieldKeys {
		ft := ftypes[k]
		if pt, ok := ft.Underlying().(*types.Pointer); ok {
			if b, ok := pt.Elem().Underlying().(*types.Basic); ok && b.Kind() == types.String {
				prevCands = append(prevCands, k)
				for _, s := range stores[k] {
					info.PrevStore[k] = append(info.PrevStore[k], s.st)
				}
			}
			continue
		}
		b, ok := ft.Underlying().(*types.Basic)
		if !ok || b.Kind() != types.String {
			continue
		}
		ss := stores[k]
		if len(ss) == 0 {
			info.NotFrozen[k] = "never stored"
			continue
		}
		term := ""
		var tv *c18T
		bad := ""
		for _, s := range ss {
			if !s.fresh {
				bad = "also written by " + FuncName(p, s.st.Parent()) + " on an existing object"
				break
			}
			t := newC18Terms(p).Term(s.st.Val)
			if term != "" && t.String() != term {
				bad = "constructed with different values (" + term + " / " + t.String() + ")"
				break
			}
			term, tv = t.String(), t
		}
		if bad != "" {
			info.NotFrozen[k] = bad
			continue
		}
		if c18Classify(tv, map[string]bool{}) == c18Fresh {
			info.NotFrozen[k] = "constructed from a per-call value"
			continue
		}
		info.Fields = append(info.Fields, k)
		info.CtorTerm[k] = term
		info.CtorPos[k] = ss[0].st
		subst[k] = tv
	}
	sort.Strings(info.Fields)
	if len(subst) == 0 {
		return nil // no constructor: the names in cfg stand
	}
	// target role: a construction-time field holding the constructor's input path as it is
	// (an exported field named Target of the options struct is the stable anchor; fall back to any bare input)
	target := ""
	for _, pass := range []int{0, 1} {
		for _, f := range info.Fields {
			tv := subst[f]
			x := tv
			for x.Op == "pathfn" && (x.Lit == "Clean" || x.Lit == "Abs") && len(x.Args) == 1 {
				x = x.Args[0]
			}
			if x.Op != "field" && x.Op != "param" {
				continue
			}
			if pass == 0 && !(x.Op == "field" && strings.HasSuffix(x.Lit, ".Target")) {
				continue
			}
			if target == "" {
				target = tv.String()
			}
		}
	}
	if target == "" {
		return nil
	}
	tt.subst = subst
	cfg.targetStr = target
	cfg.resolved = true
	cfg.Frozen = map[string]bool{}
	for _, tv := range subst {
		tv.walk(func(x *c18T) {
			if x.Op == "field" {
				cfg.Frozen[x.Lit] = true // inputs of the constructor: fixed per instance
			}
		})
	}
	// prev role: the *string field; failing that, a string field that is not fixed at construction
	if len(prevCands) == 0 {
		var nf []string
		for f, why := range info.NotFrozen {
			if strings.HasPrefix(why, "also written") {
				nf = append(nf, f)
			}
		}
		sort.Strings(nf)
		for _, f := range nf {
			prevCands = append(prevCands, f)
			for _, s := range stores[f] {
				info.PrevStore[f] = append(info.PrevStore[f], s.st)
			}
		}
	}
	switch {
	case len(prevCands) == 1:
		cfg.Prev = prevCands[0]
	case len(prevCands) > 1:
		// keep the name hint if it is one of them, else the first that Write's package stores
		hint := cfg.Prev
		found := false
		for _, c := range prevCands {
			if c == hint {
				found = true
			}
		}
		if !found {
			cfg.Prev = prevCands[0]
		}
	}
	return info
}
