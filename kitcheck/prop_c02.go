package main

import (
	"fmt"
	"go/constant"
	"go/token"
	"go/types"
	"os"
	"sort"
	"strings"

	"golang.org/x/tools/go/ssa"
)

// C02 — enc/v1: tampered or truncated documents never decrypt silently.

func init() { register("C02", checkC02) }

const c02Pkg = "schemes/enc/v1"

func checkC02(c *Ctx) {
	r, p := c.R, c.P
	r.Explanation = "Decides structural necessary conditions of C02 on schemes/enc/v1. The functions are found by ROLE from the exported entry point Decrypt, not by their unexported names: the segment decryptor(s) = functions reachable from Decrypt with the signature func(io.Writer, []byte, uint32, bool) error; the segment loop(s) = functions reachable from Decrypt that call such a processor while holding the *io.PipeWriter (or, when the loop reports to a caller that holds the pipe, the source reader); the header reader(s) = functions reachable from Decrypt outside the loop that read from a reader they were given. Inside them the pipe, the source and the processor are identified by type and data flow (parameter, captured variable or struct field alike), same-package helpers are followed (authenticating helpers, nonce builders incl. tuple-returning ones and in-place construction, read helpers, helpers that close the pipe, error-classification predicates, error-wrapping helpers, a loop that returns its outcome to a closing caller), and all path reasoning is on the SSA control-flow graph (dominance, may/must flows, a path explorer with value-numbered comparison facts). " +
		"(T1) in the segment decryptor every use of the output writer is dominated by the success edge of cipher.AEAD.Open (or of the helper that calls it); a failed authentication makes the function return a non-nil error; every return that may carry a nil error lies behind that success edge (no exception for short or empty segments); Open is given the whole segment; the nonce depends on the segment number and on the finality flag, also where it is built; the 32 bits of the number reach the nonce injectively (PutUint32 / four byte stores at distinct constant offsets, window disjoint from the finality byte and not overwritten afterwards; or an append/AppendUint32 chain; unclassifiable layouts are UNDECIDED); " +
		"(T3) in the segment loop, along every path, the first close of the pipe (Close / CloseWithError / a helper that closes / the return of a loop that reports to a closing caller) is an error close whenever a source-read error other than io.EOF (io.ErrUnexpectedEOF is NOT end of input, also not behind io.ReadFull/ReadAtLeast) or a processor error is pending, and no return leaves the pipe open with such an error pending; read helpers must return every non-EOF read error; " +
		"(T4) the segment number handed to the processor is a loop-carried counter that changes in every iteration; after a call with last=true no further segment is processed; (T4-counter-range) between two processor calls an edge bounds the counter so that the number neither wraps nor is truncated (the loop is shared by Encrypt and Decrypt); " +
		"(T5) a clean close is reachable only after a processor call with last=true (from the entry: T5-first, after a non-final call: T5-next); " +
		"(H1/H2) in the header reader a source-read error not established to be io.EOF is returned, and the reader handed on (stored through the *io.Reader parameter, or returned) still contains the source unless the source returned io.EOF; " +
		"(H3) the bytes the header reader read beyond the header are put back in front of the source: the push-back (in the reader or in a helper it delegates to) is skipped only by a guard on the bounds of that leftover slice itself; a guard on the size of a single read, which is only an addend of the total, is a violation, a guard that cannot be related to the bounds is UNDECIDED; " +
		"(K1) key provenance: Decrypt hands a stream to its caller (or starts the segment phase) only on paths on which UnwrapKeyFn — found through the exported callback type — returned no error, and the key bytes handed to the key import on such a path are the ones it returned: a placeholder substituted after a failed unwrap or for a key of the wrong length is a public constant, so such a path must end in an error whatever the header MAC says (decided with the path explorer from Decrypt's entry, through helpers, flags, (key, ok) results and early returns); " +
		"(P1) within the segment loop a buffer taken from a sync.Pool is given back at most once on every path and not before a later read / processor call (a twice-released buffer is shared by two later streams and the segment being written to the pipe can be overwritten); " +
		"(T7) Decrypt returns the read half of the io.Pipe whose write half reaches the segment loop, and the processor the loop gets on the way from Decrypt authenticates (calls AEAD.Open, itself or through same-package functions). " +
		"NOT decided: that AEAD rejects a given mutation (trusted primitive), that the bytes released are a prefix of the plaintext as a runtime fact, byte-exact round trip (C01), anything about the header MAC (NOTE only: every payload byte is authenticated by the AEAD under a key derived from the file key and nonce prefix, so the statement holds with or without the MAC), constant-time behaviour, the number of bytes written, the Read-chunking contract of the fill loop (C01-R1). Engine and bounds: the T1 rules (dominance and may/must flows over the SSA graph) follow authentication into same-package helpers, callbacks handed to helpers and local closures (roles reached through parameters and captured variables; at most three levels; an outcome may be an error or a (value, ok) flag); T3, H1/H2 and P1 are may-flows over path states with summaries of read helpers, push-back helpers, pipe-closing helpers, func(error) bool predicates, error-filter helpers (func(…, err, …) error whose nil result implies that err was nil or io.EOF) and error-wrapping helpers (summaries nest at most two to three levels), and method values of the pipe's Close/CloseWithError or of the source's Read count as those calls; T4, T5 and K1 use a path explorer that works instruction by instruction: it tracks the memory the function owns (locals, fields of local structs by value or pointer incl. nested sub-structs, fields behind its pointer receiver), keeps symbolic offsets value = base + constant (within ±8), value-numbers comparisons, evaluates comparisons of constants and comparisons with nil (errors, and values that are non-nil by construction such as a freshly made slice, so that a nil-or-set variable works as a flag), and steps into loop-free same-package helpers of at most 40 blocks (two levels deep, four for K1; 60000 steps) so that the flags / small enums / tuples a phase helper returns stay correlated with its caller's branches. Calls through an unexported interface seam are followed to the implementations converted to the interface on the way from Decrypt; function values are resolved through parameters, captures, fields and literal tables. UNDECIDED (not followed): an error variable or the pipe itself captured by a closure inside the segment loop (e.g. one deferred closure that closes the pipe according to a captured error), errors kept in struct fields, a segment processor with a different signature, a read helper that reports its error other than as its last result, a read error handed to a same-package function that is neither such a filter, a predicate nor a wrapper (a finding about that error is then UNDECIDED), a helper that closes the pipe on some paths only, a nonce assembled by loops over non-constant indices or inside a closure from captured number/flag, phase helpers with loops whose flags the segment loop branches on, and — for K1 — an unwrap reached through a table of steps or whose outcome is kept in a struct that escapes; a K1 path through an undecided branch on state that was derived from the unwrap's outcome (a flag from a helper that is not entered, a merged variable) is reported as UNDECIDED, only branches on what UnwrapKeyFn itself returned are free. One violation of T5-first on the current tree is recorded as a known finding (a bare header decrypts to an empty stream with a clean EOF: the published format encodes the empty message that way)."
	r.Assumptions = append(r.Assumptions,
		"cipher.AEAD.Open returns a non-nil error for any ciphertext/nonce pair not produced by Seal under the same key (trusted primitive)",
		"package-level sentinel errors (ErrDecryptionFailed, io.ErrUnexpectedEOF, ...) are non-nil and not reassigned; errors.New / fmt.Errorf and same-package helpers all of whose returns are such values return non-nil errors",
		"io.PipeWriter: the first Close/CloseWithError wins (documented: later calls do not overwrite the error)",
		"the path explorer treats x+positive constant as non-zero (no wrap); that the segment counter cannot wrap is itself decided by rule T4-counter-range",
		"a phi that may carry an error value is treated as carrying it when it is tested against nil (error variables are not overwritten between the call and the test)",
		"cipher.AEAD.Open/Seal only read their nonce argument; the standard reader wrappers (io.MultiReader, io.LimitReader, io.TeeReader, bufio.NewReader) keep reading from the readers they wrap")

	r.Rule("C02.T1-verify-before-release", "segment decryptor: every use of the output writer is dominated by the err==nil edge of AEAD.Open (or of the helper that calls it)", 1)
	r.Rule("C02.T1-success-implies-verified", "segment decryptor: every return that may carry a nil error is behind the err==nil edge of AEAD.Open (no exception for short or empty segments)", 1)
	r.Rule("C02.T1-nonce-injective", "nonce construction: the 32 bits of the segment number reach the nonce injectively, in a window disjoint from the flag byte and not overwritten afterwards (or by appending)", 1)
	r.Rule("C02.T1-open-failure-returns-error", "segment decryptor: a return reached with the authentication error non-nil returns a non-nil error", 1)
	r.Rule("C02.T1-open-input", "segment decryptor: Open authenticates the whole segment, and released bytes derive from its result", 2)
	r.Rule("C02.T1-nonce-binding", "the nonce handed to Open depends on the segment number and on the finality flag (at the Open site and where the nonce is built)", 2)
	r.Rule("C02.T3-error-surfaces", "segment loop: no clean close and no open return while a non-EOF source error or a processor error is pending", 4)
	r.Rule("C02.T4-counter", "segment loop: the segment number handed to the processor is a loop-carried counter that changes every iteration", 1)
	r.Rule("C02.T4-counter-range", "segment loop: between two segments the counter is checked against a bound so that the number handed to the processor never wraps or is truncated (shared by Encrypt and Decrypt)", 1)
	r.Rule("C02.T4-final-is-last", "segment loop: after a processor call with last=true no further segment is processed", 1)
	r.Rule("C02.T5-first", "segment loop: from the entry, a clean close is not reachable without a processor call", 1)
	r.Rule("C02.T5-next", "segment loop: after a processor call with last=false, a clean close is not reachable without another call", 1)
	r.Rule("C02.H1-header-read-error-returned", "header reader: a source-read error not established to be io.EOF is returned (never dropped on a success return)", 1)
	r.Rule("C02.H2-header-keeps-source", "header reader: the reader handed on still contains the source unless the source returned io.EOF", 1)
	r.Rule("C02.H3-header-overread-pushed-back", "header reader: the bytes read beyond the header are put back in front of the source unless that leftover slice is empty (the guard tests the leftover's own bounds)", 1)
	r.Rule("C02.K1-key-provenance", "Decrypt hands out a stream (or starts the segment phase) only with the key UnwrapKeyFn returned without an error: a failed unwrap, or a substituted key, ends in an error return", 2)
	r.Rule("C02.P1-buffer-exclusive", "segment loop: a buffer taken from a sync.Pool is given back at most once on every path and not before a later read / processor call", 1)
	r.Rule("C02.T7-wiring", "Decrypt returns the pipe fed by the segment loop, whose processor (on the way from Decrypt) authenticates", 2)

	// The exported entry point is the only name the check relies on; everything
	// else is found by role (see c02_roles.go).
	decrypt := p.Func(c02Pkg, "Decrypt")
	roles := c02ResolveRoles(p, decrypt)
	if len(roles.procs) == 0 {
		undecided("no function with the segment-processor signature func(io.Writer, []byte, uint32, bool) error is reachable from Decrypt: the decrypt data path is not recognised")
	}
	if len(roles.loops) == 0 {
		undecided("no function reachable from Decrypt hands segments to a segment processor while holding the *io.PipeWriter: the segment loop is not recognised")
	}
	if len(roles.headers) == 0 {
		undecided("no function reachable from Decrypt (outside the segment loop) reads from the reader it was given: the header reader is not recognised")
	}
	c02Labels = map[*ssa.Function]string{}
	c02LabelProg = p
	c02Label(p, roles.procs, c02Pkg, "segment decryptor")
	c02Label(p, roles.loops, c02Pkg, "segment loop")
	c02Label(p, roles.headers, c02Pkg, "header reader")
	defer func() { c02Labels = map[*ssa.Function]string{}; c02LabelProg = nil }()
	for _, f := range roles.procs {
		c02CheckDecryptSegment(p, r, f)
	}
	for _, f := range roles.loops {
		c02CheckProcessSegments(p, r, f)
	}
	c02CheckWiring(p, r, roles)
	c02CheckKeyProvenance(p, r, roles)
	for _, f := range roles.headers {
		c02CheckReadHeader(p, r, f)
	}
	c02Notes(p, r, decrypt)

	c.Fixture("c02seg", func(fp *Prog, fr *Report) {
		for _, fn := range fp.Funcs {
			if fn.Parent() != nil {
				continue
			}
			low := strings.ToLower(fn.Name())
			switch {
			case strings.HasSuffix(low, "seg"):
				c02CheckDecryptSegment(fp, fr, fn)
			case strings.HasSuffix(low, "loop"):
				c02CheckProcessSegments(fp, fr, fn)
			case strings.HasSuffix(low, "header"):
				c02CheckReadHeader(fp, fr, fn)
			}
		}
		if os.Getenv("KC_C02_DEBUG") != "" {
			for _, o := range fr.Obs {
				if o.Status == StViolation {
					fmt.Fprintf(os.Stderr, "fixture: %s | %s | %s\n", o.Rule, o.Construct, o.Message)
				}
			}
			for _, u := range fr.Undecided {
				fmt.Fprintf(os.Stderr, "fixture undecided: %s\n", u)
			}
		}
	})
}

// ---------------------------------------------------------------------------
// T1: DecryptSegment

func c02IsIOWriter(t types.Type) bool {
	n, ok := types.Unalias(t).(*types.Named)
	return ok && n.Obj().Pkg() != nil && n.Obj().Pkg().Path() == "io" && n.Obj().Name() == "Writer"
}

// c02SegCtx: one function on the decrypt side of a segment, with the values
// that play the roles of the processor's parameters in it. A helper that the
// segment decryptor delegates to gets a child context (roles mapped through
// the call's arguments).
type c02SegCtx struct {
	fn                   *ssa.Function
	out, data, num, last ssa.Value
	parent               *c02SegCtx
	call                 *ssa.Call  // the call in parent.fn that enters fn
	lex                  *c02SegCtx // for a closure: the context of the function it is written in (its captured variables are that function's)
	depth                int
}

// c02RoleOf: which of the processor's roles ("out", "data", "num", "last")
// the value v of ctx.fn plays: the role value itself, a load of a variable
// that holds it (a parameter captured by a closure lives in a cell), or — in a
// closure — a load of a captured variable of the enclosing function.
func c02RoleOf(ctx *c02SegCtx, v ssa.Value) string {
	if ctx == nil || v == nil {
		return ""
	}
	switch {
	case v == ctx.out && ctx.out != nil:
		return "out"
	case v == ctx.data && ctx.data != nil:
		return "data"
	case v == ctx.num && ctx.num != nil:
		return "num"
	case v == ctx.last && ctx.last != nil:
		return "last"
	}
	u, ok := v.(*ssa.UnOp)
	if !ok || u.Op != token.MUL {
		return ""
	}
	switch a := u.X.(type) {
	case *ssa.FreeVar:
		if ctx.lex == nil {
			return ""
		}
		return c02RoleOfCell(ctx.lex, resolveFreeVar(a))
	case *ssa.Alloc:
		return c02RoleOfCell(ctx, a)
	}
	return ""
}

// c02RoleOfCell: the role of the variable kept in cell (an Alloc of L.fn, or a
// captured variable of L.fn's own enclosing function).
func c02RoleOfCell(L *c02SegCtx, cell ssa.Value) string {
	switch c := cell.(type) {
	case *ssa.Alloc:
		role := ""
		for _, rr := range refs(c) {
			st, ok := rr.(*ssa.Store)
			if !ok || st.Addr != ssa.Value(c) || st.Parent() != L.fn {
				continue
			}
			if r := c02RoleOf(L, st.Val); r != "" {
				if role != "" && role != r {
					return ""
				}
				role = r
			}
		}
		return role
	case *ssa.FreeVar:
		if L.lex != nil {
			return c02RoleOfCell(L.lex, resolveFreeVar(c))
		}
	}
	return ""
}

// c02HasOpenAt: the call authenticates: its callee does (c02HasOpen), or a
// function value handed to it (a callback closure) does.
func c02HasOpenAt(p *Prog, call *ssa.Call) bool {
	if h := staticCallee(call); h != nil && p.InModule(h) && c02HasOpen(p, h, 0, map[*ssa.Function]bool{}) {
		return true
	}
	for _, a := range call.Call.Args {
		if _, isSig := a.Type().Underlying().(*types.Signature); !isSig {
			continue
		}
		if t := c02FuncTarget(p, a); t != nil && p.InModule(t) && c02HasOpen(p, t, 0, map[*ssa.Function]bool{}) {
			return true
		}
	}
	return false
}

// c02CalledFunc resolves the function a dynamic call in ctx.fn invokes when
// the called value is a parameter (bound by the caller, e.g. a callback) or a
// local/captured function value.
func c02CalledFunc(p *Prog, ctx *c02SegCtx, call *ssa.Call) *ssa.Function {
	v := call.Call.Value
	for c := ctx; c != nil; c = c.parent {
		if t := c02FuncTarget(p, v); t != nil {
			return t
		}
		pa, ok := c02Origin(v).(*ssa.Parameter)
		if !ok || c.call == nil || pa.Parent() != c.fn {
			return nil
		}
		i := c02ParamIndex(c.fn, pa)
		if i < 0 || i >= len(c.call.Call.Args) {
			return nil
		}
		v = c.call.Call.Args[i]
	}
	return nil
}

// c02HasOpen: fn (or a same-package function it calls, up to a few levels)
// calls cipher.AEAD.Open.
func c02HasOpen(p *Prog, fn *ssa.Function, depth int, seen map[*ssa.Function]bool) bool {
	if fn == nil || seen[fn] || depth > 3 {
		return false
	}
	seen[fn] = true
	found := false
	allInstrs(fn, func(in ssa.Instruction) {
		ci, ok := in.(ssa.CallInstruction)
		if !ok || found {
			return
		}
		if callIs(ci, "crypto/cipher", "AEAD", "Open") {
			found = true
			return
		}
		if h := staticCallee(ci); h != nil && p.InModule(h) && c02HasOpen(p, h, depth+1, seen) {
			found = true
		}
	})
	// … or in a closure it creates (a callback handed to a helper, a local function value)
	for _, a := range fn.AnonFuncs {
		if !found && c02HasOpen(p, a, depth+1, seen) {
			found = true
		}
	}
	return found
}

// c02WholeSlice: v is base itself, or base re-sliced without bounds.
func c02WholeSlice(v, base ssa.Value) bool {
	for i := 0; i < 4; i++ {
		if v == base {
			return true
		}
		sl, ok := v.(*ssa.Slice)
		if !ok || sl.Low != nil || sl.High != nil || sl.Max != nil {
			return false
		}
		v = sl.X
	}
	return v == base
}

func c02CheckDecryptSegment(p *Prog, r *Report, fn *ssa.Function) {
	name := c02Name(p, fn)
	// roles of the parameters by type: out io.Writer, data []byte, num uint32, last bool
	ctx := &c02SegCtx{fn: fn}
	for _, pa := range fn.Params {
		t := pa.Type()
		switch {
		case c02IsIOWriter(t) && ctx.out == nil:
			ctx.out = pa
		case c02IsByteSlice(t) && ctx.data == nil:
			ctx.data = pa
		case c02IsBasicKind(t, types.Uint32) && ctx.num == nil:
			ctx.num = pa
		case c02IsBool(t) && ctx.last == nil:
			ctx.last = pa
		}
	}
	if ctx.out == nil || ctx.data == nil || ctx.num == nil || ctx.last == nil {
		undecided("%s no longer has the (io.Writer, []byte, uint32, bool) parameters of a segment processor", name)
	}
	c02CheckSegFn(p, r, ctx, name)
}

// c02SegEvent: an authentication event in a function: a direct AEAD.Open
// call, or a call of a same-package helper that authenticates (judged
// recursively: its nil error implies a successful Open).
type c02SegEvent struct {
	call   *ssa.Call
	err    ssa.Value
	res    ssa.Value // the plaintext result, if any
	direct bool
	sub    *c02SegCtx
}

func c02CheckSegFn(p *Prog, r *Report, ctx *c02SegCtx, rootName string) {
	fn := ctx.fn
	name := c02Name(p, fn)
	errT := types.Universe.Lookup("error").Type()
	var events []c02SegEvent
	allInstrs(fn, func(in ssa.Instruction) {
		call, ok := in.(*ssa.Call)
		if !ok {
			return
		}
		if callIs(call, "crypto/cipher", "AEAD", "Open") {
			events = append(events, c02SegEvent{call: call, err: callResult(call, 1), res: callResult(call, 0), direct: true})
			return
		}
		if call.Call.IsInvoke() {
			return
		}
		h := staticCallee(call)
		var lex *c02SegCtx
		if h == nil {
			// a call of a function value: a callback this function was given, or a local closure
			h = c02CalledFunc(p, ctx, call)
			if h == nil || !p.InModule(h) || len(h.Blocks) == 0 || !c02HasOpen(p, h, 0, map[*ssa.Function]bool{}) {
				return
			}
		} else {
			if !p.InModule(h) || len(h.Blocks) == 0 || !c02HasOpenAt(p, call) {
				return
			}
		}
		if h.Parent() != nil {
			// a closure: its captured variables belong to the function it is written in
			for c := ctx; c != nil; c = c.parent {
				if c.fn == h.Parent() && lex == nil {
					lex = c
				}
			}
		}
		// an authenticating helper
		sig := call.Call.Signature()
		n := sig.Results().Len()
		if n == 0 || !(types.Identical(sig.Results().At(n-1).Type(), errT) || c02IsBool(sig.Results().At(n-1).Type())) {
			undecided("%s authenticates the segment inside %s, which returns neither an error nor an ok flag last; whether authentication succeeded cannot be followed", name, FuncName(p, h))
		}
		if ctx.depth >= 3 {
			undecided("%s: authentication is nested more than three helpers deep (%s); not followed", name, FuncName(p, h))
		}
		c02LabelHelper(p, h, "authenticating helper")
		sub := &c02SegCtx{fn: h, parent: ctx, call: call, lex: lex, depth: ctx.depth + 1}
		for j, a := range call.Call.Args {
			if j >= len(h.Params) {
				break
			}
			switch {
			case c02IsByteSlice(a.Type()) && c02RoleOf(ctx, c02SliceBase(a)) == "data":
				if !c02WholeSlice(a, c02SliceBase(a)) {
					r.Violation("C02.T1-open-input", name+" segment handed to "+c02Name(p, h), p.Pos(call.Pos()),
						"only a part of the segment is handed to the helper that authenticates it: the bytes that are released are not the bytes that were authenticated")
				}
				sub.data = h.Params[j]
			case c02RoleOf(ctx, a) == "num":
				sub.num = h.Params[j]
			case c02RoleOf(ctx, a) == "last":
				sub.last = h.Params[j]
			case c02RoleOf(ctx, a) == "out":
				sub.out = h.Params[j]
			}
		}
		ev := c02SegEvent{call: call, err: callResult(call, n-1), sub: sub}
		for i := 0; i < n-1; i++ {
			if c02IsByteSlice(sig.Results().At(i).Type()) {
				ev.res = callResult(call, i)
				break
			}
		}
		events = append(events, ev)
	})
	if len(events) == 0 {
		r.Violation("C02.T1-verify-before-release", name+" AEAD.Open", p.Pos(fn.Pos()),
			"the segment decryptor calls cipher.AEAD.Open neither itself nor through a same-package function: segments are released without authentication (any bit flip, reorder or truncation decrypts silently)")
		return
	}
	var opens []*ssa.Call
	var openErrs, openRes []ssa.Value
	for _, ev := range events {
		if ev.err == nil {
			r.Violation("C02.T1-verify-before-release", name+" AEAD.Open", p.Pos(ev.call.Pos()),
				"the error result of the authentication (AEAD.Open, or the helper that calls it) is never extracted (discarded): a segment that fails authentication is treated as valid")
			return
		}
		if c02StoredToMemory(ev.err) {
			undecided("%s keeps the authentication error in a memory cell; the dominance rules cannot follow it", name)
		}
		opens = append(opens, ev.call)
		openErrs = append(openErrs, ev.err)
		openRes = append(openRes, ev.res)
	}
	// helpers first (their own obligations)
	for _, ev := range events {
		if ev.sub != nil {
			before := c02CountViolations(r)
			c02CheckSegFn(p, r, ev.sub, rootName)
			if c02CountViolations(r) > before {
				r.Violation("C02.T1-verify-before-release", name+" delegated authentication", p.Pos(ev.call.Pos()),
					"the helper this function relies on to authenticate the segment does not satisfy the rules itself (see the violation reported for it): its nil error does not mean that AEAD.Open succeeded on the segment with a position- and finality-bound nonce")
			}
		}
	}

	// verified(b): block b is dominated by an authentication event and by the nil edge of a value carrying its error.
	verified := func(b *ssa.BasicBlock, idx int) bool {
		for oi, o := range opens {
			if o.Block() == b {
				if instrIndex(o) >= idx {
					continue
				}
			} else if !o.Block().Dominates(b) {
				continue
			}
			for s := b; s != nil; s = s.Idom() {
				if len(s.Preds) != 1 {
					continue
				}
				if v, isNil, ok := c02OutcomeTest(s.Preds[0], s); ok && isNil && c02Carries(v, openErrs[oi]) {
					// the test must come after the event
					if ifi := s.Preds[0].Instrs[len(s.Preds[0].Instrs)-1]; instrDominates(o, ifi) {
						return true
					}
				}
			}
		}
		return false
	}

	// every use of out
	var outVals []ssa.Value
	if ctx.out != nil {
		outVals = append(outVals, ctx.out)
	}
	allInstrs(fn, func(in ssa.Instruction) {
		if v, ok := in.(ssa.Value); ok && v != ctx.out && c02IsIOWriter(v.Type()) && c02RoleOf(ctx, v) == "out" {
			outVals = append(outVals, v)
		}
	})
	if len(outVals) > 0 {
		nUses := 0
		var outRefs []ssa.Instruction
		for _, ov := range outVals {
			for _, rr := range refs(ov) {
				// keeping the writer in a variable (a parameter captured by a closure) releases nothing
				if st, ok := rr.(*ssa.Store); ok && st.Val == ov {
					if _, isCell := st.Addr.(*ssa.Alloc); isCell {
						continue
					}
				}
				// the nil check that precedes taking a method value of an interface: not a release
				if ta, ok := rr.(*ssa.TypeAssert); ok && c02IsIOWriter(ta.AssertedType) {
					for _, r2 := range refs(ta) {
						outRefs = append(outRefs, r2)
					}
					continue
				}
				// a method value of the writer (write := out.Write): creating it releases nothing, calling it does
				if mc, ok := rr.(*ssa.MakeClosure); ok {
					if f, isF := mc.Fn.(*ssa.Function); isF && f.Synthetic != "" {
						for _, r2 := range refs(mc) {
							outRefs = append(outRefs, r2)
						}
						continue
					}
				}
				outRefs = append(outRefs, rr)
			}
		}
		for _, rr := range outRefs {
			if _, ok := rr.(*ssa.DebugRef); ok {
				continue
			}
			// handing the writer to the authenticating helper is not a release: the helper is judged itself
			isEvent := false
			for _, ev := range events {
				if ssa.Instruction(ev.call) == rr && ev.sub != nil {
					isEvent = true
				}
			}
			if isEvent {
				continue
			}
			nUses++
			what := "use of the output writer"
			isOutVal := func(v ssa.Value) bool {
				for _, ov := range outVals {
					if v == ov {
						return true
					}
				}
				return false
			}
			if call, ok := rr.(*ssa.Call); ok && call.Call.IsInvoke() && isOutVal(call.Call.Value) {
				what = "out." + call.Call.Method.Name()
			}
			construct := fmt.Sprintf("%s %s", name, what)
			r.Check(verified(rr.Block(), instrIndex(rr)), "C02.T1-verify-before-release", construct, p.Pos(instrPos(rr)),
				"reached only after the segment was authenticated (AEAD.Open returned a nil error)",
				"the output writer is used on a path on which AEAD.Open has not (yet) succeeded: bytes of an unauthenticated segment reach the reader (a flipped bit or a spliced segment is released before — or without — the error)")
			isWrite := false
			if call, ok := rr.(*ssa.Call); ok && len(call.Call.Args) == 1 {
				if call.Call.IsInvoke() && isOutVal(call.Call.Value) && call.Call.Method.Name() == "Write" {
					isWrite = true
				}
				if mc, isMC := call.Call.Value.(*ssa.MakeClosure); isMC && !call.Call.IsInvoke() {
					if f, isF := mc.Fn.(*ssa.Function); isF && f.Synthetic != "" && f.Object() != nil && f.Object().Name() == "Write" {
						isWrite = true
						what = "out.Write"
					}
				}
			}
			if call, ok := rr.(*ssa.Call); ok && isWrite {
				base := c02SliceBase(call.Call.Args[0])
				okDep := false
				for oi, o := range opens {
					if openRes[oi] != nil && c02Carries(base, openRes[oi]) {
						okDep = true
					}
					// through a variable kept in memory (a captured or address-taken variable): the plaintext was stored into it before
					if u, isLoad := base.(*ssa.UnOp); isLoad && u.Op == token.MUL && openRes[oi] != nil {
						for _, sr := range refs(u.X) {
							if st, ok := sr.(*ssa.Store); ok && st.Addr == u.X && c02Carries(c02SliceBase(st.Val), openRes[oi]) && instrDominates(st, u) {
								okDep = true
							}
						}
					}
					// in-place decryption: dst of Open shares its base with the written slice
					if events[oi].direct && len(o.Call.Args) >= 1 && c02SliceBase(o.Call.Args[0]) == base {
						okDep = true
					}
				}
				if okDep {
					r.OK("C02.T1-open-input", name+" out.Write argument", p.Pos(instrPos(rr)), "written bytes derive from the authenticated plaintext (Open's result or its in-place destination)")
				} else {
					r.Note("C02 T1: %s writes a buffer that is not visibly derived from AEAD.Open's result at %s (not decided)", name, p.Pos(instrPos(rr)))
				}
			}
		}
		if nUses == 0 && ctx.parent == nil {
			used := false
			for _, ev := range events {
				if ev.sub != nil && ev.sub.out != nil {
					used = true
				}
			}
			if !used {
				r.Note("C02 T1: %s never uses its output writer (nothing is released)", name)
			}
		}
	}

	// Open authenticates the data; the nonce is bound to number and finality
	for _, ev := range events {
		if !ev.direct {
			continue
		}
		o := ev.call
		args := o.Call.Args
		if ctx.data == nil && ctx.lex == nil {
			r.Undecide("%s: the segment does not reach %s as a plain parameter; whether Open authenticates the whole segment cannot be followed", rootName, name)
		} else {
			okIn := len(args) >= 3 && c02RoleOf(ctx, c02SliceBase(args[2])) == "data" && c02WholeSlice(args[2], c02SliceBase(args[2]))
			r.Check(okIn, "C02.T1-open-input", name+" AEAD.Open ciphertext", p.Pos(o.Pos()),
				"Open is given the whole segment parameter",
				"AEAD.Open is not given the (whole) segment it was handed: the bytes that are released are not the bytes that were authenticated")
		}
		if len(args) >= 2 {
			hasNum, hasLast, known := c02DepsRoles(p, ctx, args[1], 0)
			if !known {
				r.Undecide("%s: the segment number / finality flag do not reach %s as plain parameters; the nonce binding cannot be followed", rootName, name)
			} else {
				var missing []string
				if !hasNum {
					missing = append(missing, "the segment number (segments can be reordered, duplicated or dropped from the middle)")
				}
				if !hasLast {
					missing = append(missing, "the finality flag (a document truncated at a segment boundary ends in a clean EOF)")
				}
				r.Check(len(missing) == 0, "C02.T1-nonce-binding", name+" AEAD.Open nonce", p.Pos(o.Pos()),
					"the nonce depends on the segment number and the finality flag",
					"the nonce handed to AEAD.Open does not depend on "+strings.Join(missing, " nor on "))
			}
			c02TraceNonce(p, r, rootName, ctx, args[1], 0)
		}
	}

	// failure returns: may-flow of "a value carrying the authentication error was found non-nil"
	const failed = 1
	nEdges := 0
	ff := &FlagFlow{Fn: fn, Must: false,
		Transfer: func(in ssa.Instruction, st uint64) uint64 { return st },
		EdgeTransfer: func(from, to *ssa.BasicBlock, st uint64) uint64 {
			if v, isNil, ok := c02OutcomeTest(from, to); ok && !isNil && c02CarriesAny(v, openErrs) {
				nEdges++
				return st | failed
			}
			return st
		}}
	ff.Run()
	nRet := 0
	bad := ""
	ff.AtReturns(func(ret *ssa.Return, st uint64) {
		if st&failed == 0 || len(ret.Results) == 0 {
			return
		}
		nRet++
		res := c02Ret(ret, len(ret.Results)-1)
		if c02SuccessConst(res) {
			bad = p.Pos(ret.Pos())
			return
		}
		if phi, ok := res.(*ssa.Phi); ok {
			for i, e := range phi.Edges {
				if !c02SuccessConst(e) {
					continue
				}
				pred := phi.Block().Preds[i]
				if o, vis := ff.Out(pred); vis && ff.EdgeTransfer(pred, phi.Block(), o)&failed != 0 {
					bad = p.Pos(ret.Pos())
				}
			}
		}
	})
	c02SuccessImpliesVerified(p, r, fn, name, opens, openErrs)
	// a function that simply returns the helper's error (return k.open(...)) has no test of its own: the returned value carries the error
	direct := false
	allInstrs(fn, func(in ssa.Instruction) {
		if ret, ok := in.(*ssa.Return); ok && len(ret.Results) > 0 {
			if rv := c02Ret(ret, len(ret.Results)-1); c02CarriesAny(rv, openErrs) || c02IsOutcomeExpr(rv, openErrs) {
				direct = true
			}
		}
	})
	switch {
	case nEdges == 0 && direct:
		r.OK("C02.T1-open-failure-returns-error", name+" return after failed Open", p.Pos(fn.Pos()), "the authentication error itself is returned")
	case nEdges == 0:
		r.Violation("C02.T1-open-failure-returns-error", name+" return after failed Open", p.Pos(fn.Pos()),
			"the error of AEAD.Open is never tested against nil: no path of the function is specific to a failed authentication")
	default:
		r.Check(bad == "" && nRet > 0, "C02.T1-open-failure-returns-error", name+" return after failed Open", p.Pos(fn.Pos()),
			"every return reachable after Open failed returns an error",
			"the path on which AEAD.Open failed returns a nil error (at "+bad+"): the caller goes on to the next segment and the stream can end in a clean EOF although a segment was rejected")
	}
}

// c02DepsRoles: does value v (in ctx.fn) depend on the segment number / the
// finality flag? Dependences on other parameters of a helper are followed to
// the caller's arguments. known=false if a role never reaches this chain.
func c02DepsRoles(p *Prog, ctx *c02SegCtx, v ssa.Value, depth int) (hasNum, hasLast, known bool) {
	if depth > 4 {
		return false, false, false
	}
	known = true
	// a captured variable of the enclosing function (or a variable kept in a cell): what was stored into it
	if u, ok := c02SliceBase(v).(*ssa.UnOp); ok && u.Op == token.MUL {
		var cell ssa.Value
		owner := ctx
		switch a := u.X.(type) {
		case *ssa.FreeVar:
			if ctx.lex != nil {
				cell, owner = resolveFreeVar(a), ctx.lex
			}
		case *ssa.Alloc:
			cell = a
		}
		if al, ok := cell.(*ssa.Alloc); ok {
			n := 0
			for _, rr := range refs(al) {
				if st, ok := rr.(*ssa.Store); ok && st.Addr == ssa.Value(al) && st.Parent() == owner.fn {
					switch c02RoleOf(owner, st.Val) {
					case "num":
						hasNum = true
						n++
						continue
					case "last":
						hasLast = true
						n++
						continue
					}
					hn, hl, k := c02DepsRoles(p, owner, st.Val, depth+1)
					hasNum, hasLast, known = hasNum || hn, hasLast || hl, known && k
					n++
				}
			}
			if n > 0 {
				return
			}
		}
	}
	deps := c02ValueDeps(p, v, 3)
	for i := range deps {
		if i >= len(ctx.fn.Params) {
			continue
		}
		pa := ssa.Value(ctx.fn.Params[i])
		switch {
		case pa == ctx.num:
			hasNum = true
		case pa == ctx.last:
			hasLast = true
		default:
			if ctx.parent != nil && ctx.call != nil && i < len(ctx.call.Call.Args) {
				n, l, k := c02DepsRoles(p, ctx.parent, ctx.call.Call.Args[i], depth+1)
				hasNum = hasNum || n
				hasLast = hasLast || l
				known = known && k
			}
		}
	}
	if ctx.parent == nil && (ctx.num == nil || ctx.last == nil) {
		known = false
	}
	return
}

// c02TraceNonce follows the nonce value to the place where its buffer is
// built — in the same function, in a (tuple-returning) helper, in a helper of
// a helper, or in the caller when the nonce arrives as a parameter — and
// applies the dependence and layout rules there.
func c02TraceNonce(p *Prog, r *Report, rootName string, ctx *c02SegCtx, v ssa.Value, depth int) {
	if depth > 6 {
		r.Undecide("%s: the nonce is passed through more than six functions; its construction is not followed", rootName)
		return
	}
	fn := ctx.fn
	base := c02SliceBase(v)
	if c02IsAppendChain(base) {
		num, _ := ctx.num.(*ssa.Parameter)
		last, _ := ctx.last.(*ssa.Parameter)
		c02LabelHelper(p, fn, "nonce builder")
		if num != nil && last != nil {
			deps := c02ValueDeps(p, base, 2)
			// which appended tail is returned may itself be the dependence (return append(n, 1) / return append(n, 0))
			if in, ok := base.(ssa.Instruction); ok {
				for _, dc := range domConds(in.Block()) {
					for i := range c02ValueDeps(p, dc.If.Cond, 2) {
						deps[i] = true
					}
				}
			}
			name := c02Name(p, fn)
			var missing []string
			if !deps[c02ParamIndex(fn, num)] {
				missing = append(missing, "the segment number "+num.Name()+" (segments become interchangeable)")
			}
			if !deps[c02ParamIndex(fn, last)] {
				missing = append(missing, "the finality flag "+last.Name()+" (final and non-final segments get the same nonce: truncation at a segment boundary is not detected)")
			}
			r.Check(len(missing) == 0, "C02.T1-nonce-binding", name+" nonce buffer", p.Pos(fn.Pos()),
				"the bytes of the nonce depend on the segment number and the finality flag",
				"the bytes of the nonce built in "+name+" do not depend on "+strings.Join(missing, " nor on "))
		}
		c02NonceAppendLayout(p, r, rootName, fn, base, num, last)
		return
	}
	switch x := base.(type) {
	case *ssa.Alloc, *ssa.MakeSlice:
		num, _ := ctx.num.(*ssa.Parameter)
		last, _ := ctx.last.(*ssa.Parameter)
		c02LabelHelper(p, fn, "nonce builder")
		name := c02Name(p, fn)
		if num != nil && last != nil {
			deps := c02ValueDeps(p, base, 2)
			var missing []string
			if !deps[c02ParamIndex(fn, num)] {
				missing = append(missing, "the segment number "+num.Name()+" (segments become interchangeable)")
			}
			if !deps[c02ParamIndex(fn, last)] {
				missing = append(missing, "the finality flag "+last.Name()+" (final and non-final segments get the same nonce: truncation at a segment boundary is not detected)")
			}
			r.Check(len(missing) == 0, "C02.T1-nonce-binding", name+" nonce buffer", p.Pos(fn.Pos()),
				"the bytes of the nonce depend on the segment number and the finality flag",
				"the bytes of the nonce built in "+name+" do not depend on "+strings.Join(missing, " nor on "))
		}
		c02NonceLayout(p, r, rootName, fn, base, num, last)
	case *ssa.Parameter:
		if ctx.parent == nil || ctx.call == nil {
			r.Undecide("%s: the nonce is a parameter of %s; its construction cannot be followed", rootName, FuncName(p, fn))
			return
		}
		i := c02ParamIndex(fn, x)
		if i < 0 || i >= len(ctx.call.Call.Args) {
			r.Undecide("%s: cannot map the nonce parameter of %s to an argument", rootName, FuncName(p, fn))
			return
		}
		c02TraceNonce(p, r, rootName, ctx.parent, ctx.call.Call.Args[i], depth+1)
	case *ssa.Phi:
		for _, e := range x.Edges {
			if e != ssa.Value(x) {
				c02TraceNonce(p, r, rootName, ctx, e, depth+1)
			}
		}
	case *ssa.Extract, *ssa.Call:
		idx := 0
		var call *ssa.Call
		if ex, ok := x.(*ssa.Extract); ok {
			idx = ex.Index
			call, _ = ex.Tuple.(*ssa.Call)
		} else {
			call = x.(*ssa.Call)
		}
		if call == nil {
			r.Undecide("%s: the nonce in %s comes out of a tuple that is not a call result; not followed", rootName, FuncName(p, fn))
			return
		}
		g := staticCallee(call)
		if g == nil || !p.InModule(g) || len(g.Blocks) == 0 {
			r.Undecide("%s: the nonce in %s is produced by %s, whose body cannot be followed", rootName, FuncName(p, fn), call.Call.Value.Name())
			return
		}
		sub := &c02SegCtx{fn: g, parent: ctx, call: call, depth: ctx.depth + 1}
		for j, a := range call.Call.Args {
			if j >= len(g.Params) {
				break
			}
			switch {
			case ctx.num != nil && a == ctx.num:
				sub.num = g.Params[j]
			case ctx.last != nil && a == ctx.last:
				sub.last = g.Params[j]
			}
		}
		n := 0
		allInstrs(g, func(in ssa.Instruction) {
			ret, ok := in.(*ssa.Return)
			if !ok || idx >= len(ret.Results) || (len(ret.Block().Preds) == 0 && ret.Block().Index != 0) {
				return
			}
			if isNilConst(c02Ret(ret, idx)) {
				return // error paths return no nonce
			}
			n++
			c02TraceNonce(p, r, rootName, sub, c02Ret(ret, idx), depth+1)
		})
		if n == 0 {
			r.Undecide("%s: %s never returns a nonce; not followed", rootName, FuncName(p, g))
		}
	case *ssa.UnOp:
		// a variable of the enclosing function captured by this closure, or a variable kept in a cell: follow the value stored into it
		if x.Op == token.MUL {
			var cell ssa.Value
			owner := ctx
			switch a := x.X.(type) {
			case *ssa.FreeVar:
				if ctx.lex != nil {
					cell, owner = resolveFreeVar(a), ctx.lex
				}
			case *ssa.Alloc:
				cell = a
			}
			if al, ok := cell.(*ssa.Alloc); ok {
				var stored []ssa.Value
				for _, rr := range refs(al) {
					if st, ok := rr.(*ssa.Store); ok && st.Addr == ssa.Value(al) && st.Parent() == owner.fn {
						stored = append(stored, st.Val)
					}
				}
				if len(stored) > 0 {
					for _, sv := range stored {
						c02TraceNonce(p, r, rootName, owner, sv, depth+1)
					}
					return
				}
			}
		}
		r.Undecide("%s: the nonce handed to AEAD.Open in %s is read from memory that cannot be followed; its layout cannot be classified", rootName, FuncName(p, fn))
	default:
		r.Undecide("%s: the nonce handed to AEAD.Open in %s is neither built in a local buffer nor obtained from a same-package function (%T); its layout cannot be classified", rootName, FuncName(p, fn), base)
	}
}

// c02SuccessImpliesVerified (T1-success-implies-verified): every return of the
// segment decryptor that may report success (nil error) lies behind the
// success edge of AEAD.Open. There is no exception for short or empty
// segments: "nothing to write" is not "authenticated" (a stub skipped with a
// nil error lets a document cut inside its last segment end in a clean EOF).
func c02SuccessImpliesVerified(p *Prog, r *Report, fn *ssa.Function, name string, opens []*ssa.Call, openErrs []ssa.Value) {
	const ver = 1
	ff := &FlagFlow{Fn: fn, Must: true,
		Transfer: func(in ssa.Instruction, st uint64) uint64 { return st },
		EdgeTransfer: func(from, to *ssa.BasicBlock, st uint64) uint64 {
			v, isNil, ok := c02OutcomeTest(from, to)
			if !ok || !isNil {
				return st
			}
			ifi := from.Instrs[len(from.Instrs)-1]
			for oi, o := range opens {
				if c02Carries(v, openErrs[oi]) && instrDominates(o, ifi) {
					return st | ver
				}
			}
			return st
		}}
	ff.Run()
	// nonNilAt: value e, flowing out of block b (along the edge b->to if to != nil), is a non-nil error
	nonNilAt := func(e ssa.Value, b, to *ssa.BasicBlock) bool {
		if c02ErrShapeNonNil(e) || c02FailConst(e) {
			return true
		}
		if to != nil {
			if v, isNil, ok := c02OutcomeTest(b, to); ok && !isNil && c02Carries(v, e) {
				return true
			}
		}
		for s := b; s != nil; s = s.Idom() {
			if len(s.Preds) != 1 {
				continue
			}
			if v, isNil, ok := c02OutcomeTest(s.Preds[0], s); ok && !isNil && (v == e || c02Carries(v, e)) {
				return true
			}
		}
		return false
	}
	var bad, unknown []string
	nRet := 0
	var judge func(e ssa.Value, b, to *ssa.BasicBlock, verified bool, pos string, depth int)
	judge = func(e ssa.Value, b, to *ssa.BasicBlock, verified bool, pos string, depth int) {
		if verified {
			return
		}
		if c02SuccessConst(e) {
			bad = append(bad, pos)
			return
		}
		if nonNilAt(e, b, to) {
			return
		}
		// the authentication error itself is returned: nil exactly when the segment was authenticated
		if _, isPhi := e.(*ssa.Phi); !isPhi && (c02CarriesAny(e, openErrs) || c02IsOutcomeExpr(e, openErrs)) {
			return
		}
		if phi, ok := e.(*ssa.Phi); ok && depth < 4 {
			for i, inc := range phi.Edges {
				pred := phi.Block().Preds[i]
				o, vis := ff.Out(pred)
				if !vis {
					continue
				}
				judge(inc, pred, phi.Block(), ff.EdgeTransfer(pred, phi.Block(), o)&ver != 0, pos, depth+1)
			}
			return
		}
		unknown = append(unknown, pos)
	}
	ff.AtReturns(func(ret *ssa.Return, st uint64) {
		if len(ret.Results) == 0 {
			return
		}
		nRet++
		judge(c02Ret(ret, len(ret.Results)-1), ret.Block(), nil, st&ver != 0, p.Pos(ret.Pos()), 0)
	})
	construct := name + " success only after Open"
	switch {
	case len(bad) > 0:
		r.Violation("C02.T1-success-implies-verified", construct, bad[0],
			"the segment decryptor can return a nil error (at "+strings.Join(c02Uniq(bad), ", ")+") on a path on which AEAD.Open has not succeeded: the segment is reported as processed without having been authenticated. The caller moves on (or, for the final segment, closes the stream cleanly), so e.g. a document cut a few bytes into its last segment ends in a clean EOF with that segment missing")
	case len(unknown) > 0:
		r.Undecide("%s: the error returned at %s is neither visibly non-nil nor behind the success edge of AEAD.Open; cannot classify", construct, unknown[0])
	default:
		r.Check(nRet > 0, "C02.T1-success-implies-verified", construct, p.Pos(fn.Pos()),
			"every return that can report success is behind the err==nil edge of AEAD.Open", "the function has no return")
	}
}

func c02IsByteSlice(t types.Type) bool {
	s, ok := t.Underlying().(*types.Slice)
	if !ok {
		return false
	}
	return c02IsBasicKind(s.Elem(), types.Byte) || c02IsBasicKind(s.Elem(), types.Uint8)
}

func c02IsBasicKind(t types.Type, k types.BasicKind) bool {
	b, ok := t.Underlying().(*types.Basic)
	return ok && b.Kind() == k
}

func c02ParamIndex(fn *ssa.Function, pa *ssa.Parameter) int {
	for i, q := range fn.Params {
		if q == pa {
			return i
		}
	}
	return -1
}

// ---------------------------------------------------------------------------
// T3/T4/T5: processSegments

type c02Loop struct {
	p         *Prog
	fn        *ssa.Function
	name      string
	reads     []*ssa.Call // calls reading from the source (Read / ReadFull / ReadAtLeast / same-package read helpers)
	readErrs  []ssa.Value
	readFull  bool        // some read goes through io.ReadFull/ReadAtLeast (only used to word the diagnostics)
	calls     []*ssa.Call // segment-processor calls
	callErrs  []ssa.Value
	closes    []ssa.Instruction // Close / CloseWithError on the pipe, calls of helpers that close it, and — for a loop that reports to its caller instead of closing — its returns
	retErr    bool              // the function never closes the pipe itself: it returns an error and its caller closes
	deferred  []*ssa.Defer
	closeKind map[ssa.Instruction]int       // 0 clean, 1 error, 2 maybe
	closeArg  map[ssa.Instruction]ssa.Value // the error the pipe is closed with (nil for a clean close / by-construction error)
	closeName map[ssa.Instruction]string
}

// numArg / lastArg: the segment number and the finality flag handed to a
// segment-processor call (the last two arguments of the processor signature).
func (L *c02Loop) numArg(cl *ssa.Call) ssa.Value  { return cl.Call.Args[len(cl.Call.Args)-2] }
func (L *c02Loop) lastArg(cl *ssa.Call) ssa.Value { return cl.Call.Args[len(cl.Call.Args)-1] }

const (
	c02CloseClean = iota
	c02CloseErr
	c02CloseMaybe
)

func c02IsPipeWriter(t types.Type) bool {
	pt, ok := t.Underlying().(*types.Pointer)
	if !ok {
		return false
	}
	n, ok := types.Unalias(pt.Elem()).(*types.Named)
	return ok && n.Obj().Pkg() != nil && n.Obj().Pkg().Path() == "io" && n.Obj().Name() == "PipeWriter"
}

func c02IsIOReader(t types.Type) bool {
	n, ok := types.Unalias(t).(*types.Named)
	return ok && n.Obj().Pkg() != nil && n.Obj().Pkg().Path() == "io" && n.Obj().Name() == "Reader"
}

// c02GivenReader: v is a reader the function was given — a parameter, a
// free variable, a field of its receiver/parameter — possibly wrapped
// (MultiReader…) or merged by phis; as opposed to a reader it made itself
// from something else (hkdf.New, bytes.NewReader).
func c02GivenReader(v ssa.Value, depth int) bool {
	if depth > 5 || v == nil {
		return false
	}
	switch x := v.(type) {
	case *ssa.Parameter, *ssa.FreeVar:
		return true
	case *ssa.MakeInterface:
		return c02GivenReader(x.X, depth+1)
	case *ssa.ChangeInterface:
		return c02GivenReader(x.X, depth+1)
	case *ssa.Phi:
		for _, e := range x.Edges {
			if e != ssa.Value(x) && c02GivenReader(e, depth+1) {
				return true
			}
		}
	case *ssa.UnOp:
		if x.Op == token.MUL {
			switch y := x.X.(type) {
			case *ssa.FieldAddr, *ssa.Parameter, *ssa.FreeVar:
				return true
			case *ssa.Alloc:
				for _, rr := range refs(y) {
					if st, ok := rr.(*ssa.Store); ok && st.Addr == ssa.Value(y) && c02GivenReader(st.Val, depth+1) {
						return true
					}
				}
			}
		}
	case *ssa.Field:
		return true
	case *ssa.Call:
		if callIs(x, "io", "", "MultiReader") || callIs(x, "io", "", "LimitReader") || callIs(x, "io", "", "TeeReader") || callIs(x, "bufio", "", "NewReader") || callIs(x, "bufio", "", "NewReaderSize") {
			for _, a := range x.Call.Args {
				if c02GivenReader(a, depth+1) {
					return true
				}
			}
		}
	}
	return false
}

func c02CheckProcessSegments(p *Prog, r *Report, fn *ssa.Function) {
	L := &c02Loop{p: p, fn: fn, name: c02Name(p, fn), closeKind: map[ssa.Instruction]int{}, closeArg: map[ssa.Instruction]ssa.Value{}, closeName: map[ssa.Instruction]string{}}
	// Roles are identified by type and data flow, not by parameter position:
	// the pipe is any *io.PipeWriter value, the source any io.Reader the
	// function was given, the processor any callee of the processor signature.
	errT := types.Universe.Lookup("error").Type()
	var helperFlows []*c02SrcFlowResult
	type closeHelper struct {
		call *ssa.Call
		sum  c02PipeSummary
	}
	var closeHelpers []closeHelper
	var boundCloses []*ssa.Call
	var boundDeferred []*ssa.Defer
	boundClose := func(cc *ssa.CallCommon) string {
		if cc.IsInvoke() {
			return ""
		}
		return c02BoundPipeClose(c02Origin(cc.Value))
	}
	allInstrs(fn, func(in ssa.Instruction) {
		switch x := in.(type) {
		case *ssa.Call:
			cc := x.Common()
			isPipeClose := (callIs(x, "io", "PipeWriter", "Close") || callIs(x, "io", "PipeWriter", "CloseWithError")) && len(cc.Args) > 0 && c02IsPipeWriter(cc.Args[0].Type())
			switch {
			case c02ProcCall(x):
				L.calls = append(L.calls, x)
			case cc.IsInvoke() && cc.Method.Name() == "Read" && c02IsIOReader(cc.Value.Type()) && c02GivenReader(cc.Value, 0):
				L.reads = append(L.reads, x)
			case (callIs(x, "io", "", "ReadFull") || callIs(x, "io", "", "ReadAtLeast")) && len(cc.Args) > 0 && c02GivenReader(cc.Args[0], 0):
				L.reads = append(L.reads, x)
				L.readFull = true
			case isPipeClose:
				L.closes = append(L.closes, x)
			case c02BoundRead(cc):
				// in.Read kept as a method value (read := in.Read) and called through it
				L.reads = append(L.reads, x)
			case boundClose(cc) != "":
				// out.Close / out.CloseWithError kept as a method value (abort := out.CloseWithError) and called through it
				boundCloses = append(boundCloses, x)
			default:
				// any other call that receives the pipe or the source
				hasPipe, hasSrc := false, false
				for _, a := range cc.Args {
					if c02IsPipeWriter(a.Type()) {
						hasPipe = true
					}
					if c02IsIOReader(a.Type()) && c02GivenReader(a, 0) && !cc.IsInvoke() {
						hasSrc = true
					}
				}
				if !hasPipe && !hasSrc {
					return
				}
				h := staticCallee(x)
				if h == nil || !p.InModule(h) || len(h.Blocks) == 0 {
					what := "the pipe writer"
					if hasSrc {
						what = "the source reader"
					}
					undecided("%s hands %s to %s, which is not a same-package function whose body can be followed", L.name, what, cc.Value.Name())
				}
				if hasSrc {
					// a read helper: judged by the same source-error flow, then treated as a read
					c02LabelHelper(p, h, "read helper")
					hr := c02SourceFlow(p, h, 1)
					helperFlows = append(helperFlows, hr)
					if hr.undecided != "" {
						undecided("%s", hr.undecided)
					}
					L.reads = append(L.reads, x)
					var scan func(q *c02SrcFlowResult)
					scan = func(q *c02SrcFlowResult) {
						allInstrs(q.fn, func(j ssa.Instruction) {
							if c, ok := j.(*ssa.Call); ok && (callIs(c, "io", "", "ReadFull") || callIs(c, "io", "", "ReadAtLeast")) {
								L.readFull = true
							}
						})
						for _, sub := range q.helpers {
							scan(sub)
						}
					}
					scan(hr)
				}
				if hasPipe {
					sum := c02SummarisePipeHelper(p, h, 0)
					switch sum.kind {
					case c02PipeNone:
					case c02PipeUnknown:
						undecided("%s hands the pipe writer to %s, which closes it on some paths only (or in a way that cannot be summarised); the close discipline cannot be followed there", L.name, FuncName(p, h))
					default:
						closeHelpers = append(closeHelpers, closeHelper{x, sum})
					}
				}
			}
		case *ssa.Defer:
			cc := x.Common()
			if (callIs(x, "io", "PipeWriter", "Close") || callIs(x, "io", "PipeWriter", "CloseWithError")) && len(cc.Args) > 0 && c02IsPipeWriter(cc.Args[0].Type()) {
				L.deferred = append(L.deferred, x)
				return
			}
			if boundClose(cc) != "" {
				boundDeferred = append(boundDeferred, x)
				return
			}
			for _, a := range cc.Args {
				if c02IsPipeWriter(a.Type()) {
					undecided("%s defers a call that receives the pipe writer (%s); the close discipline cannot be followed there", L.name, cc.Value.Name())
				}
			}
		case *ssa.Go:
			for _, a := range x.Common().Args {
				if c02IsPipeWriter(a.Type()) {
					undecided("%s hands the pipe writer to a goroutine", L.name)
				}
			}
		case *ssa.MakeClosure:
			if c02BoundPipeClose(x) != "" {
				return // a method value of the pipe's Close/CloseWithError: its calls are close events
			}
			for _, b := range x.Bindings {
				t := b.Type()
				if pt, ok := t.Underlying().(*types.Pointer); ok {
					t = pt.Elem()
				}
				if c02IsPipeWriter(b.Type()) || c02IsPipeWriter(t) {
					undecided("%s: the pipe writer is captured by a closure; the close discipline cannot be followed there", L.name)
				}
				if types.Identical(t, errT) {
					undecided("%s: an error variable is captured by a closure; the path rules cannot follow it", L.name)
				}
			}
		}
	})
	for _, hr := range helperFlows {
		before := c02CountViolations(r)
		c02ReportSourceFlow(p, r, hr, "C02.T3-error-surfaces", "inside a read helper of the segment loop")
		if c02CountViolations(r) > before {
			r.Violation("C02.T3-error-surfaces", L.name+" read helper reports source errors", p.Pos(fn.Pos()),
				"the helper through which the loop reads from the source can return a nil error although the source failed (see the violation reported for it): the loop cannot surface an error it is never told about")
		}
	}
	if len(L.calls) == 0 {
		r.Violation("C02.T5-first", L.name+" clean close without any segment", p.Pos(fn.Pos()), "the segment processor is never invoked: nothing is authenticated before the stream is closed")
		return
	}
	if len(L.reads) == 0 {
		undecided("%s: no read from the source reader recognised (io.Reader.Read / io.ReadFull / io.ReadAtLeast / a same-package read helper)", L.name)
	}
	for _, rd := range L.reads {
		n := rd.Call.Signature().Results().Len()
		var e ssa.Value
		if n > 0 && types.Identical(rd.Call.Signature().Results().At(n-1).Type(), errT) {
			e = callResult(rd, n-1)
		}
		if e == nil {
			r.Violation("C02.T3-error-surfaces", L.name+" source error examined", p.Pos(rd.Pos()),
				"the error result of the read from the source is discarded: a failing source reader is indistinguishable from more data / end of input")
			return
		}
		if c02StoredToMemory(e) {
			undecided("%s keeps the source error in a memory cell; the path rules cannot follow it", L.name)
		}
		L.readErrs = append(L.readErrs, e)
	}
	for _, cl := range L.calls {
		e := callResult(cl, 0)
		if c02StoredToMemory(e) {
			undecided("%s keeps the segment processor's error in a memory cell; the path rules cannot follow it", L.name)
		}
		L.callErrs = append(L.callErrs, e)
	}
	// classify closes
	classifyArg := func(in ssa.Instruction, arg ssa.Value) {
		L.closeArg[in] = arg
		switch {
		case arg == nil || isNilConst(arg):
			L.closeKind[in] = c02CloseClean
		case c02KnownNonNilAtP(p, in.Block(), arg):
			L.closeKind[in] = c02CloseErr
		default:
			L.closeKind[in] = c02CloseMaybe
		}
	}
	classify := func(in ssa.Instruction, cc *ssa.CallCommon) {
		L.closeName[in] = cc.StaticCallee().Name()
		if cc.StaticCallee().Name() == "Close" {
			classifyArg(in, nil)
			return
		}
		classifyArg(in, cc.Args[1])
	}
	for _, cl := range L.closes {
		classify(cl, cl.(*ssa.Call).Common())
	}
	for _, d := range L.deferred {
		classify(d, d.Common())
	}
	for _, bc := range boundCloses {
		L.closes = append(L.closes, bc)
		nm := boundClose(bc.Common())
		L.closeName[bc] = nm
		if nm == "Close" || len(bc.Call.Args) == 0 {
			classifyArg(bc, nil)
		} else {
			classifyArg(bc, bc.Call.Args[0])
		}
	}
	for _, bd := range boundDeferred {
		L.deferred = append(L.deferred, bd)
		nm := boundClose(bd.Common())
		L.closeName[bd] = nm
		if nm == "Close" || len(bd.Call.Args) == 0 {
			classifyArg(bd, nil)
		} else {
			classifyArg(bd, bd.Call.Args[0])
		}
	}
	for _, ch := range closeHelpers {
		L.closes = append(L.closes, ch.call)
		L.closeName[ch.call] = "close via helper"
		switch ch.sum.kind {
		case c02PipeClean:
			classifyArg(ch.call, nil)
		case c02PipeErr:
			L.closeKind[ch.call] = c02CloseErr
		case c02PipeErrArg:
			classifyArg(ch.call, ch.call.Call.Args[ch.sum.arg])
		}
	}

	// A loop that never closes the pipe itself but returns an error: its returns
	// are the termination events (nil = clean end, non-nil = failure) and every
	// caller must turn them into the corresponding close (judged below).
	res := fn.Signature.Results()
	if len(L.closes) == 0 && len(L.deferred) == 0 && res.Len() > 0 && types.Identical(res.At(res.Len()-1).Type(), errT) {
		L.retErr = true
		allInstrs(fn, func(in ssa.Instruction) {
			ret, ok := in.(*ssa.Return)
			if !ok || len(ret.Results) == 0 || (len(ret.Block().Preds) == 0 && ret.Block().Index != 0) {
				return
			}
			L.closes = append(L.closes, ret)
			L.closeName[ret] = "return"
			classifyArg(ret, c02Ret(ret, len(ret.Results)-1))
		})
		c02CheckLoopCallers(p, r, fn)
	}

	c02ErrorSurfaces(r, L)
	c02Counter(r, L)
	c02Finality(r, L)
	c02CheckBufferExclusive(p, r, L)
}

// c02CheckLoopCallers: the segment loop fn reports its outcome as an error
// result; every caller must close the pipe with an error when that result is
// non-nil and may close it cleanly only when it is nil (the same T3 flow, with
// the call as the error source).
func c02CheckLoopCallers(p *Prog, r *Report, loop *ssa.Function) {
	errT := types.Universe.Lookup("error").Type()
	nSites := 0
	for _, w := range p.Funcs {
		if w == loop || w.Pkg != loop.Pkg && (w.Parent() == nil || c02TopParent(w).Pkg != loop.Pkg) {
			continue
		}
		var sites []ssa.CallInstruction
		allInstrs(w, func(in ssa.Instruction) {
			if ci, ok := in.(ssa.CallInstruction); ok && staticCallee(ci) == loop {
				sites = append(sites, ci)
			}
		})
		if len(sites) == 0 {
			continue
		}
		c02LabelHelper(p, w, "segment loop caller")
		W := &c02Loop{p: p, fn: w, name: c02Name(p, w), closeKind: map[ssa.Instruction]int{}, closeArg: map[ssa.Instruction]ssa.Value{}, closeName: map[ssa.Instruction]string{}}
		for _, site := range sites {
			nSites++
			call, isCall := site.(*ssa.Call)
			var e ssa.Value
			if isCall {
				e = callResult(call, call.Call.Signature().Results().Len()-1)
			}
			if e == nil {
				r.Violation("C02.T3-error-surfaces", W.name+" outcome of the segment loop", p.Pos(site.Pos()),
					"the error returned by the segment loop is discarded by its caller (not extracted, or the loop is started with go/defer): a failed segment or a failing source can no longer be turned into an error on the output stream")
				return
			}
			if c02StoredToMemory(e) {
				undecided("%s keeps the segment loop's error in a memory cell; the path rules cannot follow it", W.name)
			}
			W.calls = append(W.calls, call)
			W.callErrs = append(W.callErrs, e)
		}
		classifyArg := func(in ssa.Instruction, arg ssa.Value) {
			W.closeArg[in] = arg
			switch {
			case arg == nil || isNilConst(arg):
				W.closeKind[in] = c02CloseClean
			case c02KnownNonNilAtP(p, in.Block(), arg):
				W.closeKind[in] = c02CloseErr
			default:
				W.closeKind[in] = c02CloseMaybe
			}
		}
		allInstrs(w, func(in ssa.Instruction) {
			ci, ok := in.(ssa.CallInstruction)
			if !ok {
				return
			}
			cc := ci.Common()
			isClose := callIs(ci, "io", "PipeWriter", "Close")
			isCWE := callIs(ci, "io", "PipeWriter", "CloseWithError")
			if !(isClose || isCWE) || len(cc.Args) == 0 || !c02IsPipeWriter(cc.Args[0].Type()) {
				// helpers that close
				if call, isCall := in.(*ssa.Call); isCall && staticCallee(call) != loop {
					if h := staticCallee(call); h != nil && p.InModule(h) {
						for _, a := range cc.Args {
							if !c02IsPipeWriter(a.Type()) {
								continue
							}
							sum := c02SummarisePipeHelper(p, h, 0)
							switch sum.kind {
							case c02PipeNone:
							case c02PipeUnknown:
								undecided("%s hands the pipe writer to %s, which closes it in a way that cannot be summarised", W.name, FuncName(p, h))
							case c02PipeClean:
								W.closes = append(W.closes, call)
								W.closeName[call] = "close via helper"
								classifyArg(call, nil)
							case c02PipeErr:
								W.closes = append(W.closes, call)
								W.closeName[call] = "close via helper"
								W.closeKind[call] = c02CloseErr
							case c02PipeErrArg:
								W.closes = append(W.closes, call)
								W.closeName[call] = "close via helper"
								classifyArg(call, cc.Args[sum.arg])
							}
						}
					}
				}
				return
			}
			var arg ssa.Value
			if isCWE {
				arg = cc.Args[1]
			}
			switch x := in.(type) {
			case *ssa.Call:
				W.closes = append(W.closes, x)
				W.closeName[x] = cc.StaticCallee().Name()
				classifyArg(x, arg)
			case *ssa.Defer:
				W.deferred = append(W.deferred, x)
				W.closeName[x] = cc.StaticCallee().Name()
				classifyArg(x, arg)
			}
		})
		_ = errT
		c02ErrorSurfaces(r, W)
	}
	if nSites == 0 {
		r.Undecide("%s returns its outcome as an error but no caller was found; who closes the pipe cannot be established", c02Name(p, loop))
	}
}

func c02TopParent(f *ssa.Function) *ssa.Function {
	for f.Parent() != nil {
		f = f.Parent()
	}
	return f
}

// c02CarrierKnownNonNil: a dominating edge established v != nil where v is
// tested directly (errKnownNonNil) — already covered — or through a phi that
// IS arg (same value). Kept separate for clarity.
func c02CarrierKnownNonNil(b *ssa.BasicBlock, arg ssa.Value) bool {
	for s := b; s != nil; s = s.Idom() {
		if len(s.Preds) != 1 {
			continue
		}
		if v, isNil, ok := c02NilTest(s.Preds[0], s); ok && !isNil && v == arg {
			return true
		}
	}
	return false
}

// c02ErrorSurfaces (T3): may-dataflow over path states
//
//	bit0 RDP  a source read error that is neither nil nor end-of-input may be pending
//	bit1 PFP  a processFn error may be pending
//	bits2-3   pipe: 0 open, 1 closed with error, 2 closed clean
func c02ErrorSurfaces(r *Report, L *c02Loop) {
	p := L.p
	const (
		rdp     = 1
		pfp     = 2
		badsent = 16 // the pending source error was matched against a sentinel other than io.EOF (sticky until the next read)
	)
	closeState := func(s int) int { return (s >> 2) & 3 }
	setClose := func(s, k int) int { return (s &^ 12) | (k << 2) }
	// Only io.EOF is end of input. io.ErrUnexpectedEOF is NOT accepted, also not
	// behind io.ReadFull/ReadAtLeast: their short-read marker cannot be told from
	// a source reader that itself fails with io.ErrUnexpectedEOF.
	pureSources := append(append([]ssa.Value{}, L.readErrs...), L.callErrs...)
	// effective kind of a close for a path state
	effKind := func(in ssa.Instruction, cc *ssa.CallCommon, s int) int {
		k := L.closeKind[in]
		if k != c02CloseMaybe {
			return k
		}
		arg := L.closeArg[in]
		if arg != nil && ((s&rdp != 0 && c02CarriesAny(arg, L.readErrs)) || (s&pfp != 0 && c02CarriesAny(arg, L.callErrs))) {
			return c02CloseErr
		}
		if s&(rdp|pfp) == 0 || c02CarriesAny(arg, L.readErrs) || c02CarriesAny(arg, L.callErrs) {
			// nothing pending (or the pending error is not the one carried): the argument is nil on this path
			return c02CloseClean
		}
		// an error value of unknown nilness that is not the pending error itself (e.g. produced by a helper
		// that cannot be summarised): neither "closes with an error" nor "closes cleanly" is established
		return c02CloseMaybe
	}
	replay := false
	isRead := map[ssa.Instruction]bool{}
	for _, x := range L.reads {
		isRead[x] = true
	}
	isCall := map[ssa.Instruction]bool{}
	for _, x := range L.calls {
		isCall[x] = true
	}
	isClose := map[ssa.Instruction]bool{}
	for _, x := range L.closes {
		isClose[x] = true
	}
	isDefClose := map[ssa.Instruction]bool{}
	for _, x := range L.deferred {
		isDefClose[x] = true
	}
	type badClose struct {
		in   ssa.Instruction
		what string
	}
	ff := &FlagFlow{Fn: L.fn, Must: false, Entry: 1 << 0}
	ff.Transfer = func(in ssa.Instruction, st uint64) uint64 {
		switch x := in.(type) {
		case *ssa.RunDefers:
			replay = true
			return st
		case *ssa.Defer:
			if replay && isDefClose[in] {
				return mapStates(st, func(s int) int {
					if closeState(s) != 0 {
						return s
					}
					if effKind(in, x.Common(), s) != c02CloseClean {
						return setClose(s, 1)
					}
					return setClose(s, 2)
				})
			}
			return st
		}
		replay = false
		switch {
		case isRead[in]:
			return mapStates(st, func(s int) int { return (s | rdp) &^ badsent })
		case isCall[in]:
			return mapStates(st, func(s int) int { return s | pfp })
		case isClose[in]:
			return mapStates(st, func(s int) int {
				if closeState(s) != 0 {
					return s
				}
				if effKind(in, nil, s) != c02CloseClean {
					return setClose(s, 1)
				}
				return setClose(s, 2)
			})
		}
		return st
	}
	// errors handed to an error-filter helper (err = keepFatal(err)): a nil result means nil-or-EOF for a read error;
	// a read error handed to a same-package function that cannot be summarised makes a finding about it undecided
	filteredRead, readEscapes := c02FilteredErrors(p, L.fn, func(v ssa.Value) bool { return c02CarriesAny(v, L.readErrs) })
	ff.EdgeTransfer = func(from, to *ssa.BasicBlock, st uint64) uint64 {
		if v, isNil, ok := c02NilTest(from, to); ok && isNil && len(filteredRead) > 0 && c02CarriesAny(v, filteredRead) && !c02CarriesAny(v, L.readErrs) {
			return mapStates(st, func(s int) int {
				if s&badsent != 0 {
					return s
				}
				return s &^ rdp
			})
		}
		if v, isNil, ok := c02NilTest(from, to); ok && isNil {
			clr := 0
			if c02CarriesAny(v, L.readErrs) {
				clr |= rdp
			}
			if c02CarriesAny(v, L.callErrs) {
				clr |= pfp
			}
			if clr != 0 {
				return mapStates(st, func(s int) int {
					if s&badsent != 0 {
						// the source error is known to be a non-EOF sentinel: a nil value here is a replacement, not the error
						return s &^ (clr &^ rdp)
					}
					return s &^ clr
				})
			}
		}
		if v, kind, ok := c02PredTest(p, from, to); ok {
			// an extracted error-classification helper: its outcome on this edge says the error is nil / nil-or-EOF
			clr := 0
			if c02CarriesAny(v, L.readErrs) && c02PureCarrier(v, pureSources) {
				clr |= rdp
			}
			if kind == 3 && c02CarriesAny(v, L.callErrs) {
				clr |= pfp
			}
			if clr != 0 {
				return mapStates(st, func(s int) int {
					if s&badsent != 0 {
						return s &^ (clr &^ rdp)
					}
					return s &^ clr
				})
			}
		}
		if v, sent, ok := c02SentinelTest(from, to); ok && c02CarriesAny(v, L.readErrs) {
			if sent == "io.EOF" {
				if c02PureCarrier(v, pureSources) {
					return mapStates(st, func(s int) int {
						if s&badsent != 0 {
							return s
						}
						return s &^ rdp
					})
				}
				return st
			}
			return mapStates(st, func(s int) int {
				if s&rdp != 0 {
					return s | badsent
				}
				return s
			})
		}
		return st
	}
	ff.Run()

	pendingText := func(s int) string {
		var w []string
		if s&rdp != 0 && s&badsent != 0 {
			txt := "an error of the source reader that was matched against a sentinel other than io.EOF (io.ErrUnexpectedEOF and the like are real failures of the source — a body shorter than announced, a truncated archive — and must not be treated as end of input)"
			if L.readFull {
				txt += "; the fill goes through io.ReadFull/io.ReadAtLeast, whose short-read marker io.ErrUnexpectedEOF cannot be told from a source that fails with io.ErrUnexpectedEOF, so tolerating it hides a source error"
			}
			w = append(w, txt)
		} else if s&rdp != 0 {
			txt := "an error of the source reader other than io.EOF"
			if L.readFull {
				txt += " (the fill goes through io.ReadFull/io.ReadAtLeast: only io.EOF may be treated as end of input, io.ErrUnexpectedEOF cannot be told from a failing source)"
			}
			w = append(w, txt)
		}
		if s&pfp != 0 {
			w = append(w, "an error of the segment processor (failed authentication)")
		}
		return strings.Join(w, " / ")
	}
	// clean close while pending
	checkClose := func(in ssa.Instruction, cc *ssa.CallCommon, st uint64, atPos string) {
		bad := ""
		maybe := false
		for s := 0; s < 32; s++ {
			if st&(1<<uint(s)) == 0 || closeState(s) != 0 {
				continue
			}
			if s&(rdp|pfp) != 0 {
				switch effKind(in, cc, s) {
				case c02CloseClean:
					bad = pendingText(s)
				case c02CloseMaybe:
					maybe = true
				}
			}
		}
		if bad != "" && readEscapes != "" && strings.Contains(bad, "source reader") {
			r.Undecide("%s: the source error is handed to %s, whose treatment of it cannot be summarised; whether the close at %s can be reached with that error pending cannot be established", L.name, readEscapes, atPos)
			return
		}
		if bad == "" && maybe {
			r.Undecide("%s: the error handed to the close at %s is neither visibly non-nil nor the pending error itself; cannot classify the close", L.name, atPos)
			return
		}
		what := "Close"
		if n := L.closeName[in]; n != "" {
			what = n
		}
		construct := fmt.Sprintf("%s out.%s [%s]", L.name, what, c02CloseContext(L, in))
		r.Check(bad == "", "C02.T3-error-surfaces", construct, atPos,
			"not reachable as the first close with an error pending, or closes with that error",
			"the stream can be closed cleanly (reader sees EOF, no error) on a path on which "+bad+" is still pending: the failure does not surface on the output stream")
	}
	for _, cl := range L.closes {
		if st, ok := ff.Before(cl); ok {
			checkClose(cl, nil, st, p.Pos(instrPos(cl)))
		}
	}
	// deferred closes are judged at the returns below (state before Return already includes them)
	nRet := 0
	var openPending, openPlain []string
	ff.AtReturns(func(ret *ssa.Return, st uint64) {
		nRet++
		for s := 0; s < 32; s++ {
			if st&(1<<uint(s)) == 0 {
				continue
			}
			if closeState(s) == 0 && !L.retErr {
				if s&(rdp|pfp) != 0 {
					openPending = append(openPending, p.Pos(instrPos(ret))+": "+pendingText(s))
				} else {
					openPlain = append(openPlain, p.Pos(instrPos(ret)))
				}
			}
			if closeState(s) == 2 && s&(rdp|pfp) != 0 && len(L.deferred) > 0 {
				openPending = append(openPending, p.Pos(instrPos(ret))+": closed cleanly by a deferred close with "+pendingText(s)+" pending")
			}
		}
	})
	r.Check(len(openPending) == 0 && nRet > 0, "C02.T3-error-surfaces", L.name+" returns", p.Pos(L.fn.Pos()),
		"every return taken with an error pending has closed the pipe with an error",
		"the function can return without closing the pipe with an error although "+strings.Join(c02Uniq(openPending), "; ")+" — the reader never sees the failure (it blocks forever or gets a clean EOF)")
	for _, w := range c02Uniq(openPlain) {
		r.Note("C02 T3: %s can return at %s without closing the pipe (the reader would block; no error pending on that path, not a C02 violation)", L.name, w)
	}
}

// c02CloseContext gives a position-free description of a close site: the
// shape of its argument.
func c02CloseContext(L *c02Loop, in ssa.Instruction) string {
	var cc *ssa.CallCommon
	switch x := in.(type) {
	case *ssa.Call:
		cc = x.Common()
	case *ssa.Defer:
		cc = x.Common()
	}
	arg := L.closeArg[in]
	_ = cc
	if arg == nil {
		if L.closeKind[in] == c02CloseErr {
			return "error by construction"
		}
		return "clean"
	}
	switch {
	case isNilConst(arg):
		return "nil"
	case c02CarriesAny(arg, L.readErrs):
		return "source error"
	case c02CarriesAny(arg, L.callErrs):
		return "processor error"
	}
	if name, ok := c02IsGlobalLoad(arg); ok {
		return name
	}
	if call, ok := arg.(*ssa.Call); ok {
		if f := calleeObj(call); f != nil {
			// wrapped error: say what it wraps, if visible
			return f.Pkg().Name() + "." + f.Name() + c02WrapHint(L, call)
		}
	}
	return "error value"
}

func c02WrapHint(L *c02Loop, call *ssa.Call) string {
	// look through the varargs slice for a carried error
	hint := ""
	for _, a := range call.Call.Args {
		sl, ok := a.(*ssa.Slice)
		if !ok {
			continue
		}
		al, ok := sl.X.(*ssa.Alloc)
		if !ok {
			continue
		}
		for _, rr := range refs(al) {
			ia, ok := rr.(*ssa.IndexAddr)
			if !ok {
				continue
			}
			for _, r2 := range refs(ia) {
				if st, ok := r2.(*ssa.Store); ok {
					if c02CarriesAny(st.Val, L.callErrs) {
						hint = "(processor error)"
					} else if c02CarriesAny(st.Val, L.readErrs) {
						hint = "(source error)"
					}
				}
			}
		}
	}
	if hint == "" {
		if len(call.Call.Args) > 0 {
			if k, ok := call.Call.Args[0].(*ssa.Const); ok && k.Value != nil {
				s := k.Value.ExactString()
				if len(s) > 40 {
					s = s[:40]
				}
				return "(" + s + ")"
			}
		}
	}
	return hint
}

func c02Uniq(in []string) []string {
	seen := map[string]bool{}
	var out []string
	for _, s := range in {
		if !seen[s] {
			seen[s] = true
			out = append(out, s)
		}
	}
	return out
}

// c02Counter (T4): the segment number argument.
func c02Counter(r *Report, L *c02Loop) {
	p := L.p
	for _, cl := range L.calls {
		construct := L.name + " processFn segment number"
		if false {
			continue
		}
		n := L.numArg(cl)
		// look through integer conversions (narrowing is judged by the range rule below)
		inner := n
		for i := 0; i < 3; i++ {
			cv, ok := inner.(*ssa.Convert)
			if !ok {
				break
			}
			if _, isInt := c02IntRange(cv.X.Type()); !isInt {
				break
			}
			inner = cv.X
		}
		switch x := inner.(type) {
		case *ssa.Const:
			// a constant is fine only if the call is not in a loop (single final call after a loop would still need the count)
			r.Violation("C02.T4-counter", construct, p.Pos(cl.Pos()), "the segment number handed to the segment processor is the constant "+x.Name()+": every segment is sealed/opened at the same position, so segments can be swapped, duplicated or dropped without detection")
		case *ssa.Phi:
			why := ""
			changes := 0
			var step int64
			stepKnown := true
			noteStep := func(bo *ssa.BinOp) {
				k, ok := c02ConstInt(bo.Y, 0)
				if !ok || bo.Op != token.ADD || k <= 0 {
					stepKnown = false
					return
				}
				if k > step {
					step = k
				}
			}
			for _, e := range x.Edges {
				if _, isC := e.(*ssa.Const); isC {
					continue
				}
				if e == ssa.Value(x) {
					why = "the counter can be carried unchanged into the next iteration (two segments get the same number)"
					continue
				}
				if bo, ok := e.(*ssa.BinOp); ok && c02Carries(bo.X, x) {
					if k, ok := bo.Y.(*ssa.Const); ok && k.Value != nil && k.Value.ExactString() != "0" {
						changes++
						noteStep(bo)
						continue
					}
				}
				if ph, ok := e.(*ssa.Phi); ok {
					// nested merge (e.g. continue paths): every leaf must be counter+const
					okAll := true
					for _, e2 := range ph.Edges {
						bo, ok := e2.(*ssa.BinOp)
						if !ok || !c02Carries(bo.X, x) {
							okAll = false
						} else {
							noteStep(bo)
						}
					}
					if okAll {
						changes++
						continue
					}
				}
				why = "the segment number is updated by something other than counter±constant; cannot classify"
			}
			if why == "" && changes == 0 {
				why = "the segment number never changes between iterations: every segment is sealed/opened at the same position (swap, duplication and removal of segments go undetected)"
			}
			if strings.HasSuffix(why, "cannot classify") {
				// not the plain `counter = counter + c` shape (e.g. the next number comes out of a helper): decide it on paths
				c02CounterByPaths(r, L, cl, inner, n)
				continue
			}
			if r.Check(why == "", "C02.T4-counter", construct, p.Pos(cl.Pos()), "loop-carried counter, changed by a non-zero constant on every back edge", why) {
				c02CounterRange(r, L, cl, x, n, step, stepKnown)
			}
		default:
			// e.g. a counter kept in a struct field or a local struct: decide it on paths
			c02CounterByPaths(r, L, cl, inner, n)
		}
	}
}

// c02CounterByPaths decides T4-counter and T4-counter-range without assuming
// how the counter is stored or updated: starting right after a processor call
// made with last=false, every path to the next processor call is followed
// (through owned memory cells and loop-free same-package helpers); at the next
// call the number must be the old number plus a non-zero constant, and on the
// way an edge must have bounded it so that the new number fits.
func c02CounterByPaths(r *Report, L *c02Loop, cl *ssa.Call, tok ssa.Value, arg ssa.Value) {
	p := L.p
	construct := L.name + " processFn segment number"
	isCall := map[ssa.Instruction]bool{}
	for _, x := range L.calls {
		isCall[x] = true
	}
	isClose := map[ssa.Instruction]bool{}
	for _, x := range L.closes {
		isClose[x] = true
	}
	lv := L.lastArg(cl)
	mkEnv := func() *c02Env {
		env := &c02Env{bind: map[ssa.Value]ssa.Value{}, known: map[ssa.Value]bool{}}
		c02SeedMem(env, tok)
		if _, isConst := lv.(*ssa.Const); !isConst {
			c02LearnAssumption(env, lv, false, 0)
		}
		return env
	}
	if k, isConst := lv.(*ssa.Const); isConst && k.Value != nil && k.Value.ExactString() == "true" {
		r.Trivial("C02.T4-counter", construct, p.Pos(cl.Pos()), "this call site always passes last=true (no next segment)")
		r.Trivial("C02.T4-counter-range", L.name+" segment number range", p.Pos(cl.Pos()), "this call site always passes last=true (no next segment)")
		return
	}
	var changed, unchanged, unknown []string
	var step int64
	_, ex := c02ExploreX(cl.Block(), instrIndex(cl)+1, mkEnv(), &c02XOpts{Visit: func(in ssa.Instruction, env *c02Env) c02Action {
		switch {
		case isClose[in]:
			return c02Stop
		case isCall[in]:
			sy := env.symOf(L.numArg(in.(*ssa.Call)))
			switch {
			case sy.base == tok && sy.off != 0:
				changed = append(changed, p.Pos(in.Pos()))
				if sy.off > step {
					step = sy.off
				}
				if -sy.off > step {
					step = -sy.off
				}
			case sy.base == tok:
				unchanged = append(unchanged, p.Pos(in.Pos()))
			default:
				unknown = append(unknown, p.Pos(in.Pos()))
			}
			return c02Stop
		}
		return c02Continue
	}})
	switch {
	case !ex:
		r.Undecide("%s: path exploration exceeded its budget", construct)
		return
	case len(unchanged) > 0:
		r.Violation("C02.T4-counter", construct, p.Pos(cl.Pos()),
			"the next segment can be processed with the same segment number as the previous one (two segments get the same number, hence the same nonce): swap, duplication and removal of segments go undetected")
		return
	case len(unknown) > 0:
		r.Undecide("%s: on a path to the next segment (%s) the segment number is not visibly the previous number plus a constant; cannot classify", construct, unknown[0])
		return
	case len(changed) == 0:
		r.Undecide("%s: no path from one segment to the next was found; cannot classify", construct)
		return
	}
	r.OK("C02.T4-counter", construct, p.Pos(cl.Pos()), "on every path to the next segment the number is the previous number plus a non-zero constant")

	// range
	rconstruct := L.name + " segment number range"
	ctrMax, ok1 := c02IntRange(tok.Type())
	argMax, ok2 := c02IntRange(arg.Type())
	if !ok1 || !ok2 || step <= 0 {
		r.Undecide("%s: counter type, parameter type or step not recognised; cannot classify", rconstruct)
		return
	}
	limit := ctrMax
	if argMax < limit {
		limit = argMax
	}
	guard := func(from, to *ssa.BasicBlock, env *c02Env) bool {
		if len(from.Instrs) == 0 || len(from.Succs) != 2 || from.Succs[0] == from.Succs[1] {
			return false
		}
		ifi, ok := from.Instrs[len(from.Instrs)-1].(*ssa.If)
		if !ok {
			return false
		}
		cmp, ok := decodeCond(ifi.Cond, from.Succs[0] == to)
		if !ok {
			return false
		}
		x, y, op := cmp.X, cmp.Y, cmp.Op
		if _, isK := env.resolve(x).(*ssa.Const); isK {
			x, y = y, x
			switch op {
			case token.LSS:
				op = token.GTR
			case token.GTR:
				op = token.LSS
			case token.LEQ:
				op = token.GEQ
			case token.GEQ:
				op = token.LEQ
			}
		}
		sy := env.symOf(x)
		if sy.base != tok || sy.off < 0 {
			return false
		}
		kc, isK := env.resolve(y).(*ssa.Const)
		if !isK || kc.Value == nil || kc.Value.Kind() != constant.Int {
			return false
		}
		ku, exact := constant.Uint64Val(kc.Value)
		if !exact {
			return false
		}
		add := uint64(sy.off)
		var bound uint64 // upper bound established for tok+add
		switch op {
		case token.LSS:
			if ku == 0 {
				return false
			}
			bound = ku - 1
		case token.LEQ:
			bound = ku
		case token.NEQ:
			if ku == 0 && add > 0 && int64(add) == step && ctrMax == limit {
				return true // tok+step != 0: the increment did not wrap
			}
			if ku != ctrMax || add != 0 {
				return false
			}
			bound = ku - 1
		default:
			return false
		}
		if bound < add {
			return false
		}
		next := bound - add + uint64(step)
		if next < bound-add {
			return false
		}
		return next <= limit
	}
	hits, ex2 := c02ExploreX(cl.Block(), instrIndex(cl)+1, mkEnv(), &c02XOpts{
		Visit: func(in ssa.Instruction, env *c02Env) c02Action {
			switch {
			case isCall[in]:
				return c02Target
			case isClose[in]:
				return c02Stop
			}
			return c02Continue
		},
		EdgeStop: guard,
	})
	if !ex2 {
		r.Undecide("%s: path exploration exceeded its budget", rconstruct)
		return
	}
	if len(hits) == 0 {
		r.OK("C02.T4-counter-range", rconstruct, p.Pos(cl.Pos()), fmt.Sprintf("between two segments the counter is bounded so that the next number fits (limit %d)", limit))
		return
	}
	how := fmt.Sprintf("the %s counter wraps around", tok.Type())
	if argMax < ctrMax {
		how = fmt.Sprintf("the %s counter is truncated by the conversion to %s", tok.Type(), arg.Type())
	}
	r.Violation("C02.T4-counter-range", rconstruct, p.Pos(instrPos(hits[0].Instr)),
		"the next segment can be processed without any bound on the segment counter having been checked: after 2^32 segments "+how+" and segment i+2^32 is handed the same number — hence the same nonce — as segment i. processSegments is shared by Encrypt and Decrypt: when encrypting this is nonce reuse under one key, when decrypting a segment authenticates at two positions (swap/duplication undetected). An overflow guard (counter compared with a constant bound, failing side closing the stream with an error) must lie on every path between two segments",
		c02Trail(p, hits[0].Trail)...)
}

// c02SeedMem: if v is a load from a cell the function owns, that load names
// the cell's content at the start of an exploration (later loads of the same
// cell then denote the same value until it is stored to).
func c02SeedMem(env *c02Env, v ssa.Value) {
	for i := 0; i < 3; i++ {
		if cv, ok := v.(*ssa.Convert); ok {
			v = cv.X
			continue
		}
		break
	}
	u, ok := v.(*ssa.UnOp)
	if !ok || u.Op != token.MUL {
		return
	}
	if _, key, ok := c02CellKey(u.X); ok {
		if env.mem == nil {
			env.mem = map[string]ssa.Value{}
		}
		env.mem[key] = u
	}
}

// c02IntRange returns the largest value of an integer type (int/uint are taken as 64 bit).
func c02IntRange(t types.Type) (max uint64, ok bool) {
	b, isB := t.Underlying().(*types.Basic)
	if !isB {
		return 0, false
	}
	switch b.Kind() {
	case types.Uint8:
		return 1<<8 - 1, true
	case types.Int8:
		return 1<<7 - 1, true
	case types.Uint16:
		return 1<<16 - 1, true
	case types.Int16:
		return 1<<15 - 1, true
	case types.Uint32:
		return 1<<32 - 1, true
	case types.Int32:
		return 1<<31 - 1, true
	case types.Uint64, types.Uint, types.Uintptr:
		return 1<<64 - 1, true
	case types.Int64, types.Int:
		return 1<<63 - 1, true
	}
	return 0, false
}

// c02CounterRange (T4-counter-range): the value handed to processFn is
// injective in the loop counter over the whole range the loop can reach: on
// every path from one processFn call to the next, an edge establishes that the
// counter (plus its step) still fits both its own type and the uint32
// parameter. Without it the counter wraps (same width) or is truncated
// (narrowing conversion of a wider counter): segment i and segment i+2^32 get
// the same nonce. processSegments is shared by Encrypt and Decrypt, so this
// is nonce reuse when encrypting and lost position binding when decrypting.
func c02CounterRange(r *Report, L *c02Loop, cl *ssa.Call, ctr *ssa.Phi, arg ssa.Value, step int64, stepKnown bool) {
	p := L.p
	construct := L.name + " segment number range"
	rule := "C02.T4-counter-range"
	ctrMax, ok1 := c02IntRange(ctr.Type())
	argMax, ok2 := c02IntRange(arg.Type())
	if !ok1 || !ok2 || !stepKnown || step <= 0 {
		r.Undecide("%s: counter type, parameter type or step not recognised; cannot classify", construct)
		return
	}
	limit := ctrMax
	if argMax < limit {
		limit = argMax
	}
	// guard edges: edges on which counter(+c) is bounded so that the next value fits
	isCtr := func(v ssa.Value) (add int64, ok bool) {
		for i := 0; i < 3; i++ {
			if cv, isCv := v.(*ssa.Convert); isCv {
				// only widening (or same-size) views of the counter keep its value
				if m, isInt := c02IntRange(cv.Type()); isInt && m >= ctrMax {
					v = cv.X
					continue
				}
			}
			break
		}
		if v == ssa.Value(ctr) {
			return 0, true
		}
		if bo, isBo := v.(*ssa.BinOp); isBo && bo.Op == token.ADD && bo.X == ssa.Value(ctr) {
			if k, ok := c02ConstInt(bo.Y, 0); ok && k > 0 {
				return k, true
			}
		}
		return 0, false
	}
	guardEdge := func(from, to *ssa.BasicBlock) bool {
		if len(from.Instrs) == 0 || len(from.Succs) != 2 || from.Succs[0] == from.Succs[1] {
			return false
		}
		ifi, ok := from.Instrs[len(from.Instrs)-1].(*ssa.If)
		if !ok {
			return false
		}
		cmp, ok := decodeCond(ifi.Cond, from.Succs[0] == to)
		if !ok {
			return false
		}
		x, y, op := cmp.X, cmp.Y, cmp.Op
		if _, isC := isCtr(x); !isC {
			// constant on the left: mirror
			x, y = y, x
			switch op {
			case token.LSS:
				op = token.GTR
			case token.GTR:
				op = token.LSS
			case token.LEQ:
				op = token.GEQ
			case token.GEQ:
				op = token.LEQ
			}
		}
		add, isC := isCtr(x)
		if !isC {
			return false
		}
		kc, isK := y.(*ssa.Const)
		if !isK || kc.Value == nil || kc.Value.Kind() != constant.Int {
			return false
		}
		ku, exact := constant.Uint64Val(kc.Value)
		if !exact {
			return false
		}
		// upper bound established for (counter+add) on this edge
		var bound uint64
		switch op {
		case token.LSS:
			if ku == 0 {
				return false
			}
			bound = ku - 1
		case token.LEQ:
			bound = ku
		case token.NEQ:
			// counter+step != 0: the increment does not wrap (unsigned counter)
			if ku == 0 && add > 0 && add == step && ctrMax == limit {
				return true
			}
			// excludes one value: a bound only if that value is the largest the type can hold
			if ku != ctrMax || add != 0 {
				return false
			}
			bound = ku - 1
		default:
			return false
		}
		// a bound on the counter itself that holds at the call (the guard edge dominates the call, and the
		// counter is the loop-carried value used in that same iteration) needs no slack for the increment
		if add == 0 && bound <= limit && edgeDominates(from, to, cl.Block()) {
			return true
		}
		// next value = counter + step; (counter+add) <= bound  =>  counter+step <= bound - add + step
		next := bound - uint64(add) + uint64(step)
		if next < bound-uint64(add) { // overflow of the computation itself
			return false
		}
		return next <= limit
	}
	isCall := map[ssa.Instruction]bool{}
	for _, x := range L.calls {
		isCall[x] = true
	}
	isClose := map[ssa.Instruction]bool{}
	for _, x := range L.closes {
		isClose[x] = true
	}
	if false {
		return
	}
	lv := L.lastArg(cl)
	env := &c02Env{bind: map[ssa.Value]ssa.Value{}, known: map[ssa.Value]bool{}}
	if k, isConst := lv.(*ssa.Const); isConst {
		if k.Value != nil && k.Value.ExactString() == "true" {
			r.Trivial(rule, construct, p.Pos(cl.Pos()), "this call site always passes last=true (no next segment)")
			return
		}
	} else {
		c02SeedMem(env, lv)
		c02LearnAssumption(env, lv, false, 0)
	}
	hits, exhausted := c02ExploreEdges(cl.Block(), instrIndex(cl)+1, env, func(in ssa.Instruction) c02Action {
		switch {
		case isCall[in]:
			return c02Target
		case isClose[in]:
			return c02Stop
		}
		return c02Continue
	}, guardEdge)
	if !exhausted {
		r.Undecide("%s: path exploration exceeded its budget", construct)
		return
	}
	if len(hits) == 0 {
		r.OK(rule, construct, p.Pos(cl.Pos()), fmt.Sprintf("between two segments the counter is bounded so that the next number fits (limit %d)", limit))
		return
	}
	how := fmt.Sprintf("the %s counter wraps around", ctr.Type())
	if argMax < ctrMax {
		how = fmt.Sprintf("the %s counter is truncated by the conversion to %s", ctr.Type(), arg.Type())
	}
	r.Violation(rule, construct, p.Pos(instrPos(hits[0].Instr)),
		"the next segment can be processed without any bound on the segment counter having been checked: after 2^32 segments "+how+" and segment i+2^32 is handed the same number — hence the same nonce — as segment i. processSegments is shared by Encrypt and Decrypt: when encrypting this is nonce reuse under one key, when decrypting a segment authenticates at two positions (swap/duplication undetected). An overflow guard (counter compared with a constant bound, failing side closing the stream with an error) must lie on every path between two segments",
		c02Trail(p, hits[0].Trail)...)
}

// c02Finality (T4-final-is-last, T5-first, T5-next) with the path explorer.
func c02Finality(r *Report, L *c02Loop) {
	p := L.p
	isCall := map[ssa.Instruction]bool{}
	for _, x := range L.calls {
		isCall[x] = true
	}
	isClose := map[ssa.Instruction]bool{}
	for _, x := range L.closes {
		isClose[x] = true
	}
	hasDeferredClean := false
	for _, d := range L.deferred {
		if L.closeKind[d] != c02CloseErr {
			hasDeferredClean = true
		}
	}
	// visit for "reach a clean close before another processFn call"
	toCleanClose := func(in ssa.Instruction) c02Action {
		switch {
		case isCall[in]:
			return c02Stop
		case isClose[in]:
			if L.closeKind[in] == c02CloseErr {
				return c02Stop
			}
			return c02Target
		}
		if _, ok := in.(*ssa.Return); ok && hasDeferredClean {
			return c02Target
		}
		return c02Continue
	}
	report := func(rule, construct, okMsg, badMsg string, hits []c02Hit, exhausted bool, pos string, lv ssa.Value) {
		if !exhausted {
			r.Undecide("%s: path exploration exceeded its budget", construct)
			return
		}
		if len(hits) == 0 {
			r.OK(rule, construct, pos, okMsg)
			return
		}
		// prefer a witness that does not depend on a flag unrelated to the finality argument
		var h c02Hit
		var unrelated ssa.Value
		found := false
		for _, cand := range hits {
			u := c02UnrelatedFlag(lv, cand.Opaque)
			if u == nil {
				h, found = cand, true
				break
			}
			if unrelated == nil {
				unrelated, h = u, cand
			}
		}
		if !found {
			r.Undecide("%s: a path to %s depends on the flag %s (%s) whose relation to the finality argument cannot be established", construct, p.Pos(instrPos(h.Instr)), unrelated.Name(), p.Pos(c02ValuePos(unrelated)))
			return
		}
		if k, ok := L.closeKind[h.Instr]; ok && k == c02CloseMaybe {
			r.Undecide("%s: cannot classify the argument of CloseWithError at %s as nil or non-nil", construct, p.Pos(instrPos(h.Instr)))
			return
		}
		r.Violation(rule, construct, p.Pos(instrPos(h.Instr)), badMsg, c02Trail(p, h.Trail)...)
	}

	// T5-first
	{
		env := &c02Env{bind: map[ssa.Value]ssa.Value{}, known: map[ssa.Value]bool{}}
		hits, ex := c02Explore(L.fn.Blocks[0], 0, env, toCleanClose)
		report("C02.T5-first", L.name+" clean close without any segment",
			"the stream is closed cleanly only after a segment was processed",
			"from the entry the stream can be closed cleanly without the segment processor having been called at all: a document cut right after its header (all segments removed) decrypts to an empty stream that ends in a clean EOF",
			hits, ex, p.Pos(L.fn.Pos()), nil)
	}
	for _, cl := range L.calls {
		if false {
			continue
		}
		lv := L.lastArg(cl)
		idx := instrIndex(cl) + 1
		constVal, isConst := false, false
		if k, ok := lv.(*ssa.Const); ok && k.Value != nil {
			isConst = true
			constVal = k.Value.ExactString() == "true"
		}
		if isConst && constVal {
			r.Trivial("C02.T5-next", L.name+" clean close after a non-final segment", p.Pos(cl.Pos()), "this call site always passes last=true")
		}
		if isConst && !constVal {
			r.Trivial("C02.T4-final-is-last", L.name+" segment after the final one", p.Pos(cl.Pos()), "this call site never passes last=true")
		}
		// T5-next: assume last == false
		if !(isConst && constVal) {
			env := &c02Env{bind: map[ssa.Value]ssa.Value{}, known: map[ssa.Value]bool{}}
			if !isConst {
				c02SeedMem(env, lv)
				c02LearnAssumption(env, lv, false, 0)
			}
			hits, ex := c02Explore(cl.Block(), idx, env, toCleanClose)
			report("C02.T5-next", L.name+" clean close after a non-final segment",
				"after a segment processed with last=false the stream is closed cleanly only after another segment",
				"after a segment was processed with last=false (sealed/opened as NOT final) the stream can be closed cleanly without a segment processed with last=true: a document truncated at a segment boundary ends in a clean EOF (the finality bit in the nonce is the only thing that detects this)",
				hits, ex, p.Pos(cl.Pos()), lv)
		}
		// T4-final-is-last: assume last == true
		if !(isConst && !constVal) {
			env := &c02Env{bind: map[ssa.Value]ssa.Value{}, known: map[ssa.Value]bool{}}
			if !isConst {
				c02SeedMem(env, lv)
				c02LearnAssumption(env, lv, true, 0)
			}
			hits, ex := c02Explore(cl.Block(), idx, env, func(in ssa.Instruction) c02Action {
				switch {
				case isCall[in]:
					return c02Target
				case isClose[in]:
					return c02Stop
				}
				return c02Continue
			})
			report("C02.T4-final-is-last", L.name+" segment after the final one",
				"no segment is processed after one processed with last=true",
				"after a segment was processed with last=true another segment can be processed: the finality flag does not mark the end of the stream, so a document cut after that segment is accepted as complete",
				hits, ex, p.Pos(cl.Pos()), lv)
		}
	}
}

// ---------------------------------------------------------------------------
// T7: wiring of Decrypt

// c02FuncTarget resolves a function-typed value to the function it denotes:
// a function, a closure, a bound method (the method itself).
func c02FuncTarget(p *Prog, v ssa.Value) *ssa.Function {
	v = c02Origin(v)
	switch x := v.(type) {
	case *ssa.Function:
		return origin(x)
	case *ssa.MakeClosure:
		f, _ := x.Fn.(*ssa.Function)
		if f == nil {
			return nil
		}
		if f.Synthetic != "" {
			// bound method wrapper / thunk: the method it wraps
			if obj, ok := f.Object().(*types.Func); ok {
				if m := p.SSA.FuncValue(obj); m != nil {
					return origin(m)
				}
			}
		}
		return origin(f)
	case *ssa.ChangeType:
		return c02FuncTarget(p, x.X)
	}
	return nil
}

// c02CheckWiring (T7): the stream Decrypt returns is the read half of an
// io.Pipe whose write half is held by a segment loop, and the processor that
// loop is given (or calls) on the way from Decrypt authenticates.
func c02CheckWiring(p *Prog, r *Report, ro *c02Roles) {
	decrypt := ro.entry
	name := FuncName(p, decrypt)
	isLoop := map[*ssa.Function]bool{}
	for _, l := range ro.loops {
		isLoop[l] = true
	}
	var fns []*ssa.Function
	for f := range ro.reach {
		fns = append(fns, f)
	}
	sort.Slice(fns, func(i, j int) bool { return FuncName(p, fns[i]) < FuncName(p, fns[j]) })

	// (1) processors
	nProc := 0
	var judge func(where string, pos token.Pos, v ssa.Value, static *ssa.Function)
	judgeDepth := 0
	judge = func(where string, pos token.Pos, v ssa.Value, static *ssa.Function) {
		target := static
		if target == nil {
			target = c02FuncTarget(p, v)
		}
		if pa, isParam := c02Origin(v).(*ssa.Parameter); target == nil && v != nil && isParam {
			// handed through by an intermediate function: look at its call sites on the way from Decrypt
			w := pa.Parent()
			idx := c02ParamIndex(w, pa)
			n := 0
			if judgeDepth < 4 {
				judgeDepth++
				for _, g := range fns {
					allInstrs(g, func(in ssa.Instruction) {
						if ci, ok := in.(ssa.CallInstruction); ok && staticCallee(ci) == w && idx >= 0 && idx < len(ci.Common().Args) {
							n++
							judge(where, ci.Pos(), ci.Common().Args[idx], nil)
						}
					})
				}
				judgeDepth--
			}
			if n > 0 {
				return
			}
		}
		if target == nil && v != nil {
			// an element of a literal table / slice of function values: every value stored into its backing array
			if u, ok := c02Origin(v).(*ssa.UnOp); ok {
				if ia, ok := u.X.(*ssa.IndexAddr); ok {
					base := c02SliceBase(ia.X)
					if al, ok := base.(*ssa.Alloc); ok {
						n := 0
						for _, rr := range refs(al) {
							ia2, ok := rr.(*ssa.IndexAddr)
							if !ok {
								continue
							}
							for _, r2 := range refs(ia2) {
								if st, ok := r2.(*ssa.Store); ok && st.Addr == ssa.Value(ia2) {
									n++
									judge(where, st.Pos(), st.Val, nil)
								}
							}
						}
						if n > 0 {
							return
						}
					}
				}
			}
		}
		if target == nil && v != nil {
			// a struct field (the loop is a method of a small struct): every value stored
			// into that field on the way from Decrypt
			if id, _, ok := fieldOfValue(c02Origin(v)); ok {
				n := 0
				for _, g := range fns {
					allInstrs(g, func(in ssa.Instruction) {
						st, ok := in.(*ssa.Store)
						if !ok {
							return
						}
						if fa, ok := st.Addr.(*ssa.FieldAddr); ok && fieldIDOfAddr(fa) == id {
							n++
							judge(where, st.Pos(), st.Val, nil)
						}
					})
				}
				if n > 0 {
					return
				}
			}
		}
		if target == nil {
			r.Undecide("%s: the segment processor used by %s is not a function, closure or method value whose body can be found (%T)", name, where, v)
			return
		}
		nProc++
		construct := name + " -> segment loop processor"
		r.Check(c02HasOpen(p, target, 0, map[*ssa.Function]bool{}), "C02.T7-wiring", construct, p.Pos(pos),
			"the processor Decrypt drives the segment loop with authenticates each segment (cipher.AEAD.Open)",
			fmt.Sprintf("Decrypt drives the segment loop with %s, which never calls cipher.AEAD.Open (neither itself nor through same-package functions): the payload is released without authentication", FuncName(p, target)))
	}
	for _, f := range fns {
		allInstrs(f, func(in ssa.Instruction) {
			ci, ok := in.(ssa.CallInstruction)
			if !ok {
				return
			}
			// a call (or go/defer) of a loop function with a processor-typed argument
			if callee := staticCallee(ci); callee != nil && isLoop[callee] {
				for _, a := range ci.Common().Args {
					if sig, ok := a.Type().Underlying().(*types.Signature); ok && c02ProcSig(sig) {
						judge(FuncName(p, callee), ci.Pos(), a, nil)
					}
				}
			}
			// a loop function that calls the processor statically / through a captured or stored value
			if isLoop[f] && c02ProcCall(ci) {
				cc := ci.Common()
				if cc.IsInvoke() {
					// an interface seam: every implementation whose values are converted to an interface on the way from Decrypt
					n := 0
					seenImpl := map[*ssa.Function]bool{}
					for _, g := range fns {
						allInstrs(g, func(j ssa.Instruction) {
							mi, ok := j.(*ssa.MakeInterface)
							if !ok {
								return
							}
							for _, m := range c02MethodsOf(g.Prog, mi.X.Type(), decrypt.Pkg.Pkg) {
								if m.Name() == cc.Method.Name() && c02ProcSig(m.Signature) && !seenImpl[m] {
									seenImpl[m] = true
									n++
									judge(FuncName(p, f), mi.Pos(), nil, m)
								}
							}
						})
					}
					if n == 0 {
						r.Undecide("%s: no implementation of the interface method %s is created on the way from Decrypt; the processor cannot be found", name, cc.Method.Name())
					}
					return
				}
				if sc := staticCallee(ci); sc != nil {
					judge(FuncName(p, f), ci.Pos(), nil, sc)
				} else if _, isParam := cc.Value.(*ssa.Parameter); !isParam {
					judge(FuncName(p, f), ci.Pos(), cc.Value, nil)
				}
			}
		})
	}
	if nProc == 0 && len(r.Undecided) == 0 {
		r.Undecide("%s: no place was found where the segment loop receives (or calls) its segment processor", name)
	}

	// (2) the pipe
	var pipes []*ssa.Call
	for _, f := range fns {
		allInstrs(f, func(in ssa.Instruction) {
			if call, ok := in.(*ssa.Call); ok && callIs(call, "io", "", "Pipe") {
				pipes = append(pipes, call)
			}
		})
	}
	feedsLoop := func(pipe *ssa.Call) bool {
		w := callResult(pipe, 1)
		if w == nil {
			return false
		}
		fed := false
		var follow func(v ssa.Value, depth int)
		follow = func(v ssa.Value, depth int) {
			if depth > 3 {
				return
			}
			for _, rr := range refs(v) {
				switch u := rr.(type) {
				case ssa.CallInstruction:
					if callee := staticCallee(u); callee != nil {
						if isLoop[callee] {
							fed = true
						} else if c02SamePkg(callee, decrypt.Pkg.Pkg) {
							// a function that hands the writer on to the loop
							for g := range c02Reach([]*ssa.Function{callee}, decrypt.Pkg.Pkg) {
								if isLoop[g] {
									fed = true
								}
							}
						}
					}
					// a closure that is the loop (go func(){…}()) receiving the writer as an argument
				case *ssa.Store:
					if u.Val == v {
						if al, ok := u.Addr.(*ssa.Alloc); ok {
							follow(al, depth+1)
						}
						// stored into a struct field that a loop function reads its pipe from
						if fa, ok := u.Addr.(*ssa.FieldAddr); ok {
							id := fieldIDOfAddr(fa)
							for l := range isLoop {
								allInstrs(l, func(j ssa.Instruction) {
									if fa2, ok := j.(*ssa.FieldAddr); ok && fieldIDOfAddr(fa2) == id {
										fed = true
									}
								})
							}
						}
					}
				case *ssa.MakeClosure:
					if f, ok := u.Fn.(*ssa.Function); ok {
						if isLoop[origin(f)] {
							fed = true
						}
						// or a closure that merely calls the loop
						for g := range c02Reach([]*ssa.Function{origin(f)}, decrypt.Pkg.Pkg) {
							if isLoop[g] {
								fed = true
							}
						}
					}
				case *ssa.Phi:
					follow(u, depth+1)
				}
			}
		}
		follow(w, 0)
		return fed
	}
	var pipe *ssa.Call
	for _, pc := range pipes {
		if feedsLoop(pc) {
			if pipe != nil {
				r.Undecide("%s: more than one io.Pipe feeds a segment loop; cannot tell which stream is returned", name)
				return
			}
			pipe = pc
		}
	}
	if pipe == nil {
		r.Undecide("%s: no io.Pipe() whose write half reaches the segment loop was found on the way from Decrypt", name)
		return
	}
	okRet, nOK := true, 0
	allInstrs(decrypt, func(in ssa.Instruction) {
		ret, ok := in.(*ssa.Return)
		if !ok || len(ret.Results) != 2 || isNilConst(ret.Results[0]) {
			return
		}
		if c02IsPipeReaderOf(p, c02Ret(ret, 0), pipe, 3) {
			nOK++
			return
		}
		okRet = false
	})
	if !okRet || nOK == 0 {
		r.Undecide("%s: a non-nil stream returned by Decrypt is not visibly the read half of the pipe that feeds the segment loop", name)
		return
	}
	r.OK("C02.T7-wiring", name+" returned stream", p.Pos(pipe.Pos()), "Decrypt returns the read half of the pipe written by the segment loop")
}

// c02Origin follows a value through closure capture (free variable -> cell
// -> the single value stored into the cell).
func c02Origin(v ssa.Value) ssa.Value {
	for i := 0; i < 8; i++ {
		switch x := v.(type) {
		case *ssa.UnOp:
			if x.Op != token.MUL {
				return v
			}
			cell := x.X
			if fv, ok := cell.(*ssa.FreeVar); ok {
				if b := resolveFreeVar(fv); b != nil {
					cell = b
				}
			}
			al, ok := cell.(*ssa.Alloc)
			if !ok {
				return v
			}
			var stored ssa.Value
			n := 0
			for _, rr := range refs(al) {
				if st, ok := rr.(*ssa.Store); ok && st.Addr == ssa.Value(al) {
					stored = st.Val
					n++
				}
			}
			if n != 1 {
				return v
			}
			v = stored
		case *ssa.FreeVar:
			b := resolveFreeVar(x)
			if b == nil {
				return v
			}
			v = b
		case *ssa.MakeInterface:
			v = x.X
		case *ssa.ChangeInterface:
			v = x.X
		default:
			return v
		}
	}
	return v
}

// c02IsPipeReaderOf: v is the read half of the io.Pipe() call pipe, directly
// or as the result of a module function all of whose returns are that half.
func c02IsPipeReaderOf(p *Prog, v ssa.Value, pipe *ssa.Call, depth int) bool {
	v = c02Origin(v)
	if ex, ok := v.(*ssa.Extract); ok && ex.Index == 0 && ex.Tuple == ssa.Value(pipe) {
		return true
	}
	if depth == 0 {
		return false
	}
	if ex, ok := v.(*ssa.Extract); ok {
		v = ex.Tuple
	}
	call, ok := v.(*ssa.Call)
	if !ok {
		return false
	}
	callee := staticCallee(call)
	if callee == nil || !p.InModule(callee) || callee != pipe.Parent() {
		return false
	}
	n, all := 0, true
	allInstrs(callee, func(in ssa.Instruction) {
		ret, ok := in.(*ssa.Return)
		if !ok || len(ret.Results) == 0 || isNilConst(ret.Results[0]) {
			return
		}
		n++
		if !c02IsPipeReaderOf(p, c02Ret(ret, 0), pipe, depth-1) {
			all = false
		}
	})
	return n > 0 && all
}

// c02Notes: mechanisms the anchors list but the statement does not require.
func c02Notes(p *Prog, r *Report, decrypt *ssa.Function) {
	name := FuncName(p, decrypt)
	var verify *ssa.Call
	var spawn ssa.Instruction
	allInstrs(decrypt, func(in ssa.Instruction) {
		if call, ok := in.(*ssa.Call); ok {
			if f := staticCallee(call); f != nil && f.Name() == "VerifyHeaderSignature" {
				verify = call
			}
		}
		if g, ok := in.(*ssa.Go); ok {
			spawn = g
		}
	})
	if verify == nil {
		r.Note("C02 T2 (note only): %s does not call VerifyHeaderSignature — the header MAC is not checked; the payload is still authenticated segment by segment, so the statement of C02 is not violated by this alone", name)
	} else if spawn != nil {
		if !errKnownNil(spawn.Block(), verify) {
			r.Note("C02 T2 (note only): in %s the goroutine that processes segments is not dominated by the success edge of VerifyHeaderSignature (MAC checked late, or its error ignored)", name)
		}
	}
	if vh := p.FuncOpt(c02Pkg, "fileKey.VerifyHeaderSignature"); vh != nil {
		ct := false
		allInstrs(vh, func(in ssa.Instruction) {
			if call, ok := in.(*ssa.Call); ok && (callIs(call, "crypto/subtle", "", "ConstantTimeCompare") || callIs(call, "crypto/hmac", "", "Equal")) {
				ct = true
			}
		})
		if !ct {
			r.Note("C02 T2 (note only): VerifyHeaderSignature does not compare the MAC with a constant-time primitive")
		}
	}
}

func c02CountViolations(r *Report) int {
	n := 0
	for _, o := range r.Obs {
		if o.Status == StViolation {
			n++
		}
	}
	return n
}

// c02OutcomeTest decodes an If edge that tests the outcome of an
// authentication: an error against nil (success = it is nil) or an ok flag
// (success = it is true). Returns the tested value and whether the edge is
// the success side.
func c02OutcomeTest(from, to *ssa.BasicBlock) (v ssa.Value, success bool, ok bool) {
	if v, isNil, ok := c02NilTest(from, to); ok {
		return v, isNil, true
	}
	if len(from.Instrs) == 0 || len(from.Succs) != 2 || from.Succs[0] == from.Succs[1] {
		return nil, false, false
	}
	ifi, isIf := from.Instrs[len(from.Instrs)-1].(*ssa.If)
	if !isIf {
		return nil, false, false
	}
	cond, truth := ifi.Cond, from.Succs[0] == to
	for i := 0; i < 4; i++ {
		switch x := cond.(type) {
		case *ssa.UnOp:
			if x.Op == token.NOT {
				cond, truth = x.X, !truth
				continue
			}
		case *ssa.BinOp:
			// flag == true / flag != false …
			if (x.Op == token.EQL || x.Op == token.NEQ) && c02IsBool(x.X.Type()) {
				if k, isK := x.Y.(*ssa.Const); isK && k.Value != nil && k.Value.Kind() == constant.Bool {
					if constant.BoolVal(k.Value) != (x.Op == token.EQL) {
						truth = !truth
					}
					cond = x.X
					continue
				}
			}
			return nil, false, false
		}
		break
	}
	if !c02IsBool(cond.Type()) {
		return nil, false, false
	}
	if _, isCall := cond.(*ssa.Call); isCall {
		// the flag returned directly by a call (if k.open(...) {…}) is that call's outcome
		return cond, truth, true
	}
	return cond, truth, true
}

// c02SuccessConst: the constant with which a function reports success: a nil error or a true ok flag.
func c02SuccessConst(v ssa.Value) bool {
	if isNilConst(v) {
		return true
	}
	k, ok := v.(*ssa.Const)
	return ok && k.Value != nil && k.Value.Kind() == constant.Bool && constant.BoolVal(k.Value)
}

// c02FailConst: a false ok flag.
func c02FailConst(v ssa.Value) bool {
	k, ok := v.(*ssa.Const)
	return ok && k.Value != nil && k.Value.Kind() == constant.Bool && !constant.BoolVal(k.Value)
}

// c02IsOutcomeExpr: e is the ok flag computed from an authentication error: `err == nil` (or !(err != nil)).
func c02IsOutcomeExpr(e ssa.Value, errs []ssa.Value) bool {
	neg := false
	for i := 0; i < 3; i++ {
		if u, ok := e.(*ssa.UnOp); ok && u.Op == token.NOT {
			e, neg = u.X, !neg
			continue
		}
		break
	}
	bo, ok := e.(*ssa.BinOp)
	if !ok || (bo.Op != token.EQL && bo.Op != token.NEQ) {
		return false
	}
	var x ssa.Value
	switch {
	case isNilConst(bo.Y):
		x = bo.X
	case isNilConst(bo.X):
		x = bo.Y
	default:
		return false
	}
	return c02CarriesAny(x, errs) && (bo.Op == token.EQL) != neg
}

// c02BoundPipeClose: v is the method value pipe.Close / pipe.CloseWithError
// (a bound-method closure over an *io.PipeWriter); returns the method name.
func c02BoundPipeClose(v ssa.Value) string {
	mc, ok := v.(*ssa.MakeClosure)
	if !ok || len(mc.Bindings) != 1 || !c02IsPipeWriter(mc.Bindings[0].Type()) {
		return ""
	}
	f, ok := mc.Fn.(*ssa.Function)
	if !ok || f.Synthetic == "" {
		return ""
	}
	obj, ok := f.Object().(*types.Func)
	if !ok {
		return ""
	}
	for _, n := range []string{"Close", "CloseWithError"} {
		if funcIs(obj, "io", "PipeWriter", n) {
			return n
		}
	}
	return ""
}

// c02BoundRead: the call goes through the method value reader.Read of a
// reader the function was given (read := in.Read).
func c02BoundRead(cc *ssa.CallCommon) bool {
	if cc.IsInvoke() {
		return false
	}
	mc, ok := c02Origin(cc.Value).(*ssa.MakeClosure)
	if !ok || len(mc.Bindings) != 1 {
		return false
	}
	f, ok := mc.Fn.(*ssa.Function)
	if !ok || f.Synthetic == "" {
		return false
	}
	obj, ok := f.Object().(*types.Func)
	if !ok || obj.Name() != "Read" {
		return false
	}
	b := mc.Bindings[0]
	return c02IsIOReader(b.Type()) && c02GivenReader(b, 0)
}
