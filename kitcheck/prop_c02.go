package main

import (
	"fmt"
	"go/constant"
	"go/token"
	"go/types"
	"os"
	"strings"

	"golang.org/x/tools/go/ssa"
)

// C02 — enc/v1: tampered or truncated documents never decrypt silently.

func init() { register("C02", checkC02) }

const c02Pkg = "schemes/enc/v1"

func checkC02(c *Ctx) {
	r, p := c.R, c.P
	r.Explanation = "Decides structural necessary conditions of C02 on schemes/enc/v1. " +
		"(T1) in fileKey.DecryptSegment every use of the output writer is dominated by the success edge of cipher.AEAD.Open (verify before release), a failed Open makes the function return a non-nil error, the ciphertext handed to Open is the segment parameter, and the nonce handed to Open depends on both the segment number and the finality flag (through the nonce builder, whose result bytes must depend on both parameters), every return that may carry a nil error lies behind Open's success edge (no exception for short or empty segments), and the 32 bits of the segment number reach the nonce injectively (binary PutUint32 of the number, or four byte stores byte(num>>{0,8,16,24}) at four distinct constant offsets, in a window disjoint from the finality byte and not overwritten afterwards; unclassifiable layouts are UNDECIDED); " +
		"(T3) in processSegments, along every path, the first Close/CloseWithError on the pipe is an error close whenever a source-reader error other than io.EOF (io.ErrUnexpectedEOF is NOT end of input, also not behind io.ReadFull/ReadAtLeast; an error variable re-assigned from a sentinel does not count as the source error) or a processFn error is pending, and no return leaves the pipe open with such an error pending; " +
		"(T4) the segment number handed to processFn is a loop-carried counter that changes in every iteration, and after a call made with last=true no further segment is processed; " +
		"(T4-counter-range) on every path between two processFn calls an edge bounds the counter so that the next number neither wraps (same width) nor is truncated (narrowing conversion of a wider counter) — processSegments is shared by Encrypt and Decrypt, so a missing bound is nonce reuse on one side and lost position binding on the other; " +
		"(H1/H2) in readHeader a source-read error not established to be io.EOF is returned (never dropped on a success return, also when it arrives together with the bytes that complete the header), and the reader pushed back into *in still contains the source unless the source returned io.EOF; " +
		"(T5) a clean close of the stream is reachable only after a processFn call made with last=true (from the entry: T5-first, after a non-final call: T5-next); " +
		"(T7) Decrypt returns the reader half of an io.Pipe whose writer half is driven by processSegments with fileKey.DecryptSegment bound to the file key imported from the manifest. " +
		"NOT decided: that AEAD rejects a given mutation (trusted primitive), that the bytes released are a prefix of the plaintext as a runtime fact, byte-exact round trip (C01), anything about the header MAC (NOTE only: every payload byte is authenticated by the AEAD under a key derived from the file key and nonce prefix, so the statement holds with or without the MAC), constant-time behaviour, the number of bytes written, the Read-chunking contract of the fill loop (C01-R1)."
	r.Assumptions = append(r.Assumptions,
		"cipher.AEAD.Open returns a non-nil error for any ciphertext/nonce pair not produced by Seal under the same key (trusted primitive)",
		"package-level sentinel errors (ErrDecryptionFailed, io.ErrUnexpectedEOF, ...) are non-nil and not reassigned",
		"io.PipeWriter: the first Close/CloseWithError wins (documented: later calls do not overwrite the error)",
		"the path explorer treats x+positive constant as non-zero (no wrap); that the segment counter cannot wrap is itself decided by rule T4-counter-range",
		"a phi that may carry an error value is treated as carrying it when it is tested against nil (error variables are not overwritten between the call and the test)")

	r.Rule("C02.T1-verify-before-release", "DecryptSegment: every use of the output writer is dominated by the err==nil edge of AEAD.Open", 1)
	r.Rule("C02.T1-success-implies-verified", "DecryptSegment: every return that may carry a nil error is behind the err==nil edge of AEAD.Open (no exception for short or empty segments)", 1)
	r.Rule("C02.T1-nonce-injective", "nonce builder: the 32 bits of the segment number reach the nonce injectively, in a window disjoint from the flag byte and not overwritten afterwards", 1)
	r.Rule("C02.T1-open-failure-returns-error", "DecryptSegment: a return reached with Open's error non-nil returns a non-nil error", 1)
	r.Rule("C02.T1-open-input", "DecryptSegment: Open authenticates the segment parameter, and released bytes derive from Open's result", 2)
	r.Rule("C02.T1-nonce-binding", "the nonce handed to Open depends on the segment number and on the finality flag", 2)
	r.Rule("C02.T3-error-surfaces", "processSegments: no clean close and no open return while a non-EOF source error or a processFn error is pending", 4)
	r.Rule("C02.T4-counter", "processSegments: the segment number handed to processFn is a loop-carried counter that changes every iteration", 1)
	r.Rule("C02.T4-counter-range", "processSegments: between two segments the counter is checked against a bound so that the number handed to processFn never wraps or is truncated (shared by Encrypt and Decrypt)", 1)
	r.Rule("C02.T4-final-is-last", "processSegments: after a processFn call with last=true no further segment is processed", 1)
	r.Rule("C02.T5-first", "processSegments: from the entry, a clean close is not reachable without a processFn call", 1)
	r.Rule("C02.T5-next", "processSegments: after a processFn call with last=false, a clean close is not reachable without another call", 1)
	r.Rule("C02.H1-header-read-error-returned", "readHeader: a source-read error not established to be io.EOF is returned (never dropped on a success return)", 1)
	r.Rule("C02.H2-header-keeps-source", "readHeader: the reader pushed back into *in still contains the source unless the source returned io.EOF", 1)
	r.Rule("C02.T7-wiring", "Decrypt returns the pipe fed by processSegments(…, fk.DecryptSegment, …)", 2)

	dec := p.Func(c02Pkg, "fileKey.DecryptSegment")
	ps := p.Func(c02Pkg, "processSegments")
	decrypt := p.Func(c02Pkg, "Decrypt")

	c02CheckDecryptSegment(p, r, dec)
	c02CheckProcessSegments(p, r, ps)
	c02CheckWiring(p, r, decrypt, ps, dec)
	c02CheckReadHeader(p, r, p.Func(c02Pkg, "readHeader"))
	c02Notes(p, r, decrypt)

	c.Fixture("c02seg", func(fp *Prog, fr *Report) {
		for _, fn := range fp.Funcs {
			if fn.Parent() != nil {
				continue
			}
			low := strings.ToLower(fn.Name())
			switch {
			case strings.HasSuffix(low, "seg"):
				c02CheckDecryptSegment(fp, fr, fn)
			case strings.HasSuffix(low, "loop"):
				c02CheckProcessSegments(fp, fr, fn)
			case strings.HasSuffix(low, "header"):
				c02CheckReadHeader(fp, fr, fn)
			}
		}
		if os.Getenv("KC_C02_DEBUG") != "" {
			for _, o := range fr.Obs {
				if o.Status == StViolation {
					fmt.Fprintf(os.Stderr, "fixture: %s | %s | %s\n", o.Rule, o.Construct, o.Message)
				}
			}
			for _, u := range fr.Undecided {
				fmt.Fprintf(os.Stderr, "fixture undecided: %s\n", u)
			}
		}
	})
}

// ---------------------------------------------------------------------------
// T1: DecryptSegment

func c02IsIOWriter(t types.Type) bool {
	n, ok := types.Unalias(t).(*types.Named)
	return ok && n.Obj().Pkg() != nil && n.Obj().Pkg().Path() == "io" && n.Obj().Name() == "Writer"
}

func c02CheckDecryptSegment(p *Prog, r *Report, fn *ssa.Function) {
	name := FuncName(p, fn)
	// parameters by type: out io.Writer, data []byte, num uint32, last bool
	var out, data, num, last *ssa.Parameter
	for _, pa := range fn.Params {
		t := pa.Type()
		switch {
		case c02IsIOWriter(t) && out == nil:
			out = pa
		case c02IsByteSlice(t) && data == nil:
			data = pa
		case c02IsBasicKind(t, types.Uint32) && num == nil:
			num = pa
		case c02IsBool(t) && last == nil:
			last = pa
		}
	}
	if out == nil || data == nil || num == nil || last == nil {
		undecided("%s no longer has the (io.Writer, []byte, uint32, bool) parameters of a segment processor", name)
	}
	numIdx, lastIdx := c02ParamIndex(fn, num), c02ParamIndex(fn, last)

	var opens []*ssa.Call
	allInstrs(fn, func(in ssa.Instruction) {
		if call, ok := in.(*ssa.Call); ok && callIs(call, "crypto/cipher", "AEAD", "Open") {
			opens = append(opens, call)
		}
	})
	if len(opens) == 0 {
		// authentication moved into a helper? then the rules cannot follow it (undecided, not a violation)
		allInstrs(fn, func(in ssa.Instruction) {
			ci, ok := in.(ssa.CallInstruction)
			if !ok {
				return
			}
			h := staticCallee(ci)
			if h == nil || !p.InModule(h) {
				return
			}
			allInstrs(h, func(j ssa.Instruction) {
				if call, ok := j.(*ssa.Call); ok && callIs(call, "crypto/cipher", "AEAD", "Open") {
					undecided("%s authenticates the segment inside the helper %s; the verify-before-release rules cannot follow it", name, FuncName(p, h))
				}
			})
		})
		r.Violation("C02.T1-verify-before-release", name+" AEAD.Open", p.Pos(fn.Pos()),
			"the segment decryptor no longer calls cipher.AEAD.Open: segments are released without authentication (any bit flip, reorder or truncation decrypts silently)")
		return
	}
	var openErrs, openRes []ssa.Value
	for _, o := range opens {
		e := callResult(o, 1)
		if e == nil {
			r.Violation("C02.T1-verify-before-release", name+" AEAD.Open", p.Pos(o.Pos()),
				"the error result of AEAD.Open is never extracted (discarded): a segment that fails authentication is treated as valid")
			return
		}
		if c02StoredToMemory(e) {
			undecided("%s keeps Open's error in a memory cell; the dominance rules cannot follow it", name)
		}
		openErrs = append(openErrs, e)
		if d := callResult(o, 0); d != nil {
			openRes = append(openRes, d)
		}
	}

	// verified(b): block b is dominated by an Open call and by the nil edge of a value carrying its error.
	verified := func(b *ssa.BasicBlock, idx int) bool {
		for oi, o := range opens {
			// Open itself must dominate
			if o.Block() == b {
				if instrIndex(o) >= idx {
					continue
				}
			} else if !o.Block().Dominates(b) {
				continue
			}
			for s := b; s != nil; s = s.Idom() {
				if len(s.Preds) != 1 {
					continue
				}
				if v, isNil, ok := c02NilTest(s.Preds[0], s); ok && isNil && c02Carries(v, openErrs[oi]) {
					// the test must come after the Open
					if ifi := s.Preds[0].Instrs[len(s.Preds[0].Instrs)-1]; instrDominates(o, ifi) {
						return true
					}
				}
			}
		}
		return false
	}

	// every use of out
	nUses := 0
	for _, rr := range refs(out) {
		if _, ok := rr.(*ssa.DebugRef); ok {
			continue
		}
		nUses++
		what := "use of the output writer"
		if call, ok := rr.(*ssa.Call); ok && call.Call.IsInvoke() && call.Call.Value == out {
			what = "out." + call.Call.Method.Name()
		}
		construct := fmt.Sprintf("%s %s", name, what)
		r.Check(verified(rr.Block(), instrIndex(rr)), "C02.T1-verify-before-release", construct, p.Pos(instrPos(rr)),
			"reached only after AEAD.Open returned a nil error",
			"the output writer is used on a path on which AEAD.Open has not (yet) succeeded: bytes of an unauthenticated segment reach the reader (a flipped bit or a spliced segment is released before — or without — the error)")
		if call, ok := rr.(*ssa.Call); ok && call.Call.IsInvoke() && call.Call.Value == out && call.Call.Method.Name() == "Write" && len(call.Call.Args) == 1 {
			base := c02SliceBase(call.Call.Args[0])
			okDep := false
			for oi, o := range opens {
				if oi < len(openRes) && c02Carries(base, openRes[oi]) {
					okDep = true
				}
				// in-place decryption: dst of Open shares its base with the written slice
				if len(o.Call.Args) >= 1 && c02SliceBase(o.Call.Args[0]) == base {
					okDep = true
				}
			}
			if okDep {
				r.OK("C02.T1-open-input", name+" out.Write argument", p.Pos(instrPos(rr)), "written bytes derive from Open's result (or from its in-place destination)")
			} else {
				r.Note("C02 T1: %s writes a buffer that is not visibly derived from AEAD.Open's result at %s (not decided)", name, p.Pos(instrPos(rr)))
			}
		}
	}
	if nUses == 0 {
		r.Note("C02 T1: %s never uses its output writer (nothing is released)", name)
	}

	// Open authenticates the data parameter
	for _, o := range opens {
		args := o.Call.Args
		okIn := len(args) >= 3 && c02SliceBase(args[2]) == ssa.Value(data)
		if okIn {
			if sl, isSl := args[2].(*ssa.Slice); isSl && (sl.Low != nil || sl.High != nil) {
				okIn = false // only part of the segment would be authenticated
			}
		}
		r.Check(okIn, "C02.T1-open-input", name+" AEAD.Open ciphertext", p.Pos(o.Pos()),
			"Open is given the whole segment parameter",
			"AEAD.Open is not given the (whole) segment it was handed: the bytes that are released are not the bytes that were authenticated")
		// nonce
		if len(args) >= 2 {
			deps := c02ValueDeps(p, args[1], 3)
			var missing []string
			if !deps[numIdx] {
				missing = append(missing, "the segment number (segments can be reordered, duplicated or dropped from the middle)")
			}
			if !deps[lastIdx] {
				missing = append(missing, "the finality flag (a document truncated at a segment boundary ends in a clean EOF)")
			}
			r.Check(len(missing) == 0, "C02.T1-nonce-binding", name+" AEAD.Open nonce", p.Pos(o.Pos()),
				"the nonce depends on the segment number and the finality flag",
				"the nonce handed to AEAD.Open does not depend on "+strings.Join(missing, " nor on "))
			// the nonce builder itself, if it is a module function
			if call, ok := args[1].(*ssa.Call); ok {
				if callee := staticCallee(call); callee != nil && p.InModule(callee) && len(callee.Blocks) > 0 {
					c02CheckNonceBuilder(p, r, callee)
					c02NonceLayout(p, r, name, callee)
				}
			}
		}
	}

	// failure returns: may-flow of "a value carrying Open's error was found non-nil"
	const failed = 1
	nEdges := 0
	ff := &FlagFlow{Fn: fn, Must: false,
		Transfer: func(in ssa.Instruction, st uint64) uint64 { return st },
		EdgeTransfer: func(from, to *ssa.BasicBlock, st uint64) uint64 {
			if v, isNil, ok := c02NilTest(from, to); ok && !isNil && c02CarriesAny(v, openErrs) {
				nEdges++
				return st | failed
			}
			return st
		}}
	ff.Run()
	nRet := 0
	bad := ""
	ff.AtReturns(func(ret *ssa.Return, st uint64) {
		if st&failed == 0 || len(ret.Results) == 0 {
			return
		}
		nRet++
		res := ret.Results[len(ret.Results)-1]
		if isNilConst(res) {
			bad = p.Pos(ret.Pos())
			return
		}
		if phi, ok := res.(*ssa.Phi); ok {
			for i, e := range phi.Edges {
				if !isNilConst(e) {
					continue
				}
				pred := phi.Block().Preds[i]
				if o, vis := ff.Out(pred); vis && ff.EdgeTransfer(pred, phi.Block(), o)&failed != 0 {
					bad = p.Pos(ret.Pos())
				}
			}
		}
	})
	c02SuccessImpliesVerified(p, r, fn, name, opens, openErrs)
	switch {
	case nEdges == 0:
		r.Violation("C02.T1-open-failure-returns-error", name+" return after failed Open", p.Pos(fn.Pos()),
			"the error of AEAD.Open is never tested against nil: no path of the function is specific to a failed authentication")
	default:
		r.Check(bad == "" && nRet > 0, "C02.T1-open-failure-returns-error", name+" return after failed Open", p.Pos(fn.Pos()),
			"every return reachable after Open failed returns an error",
			"the path on which AEAD.Open failed returns a nil error (at "+bad+"): the caller goes on to the next segment and the stream can end in a clean EOF although a segment was rejected")
	}
}

// c02SuccessImpliesVerified (T1-success-implies-verified): every return of the
// segment decryptor that may report success (nil error) lies behind the
// success edge of AEAD.Open. There is no exception for short or empty
// segments: "nothing to write" is not "authenticated" (a stub skipped with a
// nil error lets a document cut inside its last segment end in a clean EOF).
func c02SuccessImpliesVerified(p *Prog, r *Report, fn *ssa.Function, name string, opens []*ssa.Call, openErrs []ssa.Value) {
	const ver = 1
	ff := &FlagFlow{Fn: fn, Must: true,
		Transfer: func(in ssa.Instruction, st uint64) uint64 { return st },
		EdgeTransfer: func(from, to *ssa.BasicBlock, st uint64) uint64 {
			v, isNil, ok := c02NilTest(from, to)
			if !ok || !isNil {
				return st
			}
			ifi := from.Instrs[len(from.Instrs)-1]
			for oi, o := range opens {
				if c02Carries(v, openErrs[oi]) && instrDominates(o, ifi) {
					return st | ver
				}
			}
			return st
		}}
	ff.Run()
	// nonNilAt: value e, flowing out of block b (along the edge b->to if to != nil), is a non-nil error
	nonNilAt := func(e ssa.Value, b, to *ssa.BasicBlock) bool {
		if c02ErrShapeNonNil(e) {
			return true
		}
		if to != nil {
			if v, isNil, ok := c02NilTest(b, to); ok && !isNil && c02Carries(v, e) {
				return true
			}
		}
		for s := b; s != nil; s = s.Idom() {
			if len(s.Preds) != 1 {
				continue
			}
			if v, isNil, ok := c02NilTest(s.Preds[0], s); ok && !isNil && (v == e || c02Carries(v, e)) {
				return true
			}
		}
		return false
	}
	var bad, unknown []string
	nRet := 0
	var judge func(e ssa.Value, b, to *ssa.BasicBlock, verified bool, pos string, depth int)
	judge = func(e ssa.Value, b, to *ssa.BasicBlock, verified bool, pos string, depth int) {
		if verified {
			return
		}
		if isNilConst(e) {
			bad = append(bad, pos)
			return
		}
		if nonNilAt(e, b, to) {
			return
		}
		if phi, ok := e.(*ssa.Phi); ok && depth < 4 {
			for i, inc := range phi.Edges {
				pred := phi.Block().Preds[i]
				o, vis := ff.Out(pred)
				if !vis {
					continue
				}
				judge(inc, pred, phi.Block(), ff.EdgeTransfer(pred, phi.Block(), o)&ver != 0, pos, depth+1)
			}
			return
		}
		unknown = append(unknown, pos)
	}
	ff.AtReturns(func(ret *ssa.Return, st uint64) {
		if len(ret.Results) == 0 {
			return
		}
		nRet++
		judge(ret.Results[len(ret.Results)-1], ret.Block(), nil, st&ver != 0, p.Pos(ret.Pos()), 0)
	})
	construct := name + " success only after Open"
	switch {
	case len(bad) > 0:
		r.Violation("C02.T1-success-implies-verified", construct, bad[0],
			"the segment decryptor can return a nil error (at "+strings.Join(c02Uniq(bad), ", ")+") on a path on which AEAD.Open has not succeeded: the segment is reported as processed without having been authenticated. The caller moves on (or, for the final segment, closes the stream cleanly), so e.g. a document cut a few bytes into its last segment ends in a clean EOF with that segment missing")
	case len(unknown) > 0:
		r.Undecide("%s: the error returned at %s is neither visibly non-nil nor behind the success edge of AEAD.Open; cannot classify", construct, unknown[0])
	default:
		r.Check(nRet > 0, "C02.T1-success-implies-verified", construct, p.Pos(fn.Pos()),
			"every return that can report success is behind the err==nil edge of AEAD.Open", "the function has no return")
	}
}

// c02CheckNonceBuilder: the bytes returned by the nonce builder depend on its
// uint32 and on its bool parameter.
func c02CheckNonceBuilder(p *Prog, r *Report, fn *ssa.Function) {
	name := FuncName(p, fn)
	deps := c02ReturnDeps(p, fn, 2)
	var missing []string
	nU, nB := 0, 0
	for i, pa := range fn.Params {
		switch {
		case c02IsBasicKind(pa.Type(), types.Uint32):
			nU++
			if !deps[i] {
				missing = append(missing, "its segment-number parameter "+pa.Name()+" (segments become interchangeable)")
			}
		case c02IsBool(pa.Type()):
			nB++
			if !deps[i] {
				missing = append(missing, "its finality parameter "+pa.Name()+" (final and non-final segments get the same nonce: truncation at a segment boundary is not detected)")
			}
		}
	}
	if nU == 0 || nB == 0 {
		return
	}
	r.Check(len(missing) == 0, "C02.T1-nonce-binding", name+" result", p.Pos(fn.Pos()),
		"the returned nonce depends on the segment number and the finality flag",
		"the bytes of the returned nonce do not depend on "+strings.Join(missing, " nor on "))
}

func c02IsByteSlice(t types.Type) bool {
	s, ok := t.Underlying().(*types.Slice)
	if !ok {
		return false
	}
	return c02IsBasicKind(s.Elem(), types.Byte) || c02IsBasicKind(s.Elem(), types.Uint8)
}

func c02IsBasicKind(t types.Type, k types.BasicKind) bool {
	b, ok := t.Underlying().(*types.Basic)
	return ok && b.Kind() == k
}

func c02ParamIndex(fn *ssa.Function, pa *ssa.Parameter) int {
	for i, q := range fn.Params {
		if q == pa {
			return i
		}
	}
	return -1
}

// ---------------------------------------------------------------------------
// T3/T4/T5: processSegments

type c02Loop struct {
	p         *Prog
	fn        *ssa.Function
	name      string
	in        *ssa.Parameter // source reader
	out       *ssa.Parameter // *io.PipeWriter
	procFn    *ssa.Parameter
	reads     []*ssa.Call // calls reading from the source
	readErrs  []ssa.Value
	readFull  bool        // some read goes through io.ReadFull/ReadAtLeast (only used to word the diagnostics)
	calls     []*ssa.Call // processFn calls
	callErrs  []ssa.Value
	closes    []*ssa.Call // Close / CloseWithError on out (incl. deferred, see deferCloses)
	deferred  []*ssa.Defer
	lastIdx   int // index of the bool parameter in processFn's signature
	numIdx    int
	closeKind map[ssa.Instruction]int // 0 clean, 1 error, 2 maybe
}

const (
	c02CloseClean = iota
	c02CloseErr
	c02CloseMaybe
)

func c02IsPipeWriter(t types.Type) bool {
	pt, ok := t.Underlying().(*types.Pointer)
	if !ok {
		return false
	}
	n, ok := types.Unalias(pt.Elem()).(*types.Named)
	return ok && n.Obj().Pkg() != nil && n.Obj().Pkg().Path() == "io" && n.Obj().Name() == "PipeWriter"
}

func c02IsIOReader(t types.Type) bool {
	n, ok := types.Unalias(t).(*types.Named)
	return ok && n.Obj().Pkg() != nil && n.Obj().Pkg().Path() == "io" && n.Obj().Name() == "Reader"
}

func c02CheckProcessSegments(p *Prog, r *Report, fn *ssa.Function) {
	L := &c02Loop{p: p, fn: fn, name: FuncName(p, fn), closeKind: map[ssa.Instruction]int{}, lastIdx: -1, numIdx: -1}
	for _, pa := range fn.Params {
		t := pa.Type()
		switch {
		case c02IsIOReader(t) && L.in == nil:
			L.in = pa
		case c02IsPipeWriter(t) && L.out == nil:
			L.out = pa
		default:
			if sig, ok := t.Underlying().(*types.Signature); ok && L.procFn == nil {
				for i := 0; i < sig.Params().Len(); i++ {
					pt := sig.Params().At(i).Type()
					if c02IsBool(pt) {
						L.lastIdx = i
					}
					if c02IsBasicKind(pt, types.Uint32) {
						L.numIdx = i
					}
				}
				if L.lastIdx >= 0 && L.numIdx >= 0 {
					L.procFn = pa
				}
			}
		}
	}
	if L.in == nil || L.out == nil || L.procFn == nil {
		undecided("%s no longer has the (io.Reader, *io.PipeWriter, segment processor) parameters", L.name)
	}
	// closures capturing the pipe or the processor: cannot follow
	for _, pa := range []*ssa.Parameter{L.out, L.procFn, L.in} {
		for _, rr := range refs(pa) {
			switch u := rr.(type) {
			case *ssa.MakeClosure:
				undecided("%s: parameter %s is captured by a closure; the path rules cannot follow it", L.name, pa.Name())
			case *ssa.Store:
				if u.Val == ssa.Value(pa) {
					undecided("%s: parameter %s is stored to memory (captured); the path rules cannot follow it", L.name, pa.Name())
				}
			}
		}
	}

	// classify instructions
	allInstrs(fn, func(in ssa.Instruction) {
		switch x := in.(type) {
		case *ssa.Call:
			cc := x.Common()
			switch {
			case cc.Value == ssa.Value(L.procFn) && !cc.IsInvoke():
				L.calls = append(L.calls, x)
			case cc.IsInvoke() && cc.Value == ssa.Value(L.in) && cc.Method.Name() == "Read":
				L.reads = append(L.reads, x)
			case (callIs(x, "io", "", "ReadFull") || callIs(x, "io", "", "ReadAtLeast")) && len(cc.Args) > 0 && c02Carries(cc.Args[0], L.in):
				L.reads = append(L.reads, x)
				L.readFull = true
			case (callIs(x, "io", "PipeWriter", "Close") || callIs(x, "io", "PipeWriter", "CloseWithError")) && len(cc.Args) > 0 && cc.Args[0] == ssa.Value(L.out):
				L.closes = append(L.closes, x)
			default:
				// any other call that receives the pipe or the source
				for _, a := range cc.Args {
					if a == ssa.Value(L.out) {
						undecided("%s hands the pipe writer to %s; the close discipline cannot be followed there", L.name, cc.Value.Name())
					}
					if c02Carries(a, L.in) && !cc.IsInvoke() {
						undecided("%s hands the source reader to %s; its errors cannot be followed", L.name, cc.Value.Name())
					}
				}
			}
		case *ssa.Defer:
			cc := x.Common()
			if (callIs(x, "io", "PipeWriter", "Close") || callIs(x, "io", "PipeWriter", "CloseWithError")) && len(cc.Args) > 0 && cc.Args[0] == ssa.Value(L.out) {
				L.deferred = append(L.deferred, x)
			}
		case *ssa.Go:
			for _, a := range x.Common().Args {
				if a == ssa.Value(L.out) {
					undecided("%s hands the pipe writer to a goroutine", L.name)
				}
			}
		}
	})
	if len(L.calls) == 0 {
		r.Violation("C02.T5-first", L.name+" clean close without any segment", p.Pos(fn.Pos()), "the segment processor is never invoked: nothing is authenticated before the stream is closed")
		return
	}
	if len(L.reads) == 0 {
		undecided("%s: no read from the source reader recognised (io.Reader.Read / io.ReadFull / io.ReadAtLeast)", L.name)
	}
	for _, rd := range L.reads {
		e := callResult(rd, 1)
		if e == nil {
			r.Violation("C02.T3-error-surfaces", L.name+" source error examined", p.Pos(rd.Pos()),
				"the error result of the read from the source is discarded: a failing source reader is indistinguishable from more data / end of input")
			return
		}
		if c02StoredToMemory(e) {
			undecided("%s keeps the source error in a memory cell; the path rules cannot follow it", L.name)
		}
		L.readErrs = append(L.readErrs, e)
	}
	for _, cl := range L.calls {
		e := callResult(cl, 0)
		if cl.Call.Signature().Results().Len() != 1 {
			undecided("%s: segment processor does not return exactly one error", L.name)
		}
		if c02StoredToMemory(e) {
			undecided("%s keeps the segment processor's error in a memory cell; the path rules cannot follow it", L.name)
		}
		L.callErrs = append(L.callErrs, e)
	}
	// classify closes
	classify := func(in ssa.Instruction, cc *ssa.CallCommon) {
		if cc.StaticCallee() != nil && cc.StaticCallee().Name() == "Close" {
			L.closeKind[in] = c02CloseClean
			return
		}
		arg := cc.Args[1]
		switch {
		case isNilConst(arg):
			L.closeKind[in] = c02CloseClean
		case c02KnownNonNilAt(in.Block(), arg) || c02CarrierKnownNonNil(in.Block(), arg):
			L.closeKind[in] = c02CloseErr
		default:
			L.closeKind[in] = c02CloseMaybe
		}
	}
	for _, cl := range L.closes {
		classify(cl, cl.Common())
	}
	for _, d := range L.deferred {
		classify(d, d.Common())
	}

	c02ErrorSurfaces(r, L)
	c02Counter(r, L)
	c02Finality(r, L)
}

// c02CarrierKnownNonNil: a dominating edge established v != nil where v is
// tested directly (errKnownNonNil) — already covered — or through a phi that
// IS arg (same value). Kept separate for clarity.
func c02CarrierKnownNonNil(b *ssa.BasicBlock, arg ssa.Value) bool {
	for s := b; s != nil; s = s.Idom() {
		if len(s.Preds) != 1 {
			continue
		}
		if v, isNil, ok := c02NilTest(s.Preds[0], s); ok && !isNil && v == arg {
			return true
		}
	}
	return false
}

// c02ErrorSurfaces (T3): may-dataflow over path states
//
//	bit0 RDP  a source read error that is neither nil nor end-of-input may be pending
//	bit1 PFP  a processFn error may be pending
//	bits2-3   pipe: 0 open, 1 closed with error, 2 closed clean
func c02ErrorSurfaces(r *Report, L *c02Loop) {
	p := L.p
	const (
		rdp     = 1
		pfp     = 2
		badsent = 16 // the pending source error was matched against a sentinel other than io.EOF (sticky until the next read)
	)
	closeState := func(s int) int { return (s >> 2) & 3 }
	setClose := func(s, k int) int { return (s &^ 12) | (k << 2) }
	// Only io.EOF is end of input. io.ErrUnexpectedEOF is NOT accepted, also not
	// behind io.ReadFull/ReadAtLeast: their short-read marker cannot be told from
	// a source reader that itself fails with io.ErrUnexpectedEOF.
	pureSources := append(append([]ssa.Value{}, L.readErrs...), L.callErrs...)
	// effective kind of a close for a path state
	effKind := func(in ssa.Instruction, cc *ssa.CallCommon, s int) int {
		k := L.closeKind[in]
		if k != c02CloseMaybe {
			return k
		}
		arg := cc.Args[1]
		if (s&rdp != 0 && c02CarriesAny(arg, L.readErrs)) || (s&pfp != 0 && c02CarriesAny(arg, L.callErrs)) {
			return c02CloseErr
		}
		return c02CloseClean
	}
	replay := false
	isRead := map[ssa.Instruction]bool{}
	for _, x := range L.reads {
		isRead[x] = true
	}
	isCall := map[ssa.Instruction]bool{}
	for _, x := range L.calls {
		isCall[x] = true
	}
	isClose := map[ssa.Instruction]bool{}
	for _, x := range L.closes {
		isClose[x] = true
	}
	isDefClose := map[ssa.Instruction]bool{}
	for _, x := range L.deferred {
		isDefClose[x] = true
	}
	type badClose struct {
		in   ssa.Instruction
		what string
	}
	ff := &FlagFlow{Fn: L.fn, Must: false, Entry: 1 << 0}
	ff.Transfer = func(in ssa.Instruction, st uint64) uint64 {
		switch x := in.(type) {
		case *ssa.RunDefers:
			replay = true
			return st
		case *ssa.Defer:
			if replay && isDefClose[in] {
				return mapStates(st, func(s int) int {
					if closeState(s) != 0 {
						return s
					}
					if effKind(in, x.Common(), s) == c02CloseErr {
						return setClose(s, 1)
					}
					return setClose(s, 2)
				})
			}
			return st
		}
		replay = false
		switch {
		case isRead[in]:
			return mapStates(st, func(s int) int { return (s | rdp) &^ badsent })
		case isCall[in]:
			return mapStates(st, func(s int) int { return s | pfp })
		case isClose[in]:
			cc := in.(*ssa.Call).Common()
			return mapStates(st, func(s int) int {
				if closeState(s) != 0 {
					return s
				}
				if effKind(in, cc, s) == c02CloseErr {
					return setClose(s, 1)
				}
				return setClose(s, 2)
			})
		}
		return st
	}
	ff.EdgeTransfer = func(from, to *ssa.BasicBlock, st uint64) uint64 {
		if v, isNil, ok := c02NilTest(from, to); ok && isNil {
			clr := 0
			if c02CarriesAny(v, L.readErrs) {
				clr |= rdp
			}
			if c02CarriesAny(v, L.callErrs) {
				clr |= pfp
			}
			if clr != 0 {
				return mapStates(st, func(s int) int {
					if s&badsent != 0 {
						// the source error is known to be a non-EOF sentinel: a nil value here is a replacement, not the error
						return s &^ (clr &^ rdp)
					}
					return s &^ clr
				})
			}
		}
		if v, sent, ok := c02SentinelTest(from, to); ok && c02CarriesAny(v, L.readErrs) {
			if sent == "io.EOF" {
				if c02PureCarrier(v, pureSources) {
					return mapStates(st, func(s int) int {
						if s&badsent != 0 {
							return s
						}
						return s &^ rdp
					})
				}
				return st
			}
			return mapStates(st, func(s int) int {
				if s&rdp != 0 {
					return s | badsent
				}
				return s
			})
		}
		return st
	}
	ff.Run()

	pendingText := func(s int) string {
		var w []string
		if s&rdp != 0 && s&badsent != 0 {
			txt := "an error of the source reader that was matched against a sentinel other than io.EOF (io.ErrUnexpectedEOF and the like are real failures of the source — a body shorter than announced, a truncated archive — and must not be treated as end of input)"
			if L.readFull {
				txt += "; the fill goes through io.ReadFull/io.ReadAtLeast, whose short-read marker io.ErrUnexpectedEOF cannot be told from a source that fails with io.ErrUnexpectedEOF, so tolerating it hides a source error"
			}
			w = append(w, txt)
		} else if s&rdp != 0 {
			txt := "an error of the source reader other than io.EOF"
			if L.readFull {
				txt += " (the fill goes through io.ReadFull/io.ReadAtLeast: only io.EOF may be treated as end of input, io.ErrUnexpectedEOF cannot be told from a failing source)"
			}
			w = append(w, txt)
		}
		if s&pfp != 0 {
			w = append(w, "an error of the segment processor (failed authentication)")
		}
		return strings.Join(w, " / ")
	}
	// clean close while pending
	checkClose := func(in ssa.Instruction, cc *ssa.CallCommon, st uint64, atPos string) {
		bad := ""
		for s := 0; s < 32; s++ {
			if st&(1<<uint(s)) == 0 || closeState(s) != 0 {
				continue
			}
			if s&(rdp|pfp) != 0 && effKind(in, cc, s) != c02CloseErr {
				bad = pendingText(s)
			}
		}
		what := "Close"
		if cc.StaticCallee() != nil {
			what = cc.StaticCallee().Name()
		}
		construct := fmt.Sprintf("%s out.%s [%s]", L.name, what, c02CloseContext(L, in))
		r.Check(bad == "", "C02.T3-error-surfaces", construct, atPos,
			"not reachable as the first close with an error pending, or closes with that error",
			"the stream can be closed cleanly (reader sees EOF, no error) on a path on which "+bad+" is still pending: the failure does not surface on the output stream")
	}
	for _, cl := range L.closes {
		if st, ok := ff.Before(cl); ok {
			checkClose(cl, cl.Common(), st, p.Pos(cl.Pos()))
		}
	}
	// deferred closes are judged at the returns below (state before Return already includes them)
	nRet := 0
	var openPending, openPlain []string
	ff.AtReturns(func(ret *ssa.Return, st uint64) {
		nRet++
		for s := 0; s < 32; s++ {
			if st&(1<<uint(s)) == 0 {
				continue
			}
			if closeState(s) == 0 {
				if s&(rdp|pfp) != 0 {
					openPending = append(openPending, p.Pos(instrPos(ret))+": "+pendingText(s))
				} else {
					openPlain = append(openPlain, p.Pos(instrPos(ret)))
				}
			}
			if closeState(s) == 2 && s&(rdp|pfp) != 0 && len(L.deferred) > 0 {
				openPending = append(openPending, p.Pos(instrPos(ret))+": closed cleanly by a deferred close with "+pendingText(s)+" pending")
			}
		}
	})
	r.Check(len(openPending) == 0 && nRet > 0, "C02.T3-error-surfaces", L.name+" returns", p.Pos(L.fn.Pos()),
		"every return taken with an error pending has closed the pipe with an error",
		"the function can return without closing the pipe with an error although "+strings.Join(c02Uniq(openPending), "; ")+" — the reader never sees the failure (it blocks forever or gets a clean EOF)")
	for _, w := range c02Uniq(openPlain) {
		r.Note("C02 T3: %s can return at %s without closing the pipe (the reader would block; no error pending on that path, not a C02 violation)", L.name, w)
	}
}

// c02CloseContext gives a position-free description of a close site: the
// shape of its argument.
func c02CloseContext(L *c02Loop, in ssa.Instruction) string {
	var cc *ssa.CallCommon
	switch x := in.(type) {
	case *ssa.Call:
		cc = x.Common()
	case *ssa.Defer:
		cc = x.Common()
	}
	if cc == nil || len(cc.Args) < 2 {
		return "clean"
	}
	arg := cc.Args[1]
	switch {
	case isNilConst(arg):
		return "nil"
	case c02CarriesAny(arg, L.readErrs):
		return "source error"
	case c02CarriesAny(arg, L.callErrs):
		return "processor error"
	}
	if name, ok := c02IsGlobalLoad(arg); ok {
		return name
	}
	if call, ok := arg.(*ssa.Call); ok {
		if f := calleeObj(call); f != nil {
			// wrapped error: say what it wraps, if visible
			return f.Pkg().Name() + "." + f.Name() + c02WrapHint(L, call)
		}
	}
	return "error value"
}

func c02WrapHint(L *c02Loop, call *ssa.Call) string {
	// look through the varargs slice for a carried error
	hint := ""
	for _, a := range call.Call.Args {
		sl, ok := a.(*ssa.Slice)
		if !ok {
			continue
		}
		al, ok := sl.X.(*ssa.Alloc)
		if !ok {
			continue
		}
		for _, rr := range refs(al) {
			ia, ok := rr.(*ssa.IndexAddr)
			if !ok {
				continue
			}
			for _, r2 := range refs(ia) {
				if st, ok := r2.(*ssa.Store); ok {
					if c02CarriesAny(st.Val, L.callErrs) {
						hint = "(processor error)"
					} else if c02CarriesAny(st.Val, L.readErrs) {
						hint = "(source error)"
					}
				}
			}
		}
	}
	if hint == "" {
		if len(call.Call.Args) > 0 {
			if k, ok := call.Call.Args[0].(*ssa.Const); ok && k.Value != nil {
				s := k.Value.ExactString()
				if len(s) > 40 {
					s = s[:40]
				}
				return "(" + s + ")"
			}
		}
	}
	return hint
}

func c02Uniq(in []string) []string {
	seen := map[string]bool{}
	var out []string
	for _, s := range in {
		if !seen[s] {
			seen[s] = true
			out = append(out, s)
		}
	}
	return out
}

// c02Counter (T4): the segment number argument.
func c02Counter(r *Report, L *c02Loop) {
	p := L.p
	for _, cl := range L.calls {
		construct := L.name + " processFn segment number"
		if L.numIdx >= len(cl.Call.Args) {
			continue
		}
		n := cl.Call.Args[L.numIdx]
		// look through integer conversions (narrowing is judged by the range rule below)
		inner := n
		for i := 0; i < 3; i++ {
			cv, ok := inner.(*ssa.Convert)
			if !ok {
				break
			}
			if _, isInt := c02IntRange(cv.X.Type()); !isInt {
				break
			}
			inner = cv.X
		}
		switch x := inner.(type) {
		case *ssa.Const:
			// a constant is fine only if the call is not in a loop (single final call after a loop would still need the count)
			r.Violation("C02.T4-counter", construct, p.Pos(cl.Pos()), "the segment number handed to the segment processor is the constant "+x.Name()+": every segment is sealed/opened at the same position, so segments can be swapped, duplicated or dropped without detection")
		case *ssa.Phi:
			why := ""
			changes := 0
			var step int64
			stepKnown := true
			noteStep := func(bo *ssa.BinOp) {
				k, ok := c02ConstInt(bo.Y, 0)
				if !ok || bo.Op != token.ADD || k <= 0 {
					stepKnown = false
					return
				}
				if k > step {
					step = k
				}
			}
			for _, e := range x.Edges {
				if _, isC := e.(*ssa.Const); isC {
					continue
				}
				if e == ssa.Value(x) {
					why = "the counter can be carried unchanged into the next iteration (two segments get the same number)"
					continue
				}
				if bo, ok := e.(*ssa.BinOp); ok && c02Carries(bo.X, x) {
					if k, ok := bo.Y.(*ssa.Const); ok && k.Value != nil && k.Value.ExactString() != "0" {
						changes++
						noteStep(bo)
						continue
					}
				}
				if ph, ok := e.(*ssa.Phi); ok {
					// nested merge (e.g. continue paths): every leaf must be counter+const
					okAll := true
					for _, e2 := range ph.Edges {
						bo, ok := e2.(*ssa.BinOp)
						if !ok || !c02Carries(bo.X, x) {
							okAll = false
						} else {
							noteStep(bo)
						}
					}
					if okAll {
						changes++
						continue
					}
				}
				why = "the segment number is updated by something other than counter±constant; cannot classify"
			}
			if why == "" && changes == 0 {
				why = "the segment number never changes between iterations: every segment is sealed/opened at the same position (swap, duplication and removal of segments go undetected)"
			}
			if strings.HasSuffix(why, "cannot classify") {
				r.Undecide("%s: %s", construct, why)
				continue
			}
			if r.Check(why == "", "C02.T4-counter", construct, p.Pos(cl.Pos()), "loop-carried counter, changed by a non-zero constant on every back edge", why) {
				c02CounterRange(r, L, cl, x, n, step, stepKnown)
			}
		default:
			r.Undecide("%s: the segment number is neither a loop-carried counter nor a constant (%T); cannot classify", construct, n)
		}
	}
}

// c02IntRange returns the largest value of an integer type (int/uint are taken as 64 bit).
func c02IntRange(t types.Type) (max uint64, ok bool) {
	b, isB := t.Underlying().(*types.Basic)
	if !isB {
		return 0, false
	}
	switch b.Kind() {
	case types.Uint8:
		return 1<<8 - 1, true
	case types.Int8:
		return 1<<7 - 1, true
	case types.Uint16:
		return 1<<16 - 1, true
	case types.Int16:
		return 1<<15 - 1, true
	case types.Uint32:
		return 1<<32 - 1, true
	case types.Int32:
		return 1<<31 - 1, true
	case types.Uint64, types.Uint, types.Uintptr:
		return 1<<64 - 1, true
	case types.Int64, types.Int:
		return 1<<63 - 1, true
	}
	return 0, false
}

// c02CounterRange (T4-counter-range): the value handed to processFn is
// injective in the loop counter over the whole range the loop can reach: on
// every path from one processFn call to the next, an edge establishes that the
// counter (plus its step) still fits both its own type and the uint32
// parameter. Without it the counter wraps (same width) or is truncated
// (narrowing conversion of a wider counter): segment i and segment i+2^32 get
// the same nonce. processSegments is shared by Encrypt and Decrypt, so this
// is nonce reuse when encrypting and lost position binding when decrypting.
func c02CounterRange(r *Report, L *c02Loop, cl *ssa.Call, ctr *ssa.Phi, arg ssa.Value, step int64, stepKnown bool) {
	p := L.p
	construct := L.name + " segment number range"
	rule := "C02.T4-counter-range"
	ctrMax, ok1 := c02IntRange(ctr.Type())
	argMax, ok2 := c02IntRange(arg.Type())
	if !ok1 || !ok2 || !stepKnown || step <= 0 {
		r.Undecide("%s: counter type, parameter type or step not recognised; cannot classify", construct)
		return
	}
	limit := ctrMax
	if argMax < limit {
		limit = argMax
	}
	// guard edges: edges on which counter(+c) is bounded so that the next value fits
	isCtr := func(v ssa.Value) (add int64, ok bool) {
		for i := 0; i < 3; i++ {
			if cv, isCv := v.(*ssa.Convert); isCv {
				// only widening (or same-size) views of the counter keep its value
				if m, isInt := c02IntRange(cv.Type()); isInt && m >= ctrMax {
					v = cv.X
					continue
				}
			}
			break
		}
		if v == ssa.Value(ctr) {
			return 0, true
		}
		if bo, isBo := v.(*ssa.BinOp); isBo && bo.Op == token.ADD && bo.X == ssa.Value(ctr) {
			if k, ok := c02ConstInt(bo.Y, 0); ok && k > 0 {
				return k, true
			}
		}
		return 0, false
	}
	guardEdge := func(from, to *ssa.BasicBlock) bool {
		if len(from.Instrs) == 0 || len(from.Succs) != 2 || from.Succs[0] == from.Succs[1] {
			return false
		}
		ifi, ok := from.Instrs[len(from.Instrs)-1].(*ssa.If)
		if !ok {
			return false
		}
		cmp, ok := decodeCond(ifi.Cond, from.Succs[0] == to)
		if !ok {
			return false
		}
		x, y, op := cmp.X, cmp.Y, cmp.Op
		if _, isC := isCtr(x); !isC {
			// constant on the left: mirror
			x, y = y, x
			switch op {
			case token.LSS:
				op = token.GTR
			case token.GTR:
				op = token.LSS
			case token.LEQ:
				op = token.GEQ
			case token.GEQ:
				op = token.LEQ
			}
		}
		add, isC := isCtr(x)
		if !isC {
			return false
		}
		kc, isK := y.(*ssa.Const)
		if !isK || kc.Value == nil || kc.Value.Kind() != constant.Int {
			return false
		}
		ku, exact := constant.Uint64Val(kc.Value)
		if !exact {
			return false
		}
		// upper bound established for (counter+add) on this edge
		var bound uint64
		switch op {
		case token.LSS:
			if ku == 0 {
				return false
			}
			bound = ku - 1
		case token.LEQ:
			bound = ku
		case token.NEQ:
			// excludes one value: a bound only if that value is the largest the type can hold
			if ku != ctrMax || add != 0 {
				return false
			}
			bound = ku - 1
		default:
			return false
		}
		// next value = counter + step; (counter+add) <= bound  =>  counter+step <= bound - add + step
		next := bound - uint64(add) + uint64(step)
		if next < bound-uint64(add) { // overflow of the computation itself
			return false
		}
		return next <= limit
	}
	isCall := map[ssa.Instruction]bool{}
	for _, x := range L.calls {
		isCall[x] = true
	}
	isClose := map[ssa.Instruction]bool{}
	for _, x := range L.closes {
		isClose[x] = true
	}
	if L.lastIdx >= len(cl.Call.Args) {
		return
	}
	lv := cl.Call.Args[L.lastIdx]
	env := &c02Env{bind: map[ssa.Value]ssa.Value{}, known: map[ssa.Value]bool{}}
	if k, isConst := lv.(*ssa.Const); isConst {
		if k.Value != nil && k.Value.ExactString() == "true" {
			r.Trivial(rule, construct, p.Pos(cl.Pos()), "this call site always passes last=true (no next segment)")
			return
		}
	} else {
		c02LearnAssumption(env, lv, false, 0)
	}
	hits, exhausted := c02ExploreEdges(cl.Block(), instrIndex(cl)+1, env, func(in ssa.Instruction) c02Action {
		switch {
		case isCall[in]:
			return c02Target
		case isClose[in]:
			return c02Stop
		}
		return c02Continue
	}, guardEdge)
	if !exhausted {
		r.Undecide("%s: path exploration exceeded its budget", construct)
		return
	}
	if len(hits) == 0 {
		r.OK(rule, construct, p.Pos(cl.Pos()), fmt.Sprintf("between two segments the counter is bounded so that the next number fits (limit %d)", limit))
		return
	}
	how := fmt.Sprintf("the %s counter wraps around", ctr.Type())
	if argMax < ctrMax {
		how = fmt.Sprintf("the %s counter is truncated by the conversion to %s", ctr.Type(), arg.Type())
	}
	r.Violation(rule, construct, p.Pos(instrPos(hits[0].Instr)),
		"the next segment can be processed without any bound on the segment counter having been checked: after 2^32 segments "+how+" and segment i+2^32 is handed the same number — hence the same nonce — as segment i. processSegments is shared by Encrypt and Decrypt: when encrypting this is nonce reuse under one key, when decrypting a segment authenticates at two positions (swap/duplication undetected). An overflow guard (counter compared with a constant bound, failing side closing the stream with an error) must lie on every path between two segments",
		c02Trail(p, hits[0].Trail)...)
}

// c02Finality (T4-final-is-last, T5-first, T5-next) with the path explorer.
func c02Finality(r *Report, L *c02Loop) {
	p := L.p
	isCall := map[ssa.Instruction]bool{}
	for _, x := range L.calls {
		isCall[x] = true
	}
	isClose := map[ssa.Instruction]bool{}
	for _, x := range L.closes {
		isClose[x] = true
	}
	hasDeferredClean := false
	for _, d := range L.deferred {
		if L.closeKind[d] != c02CloseErr {
			hasDeferredClean = true
		}
	}
	// visit for "reach a clean close before another processFn call"
	toCleanClose := func(in ssa.Instruction) c02Action {
		switch {
		case isCall[in]:
			return c02Stop
		case isClose[in]:
			if L.closeKind[in] == c02CloseErr {
				return c02Stop
			}
			return c02Target
		}
		if _, ok := in.(*ssa.Return); ok && hasDeferredClean {
			return c02Target
		}
		return c02Continue
	}
	report := func(rule, construct, okMsg, badMsg string, hits []c02Hit, exhausted bool, pos string, lv ssa.Value) {
		if !exhausted {
			r.Undecide("%s: path exploration exceeded its budget", construct)
			return
		}
		if len(hits) == 0 {
			r.OK(rule, construct, pos, okMsg)
			return
		}
		// prefer a witness that does not depend on a flag unrelated to the finality argument
		var h c02Hit
		var unrelated ssa.Value
		found := false
		for _, cand := range hits {
			u := c02UnrelatedFlag(lv, cand.Opaque)
			if u == nil {
				h, found = cand, true
				break
			}
			if unrelated == nil {
				unrelated, h = u, cand
			}
		}
		if !found {
			r.Undecide("%s: a path to %s depends on the flag %s (%s) whose relation to the finality argument cannot be established", construct, p.Pos(instrPos(h.Instr)), unrelated.Name(), p.Pos(c02ValuePos(unrelated)))
			return
		}
		if k, ok := L.closeKind[h.Instr]; ok && k == c02CloseMaybe {
			r.Undecide("%s: cannot classify the argument of CloseWithError at %s as nil or non-nil", construct, p.Pos(instrPos(h.Instr)))
			return
		}
		r.Violation(rule, construct, p.Pos(instrPos(h.Instr)), badMsg, c02Trail(p, h.Trail)...)
	}

	// T5-first
	{
		env := &c02Env{bind: map[ssa.Value]ssa.Value{}, known: map[ssa.Value]bool{}}
		hits, ex := c02Explore(L.fn.Blocks[0], 0, env, toCleanClose)
		report("C02.T5-first", L.name+" clean close without any segment",
			"the stream is closed cleanly only after a segment was processed",
			"from the entry the stream can be closed cleanly without the segment processor having been called at all: a document cut right after its header (all segments removed) decrypts to an empty stream that ends in a clean EOF",
			hits, ex, p.Pos(L.fn.Pos()), nil)
	}
	for _, cl := range L.calls {
		if L.lastIdx >= len(cl.Call.Args) {
			continue
		}
		lv := cl.Call.Args[L.lastIdx]
		idx := instrIndex(cl) + 1
		constVal, isConst := false, false
		if k, ok := lv.(*ssa.Const); ok && k.Value != nil {
			isConst = true
			constVal = k.Value.ExactString() == "true"
		}
		if isConst && constVal {
			r.Trivial("C02.T5-next", L.name+" clean close after a non-final segment", p.Pos(cl.Pos()), "this call site always passes last=true")
		}
		if isConst && !constVal {
			r.Trivial("C02.T4-final-is-last", L.name+" segment after the final one", p.Pos(cl.Pos()), "this call site never passes last=true")
		}
		// T5-next: assume last == false
		if !(isConst && constVal) {
			env := &c02Env{bind: map[ssa.Value]ssa.Value{}, known: map[ssa.Value]bool{}}
			if !isConst {
				c02LearnAssumption(env, lv, false, 0)
			}
			hits, ex := c02Explore(cl.Block(), idx, env, toCleanClose)
			report("C02.T5-next", L.name+" clean close after a non-final segment",
				"after a segment processed with last=false the stream is closed cleanly only after another segment",
				"after a segment was processed with last=false (sealed/opened as NOT final) the stream can be closed cleanly without a segment processed with last=true: a document truncated at a segment boundary ends in a clean EOF (the finality bit in the nonce is the only thing that detects this)",
				hits, ex, p.Pos(cl.Pos()), lv)
		}
		// T4-final-is-last: assume last == true
		if !(isConst && !constVal) {
			env := &c02Env{bind: map[ssa.Value]ssa.Value{}, known: map[ssa.Value]bool{}}
			if !isConst {
				c02LearnAssumption(env, lv, true, 0)
			}
			hits, ex := c02Explore(cl.Block(), idx, env, func(in ssa.Instruction) c02Action {
				switch {
				case isCall[in]:
					return c02Target
				case isClose[in]:
					return c02Stop
				}
				return c02Continue
			})
			report("C02.T4-final-is-last", L.name+" segment after the final one",
				"no segment is processed after one processed with last=true",
				"after a segment was processed with last=true another segment can be processed: the finality flag does not mark the end of the stream, so a document cut after that segment is accepted as complete",
				hits, ex, p.Pos(cl.Pos()), lv)
		}
	}
}

// ---------------------------------------------------------------------------
// T7: wiring of Decrypt

func c02CheckWiring(p *Prog, r *Report, decrypt, ps, decSeg *ssa.Function) {
	name := FuncName(p, decrypt)
	// processFn parameter index of processSegments
	procIdx, outIdx := -1, -1
	for i, pa := range ps.Params {
		if _, ok := pa.Type().Underlying().(*types.Signature); ok {
			procIdx = i
		}
		if c02IsPipeWriter(pa.Type()) {
			outIdx = i
		}
	}
	if procIdx < 0 || outIdx < 0 {
		undecided("processSegments no longer takes a pipe writer and a segment processor")
	}
	var sites []ssa.CallInstruction
	var visit func(fn *ssa.Function)
	visit = func(fn *ssa.Function) {
		allInstrs(fn, func(in ssa.Instruction) {
			if ci, ok := in.(ssa.CallInstruction); ok && staticCallee(ci) == ps {
				sites = append(sites, ci)
			}
		})
		for _, a := range fn.AnonFuncs {
			visit(a)
		}
	}
	visit(decrypt)
	if len(sites) == 0 {
		// one level of helpers called from Decrypt
		seenH := map[*ssa.Function]bool{}
		allInstrs(decrypt, func(in ssa.Instruction) {
			if ci, ok := in.(ssa.CallInstruction); ok {
				if h := staticCallee(ci); h != nil && p.InModule(h) && h != decrypt && !seenH[h] && len(h.Blocks) > 0 {
					seenH[h] = true
					visit(h)
				}
			}
		})
	}
	if len(sites) == 0 {
		r.Undecide("%s no longer calls processSegments directly or from a closure: the decrypt data path is not recognised", name)
		return
	}
	for _, site := range sites {
		args := site.Common().Args
		pf := args[procIdx]
		var target *ssa.Function
		var recv ssa.Value
		switch x := pf.(type) {
		case *ssa.MakeClosure:
			target, _ = x.Fn.(*ssa.Function)
			if len(x.Bindings) == 1 {
				recv = x.Bindings[0]
			}
		case *ssa.Function:
			target = x
		}
		if target == nil {
			r.Undecide("%s: the segment processor handed to processSegments is not a method value or function (%T)", name, pf)
			continue
		}
		obj := target.Object()
		construct := name + " -> processSegments segment processor"
		if obj == nil || target.Synthetic == "" && target.Parent() != nil {
			r.Undecide("%s: the segment processor is a function literal; cannot follow", name)
			continue
		}
		r.Check(obj == decSeg.Object(), "C02.T7-wiring", construct, p.Pos(site.Pos()),
			"Decrypt drives processSegments with fileKey.DecryptSegment",
			fmt.Sprintf("Decrypt drives processSegments with %s instead of fileKey.DecryptSegment: the payload is not authenticated by the rules checked here", target.Name()))
		// the file key comes from importFileKey
		if recv != nil {
			okKey := false
			v := recv
			if u, isLoad := v.(*ssa.UnOp); isLoad {
				v = u.X
			}
			if fv, isFV := v.(*ssa.FreeVar); isFV {
				if b := resolveFreeVar(fv); b != nil {
					v = b
				}
			}
			// direct extract of importFileKey, or a cell stored from it
			fromImport := func(x ssa.Value) bool {
				if ex, ok := x.(*ssa.Extract); ok {
					if call, ok := ex.Tuple.(*ssa.Call); ok && staticCallee(call) != nil && staticCallee(call).Name() == "importFileKey" {
						return true
					}
				}
				return false
			}
			if fromImport(v) {
				okKey = true
			} else if al, isAl := v.(*ssa.Alloc); isAl {
				for _, rr := range refs(al) {
					if st, ok := rr.(*ssa.Store); ok && st.Addr == ssa.Value(al) && fromImport(st.Val) {
						okKey = true
					}
				}
			}
			if !okKey {
				r.Note("C02 T7: the fileKey bound to DecryptSegment in %s is not visibly the result of importFileKey (not decided)", name)
			}
		}
		// the writer is half of an io.Pipe whose reader half is returned
		w := c02Origin(args[outIdx])
		var pipe *ssa.Call
		if ex, ok := w.(*ssa.Extract); ok && ex.Index == 1 {
			if call, ok := ex.Tuple.(*ssa.Call); ok && callIs(call, "io", "", "Pipe") {
				pipe = call
			}
		}
		construct2 := name + " returned stream"
		if pipe == nil {
			r.Undecide("%s: the writer handed to processSegments is not visibly the write half of io.Pipe()", name)
			continue
		}
		okRet, nOK := true, 0
		allInstrs(decrypt, func(in ssa.Instruction) {
			ret, ok := in.(*ssa.Return)
			if !ok || len(ret.Results) != 2 || isNilConst(ret.Results[0]) {
				return
			}
			if c02IsPipeReaderOf(p, ret.Results[0], pipe, 2) {
				nOK++
				return
			}
			okRet = false
		})
		if !okRet || nOK == 0 {
			r.Undecide("%s: a non-nil stream returned by Decrypt is not visibly the read half of the pipe fed by processSegments", name)
			continue
		}
		r.OK("C02.T7-wiring", construct2, p.Pos(pipe.Pos()), "Decrypt returns the read half of the pipe written by processSegments")
	}
}

// c02Origin follows a value through closure capture (free variable -> cell
// -> the single value stored into the cell).
func c02Origin(v ssa.Value) ssa.Value {
	for i := 0; i < 8; i++ {
		switch x := v.(type) {
		case *ssa.UnOp:
			if x.Op != token.MUL {
				return v
			}
			cell := x.X
			if fv, ok := cell.(*ssa.FreeVar); ok {
				if b := resolveFreeVar(fv); b != nil {
					cell = b
				}
			}
			al, ok := cell.(*ssa.Alloc)
			if !ok {
				return v
			}
			var stored ssa.Value
			n := 0
			for _, rr := range refs(al) {
				if st, ok := rr.(*ssa.Store); ok && st.Addr == ssa.Value(al) {
					stored = st.Val
					n++
				}
			}
			if n != 1 {
				return v
			}
			v = stored
		case *ssa.FreeVar:
			b := resolveFreeVar(x)
			if b == nil {
				return v
			}
			v = b
		case *ssa.MakeInterface:
			v = x.X
		case *ssa.ChangeInterface:
			v = x.X
		default:
			return v
		}
	}
	return v
}

// c02IsPipeReaderOf: v is the read half of the io.Pipe() call pipe, directly
// or as the result of a module function all of whose returns are that half.
func c02IsPipeReaderOf(p *Prog, v ssa.Value, pipe *ssa.Call, depth int) bool {
	v = c02Origin(v)
	if ex, ok := v.(*ssa.Extract); ok && ex.Index == 0 && ex.Tuple == ssa.Value(pipe) {
		return true
	}
	if depth == 0 {
		return false
	}
	if ex, ok := v.(*ssa.Extract); ok {
		v = ex.Tuple
	}
	call, ok := v.(*ssa.Call)
	if !ok {
		return false
	}
	callee := staticCallee(call)
	if callee == nil || !p.InModule(callee) || callee != pipe.Parent() {
		return false
	}
	n, all := 0, true
	allInstrs(callee, func(in ssa.Instruction) {
		ret, ok := in.(*ssa.Return)
		if !ok || len(ret.Results) == 0 || isNilConst(ret.Results[0]) {
			return
		}
		n++
		if !c02IsPipeReaderOf(p, ret.Results[0], pipe, depth-1) {
			all = false
		}
	})
	return n > 0 && all
}

// c02Notes: mechanisms the anchors list but the statement does not require.
func c02Notes(p *Prog, r *Report, decrypt *ssa.Function) {
	name := FuncName(p, decrypt)
	var verify *ssa.Call
	var spawn ssa.Instruction
	allInstrs(decrypt, func(in ssa.Instruction) {
		if call, ok := in.(*ssa.Call); ok {
			if f := staticCallee(call); f != nil && f.Name() == "VerifyHeaderSignature" {
				verify = call
			}
		}
		if g, ok := in.(*ssa.Go); ok {
			spawn = g
		}
	})
	if verify == nil {
		r.Note("C02 T2 (note only): %s does not call VerifyHeaderSignature — the header MAC is not checked; the payload is still authenticated segment by segment, so the statement of C02 is not violated by this alone", name)
	} else if spawn != nil {
		if !errKnownNil(spawn.Block(), verify) {
			r.Note("C02 T2 (note only): in %s the goroutine that processes segments is not dominated by the success edge of VerifyHeaderSignature (MAC checked late, or its error ignored)", name)
		}
	}
	if vh := p.FuncOpt(c02Pkg, "fileKey.VerifyHeaderSignature"); vh != nil {
		ct := false
		allInstrs(vh, func(in ssa.Instruction) {
			if call, ok := in.(*ssa.Call); ok && (callIs(call, "crypto/subtle", "", "ConstantTimeCompare") || callIs(call, "crypto/hmac", "", "Equal")) {
				ct = true
			}
		})
		if !ct {
			r.Note("C02 T2 (note only): VerifyHeaderSignature does not compare the MAC with a constant-time primitive")
		}
	}
}
