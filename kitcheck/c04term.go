package main

// c04term: expression terms over go/ssa values with same-package callees
// inlined. A term is the shape-independent view the C04 rules work on: the
// value `!hasBit(s.Month, int(t.Month()))` and the value
// `1<<uint(t.Month())&s.Month == 0` produce the same term whether the bit test
// is written in Next, in a helper, in a method or in a closure. Merges (phis,
// several returns of an inlined callee) become "choice" nodes.

import (
	"fmt"
	"go/constant"
	"go/token"
	"go/types"
	"sort"
	"strings"

	"golang.org/x/tools/go/ssa"
)

// c04T is a term.
//
//	const        K (integers), S (strings/bools/nil as text)
//	leaf         Name: "T" (loop instant), "param:<name>", "flag:<n>" ...
//	load         Name "pkgpath.Type.Field", Args[0] = base object
//	global       Name "pkgpath.Var" (value loaded from a package-level variable)
//	tm:<M>       method M of time.Time, Args[0] receiver, then arguments
//	dur:<M>      method M of time.Duration
//	date         time.Date(y, mo, d, h, mi, s, ns, loc)
//	ext:<f>      other function without a body in the module
//	bin:<op>     binary operator
//	un:<op>      unary operator
//	builtin:<f>  len, min, max ...
//	choice       one of Args (merge)
//	tuple        results of an inlined call
//	unknown      Name says why
type c04T struct {
	Op   string
	Name string
	K    int64
	IsK  bool
	Args []*c04T
	key  string
	// Src: an SSA value this term was built from (for positions), may be nil.
	Src ssa.Value
}

func (t *c04T) Key() string {
	if t == nil {
		return "<nil>"
	}
	if t.key != "" {
		return t.key
	}
	var sb strings.Builder
	sb.WriteString(t.Op)
	if t.Name != "" {
		sb.WriteString("[" + t.Name + "]")
	}
	if t.IsK {
		fmt.Fprintf(&sb, "#%d", t.K)
	}
	if len(t.Args) > 0 {
		sb.WriteString("(")
		for i, a := range t.Args {
			if i > 0 {
				sb.WriteString(",")
			}
			sb.WriteString(a.Key())
		}
		sb.WriteString(")")
	}
	t.key = sb.String()
	return t.key
}

func (t *c04T) String() string { return t.Key() }

func c04Unknown(why string) *c04T { return &c04T{Op: "unknown", Name: why} }

func c04KT(k int64) *c04T { return &c04T{Op: "const", K: k, IsK: true} }

// c04Choice builds a flattened, de-duplicated merge.
func c04Choice(args []*c04T) *c04T {
	var flat []*c04T
	seen := map[string]bool{}
	var add func(a *c04T)
	add = func(a *c04T) {
		if a.Op == "choice" {
			for _, x := range a.Args {
				add(x)
			}
			return
		}
		if !seen[a.Key()] {
			seen[a.Key()] = true
			flat = append(flat, a)
		}
	}
	for _, a := range args {
		add(a)
	}
	if len(flat) == 1 {
		return flat[0]
	}
	sort.SliceStable(flat, func(i, j int) bool { return flat[i].Key() < flat[j].Key() })
	return &c04T{Op: "choice", Args: flat}
}

// walk visits t and all sub-terms.
func (t *c04T) walk(f func(*c04T)) {
	if t == nil {
		return
	}
	f(t)
	for _, a := range t.Args {
		a.walk(f)
	}
}

func (t *c04T) contains(pred func(*c04T) bool) bool {
	found := false
	t.walk(func(x *c04T) {
		if pred(x) {
			found = true
		}
	})
	return found
}

// alternatives of a (possibly) choice term.
func (t *c04T) alts() []*c04T {
	if t.Op == "choice" {
		return t.Args
	}
	return []*c04T{t}
}

// c04MemKey: field `Field` of local struct `Alloc` at the entry of block `Block`.
type c04MemKey struct {
	Alloc ssa.Value // the variable: a local Alloc, or the FreeVar through which a closure sees it
	Field int       // field of a struct variable; -1: the variable itself
	Block *ssa.BasicBlock
}

// c04ClosureSite: where the closure reached by a call was created (frame and MakeClosure).
type c04ClosureSite struct {
	fr *c04Frame2
	mc *ssa.MakeClosure
}

// c04Bind: where a closure's free variable lives (frame and variable of the creator).
type c04Bind struct {
	fr   *c04Frame2
	base ssa.Value
}

type c04FrameKey struct {
	parent *c04Frame2
	call   ssa.CallInstruction
	callee *ssa.Function
}

type c04Frame2 struct {
	fn     *ssa.Function
	call   ssa.CallInstruction // the call (in parent) this frame was entered from
	fvBind map[*ssa.FreeVar]c04Bind
	env    map[*ssa.Parameter]*c04T
	fvEnv  map[*ssa.FreeVar]*c04T
	parent *c04Frame2
	depth  int
}

// c04TermBuilder builds terms. Leaves fixes chosen SSA values (of the root
// function) to leaf terms.
type c04TermBuilder struct {
	p      *Prog
	Leaves map[ssa.Value]*c04T
	memo   map[*c04Frame2]map[ssa.Value]*c04T
	busy   map[*c04Frame2]map[ssa.Value]bool
	frames map[c04FrameKey]*c04Frame2
	// MaxDepth of inlining.
	MaxDepth int
	// MemLeaves fixes the content of a field of a local struct at the entry of a block
	// (the loop-carried state of a loop whose variables live in a struct).
	MemLeaves map[c04MemKey]*c04T
	memBusy   map[c04MemKey]bool
	memBusyF  map[*c04Frame2]map[c04MemKey]bool
	closureOf map[c04FrameKey]c04ClosureSite
	muUsed    map[*c04Frame2]map[ssa.Value]string
	// Opaque callees are not inlined: their calls become "call" nodes
	// (Name = position-free function name, Args = argument terms).
	Opaque func(*ssa.Function) bool
}

func newC04TermBuilder(p *Prog) *c04TermBuilder {
	return &c04TermBuilder{p: p, MemLeaves: map[c04MemKey]*c04T{}, memBusy: map[c04MemKey]bool{}, memBusyF: map[*c04Frame2]map[c04MemKey]bool{}, closureOf: map[c04FrameKey]c04ClosureSite{}, frames: map[c04FrameKey]*c04Frame2{}, Leaves: map[ssa.Value]*c04T{}, memo: map[*c04Frame2]map[ssa.Value]*c04T{}, busy: map[*c04Frame2]map[ssa.Value]bool{}, MaxDepth: 6}
}

// Root returns the frame of a root function: parameters are leaves.
func (tb *c04TermBuilder) Root(fn *ssa.Function) *c04Frame2 {
	fr := &c04Frame2{fn: fn, env: map[*ssa.Parameter]*c04T{}, fvEnv: map[*ssa.FreeVar]*c04T{}}
	for _, par := range fn.Params {
		fr.env[par] = &c04T{Op: "leaf", Name: "param:" + par.Name(), Src: par}
	}
	return fr
}

func (tb *c04TermBuilder) Term(fr *c04Frame2, v ssa.Value) *c04T {
	if l, ok := tb.Leaves[v]; ok && fr.parent == nil {
		return l
	}
	if m := tb.memo[fr]; m != nil {
		if t, ok := m[v]; ok {
			return t
		}
	} else {
		tb.memo[fr] = map[ssa.Value]*c04T{}
		tb.busy[fr] = map[ssa.Value]bool{}
	}
	if tb.busy[fr][v] {
		// an instant that a loop inside the code under analysis carries round (a walk "for cond
		// { t = t.Add(d) }"): the variable of a recursive term mu X. choice(entry, step(X)), so that
		// the steps of the walk stay visible; other loop-carried values are not modelled
		if ph, ok := v.(*ssa.Phi); ok && c04IsTimeType(ph.Type()) {
			if tb.muUsed == nil {
				tb.muUsed = map[*c04Frame2]map[ssa.Value]string{}
			}
			if tb.muUsed[fr] == nil {
				tb.muUsed[fr] = map[ssa.Value]string{}
			}
			id := fmt.Sprintf("%s.%s@%d", fr.fn.Name(), ph.Name(), fr.depth)
			tb.muUsed[fr][v] = id
			return &c04T{Op: "muvar", Name: id, Src: v}
		}
		return c04Unknown("loop-carried value")
	}
	tb.busy[fr][v] = true
	t := tb.build(fr, v)
	if id, ok := tb.muUsed[fr][v]; ok {
		t = &c04T{Op: "mu", Name: id, Args: []*c04T{t}}
	}
	if t.Src == nil {
		t.Src = v
	}
	tb.busy[fr][v] = false
	tb.memo[fr][v] = t
	return t
}

var c04DateTuple = map[string][]string{"Date": {"Year", "Month", "Day"}, "Clock": {"Hour", "Minute", "Second"}}

func c04ConstTerm(c *ssa.Const) *c04T {
	if c.Value == nil {
		return &c04T{Op: "const", Name: "zero:" + c.Type().String()}
	}
	switch c.Value.Kind() {
	case constant.Int:
		if i, ok := constant.Int64Val(c.Value); ok {
			return c04KT(i)
		}
		if u, ok := constant.Uint64Val(c.Value); ok {
			return &c04T{Op: "const", K: int64(u), IsK: true} // two's complement of large unsigned constants
		}
	case constant.Bool:
		return &c04T{Op: "const", Name: fmt.Sprint(constant.BoolVal(c.Value))}
	case constant.String:
		return &c04T{Op: "const", Name: "s:" + constant.StringVal(c.Value)}
	}
	return &c04T{Op: "const", Name: c.Value.ExactString()}
}

func (tb *c04TermBuilder) build(fr *c04Frame2, v ssa.Value) *c04T {
	switch x := v.(type) {
	case *ssa.Const:
		return c04ConstTerm(x)
	case *ssa.Parameter:
		if t, ok := fr.env[x]; ok {
			return t
		}
		return c04Unknown("parameter " + x.Name())
	case *ssa.FreeVar:
		if t, ok := fr.fvEnv[x]; ok {
			return t
		}
		if b, ok := fr.fvBind[x]; ok {
			// the frame is still being set up: the binding is known, its term is not yet
			return tb.Term(b.fr, b.base)
		}
		return c04Unknown("free variable " + x.Name())
	case *ssa.Global:
		return &c04T{Op: "addr-global", Name: c04GlobalName(x)}
	case *ssa.Function:
		return &c04T{Op: "func", Name: x.String()}
	case *ssa.Phi:
		var alts []*c04T
		for _, e := range x.Edges {
			if e == ssa.Value(x) {
				continue
			}
			alts = append(alts, tb.Term(fr, e))
		}
		if len(alts) == 0 {
			return c04Unknown("empty phi")
		}
		return c04Choice(alts)
	case *ssa.Convert:
		return tb.Term(fr, x.X)
	case *ssa.ChangeType:
		return tb.Term(fr, x.X)
	case *ssa.MakeInterface:
		return tb.Term(fr, x.X)
	case *ssa.ChangeInterface:
		return tb.Term(fr, x.X)
	case *ssa.UnOp:
		if x.Op == token.MUL {
			return tb.loadAt(fr, x.X, x)
		}
		return &c04T{Op: "un:" + x.Op.String(), Args: []*c04T{tb.Term(fr, x.X)}}
	case *ssa.BinOp:
		return &c04T{Op: "bin:" + x.Op.String(), Args: []*c04T{tb.Term(fr, x.X), tb.Term(fr, x.Y)}}
	case *ssa.Field:
		base := tb.Term(fr, x.X)
		if base.Op == "struct" && x.Field < len(base.Args) {
			return base.Args[x.Field]
		}
		id := fieldIDOfField(x)
		return &c04T{Op: "load", Name: id.Type + "." + id.Field, Args: []*c04T{base}}
	case *ssa.FieldAddr:
		id := fieldIDOfAddr(x)
		return &c04T{Op: "addr", Name: id.Type + "." + id.Field, Args: []*c04T{tb.Term(fr, x.X)}}
	case *ssa.Alloc:
		// a struct built field by field (composite literal, possibly in an inlined helper)
		if stt, ok := deref1(x.Type()).Underlying().(*types.Struct); ok {
			whole, fieldStores := false, false
			for _, ref := range c04RealRefs(x) {
				switch y := ref.(type) {
				case *ssa.Store:
					if y.Addr == ssa.Value(x) {
						whole = true
					}
				case *ssa.FieldAddr:
					for _, r2 := range c04RealRefs(y) {
						if s2, ok := r2.(*ssa.Store); ok && s2.Addr == ssa.Value(y) {
							fieldStores = true
						}
					}
				}
			}
			if fieldStores && !whole {
				t := &c04T{Op: "struct", Name: namedKey(deref1(x.Type())), Src: x}
				for i := 0; i < stt.NumFields(); i++ {
					ft := tb.fieldStore(fr, x, i)
					if ft != nil && c04FieldAddrEscapes(x, i) {
						ft = c04Unknown("field written through a pointer kept elsewhere")
					}
					if ft == nil {
						n := 0
						for _, ref := range c04RealRefs(x) {
							if fa, ok := ref.(*ssa.FieldAddr); ok && fa.Field == i {
								for _, r2 := range c04RealRefs(fa) {
									if s2, ok := r2.(*ssa.Store); ok && s2.Addr == ssa.Value(fa) {
										n++
									}
								}
							}
						}
						escapes := false
						for _, ref := range c04RealRefs(x) {
							if fa, ok := ref.(*ssa.FieldAddr); ok && fa.Field == i {
								for _, r2 := range c04RealRefs(fa) {
									switch y := r2.(type) {
									case *ssa.UnOp:
									case *ssa.Store:
										if y.Addr != ssa.Value(fa) {
											escapes = true // the field's address is kept somewhere: it may be written through that pointer
										}
									default:
										escapes = true
									}
								}
							}
						}
						switch {
						case escapes:
							ft = c04Unknown("field written through a pointer kept elsewhere")
						case n == 0:
							ft = &c04T{Op: "const", Name: "zero:" + stt.Field(i).Type().String()}
						default:
							ft = c04Unknown("field written several times")
						}
					}
					t.Args = append(t.Args, ft)
				}
				return t
			}
		}
		return &c04T{Op: "alloc", Name: fmt.Sprintf("%p", x), Src: x}
	case *ssa.Extract:
		tup := tb.Term(fr, x.Tuple)
		if tup.Op == "tuple" && x.Index < len(tup.Args) {
			return tup.Args[x.Index]
		}
		if tup.Op == "choice" {
			var alts []*c04T
			ok := true
			for _, a := range tup.Args {
				if a.Op == "tuple" && x.Index < len(a.Args) {
					alts = append(alts, a.Args[x.Index])
				} else {
					ok = false
				}
			}
			if ok {
				return c04Choice(alts)
			}
		}
		if strings.HasPrefix(tup.Op, "tm:") {
			if names, ok := c04DateTuple[strings.TrimPrefix(tup.Op, "tm:")]; ok && x.Index < len(names) {
				return &c04T{Op: "tm:" + names[x.Index], Args: tup.Args[:1]}
			}
		}
		return &c04T{Op: "extract", K: int64(x.Index), IsK: true, Args: []*c04T{tup}}
	case *ssa.Call:
		return tb.call(fr, x)
	case *ssa.MakeClosure:
		return &c04T{Op: "closure", Name: x.Fn.String()}
	case *ssa.Lookup:
		return &c04T{Op: "lookup", Args: []*c04T{tb.Term(fr, x.X), tb.Term(fr, x.Index)}}
	case *ssa.IndexAddr:
		return &c04T{Op: "indexaddr", Args: []*c04T{tb.Term(fr, x.X), tb.Term(fr, x.Index)}}
	case *ssa.Slice:
		return &c04T{Op: "slice", Args: []*c04T{tb.Term(fr, x.X)}}
	}
	return c04Unknown(fmt.Sprintf("%T", v))
}

func c04GlobalName(g *ssa.Global) string {
	if g.Pkg != nil {
		return g.Pkg.Pkg.Path() + "." + g.Name()
	}
	return g.Name()
}

// load: the value stored at address a.
func (tb *c04TermBuilder) load(fr *c04Frame2, a ssa.Value) *c04T { return tb.loadAt(fr, a, nil) }

// loadAt: the value stored at address a, read by instruction at (nil if not known).
func (tb *c04TermBuilder) loadAt(fr *c04Frame2, a ssa.Value, at ssa.Instruction) *c04T {
	switch x := a.(type) {
	case *ssa.Global:
		return &c04T{Op: "global", Name: c04GlobalName(x)}
	case *ssa.FieldAddr:
		id := fieldIDOfAddr(x)
		// field of the addressable copy of a value (parameter copies, locals written once)
		if al, ok := x.X.(*ssa.Alloc); ok {
			if whole := tb.singleStore(fr, al); whole != nil {
				if whole.Op == "struct" && x.Field < len(whole.Args) {
					return whole.Args[x.Field]
				}
				return &c04T{Op: "load", Name: id.Type + "." + id.Field, Args: []*c04T{whole}}
			}
			// a composite literal built field by field
			if ft := tb.fieldStore(fr, al, x.Field); ft != nil {
				return ft
			}
			// a local struct used as a group of variables: the store reaching this load
			if c04LocalStructOnly(al) {
				if at := c04LoadOf(x); at != nil {
					return tb.MemAt(fr, al, x.Field, at.Block(), instrIndex(at))
				}
			}
		}
		if g, ok := x.X.(*ssa.Global); ok {
			return &c04T{Op: "load", Name: id.Type + "." + id.Field, Args: []*c04T{{Op: "global", Name: c04GlobalName(g)}}}
		}
		return &c04T{Op: "load", Name: id.Type + "." + id.Field, Args: []*c04T{tb.Term(fr, x.X)}}
	case *ssa.Alloc:
		if whole := tb.singleStore(fr, x); whole != nil {
			return whole
		}
		if st := tb.build(fr, x); st.Op == "struct" {
			return st // the value of a local composite literal
		}
		// a variable written several times and/or by closures that capture it: the store reaching this load
		if at != nil && c04LocalCellOnly(x) {
			return tb.MemAt(fr, x, -1, at.Block(), instrIndex(at))
		}
		return c04Unknown("local variable written several times")
	case *ssa.IndexAddr:
		return &c04T{Op: "index", Args: []*c04T{tb.Term(fr, x.X), tb.Term(fr, x.Index)}}
	case *ssa.FreeVar:
		// a captured variable seen from inside the closure
		if at != nil {
			if _, bound := fr.fvBind[x]; bound {
				return tb.MemAt(fr, x, -1, at.Block(), instrIndex(at))
			}
		}
		return &c04T{Op: "deref", Args: []*c04T{tb.Term(fr, x)}}
	}
	return &c04T{Op: "deref", Args: []*c04T{tb.Term(fr, a)}}
}

// singleStore: the Alloc is written exactly once as a whole (no field stores, address not escaping).
func (tb *c04TermBuilder) singleStore(fr *c04Frame2, al *ssa.Alloc) *c04T {
	var st *ssa.Store
	for _, ref := range c04RealRefs(al) {
		switch x := ref.(type) {
		case *ssa.Store:
			if x.Addr != ssa.Value(al) || st != nil {
				return nil
			}
			st = x
		case *ssa.FieldAddr:
			for _, fr2 := range c04RealRefs(x) {
				if u, ok := fr2.(*ssa.UnOp); !ok || u.Op != token.MUL {
					return nil
				}
			}
		case *ssa.UnOp:
		default:
			return nil
		}
	}
	if st == nil {
		return nil
	}
	return tb.Term(fr, st.Val)
}

// fieldStore: the value stored once into field i of a local composite literal.
func (tb *c04TermBuilder) fieldStore(fr *c04Frame2, al *ssa.Alloc, field int) *c04T {
	var val ssa.Value
	n := 0
	for _, ref := range c04RealRefs(al) {
		fa, ok := ref.(*ssa.FieldAddr)
		if !ok || fa.Field != field {
			continue
		}
		for _, r2 := range c04RealRefs(fa) {
			if s, ok := r2.(*ssa.Store); ok && s.Addr == ssa.Value(fa) {
				val = s.Val
				n++
			}
		}
	}
	if n != 1 {
		return nil
	}
	return tb.Term(fr, val)
}

func (tb *c04TermBuilder) call(fr *c04Frame2, c *ssa.Call) *c04T {
	var args []*c04T
	for _, a := range c.Call.Args {
		args = append(args, tb.Term(fr, a))
	}
	if b, ok := c.Call.Value.(*ssa.Builtin); ok {
		return &c04T{Op: "builtin:" + b.Name(), Args: args}
	}
	if c.Call.IsInvoke() {
		recv := tb.Term(fr, c.Call.Value)
		// a seam with a single implementation in the module is a static call in disguise
		if tgts := tb.Targets(c); len(tgts) == 1 {
			return tb.inlineCall(fr, c, tgts[0], append([]*c04T{recv}, args...))
		}
		return &c04T{Op: "invoke:" + c.Call.Method.Name(), Args: append([]*c04T{recv}, args...)}
	}
	callee := staticCallee(c)
	if callee == nil {
		// a call through a function value whose possible targets are visible in the package
		var tgts []*ssa.Function
		if fn, site, ok := tb.resolveFuncValue(fr, c.Call.Value, 0); ok {
			tgts = []*ssa.Function{fn}
			if site.mc != nil {
				tb.closureOf[c04FrameKey{fr, c, fn}] = site
			}
		} else {
			tgts = tb.Targets(c)
		}
		if len(tgts) == 0 {
			return c04Unknown("dynamic call")
		}
		var alts []*c04T
		for _, t := range tgts {
			alts = append(alts, tb.inlineCall(fr, c, t, args))
		}
		return c04Choice(alts)
	}
	return tb.inlineCall(fr, c, callee, args)
}

func (tb *c04TermBuilder) inlineCall(fr *c04Frame2, c *ssa.Call, callee *ssa.Function, args []*c04T) *c04T {
	if !c04Enterable(tb.p, callee) || len(callee.Blocks) == 0 || c04IsTimePkg(callee) {
		return c04ExtCallTerm(callee, args)
	}
	if tb.Opaque != nil && tb.Opaque(callee) {
		return &c04T{Op: "call", Name: FuncName(tb.p, callee), Args: args, Src: c}
	}
	if fr.depth >= tb.MaxDepth {
		return c04Unknown("inlining depth")
	}
	for f := fr; f != nil; f = f.parent {
		if f.fn == callee {
			return c04Unknown("recursive call")
		}
	}
	nf := tb.frameFor(fr, c, callee, args)
	nres := callee.Signature.Results().Len()
	var rets [][]*c04T
	var failing []bool // the row certainly carries a non-nil error
	errIdx := c04ErrResult(callee)
	for _, b := range callee.Blocks {
		if len(b.Instrs) == 0 {
			continue
		}
		ret, ok := b.Instrs[len(b.Instrs)-1].(*ssa.Return)
		if !ok {
			continue
		}
		var row []*c04T
		for _, rv := range ret.Results {
			row = append(row, tb.Term(nf, rv))
		}
		rets = append(rets, row)
		fail := false
		if errIdx >= 0 && errIdx < len(ret.Results) {
			ev := ret.Results[errIdx]
			if c, ok := ev.(*ssa.Call); ok && (callIs(c, "fmt", "", "Errorf") || callIs(c, "errors", "", "New")) {
				fail = true
			}
			if errKnownNonNil(b, ev) {
				fail = true
			}
		}
		failing = append(failing, fail)
	}
	if len(rets) == 0 {
		return c04Unknown("callee never returns")
	}
	if nres == 1 {
		var alts []*c04T
		for _, row := range rets {
			alts = append(alts, row[0])
		}
		return c04Choice(alts)
	}
	// Values returned next to a certainly non-nil error are placeholders: the caller
	// tests the error (the error-discipline rule checks that) and never uses them.
	anySuccess := false
	for _, f := range failing {
		if !f {
			anySuccess = true
		}
	}
	tup := &c04T{Op: "tuple"}
	for i := 0; i < nres; i++ {
		var alts []*c04T
		for j, row := range rets {
			if i != errIdx && anySuccess && failing[j] {
				continue
			}
			alts = append(alts, row[i])
		}
		tup.Args = append(tup.Args, c04Choice(alts))
	}
	return tup
}

// ---- pattern helpers shared by the rules ----

// c04CmpTerm decodes a boolean term into `X op Y` holding when the term has
// truth value `want`; negations are folded.
func c04CmpTerm(t *c04T, want bool) (op token.Token, x, y *c04T, ok bool) {
	for t.Op == "un:!" {
		t, want = t.Args[0], !want
	}
	if !strings.HasPrefix(t.Op, "bin:") || len(t.Args) != 2 {
		return 0, nil, nil, false
	}
	switch t.Op[4:] {
	case "==":
		op = token.EQL
	case "!=":
		op = token.NEQ
	case "<":
		op = token.LSS
	case "<=":
		op = token.LEQ
	case ">":
		op = token.GTR
	case ">=":
		op = token.GEQ
	default:
		return 0, nil, nil, false
	}
	if !want {
		op = negateOp(op)
	}
	return op, t.Args[0], t.Args[1], true
}

// c04BitAtom recognises `1<<acc(x) & load(spec.F)` (match) and `load(spec.F) & K` (mask).
type c04Atom struct {
	Kind     string // "match" | "mask"
	Field    string
	Accessor string
	Instant  *c04T // receiver of the accessor
	K        uint64
	Term     *c04T
}

func c04BitAtom(t *c04T, spec string) (c04Atom, bool) {
	if t.Op != "bin:&" || len(t.Args) != 2 {
		return c04Atom{}, false
	}
	for _, pr := range [][2]*c04T{{t.Args[0], t.Args[1]}, {t.Args[1], t.Args[0]}} {
		ld, other := pr[0], pr[1]
		if ld.Op != "load" || !strings.HasPrefix(ld.Name, spec+".") {
			continue
		}
		f := strings.TrimPrefix(ld.Name, spec+".")
		if other.Op == "const" && other.IsK {
			return c04Atom{Kind: "mask", Field: f, K: uint64(other.K), Term: t}, true
		}
		if other.Op == "bin:<<" && other.Args[0].Op == "const" && other.Args[0].IsK && other.Args[0].K == 1 {
			if sh := other.Args[1]; strings.HasPrefix(sh.Op, "tm:") && len(sh.Args) >= 1 {
				return c04Atom{Kind: "match", Field: f, Accessor: sh.Op[3:], Instant: sh.Args[0], Term: t}, true
			}
		}
	}
	return c04Atom{}, false
}

func c04IsTimePkg(f *ssa.Function) bool {
	obj, _ := f.Object().(*types.Func)
	return obj != nil && obj.Pkg() != nil && obj.Pkg().Path() == "time"
}

// c04ExtCallTerm: the term of a call of a function that is not inlined
// (standard library): time.Time / time.Duration methods and time.Date get
// their own operators.
func c04ExtCallTerm(callee *ssa.Function, args []*c04T) *c04T {
	obj, _ := callee.Object().(*types.Func)
	if obj != nil && obj.Pkg() != nil && obj.Pkg().Path() == "time" {
		sig := obj.Type().(*types.Signature)
		if sig.Recv() != nil {
			switch typeBaseName(sig.Recv().Type()) {
			case "Time":
				return &c04T{Op: "tm:" + obj.Name(), Args: args}
			case "Duration":
				// Nanoseconds() of a Duration is the Duration as an integer
				if obj.Name() == "Nanoseconds" && len(args) == 1 {
					return args[0]
				}
				return &c04T{Op: "dur:" + obj.Name(), Args: args}
			}
		} else if obj.Name() == "Date" {
			return &c04T{Op: "date", Args: args}
		}
	}
	name := callee.String()
	if obj != nil && obj.Pkg() != nil {
		name = obj.Pkg().Path() + "." + obj.Name()
	}
	return &c04T{Op: "ext:" + name, Args: args}
}

// frameFor returns the (cached) frame of callee entered from call c of frame fr.
func (tb *c04TermBuilder) frameFor(fr *c04Frame2, c ssa.CallInstruction, callee *ssa.Function, args []*c04T) *c04Frame2 {
	k := c04FrameKey{fr, c, callee}
	if nf, ok := tb.frames[k]; ok {
		return nf
	}
	// the argument terms are built before the frame exists: building them may itself look into
	// the callee (a captured variable the callee writes), and a half-made frame must not be seen
	if args == nil {
		for _, a := range c.Common().Args {
			args = append(args, tb.Term(fr, a))
		}
		if nf, ok := tb.frames[k]; ok {
			return nf
		}
	}
	nf := &c04Frame2{fn: callee, call: c, env: map[*ssa.Parameter]*c04T{}, fvEnv: map[*ssa.FreeVar]*c04T{}, parent: fr, depth: fr.depth + 1}
	for i, par := range callee.Params {
		if i < len(args) {
			nf.env[par] = args[i]
		}
	}
	nf.fvBind = map[*ssa.FreeVar]c04Bind{}
	mc, _ := c.Common().Value.(*ssa.MakeClosure)
	creator := fr
	if site, ok := tb.closureOf[k]; ok && mc == nil {
		mc, creator = site.mc, site.fr
	}
	if mc == nil && len(callee.FreeVars) > 0 {
		// the closure value reached the call through a variable/parameter: its creation is in an enclosing frame
		for f := fr; f != nil && mc == nil; f = f.parent {
			allInstrs(f.fn, func(in ssa.Instruction) {
				if m, ok := in.(*ssa.MakeClosure); ok && m.Fn == ssa.Value(callee) && mc == nil {
					mc, creator = m, f
				}
			})
		}
	}
	if mc != nil {
		for i, fv := range callee.FreeVars {
			if i < len(mc.Bindings) {
				nf.fvBind[fv] = c04Bind{creator, mc.Bindings[i]}
			}
		}
	}
	tb.frames[k] = nf
	for _, fv := range callee.FreeVars {
		if b, ok := nf.fvBind[fv]; ok {
			nf.fvEnv[fv] = tb.Term(b.fr, b.base)
		}
	}
	return nf
}

// inlinable: the same-package callees of c that Term would inline from frame fr
// (the static callee, or the visible targets of a call through a function value).
func (tb *c04TermBuilder) inlinable(fr *c04Frame2, c ssa.CallInstruction) []*ssa.Function {
	var cands []*ssa.Function
	if c.Common().IsInvoke() {
		cands = tb.Targets(c)
	} else if callee := staticCallee(c); callee != nil {
		cands = []*ssa.Function{callee}
	} else if fn, site, ok := tb.resolveFuncValue(fr, c.Common().Value, 0); ok {
		// the function value is known in this calling context (a parameter bound at the call that
		// entered this frame, the result of a factory, a literal)
		cands = []*ssa.Function{fn}
		if site.mc != nil {
			tb.closureOf[c04FrameKey{fr, c, fn}] = site
		}
	} else {
		cands = tb.Targets(c)
	}
	var out []*ssa.Function
	for _, callee := range cands {
		if callee == nil || !c04Enterable(tb.p, callee) || len(callee.Blocks) == 0 || c04IsTimePkg(callee) {
			continue
		}
		if tb.Opaque != nil && tb.Opaque(callee) {
			continue
		}
		if fr.depth >= tb.MaxDepth {
			continue
		}
		rec := false
		for f := fr; f != nil; f = f.parent {
			if f.fn == callee {
				rec = true
			}
		}
		if !rec {
			out = append(out, callee)
		}
	}
	return out
}

// VisitTree calls f for every instruction of fr.fn and, recursively, of every
// callee Term would inline, each with the frame that binds its parameters.
func (tb *c04TermBuilder) VisitTree(fr *c04Frame2, f func(fr *c04Frame2, in ssa.Instruction)) {
	for _, b := range fr.fn.Blocks {
		for _, in := range b.Instrs {
			f(fr, in)
			if c, ok := in.(ssa.CallInstruction); ok {
				for _, callee := range tb.inlinable(fr, c) {
					tb.VisitTree(tb.frameFor(fr, c, callee, nil), f)
				}
			}
		}
	}
}

// SubFrames: the frame of call c (made in frame fr) and all frames below it.
func (tb *c04TermBuilder) VisitCall(fr *c04Frame2, c ssa.CallInstruction, f func(fr *c04Frame2, in ssa.Instruction)) bool {
	callees := tb.inlinable(fr, c)
	for _, callee := range callees {
		tb.VisitTree(tb.frameFor(fr, c, callee, nil), f)
	}
	return len(callees) > 0
}

// Targets: the functions a call through a function value (or through an
// interface with a single implementation in the package) can reach, found by
// following the value to the places it is set: function literals and method
// values, local variables, elements of literal slices/arrays/maps (local or
// package-level), func-typed struct fields assigned in the package, parameters
// bound at the static call sites.
func (tb *c04TermBuilder) Targets(c ssa.CallInstruction) []*ssa.Function {
	seen := map[ssa.Value]bool{}
	set := map[*ssa.Function]bool{}
	var order []*ssa.Function
	add := func(f *ssa.Function) {
		f = origin(f)
		if f != nil && !set[f] {
			set[f] = true
			order = append(order, f)
		}
	}
	unknown := false
	var trace func(v ssa.Value, depth int)
	var fromAddr func(a ssa.Value, depth int)
	storesInto := func(match func(addr ssa.Value) bool, fns []*ssa.Function, depth int) {
		for _, f := range fns {
			allInstrs(f, func(in ssa.Instruction) {
				switch x := in.(type) {
				case *ssa.Store:
					if match(x.Addr) {
						trace(x.Val, depth+1)
					}
				case *ssa.MapUpdate:
					if match(x.Map) {
						trace(x.Value, depth+1)
					}
				}
			})
		}
	}
	globalOf := func(v ssa.Value) *ssa.Global {
		for i := 0; i < 6; i++ {
			switch x := v.(type) {
			case *ssa.Global:
				return x
			case *ssa.UnOp:
				v = x.X
			case *ssa.IndexAddr:
				v = x.X
			case *ssa.FieldAddr:
				v = x.X
			case *ssa.Slice:
				v = x.X
			default:
				return nil
			}
		}
		return nil
	}
	fromAddr = func(a ssa.Value, depth int) {
		switch x := a.(type) {
		case *ssa.Alloc:
			for _, ref := range c04RealRefs(x) {
				if st, ok := ref.(*ssa.Store); ok && st.Addr == ssa.Value(x) {
					trace(st.Val, depth+1)
				}
			}
		case *ssa.IndexAddr:
			// an element of a slice/array: every element ever stored into its backing array
			base := x.X
			if sl, ok := base.(*ssa.Slice); ok {
				base = sl.X
			}
			if ph, ok := base.(*ssa.Phi); ok {
				for _, e := range ph.Edges {
					if sl, ok := e.(*ssa.Slice); ok {
						fromAddr(&ssa.IndexAddr{X: sl.X}, depth+1)
					}
				}
				return
			}
			if arr, ok := base.(*ssa.Alloc); ok {
				for _, ref := range c04RealRefs(arr) {
					if ia, ok := ref.(*ssa.IndexAddr); ok {
						for _, r2 := range c04RealRefs(ia) {
							if st, ok := r2.(*ssa.Store); ok && st.Addr == ssa.Value(ia) {
								trace(st.Val, depth+1)
							}
						}
					}
				}
				return
			}
			if g := globalOf(base); g != nil && g.Pkg != nil {
				storesInto(func(addr ssa.Value) bool { return globalOf(addr) == g }, tb.p.FuncsOfPkg(tb.p.RelPath(g.Pkg.Pkg.Path())), depth)
				// a package-level slice initialised from a literal: the literal's backing array is a separate global/alloc in init
				if init := g.Pkg.Func("init"); init != nil {
					allInstrs(init, func(in ssa.Instruction) {
						if st, ok := in.(*ssa.Store); ok && st.Addr == ssa.Value(g) {
							if sl, ok := st.Val.(*ssa.Slice); ok {
								fromAddr(&ssa.IndexAddr{X: sl.X}, depth+1)
							}
						}
					})
				}
				return
			}
			unknown = true
		case *ssa.FieldAddr:
			id := fieldIDOfAddr(x)
			storesInto(func(addr ssa.Value) bool {
				fa, ok := addr.(*ssa.FieldAddr)
				return ok && fieldIDOfAddr(fa) == id
			}, tb.p.Funcs, depth)
		case *ssa.Global:
			if x.Pkg != nil {
				storesInto(func(addr ssa.Value) bool { return addr == ssa.Value(x) }, tb.p.FuncsOfPkg(tb.p.RelPath(x.Pkg.Pkg.Path())), depth)
			}
		case *ssa.FreeVar:
			if b := resolveFreeVar(x); b != nil {
				fromAddr(b, depth+1)
			} else {
				unknown = true
			}
		default:
			unknown = true
		}
	}
	trace = func(v ssa.Value, depth int) {
		if v == nil || seen[v] || depth > 8 {
			return
		}
		seen[v] = true
		switch x := v.(type) {
		case *ssa.Function:
			add(x)
		case *ssa.MakeClosure:
			add(x.Fn.(*ssa.Function))
		case *ssa.Phi:
			for _, e := range x.Edges {
				trace(e, depth+1)
			}
		case *ssa.ChangeType:
			trace(x.X, depth+1)
		case *ssa.MakeInterface:
			trace(x.X, depth+1)
		case *ssa.Extract:
			trace(x.Tuple, depth+1)
		case *ssa.Lookup:
			if g := globalOf(x.X); g != nil && g.Pkg != nil {
				// a package-level map: values stored by the initialiser
				var mapVals []ssa.Value
				if init := g.Pkg.Func("init"); init != nil {
					var mk ssa.Value
					allInstrs(init, func(in ssa.Instruction) {
						if st, ok := in.(*ssa.Store); ok && st.Addr == ssa.Value(g) {
							mk = st.Val
						}
					})
					allInstrs(init, func(in ssa.Instruction) {
						if mu, ok := in.(*ssa.MapUpdate); ok && mu.Map == mk {
							mapVals = append(mapVals, mu.Value)
						}
					})
				}
				for _, mv := range mapVals {
					trace(mv, depth+1)
				}
				if len(mapVals) == 0 {
					unknown = true
				}
			} else {
				unknown = true
			}
		case *ssa.Index:
			if ld, ok := x.X.(*ssa.UnOp); ok && ld.Op == token.MUL {
				fromAddr(&ssa.IndexAddr{X: ld.X}, depth+1)
			} else {
				unknown = true
			}
		case *ssa.UnOp:
			if x.Op == token.MUL {
				fromAddr(x.X, depth+1)
			} else {
				unknown = true
			}
		case *ssa.Parameter:
			fn := x.Parent()
			idx := c04ParamIndex(fn, x)
			n := 0
			for _, f := range tb.p.Funcs {
				allInstrs(f, func(in ssa.Instruction) {
					if cc, ok := in.(ssa.CallInstruction); ok && staticCallee(cc) == origin(fn) && idx < len(cc.Common().Args) {
						n++
						trace(cc.Common().Args[idx], depth+1)
					}
				})
			}
			if n == 0 {
				unknown = true
			}
		case *ssa.Const:
			// nil function value: no target
		default:
			unknown = true
		}
	}
	cc := c.Common()
	if cc.IsInvoke() {
		// an interface method with exactly one implementation among the module's named types
		iface, _ := cc.Value.Type().Underlying().(*types.Interface)
		if iface == nil {
			return nil
		}
		var impls []*ssa.Function
		for _, pkg := range tb.p.Pkgs {
			if !strings.HasPrefix(pkg.PkgPath, tb.p.ModPath) {
				continue
			}
			scope := pkg.Types.Scope()
			for _, n := range scope.Names() {
				tn, ok := scope.Lookup(n).(*types.TypeName)
				if !ok {
					continue
				}
				for _, t := range []types.Type{tn.Type(), types.NewPointer(tn.Type())} {
					if _, isIface := tn.Type().Underlying().(*types.Interface); isIface {
						continue
					}
					if types.Implements(t, iface) {
						if sel := tb.p.SSA.MethodSets.MethodSet(t).Lookup(cc.Method.Pkg(), cc.Method.Name()); sel != nil {
							if f := tb.p.SSA.MethodValue(sel); f != nil {
								impls = append(impls, origin(f))
							}
						}
						break
					}
				}
			}
		}
		uniq := map[*ssa.Function]bool{}
		var out []*ssa.Function
		for _, f := range impls {
			if !uniq[f] {
				uniq[f] = true
				out = append(out, f)
			}
		}
		if len(out) == 1 {
			return out
		}
		return nil
	}
	trace(cc.Value, 0)
	if unknown {
		return nil
	}
	return order
}

// c04MaskAtoms recognises `X & K` where X is a SpecSchedule field or an OR of
// such fields (`(s.Dom|s.Dow)&starBit`): one mask atom per field.
func c04MaskAtoms(t *c04T, spec string) []c04Atom {
	if t.Op != "bin:&" || len(t.Args) != 2 {
		return nil
	}
	for _, pr := range [][2]*c04T{{t.Args[0], t.Args[1]}, {t.Args[1], t.Args[0]}} {
		x, k := pr[0], pr[1]
		if !(k.Op == "const" && k.IsK) {
			continue
		}
		var fields []string
		ok := true
		var walk func(n *c04T)
		walk = func(n *c04T) {
			switch {
			case n.Op == "load" && strings.HasPrefix(n.Name, spec+"."):
				fields = append(fields, strings.TrimPrefix(n.Name, spec+"."))
			case n.Op == "bin:|" && len(n.Args) == 2:
				walk(n.Args[0])
				walk(n.Args[1])
			default:
				ok = false
			}
		}
		walk(x)
		if !ok || len(fields) == 0 {
			continue
		}
		var out []c04Atom
		for _, f := range fields {
			out = append(out, c04Atom{Kind: "mask", Field: f, K: uint64(k.K), Term: t})
		}
		return out
	}
	return nil
}

// c04LoadOf: the (single) load instruction reading through address fa, if the address is only loaded once.
func c04LoadOf(fa *ssa.FieldAddr) ssa.Instruction {
	var ld ssa.Instruction
	for _, ref := range c04RealRefs(fa) {
		if u, ok := ref.(*ssa.UnOp); ok && u.Op == token.MUL {
			if ld != nil {
				return nil
			}
			ld = u
		} else {
			return nil
		}
	}
	return ld
}

// c04LocalStructOnly: the local struct is only read and written through its
// fields or as a whole value; its address does not escape.
func c04LocalStructOnly(al *ssa.Alloc) bool {
	if _, ok := deref1(al.Type()).Underlying().(*types.Struct); !ok {
		return false
	}
	for _, ref := range c04RealRefs(al) {
		switch x := ref.(type) {
		case *ssa.FieldAddr:
			for _, r2 := range c04RealRefs(x) {
				switch y := r2.(type) {
				case *ssa.Store:
					if y.Addr != ssa.Value(x) {
						return false
					}
				case *ssa.UnOp:
				default:
					return false
				}
			}
		case *ssa.Store:
			if x.Addr != ssa.Value(al) {
				return false
			}
		case *ssa.UnOp:
		default:
			return false
		}
	}
	return true
}

// c04LocalCellOnly: the local variable is only stored, loaded, or captured by closures (its address does not escape otherwise).
func c04LocalCellOnly(al *ssa.Alloc) bool {
	for _, ref := range c04RealRefs(al) {
		switch x := ref.(type) {
		case *ssa.Store:
			if x.Addr != ssa.Value(al) {
				return false
			}
		case *ssa.UnOp, *ssa.MakeClosure:
		default:
			return false
		}
	}
	return true
}

// MemAt: the term of variable `base` (field >= 0: that field of a struct
// variable; -1: the variable itself) just before instruction #idx of block b
// (idx = len(b.Instrs) for the end of the block): the last store in the block —
// a direct one, or the effect of a call of a closure that captures the
// variable — else the merge of what reaches the block's predecessors.
func (tb *c04TermBuilder) MemAt(fr *c04Frame2, base ssa.Value, field int, b *ssa.BasicBlock, idx int) *c04T {
	t := tb.memAt(fr, base, field, b, idx)
	if t.Op == "cycle" {
		// an instant that a loop carries round in memory: the variable of the walk (see Term)
		if c04CellIsTime(base, field) {
			return &c04T{Op: "muvar", Name: "mem:" + base.Name()}
		}
		return c04Unknown("loop-carried value")
	}
	return t
}

// c04CellIsTime: the variable (field >= 0: that field of the struct variable) holds a time.Time.
func c04CellIsTime(base ssa.Value, field int) bool {
	pt, ok := base.Type().Underlying().(*types.Pointer)
	if !ok {
		return false
	}
	t := pt.Elem()
	if field >= 0 {
		st, ok := t.Underlying().(*types.Struct)
		if !ok || field >= st.NumFields() {
			return false
		}
		t = st.Field(field).Type()
	}
	return c04IsTimeType(t)
}

// memAt is MemAt; a path that only leads back to the point being computed
// contributes no value of its own and is reported as a "cycle" node, which
// merges drop (the possible contents are the least fixpoint of the stores).
func (tb *c04TermBuilder) memAt(fr *c04Frame2, base ssa.Value, field int, b *ssa.BasicBlock, idx int) *c04T {
	if idx > len(b.Instrs) {
		idx = len(b.Instrs)
	}
	for k := idx - 1; k >= 0; k-- {
		switch st := b.Instrs[k].(type) {
		case *ssa.Store:
			if field >= 0 {
				if fa, ok := st.Addr.(*ssa.FieldAddr); ok && fa.X == base && fa.Field == field {
					return tb.Term(fr, st.Val)
				}
				if st.Addr == base {
					whole := tb.Term(fr, st.Val)
					if whole.Op == "struct" && field < len(whole.Args) {
						return whole.Args[field]
					}
					if whole.Op == "const" && strings.HasPrefix(whole.Name, "zero:") {
						return &c04T{Op: "const", Name: "zero:field"}
					}
					return c04Unknown("field of a stored struct value")
				}
			} else if st.Addr == base {
				return tb.Term(fr, st.Val)
			}
		case *ssa.Call:
			if eff := tb.callEffect(fr, st, base, field); eff != nil {
				return eff
			}
		}
	}
	key := c04MemKey{base, field, b}
	if fr.parent == nil {
		if l, ok := tb.MemLeaves[key]; ok {
			return l
		}
	}
	if b.Index == 0 || len(b.Preds) == 0 {
		// function entry: a captured variable has the value it had where the closure was called
		if fv, ok := base.(*ssa.FreeVar); ok {
			if bd, bound := fr.fvBind[fv]; bound {
				site := fr
				for site != nil && site.parent != bd.fr {
					site = site.parent
				}
				if site != nil && site.call != nil && fr.parent != nil && fr.call != nil {
					// (through the frames in between: each of them may have run other writers before this call)
					return tb.cellAt(fr.parent, tb.cellOwner(fr, fv), field, fr.call.Block(), instrIndex(fr.call))
				}
				// the closure was made by a function that has returned (a factory): the variable holds
				// what that function left in it
				var alts []*c04T
				for _, rb := range bd.fr.fn.Blocks {
					if n := len(rb.Instrs); n > 0 {
						if _, ok := rb.Instrs[n-1].(*ssa.Return); ok {
							alts = append(alts, tb.MemAt(bd.fr, bd.base, field, rb, n))
						}
					}
				}
				if len(alts) > 0 {
					return c04Choice(alts)
				}
			}
			return c04Unknown("captured variable")
		}
		return &c04T{Op: "const", Name: "zero:field"}
	}
	busy := tb.memBusyF[fr]
	if busy == nil {
		busy = map[c04MemKey]bool{}
		tb.memBusyF[fr] = busy
	}
	if busy[key] {
		return &c04T{Op: "cycle"}
	}
	busy[key] = true
	var alts []*c04T
	for _, pb := range b.Preds {
		if a := tb.memAt(fr, base, field, pb, len(pb.Instrs)); a.Op != "cycle" {
			alts = append(alts, a)
		}
	}
	busy[key] = false
	if len(alts) == 0 {
		return &c04T{Op: "cycle"}
	}
	return c04Choice(alts)
}

// callEffect: if call c (in frame fr) enters a module closure that captures
// variable `base`, the content of the variable after the call: the merge, over
// the closure's returns, of what the variable holds there. nil: no callee of c
// sees the variable.
func (tb *c04TermBuilder) callEffect(fr *c04Frame2, c *ssa.Call, base ssa.Value, field int) *c04T {
	return tb.callEffectCell(fr, c, tb.cellOwner(fr, base), field)
}

// c04CellRef names a variable by the frame that declares it.
type c04CellRef struct {
	fr   *c04Frame2
	base ssa.Value
}

// cellOwner: the declaring frame and local variable a (captured) variable of frame fr stands for.
func (tb *c04TermBuilder) cellOwner(fr *c04Frame2, base ssa.Value) c04CellRef {
	for i := 0; i < 8 && fr != nil; i++ {
		fv, ok := base.(*ssa.FreeVar)
		if !ok {
			break
		}
		bd, bound := fr.fvBind[fv]
		if !bound {
			break
		}
		fr, base = bd.fr, bd.base
	}
	return c04CellRef{fr, base}
}

// viewOf: the value under which frame fr sees the variable (the variable itself in its declaring
// frame, a captured-variable view in a closure), nil if fr has no name for it.
func (tb *c04TermBuilder) viewOf(fr *c04Frame2, cell c04CellRef) ssa.Value {
	if fr == cell.fr {
		return cell.base
	}
	for _, fv := range fr.fn.FreeVars {
		if _, ok := fr.fvBind[fv]; ok && tb.cellOwner(fr, fv) == cell {
			return fv
		}
	}
	return nil
}

// callEffectCell: the content of the variable after call c of frame fr, if a callee can change
// it: a callee that sees the variable, or one that is handed (or holds) function values — a writer
// may be among them and is then followed where it is called. nil: the call cannot change it.
func (tb *c04TermBuilder) callEffectCell(fr *c04Frame2, c *ssa.Call, cell c04CellRef, field int) *c04T {
	// which closures write the variable at all is a fact of the program text: a variable that no
	// closure writes is not changed by any call
	writers, escapes := c04CellWriters(cell.base)
	if escapes {
		return c04Unknown("variable whose address is kept by a closure")
	}
	if len(writers) == 0 {
		return nil
	}
	var alts []*c04T
	callees := tb.inlinable(fr, c)
	for _, callee := range callees {
		nf := tb.frameFor(fr, c, callee, nil)
		if tb.viewOf(nf, cell) == nil && !c04CallCarriesFuncs(c, []*ssa.Function{callee}) {
			continue // no name for the variable and no function value that could be a writer
		}
		for _, rb := range callee.Blocks {
			if n := len(rb.Instrs); n > 0 {
				if _, ok := rb.Instrs[n-1].(*ssa.Return); ok {
					t := tb.cellAt(nf, cell, field, rb, n)
					if t.Op == "cycle" {
						if c04CellIsTime(cell.base, field) {
							t = &c04T{Op: "muvar", Name: "mem:" + cell.base.Name()}
						} else {
							t = c04Unknown("loop-carried value")
						}
					}
					alts = append(alts, t)
				}
			}
		}
	}
	if len(callees) == 0 && c04CallCarriesFuncs(c, nil) {
		// the function called is not known, or not followed, and is handed function values
		return c04Unknown("variable a closure handed to this call may write")
	}
	if len(alts) == 0 {
		return nil
	}
	return c04Choice(alts)
}

// cellAt: the content of the variable just before instruction #idx of block b of frame fr, which
// may have no name for it: then only calls can change it, and at the frame's entry it holds what
// it held before the call that entered the frame.
func (tb *c04TermBuilder) cellAt(fr *c04Frame2, cell c04CellRef, field int, b *ssa.BasicBlock, idx int) *c04T {
	if v := tb.viewOf(fr, cell); v != nil {
		return tb.memAt(fr, v, field, b, idx)
	}
	if idx > len(b.Instrs) {
		idx = len(b.Instrs)
	}
	for k := idx - 1; k >= 0; k-- {
		if call, ok := b.Instrs[k].(*ssa.Call); ok {
			if eff := tb.callEffectCell(fr, call, cell, field); eff != nil {
				return eff
			}
		}
	}
	if b.Index == 0 || len(b.Preds) == 0 {
		if fr.parent == nil || fr.call == nil {
			return c04Unknown("captured variable")
		}
		return tb.cellAt(fr.parent, cell, field, fr.call.Block(), instrIndex(fr.call))
	}
	key := c04MemKey{cell.base, field, b}
	busy := tb.memBusyF[fr]
	if busy == nil {
		busy = map[c04MemKey]bool{}
		tb.memBusyF[fr] = busy
	}
	if busy[key] {
		return &c04T{Op: "cycle"}
	}
	busy[key] = true
	var alts []*c04T
	for _, pb := range b.Preds {
		if a := tb.cellAt(fr, cell, field, pb, len(pb.Instrs)); a.Op != "cycle" {
			alts = append(alts, a)
		}
	}
	busy[key] = false
	if len(alts) == 0 {
		return &c04T{Op: "cycle"}
	}
	return c04Choice(alts)
}

// cellRoot: the local variable a captured variable of frame fr stands for.
func (tb *c04TermBuilder) cellRoot(fr *c04Frame2, base ssa.Value) ssa.Value {
	for i := 0; i < 8 && fr != nil; i++ {
		fv, ok := base.(*ssa.FreeVar)
		if !ok {
			break
		}
		bd, bound := fr.fvBind[fv]
		if !bound {
			break
		}
		fr, base = bd.fr, bd.base
	}
	return base
}

// c04CellWriters: the closures (however deeply nested) that store to a view of
// the variable; escapes: one of them uses its view other than to load, store or
// capture it again.
func c04CellWriters(cell ssa.Value) (map[*ssa.Function]bool, bool) {
	writers := map[*ssa.Function]bool{}
	escapes := false
	var walk func(v ssa.Value, depth int)
	walk = func(v ssa.Value, depth int) {
		if depth > 6 {
			escapes = true
			return
		}
		for _, ref := range c04RealRefs(v) {
			mc, ok := ref.(*ssa.MakeClosure)
			if !ok {
				continue
			}
			fn, _ := mc.Fn.(*ssa.Function)
			if fn == nil {
				escapes = true
				continue
			}
			for i, bnd := range mc.Bindings {
				if bnd != v || i >= len(fn.FreeVars) {
					continue
				}
				fv := fn.FreeVars[i]
				for _, r2 := range c04RealRefs(fv) {
					switch y := r2.(type) {
					case *ssa.Store:
						if y.Addr == ssa.Value(fv) {
							writers[fn] = true
						} else {
							escapes = true
						}
					case *ssa.UnOp, *ssa.MakeClosure:
					case *ssa.FieldAddr:
						// a field of a captured struct variable: stores through it are writes
						for _, r3 := range c04RealRefs(y) {
							switch z := r3.(type) {
							case *ssa.Store:
								if z.Addr == ssa.Value(y) {
									writers[fn] = true
								} else {
									escapes = true
								}
							case *ssa.UnOp:
							default:
								escapes = true
							}
						}
					default:
						escapes = true
					}
				}
				walk(fv, depth+1)
			}
		}
	}
	walk(cell, 0)
	return writers, escapes
}

// c04CallCarriesFuncs: call c hands function values to what it calls, or what it calls is not known.
func c04CallCarriesFuncs(c *ssa.Call, callees []*ssa.Function) bool {
	isFn := func(t types.Type) bool {
		if p, ok := t.Underlying().(*types.Pointer); ok {
			t = p.Elem()
		}
		switch t.Underlying().(type) {
		case *types.Signature, *types.Interface:
			return true
		}
		return false
	}
	if c.Common().IsInvoke() {
		return true
	}
	if staticCallee(c) == nil && len(callees) == 0 {
		return true
	}
	for _, a := range c.Common().Args {
		if isFn(a.Type()) {
			return true
		}
	}
	if mc, ok := c.Common().Value.(*ssa.MakeClosure); ok {
		for _, b := range mc.Bindings {
			if isFn(b.Type()) {
				return true
			}
		}
	}
	for _, callee := range callees {
		for _, fv := range callee.FreeVars {
			if isFn(fv.Type()) {
				return true
			}
		}
	}
	return false
}

// c04Enterable: fn's body belongs to the analysed module — a declared function
// or closure, or a synthetic wrapper (bound method value, thunk) of a module method.
func c04Enterable(p *Prog, fn *ssa.Function) bool {
	if fn == nil {
		return false
	}
	if p.InModule(fn) {
		return true
	}
	if fn.Synthetic == "" || len(fn.Blocks) == 0 {
		return false
	}
	obj := fn.Object()
	return obj != nil && obj.Pkg() != nil && strings.HasPrefix(obj.Pkg().Path(), p.ModPath)
}

func c04InMod(p *Prog) func(*ssa.Function) bool {
	return func(f *ssa.Function) bool { return c04Enterable(p, f) }
}

// c04FieldAddrEscapes: the address of field i of local al is used other than for direct loads and stores.
func c04FieldAddrEscapes(al *ssa.Alloc, i int) bool {
	for _, ref := range c04RealRefs(al) {
		if fa, ok := ref.(*ssa.FieldAddr); ok && fa.Field == i {
			for _, r2 := range c04RealRefs(fa) {
				switch y := r2.(type) {
				case *ssa.UnOp:
				case *ssa.Store:
					if y.Addr != ssa.Value(fa) {
						return true
					}
				default:
					return true
				}
			}
		}
	}
	return false
}

// resolveFuncValue: the one function a function value denotes in the calling
// context of frame fr: a function, a closure literal, a parameter (looked up at
// the call that entered the frame), the result of a module function that
// returns a closure (a factory such as truncateTo(d)).
func (tb *c04TermBuilder) resolveFuncValue(fr *c04Frame2, v ssa.Value, depth int) (*ssa.Function, c04ClosureSite, bool) {
	if depth > 6 || fr == nil {
		return nil, c04ClosureSite{}, false
	}
	switch x := v.(type) {
	case *ssa.Function:
		return origin(x), c04ClosureSite{}, true
	case *ssa.MakeClosure:
		return origin(x.Fn.(*ssa.Function)), c04ClosureSite{fr, x}, true
	case *ssa.ChangeType:
		return tb.resolveFuncValue(fr, x.X, depth+1)
	case *ssa.Parameter:
		if fr.parent == nil || fr.call == nil {
			return nil, c04ClosureSite{}, false
		}
		idx := c04ParamIndex(fr.fn, x)
		args := fr.call.Common().Args
		if idx < 0 || idx >= len(args) {
			return nil, c04ClosureSite{}, false
		}
		return tb.resolveFuncValue(fr.parent, args[idx], depth+1)
	case *ssa.Call:
		callee := staticCallee(x)
		if callee == nil || !c04Enterable(tb.p, callee) || len(callee.Blocks) == 0 || callee.Signature.Results().Len() != 1 {
			return nil, c04ClosureSite{}, false
		}
		nf := tb.frameFor(fr, x, callee, nil)
		var fn *ssa.Function
		var site c04ClosureSite
		n := 0
		for _, b := range callee.Blocks {
			if k := len(b.Instrs); k > 0 {
				if ret, ok := b.Instrs[k-1].(*ssa.Return); ok {
					f, s2, ok := tb.resolveFuncValue(nf, ret.Results[0], depth+1)
					if !ok {
						return nil, c04ClosureSite{}, false
					}
					if n > 0 && f != fn {
						return nil, c04ClosureSite{}, false
					}
					fn, site = f, s2
					n++
				}
			}
		}
		if n == 0 {
			return nil, c04ClosureSite{}, false
		}
		return fn, site, true
	}
	return nil, c04ClosureSite{}, false
}
