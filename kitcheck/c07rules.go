package main

import (
	"fmt"
	"go/token"
	"go/types"
	"sort"
	"strings"

	"golang.org/x/tools/go/ssa"
)

// ---------------------------------------------------------------------------
// N1 explicit exits

// c07Misuse: functions whose explicit panics are the documented programmer
// misuse the property excludes, with the number of panic sites confirmed.
var c07Misuse = map[string]int{
	"cron.NewParser":            1, // two optional fields
	"ttlcache.Cache.Set":        1, // ttl <= 0
	"errors.ErrorBuilder.Build": 1, // no ErrorInfo
}

func c07ExitCall(ci ssa.CallInstruction) string {
	obj := calleeObj(ci)
	if obj == nil || obj.Pkg() == nil {
		return ""
	}
	pk, nm := obj.Pkg().Path(), obj.Name()
	switch {
	case pk == "os" && nm == "Exit":
		return "os.Exit"
	case pk == "runtime" && nm == "Goexit":
		return "runtime.Goexit"
	case pk == "log" && (strings.HasPrefix(nm, "Fatal") || strings.HasPrefix(nm, "Panic")):
		return "log." + nm
	case strings.HasSuffix(pk, "/logger") && (strings.HasPrefix(nm, "Fatal") || strings.HasPrefix(nm, "Panic")):
		return "logger." + nm
	case pk == "syscall" && nm == "Exit":
		return "syscall.Exit"
	}
	return ""
}

func (st *c07State) checkN1(scopes ...*c07Scope) {
	p, r := st.p, st.r
	seenFn := map[*ssa.Function]bool{}
	perFn := map[string]int{}
	var fns []*ssa.Function
	for _, sc := range scopes {
		for _, fn := range sc.List {
			if !seenFn[fn] {
				seenFn[fn] = true
				fns = append(fns, fn)
			}
		}
	}
	// the documented Seal misuse panics: role = Seal method of a cipher.AEAD
	// implementation of crypto/aescbcaead (wrong-size nonce; cipher/padding
	// set-up errors that cannot occur after the constructor's key check)
	allowedFn := map[*ssa.Function]int{}
	if !st.fixture {
		for _, f := range c07AEADMethods(p)["Seal"] {
			allowedFn[f] = 3
		}
	}
	for _, fn := range fns {
		name := FuncName(p, fn)
		allInstrs(fn, func(in ssa.Instruction) {
			what := ""
			switch x := in.(type) {
			case *ssa.Panic:
				if !x.Pos().IsValid() {
					return // synthetic (blocking select matched no case)
				}
				what = "panic"
			case ssa.CallInstruction:
				what = c07ExitCall(x)
			}
			if what == "" {
				return
			}
			perFn[name]++
			k := perFn[name]
			construct := fmt.Sprintf("%s %s #%d", name, what, k)
			allowed := c07Misuse[name] + allowedFn[fn]
			if what == "panic" && k <= allowed {
				r.OK(c07N1, construct, p.Pos(instrPos(in)), "documented programmer-misuse panic")
				return
			}
			r.Violation(c07N1, construct, p.Pos(instrPos(in)),
				fmt.Sprintf("%s reachable from a C07 entry point terminates the caller instead of returning an error; it is not one of the documented misuse panics (%s allows %d)", what, name, allowed),
				"scope: "+st.why(fn, scopes...))
		})
	}
	// a documented misuse panic that disappeared is fine for the property (note only)
	want := map[string]int{}
	for name, n := range c07Misuse {
		want[name] = n
	}
	for f, n := range allowedFn {
		want[FuncName(p, f)] += n
	}
	for name, n := range want {
		if perFn[name] < n {
			r.Note("C07.N1: %s now has %d explicit panic sites (documented: %d) — harmless for the property", name, perFn[name], n)
			for k := perFn[name] + 1; k <= n; k++ {
				r.Trivial(c07N1, fmt.Sprintf("%s panic #%d", name, k), "-", "documented misuse panic no longer present")
			}
		}
	}
}

func (st *c07State) why(fn *ssa.Function, scopes ...*c07Scope) string {
	for _, sc := range scopes {
		if w, ok := sc.Why[fn]; ok {
			return FuncName(st.p, fn) + " <- " + w
		}
	}
	return FuncName(st.p, fn)
}

// ---------------------------------------------------------------------------
// N2 unchecked type assertions

// c07DocTypes: third-party / std-lib parsers returning `any` whose documented
// dynamic result types are a closed set ("pkgpath.Name", ptr).
type c07DocType struct {
	Pkg, Name string
	Ptr       bool
}

var c07DocTypes = map[string][]c07DocType{
	"crypto/x509.ParsePKCS8PrivateKey": {{"crypto/rsa", "PrivateKey", true}, {"crypto/ecdsa", "PrivateKey", true}, {"crypto/ed25519", "PrivateKey", false}, {"crypto/ecdh", "PrivateKey", true}},
	"crypto/x509.ParsePKIXPublicKey":   {{"crypto/rsa", "PublicKey", true}, {"crypto/dsa", "PublicKey", true}, {"crypto/ecdsa", "PublicKey", true}, {"crypto/ed25519", "PublicKey", false}, {"crypto/ecdh", "PublicKey", true}},
}

func (st *c07State) lookupType(dt c07DocType) types.Type {
	pkg := st.p.All[dt.Pkg]
	if pkg == nil || pkg.Types == nil {
		return nil
	}
	tn, ok := pkg.Types.Scope().Lookup(dt.Name).(*types.TypeName)
	if !ok {
		return nil
	}
	if dt.Ptr {
		return types.NewPointer(tn.Type())
	}
	return tn.Type()
}

// c07HookParams: fn has the shape of a mapstructure decode hook,
// func(reflect.Type, reflect.Type, any) (any, error) — as a function, a closure
// or a method (the receiver is not counted). Returns from, to, data.
func c07HookParams(fn *ssa.Function) (from, to, data *ssa.Parameter, ok bool) {
	ps := fn.Params
	if fn.Signature.Recv() != nil && len(ps) > 0 {
		ps = ps[1:]
	}
	if len(ps) != 3 || fn.Signature.Results().Len() != 2 {
		return nil, nil, nil, false
	}
	isRT := func(t types.Type) bool { return namedKey(t) == "reflect.Type" }
	_, isIface := ps[2].Type().Underlying().(*types.Interface)
	if !isRT(ps[0].Type()) || !isRT(ps[1].Type()) || !isIface {
		return nil, nil, nil, false
	}
	return ps[0], ps[1], ps[2], true
}

func c07IsHookFunc(fn *ssa.Function) bool {
	_, _, _, ok := c07HookParams(fn)
	return ok
}

// c07ReflectTypeOf resolves a value of type reflect.Type to the Go type it
// denotes, when that is visible: reflect.TypeOf(x), .Elem(), loads of locals /
// captured variables / package-level variables stored exactly once.
func (st *c07State) reflectTypeOf(v ssa.Value, depth int) types.Type {
	if depth > 8 || v == nil {
		return nil
	}
	switch x := v.(type) {
	case *ssa.Call:
		if callIs(x, "reflect", "", "TypeOf") && len(x.Call.Args) == 1 {
			if mi, ok := x.Call.Args[0].(*ssa.MakeInterface); ok {
				return mi.X.Type()
			}
			return nil
		}
		if x.Call.IsInvoke() && x.Call.Method.Name() == "Elem" && namedKey(x.Call.Value.Type()) == "reflect.Type" {
			if t := st.reflectTypeOf(x.Call.Value, depth+1); t != nil {
				if pt, ok := t.Underlying().(*types.Pointer); ok {
					return pt.Elem()
				}
			}
		}
		return nil
	case *ssa.UnOp:
		if x.Op != token.MUL {
			return nil
		}
		switch a := x.X.(type) {
		case *ssa.Global:
			if val := st.singleStoreGlobal(a); val != nil {
				return st.reflectTypeOf(val, depth+1)
			}
		case *ssa.Alloc:
			if val := c07SingleStore(a); val != nil {
				return st.reflectTypeOf(val, depth+1)
			}
		case *ssa.FreeVar:
			if b := resolveFreeVar(a); b != nil {
				if al, ok := b.(*ssa.Alloc); ok {
					if val := c07SingleStore(al); val != nil {
						return st.reflectTypeOf(val, depth+1)
					}
				}
			}
		case *ssa.FieldAddr:
			// a reflect.Type kept in an unexported field: every store to that
			// field (module-wide) must denote the same type
			return st.fieldReflectType(fieldIDOfAddr(a), depth)
		}
		if val, _ := c07CellValue(x); val != nil {
			return st.reflectTypeOf(val, depth+1)
		}
	case *ssa.Field:
		return st.fieldReflectType(fieldIDOfField(x), depth)
	case *ssa.FreeVar:
		if b := resolveFreeVar(x); b != nil {
			return st.reflectTypeOf(b, depth+1)
		}
	case *ssa.ChangeInterface:
		return st.reflectTypeOf(x.X, depth+1)
	case *ssa.MakeInterface:
		return nil
	}
	return nil
}

func (st *c07State) fieldReflectType(id FieldID, depth int) types.Type {
	if id.Field == "" || token.IsExported(id.Field) {
		return nil
	}
	var res types.Type
	n := 0
	bad := false
	for _, fn := range st.p.Funcs {
		allInstrs(fn, func(in ssa.Instruction) {
			sto, ok := in.(*ssa.Store)
			if !ok {
				return
			}
			fa, ok := sto.Addr.(*ssa.FieldAddr)
			if !ok || fieldIDOfAddr(fa) != id {
				return
			}
			n++
			t := st.reflectTypeOf(sto.Val, depth+1)
			if t == nil || (res != nil && !types.Identical(res, t)) {
				bad = true
				return
			}
			res = t
		})
	}
	if bad || n == 0 {
		return nil
	}
	return res
}

func c07SingleStore(a *ssa.Alloc) ssa.Value {
	var val ssa.Value
	n := 0
	for _, ref := range refs(a) {
		switch x := ref.(type) {
		case *ssa.Store:
			if x.Addr == ssa.Value(a) {
				val = x.Val
				n++
			} else {
				return nil
			}
		case *ssa.UnOp, *ssa.MakeClosure, *ssa.DebugRef:
		default:
			return nil
		}
	}
	if n != 1 {
		return nil
	}
	// closures that capture the cell must not store to it
	for _, ref := range refs(a) {
		if mc, ok := ref.(*ssa.MakeClosure); ok {
			fn := mc.Fn.(*ssa.Function)
			for i, b := range mc.Bindings {
				if b != ssa.Value(a) {
					continue
				}
				for _, r2 := range refs(fn.FreeVars[i]) {
					if s, ok := r2.(*ssa.Store); ok && s.Addr == ssa.Value(fn.FreeVars[i]) {
						return nil
					}
					if _, ok := r2.(*ssa.UnOp); !ok {
						return nil
					}
				}
			}
		}
	}
	return val
}

func (st *c07State) singleStoreGlobal(g *ssa.Global) ssa.Value {
	var val ssa.Value
	n := 0
	bad := false
	scan := func(fn *ssa.Function) {
		allInstrs(fn, func(in ssa.Instruction) {
			for _, op := range in.Operands(nil) {
				if op == nil || *op != ssa.Value(g) {
					continue
				}
				switch x := in.(type) {
				case *ssa.Store:
					if x.Addr == ssa.Value(g) {
						val = x.Val
						n++
					} else {
						bad = true
					}
				case *ssa.UnOp:
				default:
					bad = true
				}
			}
		})
	}
	for _, fn := range st.p.Funcs {
		scan(fn)
	}
	if g.Pkg != nil {
		if initFn := g.Pkg.Func("init"); initFn != nil && !st.p.funcSet[initFn] {
			scan(initFn)
		}
	}
	if bad || n != 1 {
		return nil
	}
	return val
}

// dominating conditions of a block (true edges / false edges)
func c07DomCalls(b *ssa.BasicBlock) []DomCond { return domConds(b) }

func (st *c07State) checkN2() {
	p, r := st.p, st.r
	count := map[string]int{}
	for _, fn := range st.sc.List {
		name := FuncName(p, fn)
		allInstrs(fn, func(in ssa.Instruction) {
			ta, ok := in.(*ssa.TypeAssert)
			if !ok || ta.CommaOk {
				return
			}
			tdesc := types.TypeString(ta.AssertedType, func(pk *types.Package) string { return pk.Name() })
			base := fmt.Sprintf("%s .(%s)", name, tdesc)
			count[base]++
			construct := base
			if count[base] > 1 {
				construct = fmt.Sprintf("%s #%d", base, count[base])
			}
			pos := p.Pos(instrPos(ta))
			verdict, msg, wit := st.classifyAssert(fn, ta)
			switch verdict {
			case "ok":
				r.OK(c07N2, construct, pos, msg)
			case "violation":
				r.Violation(c07N2, construct, pos, msg, wit...)
			default:
				r.Trivial(c07N2, construct, pos, "unclassified: "+msg)
				st.unclassified(c07N2, construct, msg)
			}
		})
	}
}

func (st *c07State) classifyAssert(fn *ssa.Function, ta *ssa.TypeAssert) (verdict, msg string, wit []string) {
	p := st.p
	blk := ta.Block()
	asserted := ta.AssertedType
	_, assertedIsIface := asserted.Underlying().(*types.Interface)

	// (i) sync.Pool.Get
	if call, ok := ta.X.(*ssa.Call); ok && callIs(call, "sync", "Pool", "Get") {
		return st.poolAssert(call, asserted)
	}

	// (iv) Implements guard for assertions to an interface type
	if assertedIsIface {
		for _, dc := range c07DomCalls(blk) {
			if call, val, ok := boolCallCond(dc.If.Cond, dc.Branch); ok && val && call.Call.IsInvoke() &&
				call.Call.Method.Name() == "Implements" && namedKey(call.Call.Value.Type()) == "reflect.Type" && len(call.Call.Args) == 1 {
				it := st.reflectTypeOf(call.Call.Args[0], 0)
				if it != nil && types.Identical(it, asserted) {
					return "ok", "assertion to an interface under a dominating reflect.Type.Implements test of that interface", nil
				}
				return "unclassified", "dominated by an Implements test whose interface the engine cannot resolve", nil
			}
		}
	}

	// documented third-party result sets
	if ex, ok := ta.X.(*ssa.Extract); ok {
		if call, ok := ex.Tuple.(*ssa.Call); ok {
			if verdict, msg, wit, ok := st.docAssert(call, asserted); ok {
				return verdict, msg, wit
			}
		}
	}
	if call, ok := ta.X.(*ssa.Call); ok {
		if verdict, msg, wit, ok := st.docAssert(call, asserted); ok {
			return verdict, msg, wit
		}
		// reflect.Value.Interface()
		if callIs(call, "reflect", "Value", "Interface") {
			return st.reflectAssert(fn, ta, call)
		}
	}

	// decode-hook data (possibly re-assigned on some path: phi with the parameter as an edge)
	if _, _, data, ok := c07HookParams(fn); ok && c07IsHookData(ta.X, data) {
		return st.hookAssert(fn, ta)
	}
	// parameter of an input function with interface type: the caller chooses
	if par, ok := ta.X.(*ssa.Parameter); ok && st.eng.inputFunc(fn) {
		guarded := false
		for _, dc := range c07DomCalls(blk) {
			if c07Depends(dc.If.Cond, par, 6) {
				guarded = true
			}
		}
		if !guarded {
			return "violation", fmt.Sprintf("unchecked assertion on parameter %s of %s: a caller passing any other dynamic type gets an interface-conversion panic instead of an error", par.Name(), FuncName(p, fn)), nil
		}
		return "unclassified", "assertion on a parameter behind a condition the engine cannot interpret", nil
	}
	return "unclassified", "operand of unknown provenance", nil
}

func (st *c07State) docAssert(call *ssa.Call, asserted types.Type) (string, string, []string, bool) {
	obj := calleeObj(call)
	if obj == nil || obj.Pkg() == nil || call.Call.IsInvoke() {
		return "", "", nil, false
	}
	key := obj.Pkg().Path() + "." + obj.Name()
	set, ok := c07DocTypes[key]
	if !ok {
		return "", "", nil, false
	}
	var bad []string
	for _, dt := range set {
		t := st.lookupType(dt)
		if t == nil {
			return "unclassified", "documented result type " + dt.Pkg + "." + dt.Name + " of " + key + " is not loaded", nil, true
		}
		okT := false
		if iface, isI := asserted.Underlying().(*types.Interface); isI {
			okT = types.Implements(t, iface)
		} else {
			okT = types.Identical(t, asserted)
		}
		if !okT {
			bad = append(bad, types.TypeString(t, nil))
		}
	}
	tdesc := types.TypeString(asserted, nil)
	if len(bad) == 0 {
		return "ok", "every documented result type of " + key + " satisfies " + tdesc, nil, true
	}
	return "violation", fmt.Sprintf("unchecked assertion to %s on the result of %s, which may also return %s: such a key makes the assertion panic (interface conversion) instead of producing an error", tdesc, key, strings.Join(bad, ", ")),
		[]string{"input: a well-formed encoding of a key of type " + strings.Join(bad, " / ")}, true
}

func (st *c07State) poolAssert(get *ssa.Call, asserted types.Type) (string, string, []string) {
	p := st.p
	if len(get.Call.Args) != 1 {
		return "unclassified", "sync.Pool.Get on an unrecognised receiver", nil
	}
	g, ok := get.Call.Args[0].(*ssa.Global)
	if !ok {
		return "unclassified", "sync.Pool that is not a package-level variable", nil
	}
	// New: store of a closure into &g.New in the package initialiser
	var newFn *ssa.Function
	nNew := 0
	var puts []ssa.Value
	bad := ""
	scan := func(fn *ssa.Function) {
		allInstrs(fn, func(in ssa.Instruction) {
			switch x := in.(type) {
			case *ssa.Store:
				if fa, ok := x.Addr.(*ssa.FieldAddr); ok && fa.X == ssa.Value(g) {
					if fieldIDOfAddr(fa).Field == "New" {
						nNew++
						switch v := x.Val.(type) {
						case *ssa.MakeClosure:
							newFn, _ = v.Fn.(*ssa.Function)
						case *ssa.Function:
							newFn = v
						}
					}
				}
				if x.Addr == ssa.Value(g) {
					bad = "the pool variable is overwritten"
				}
			}
			if ci, ok := in.(ssa.CallInstruction); ok {
				if cc := ci.Common(); callIs(ci, "sync", "Pool", "Put") && len(cc.Args) == 2 && cc.Args[0] == ssa.Value(g) {
					puts = append(puts, cc.Args[1])
				}
			}
		})
	}
	for _, fn := range p.Funcs {
		scan(fn)
	}
	if g.Pkg != nil {
		if initFn := g.Pkg.Func("init"); initFn != nil && !p.funcSet[initFn] {
			scan(initFn)
		}
	}
	if bad != "" {
		return "unclassified", bad, nil
	}
	tdesc := types.TypeString(asserted, nil)
	if newFn == nil || nNew != 1 {
		return "violation", "sync.Pool " + g.Name() + " has no (single) New function: Get may return nil and the unchecked assertion to " + tdesc + " panics", nil
	}
	for _, b := range newFn.Blocks {
		if ret, ok := b.Instrs[len(b.Instrs)-1].(*ssa.Return); ok && len(ret.Results) == 1 {
			mi, ok := ret.Results[0].(*ssa.MakeInterface)
			if !ok || !types.Identical(mi.X.Type(), asserted) {
				return "violation", "the New function of sync.Pool " + g.Name() + " returns a value that is not a " + tdesc + ": the unchecked assertion after Get panics", nil
			}
		}
	}
	for _, v := range puts {
		mi, ok := v.(*ssa.MakeInterface)
		if !ok {
			return "unclassified", "a Put into the pool has an operand of unknown type", nil
		}
		if !types.Identical(mi.X.Type(), asserted) {
			return "violation", "a value of type " + types.TypeString(mi.X.Type(), nil) + " is Put into sync.Pool " + g.Name() + " while Get results are asserted to " + tdesc + " without a check", nil
		}
	}
	return "ok", fmt.Sprintf("sync.Pool %s: New and all %d Put sites use %s", g.Name(), len(puts), tdesc), nil
}

func (st *c07State) reflectAssert(fn *ssa.Function, ta *ssa.TypeAssert, iface *ssa.Call) (string, string, []string) {
	if len(iface.Call.Args) != 1 {
		return "unclassified", "reflect.Value.Interface with unexpected shape", nil
	}
	rv := iface.Call.Args[0]
	asserted := ta.AssertedType
	tdesc := types.TypeString(asserted, nil)
	typeTested := false
	var kinds []string
	for _, dc := range c07DomCalls(ta.Block()) {
		if !c07Depends(dc.If.Cond, rv, 6) && !c07DependsSameOrigin(dc.If.Cond, rv) {
			continue
		}
		names := c07MethodsCalled(dc.If.Cond, 6)
		for _, n := range names {
			switch n {
			case "Type", "CanConvert", "ConvertibleTo", "AssignableTo", "Implements":
				typeTested = true
			default:
				kinds = append(kinds, n)
			}
		}
	}
	if typeTested {
		return "unclassified", "reflect.Value.Interface() behind a reflect type test the engine does not evaluate", nil
	}
	// where does the reflect.Value come from?
	origin := c07ReflectOrigin(rv, 0)
	if origin == nil {
		return "unclassified", "reflect.Value of unknown origin", nil
	}
	par, ok := origin.(*ssa.Parameter)
	if !ok || !st.eng.inputFunc(fn) {
		return "unclassified", "reflect.Value not derived from a caller-supplied argument", nil
	}
	sort.Strings(kinds)
	g := "no test at all"
	if len(kinds) > 0 {
		g = "only " + strings.Join(c07Uniq(kinds), "/") + " tests, which do not pin the type"
	}
	return "violation", fmt.Sprintf("unchecked assertion to %s on reflect.Value.Interface() of a value derived from parameter %s (%s): a value of the same kind but another type makes %s panic (interface conversion) instead of returning an error", tdesc, par.Name(), g, FuncName(st.p, fn)),
		[]string{"input: a value whose kind matches but whose type is not " + tdesc}
}

func c07Uniq(s []string) []string {
	var out []string
	for i, x := range s {
		if i == 0 || s[i-1] != x {
			out = append(out, x)
		}
	}
	return out
}

// c07ReflectOrigin follows reflect.Value-producing calls back to
// reflect.ValueOf(x) and returns x's origin (through MakeInterface).
func c07ReflectOrigin(v ssa.Value, depth int) ssa.Value {
	if depth > 8 {
		return nil
	}
	switch x := v.(type) {
	case *ssa.Call:
		if callIs(x, "reflect", "", "ValueOf") && len(x.Call.Args) == 1 {
			a := x.Call.Args[0]
			if mi, ok := a.(*ssa.MakeInterface); ok {
				a = mi.X
			}
			return a
		}
		if obj := calleeObj(x); obj != nil && obj.Pkg() != nil && obj.Pkg().Path() == "reflect" && len(x.Call.Args) > 0 && namedKey(x.Call.Args[0].Type()) == "reflect.Value" {
			return c07ReflectOrigin(x.Call.Args[0], depth+1)
		}
	case *ssa.Phi:
		var o ssa.Value
		for _, e := range x.Edges {
			r := c07ReflectOrigin(e, depth+1)
			if r == nil || (o != nil && o != r) {
				return nil
			}
			o = r
		}
		return o
	case *ssa.UnOp:
		if x.Op == token.MUL {
			if a, ok := x.X.(*ssa.Alloc); ok {
				if val := c07SingleStore(a); val != nil {
					return c07ReflectOrigin(val, depth+1)
				}
			}
		}
	}
	return nil
}

// c07DependsSameOrigin: cond calls a reflect.Value method on a value with the
// same producing call as rv (go/ssa has no CSE; `f` is one SSA value here, so
// plain dependence suffices — kept for locals spilled to allocs).
func c07DependsSameOrigin(cond, rv ssa.Value) bool {
	u, ok := rv.(*ssa.UnOp)
	if !ok || u.Op != token.MUL {
		return false
	}
	return c07Depends(cond, u.X, 6)
}

// c07MethodsCalled lists names of functions/methods called in the expression tree of v.
func c07MethodsCalled(v ssa.Value, depth int) []string {
	var out []string
	var walk func(v ssa.Value, d int)
	seen := map[ssa.Value]bool{}
	walk = func(v ssa.Value, d int) {
		if v == nil || d <= 0 || seen[v] {
			return
		}
		seen[v] = true
		if c, ok := v.(*ssa.Call); ok {
			if obj := calleeObj(c); obj != nil {
				out = append(out, obj.Name())
			}
		}
		if in, ok := v.(ssa.Instruction); ok {
			for _, op := range in.Operands(nil) {
				if op != nil && *op != nil {
					walk(*op, d-1)
				}
			}
		}
	}
	walk(v, depth)
	return out
}

// hookAssert: data.(T) inside a mapstructure decode hook.
func (st *c07State) hookAssert(fn *ssa.Function, ta *ssa.TypeAssert) (string, string, []string) {
	p := st.p
	from, to, data, _ := c07HookParams(fn)
	asserted := ta.AssertedType
	tdesc := types.TypeString(asserted, nil)
	fromEq, fromKind, anyGuard := false, false, false
	for _, dc := range c07DomCalls(ta.Block()) {
		dep := c07Depends(dc.If.Cond, from, 6) || c07Depends(dc.If.Cond, to, 6) || c07Depends(dc.If.Cond, data, 6)
		if !dep {
			continue
		}
		anyGuard = true
		cmp, ok := decodeCond(dc.If.Cond, dc.Branch)
		if !ok || cmp.Op != token.EQL {
			continue
		}
		x, y := cmp.X, cmp.Y
		if c07StripIface(y) == ssa.Value(from) {
			x, y = y, x
		}
		if c07StripIface(x) == ssa.Value(from) {
			if t := st.reflectTypeOf(y, 0); t != nil && types.Identical(t, asserted) {
				fromEq = true
			}
			continue
		}
		// from.Kind() == K
		for _, side := range []ssa.Value{cmp.X, cmp.Y} {
			if c, ok := side.(*ssa.Call); ok && c.Call.IsInvoke() && c.Call.Method.Name() == "Kind" && c07IsHookData(c07StripIface(c.Call.Value), from) {
				fromKind = true
			}
		}
	}
	if fromEq {
		return "ok", "decode hook: assertion under an exact reflect.Type equality between the from-type and " + tdesc, nil
	}
	if fromKind {
		// string-only callers: the factory is only called by functions that feed
		// the decoder a map[string]string
		switch st.hookInputs(fn) {
		case "string-only":
			return "ok", "decode hook: assertion under a from.Kind() test; every decoder built with this hook is fed a map[string]string (string-only callers, reviewed idiom)", nil
		case "arbitrary":
			return "violation", fmt.Sprintf("decode hook %s asserts data.(%s) behind a from.Kind() test only, and the decoder it is installed in is fed the caller's input as is: a value of a named type of that kind (e.g. `type S string`) passes the Kind test and makes the assertion panic (interface conversion) instead of returning an error", FuncName(p, fn), tdesc),
				[]string{"input: a map whose value has a named type with the asserted type's kind"}
		}
		return "unclassified", "decode hook: only a Kind() guard, and the inputs of the decoders using the hook are not visible", nil
	}
	if anyGuard {
		return "unclassified", "decode hook: guarded by a condition on the types that does not pin the from-type", nil
	}
	return "violation", fmt.Sprintf("decode hook %s asserts data.(%s) with no test of the from-type at all: mapstructure calls the hook for every (from, to) pair, starting with the input map itself, so decoding panics (interface conversion) instead of returning an error", FuncName(p, fn), tdesc), nil
}

func c07IsHookData(v ssa.Value, data *ssa.Parameter) bool {
	if v == ssa.Value(data) {
		return true
	}
	if phi, ok := v.(*ssa.Phi); ok {
		for _, e := range phi.Edges {
			if e == ssa.Value(data) {
				return true
			}
		}
	}
	return false
}

func c07StripIface(v ssa.Value) ssa.Value {
	for {
		switch x := v.(type) {
		case *ssa.ChangeInterface:
			v = x.X
			continue
		case *ssa.MakeInterface:
			v = x.X
			continue
		}
		return v
	}
}

// hookInputs classifies what the decoders that use hook fn are fed:
// "string-only" (every one gets a map[string]string), "arbitrary" (at least
// one gets an interface-typed parameter of an input function unchanged), "".
// The decoders are looked for in the functions where the hook's value is taken
// (the closure's factory, the function that names a top-level hook or takes a
// method value) and, as long as those only pass it on, in their callers.
func (st *c07State) hookInputs(fn *ssa.Function) string {
	fv := st.eng.fv
	start := map[*ssa.Function]bool{}
	if par := fn.Parent(); par != nil {
		start[origin(par)] = true
	}
	for _, u := range fv.created[origin(fn)] {
		var in ssa.Instruction = u.In
		if in == nil {
			if ins, ok := u.V.(ssa.Instruction); ok {
				in = ins
			}
		}
		if in != nil && in.Parent() != nil {
			start[origin(in.Parent())] = true
		}
	}
	if len(start) == 0 {
		return ""
	}
	all, arbitrary, foundAny := true, false, false
	seen := map[*ssa.Function]bool{}
	var visit func(g *ssa.Function, depth int)
	visit = func(g *ssa.Function, depth int) {
		if seen[g] {
			return
		}
		seen[g] = true
		found := false
		allInstrs(g, func(in ssa.Instruction) {
			c, isCall := in.(*ssa.Call)
			if !isCall {
				return
			}
			obj := calleeObj(c)
			if obj == nil || obj.Name() != "Decode" || obj.Pkg() == nil || !strings.HasSuffix(obj.Pkg().Path(), "mapstructure") {
				return
			}
			found = true
			arg := c.Call.Args[len(c.Call.Args)-1]
			if mi, ok := arg.(*ssa.MakeInterface); ok {
				if m, ok := mi.X.Type().Underlying().(*types.Map); ok && c07IsStringType(m.Key()) && c07IsStringType(m.Elem()) {
					return
				}
			}
			all = false
			if par, ok := arg.(*ssa.Parameter); ok && st.eng.inputFunc(g) {
				if _, isI := par.Type().Underlying().(*types.Interface); isI {
					arbitrary = true
				}
			}
		})
		if found {
			foundAny = true
			return
		}
		// g only passes the hook on: look at its callers
		sites := st.eng.callers[g]
		if depth >= 3 || len(sites) == 0 || st.eng.inputFunc(g) {
			all = false
			return
		}
		for _, cs := range sites {
			visit(origin(cs.Caller), depth+1)
		}
	}
	for g := range start {
		visit(g, 0)
	}
	switch {
	case arbitrary:
		return "arbitrary"
	case all && foundAny:
		return "string-only"
	}
	return ""
}

func c07IsStringType(t types.Type) bool {
	b, ok := t.Underlying().(*types.Basic)
	return ok && b.Kind() == types.String
}

// ---------------------------------------------------------------------------
// N3 sentinel index

var c07IndexFuncs = map[string]bool{
	"Index": true, "IndexByte": true, "IndexRune": true, "IndexAny": true, "IndexFunc": true,
	"LastIndex": true, "LastIndexByte": true, "LastIndexAny": true, "LastIndexFunc": true,
}

func c07IsIndexCall(c *ssa.Call) (string, bool) {
	obj := calleeObj(c)
	if obj == nil || obj.Pkg() == nil || c.Call.IsInvoke() {
		return "", false
	}
	pk := obj.Pkg().Path()
	if (pk == "strings" || pk == "bytes") && c07IndexFuncs[obj.Name()] && obj.Type().(*types.Signature).Recv() == nil {
		return pk + "." + obj.Name(), true
	}
	return "", false
}

type c07IdxUse struct {
	in   ssa.Instruction
	off  int64 // value used = R + off
	role string
}

// c07IndexUses: uses of v (+off) as slice bound / index, through +-const arithmetic and phis are not followed.
func c07IndexUses(v ssa.Value, off int64, depth int, out *[]c07IdxUse) {
	if depth > 4 {
		return
	}
	for _, ref := range refs(v) {
		switch x := ref.(type) {
		case *ssa.BinOp:
			if c, ok := c07ConstInt(x.Y); ok && x.X == v {
				switch x.Op {
				case token.ADD:
					c07IndexUses(x, off+c, depth+1, out)
				case token.SUB:
					c07IndexUses(x, off-c, depth+1, out)
				}
			} else if c, ok := c07ConstInt(x.X); ok && x.Y == v && x.Op == token.ADD {
				c07IndexUses(x, off+c, depth+1, out)
			}
		case *ssa.Slice:
			if !c07IsLenType(x.X.Type()) {
				continue
			}
			if x.Low == v {
				*out = append(*out, c07IdxUse{x, off, "slice low bound"})
			}
			if x.High == v {
				*out = append(*out, c07IdxUse{x, off, "slice high bound"})
			}
			if x.Max == v {
				*out = append(*out, c07IdxUse{x, off, "slice max bound"})
			}
		case *ssa.IndexAddr:
			if x.Index == v && c07IsLenType(x.X.Type()) {
				*out = append(*out, c07IdxUse{x, off, "index"})
			}
		case *ssa.Index:
			if x.Index == v && c07IsLenType(x.X.Type()) {
				*out = append(*out, c07IdxUse{x, off, "index"})
			}
		case *ssa.Lookup:
			if x.Index == v && c07IsLenType(x.X.Type()) {
				*out = append(*out, c07IdxUse{x, off, "index"})
			}
		}
	}
}

// containsAt: on every path to block `at`, a true edge of
// Has{Prefix,Suffix}/Contains(s, c) was taken with constant c containing sub.
func (st *c07State) containsAt(fn *ssa.Function, s ssa.Value, sub string, at *ssa.BasicBlock) bool {
	if sub == "" {
		return true
	}
	in := map[*ssa.BasicBlock]bool{}
	for _, b := range fn.Blocks {
		in[b] = true
	}
	in[fn.Blocks[0]] = false
	edgeTrue := func(from, to *ssa.BasicBlock) bool {
		if len(from.Instrs) == 0 || len(from.Succs) != 2 || from.Succs[0] == from.Succs[1] {
			return false
		}
		ifi, ok := from.Instrs[len(from.Instrs)-1].(*ssa.If)
		if !ok {
			return false
		}
		call, val, ok := boolCallCond(ifi.Cond, from.Succs[0] == to)
		if !ok || !val || len(call.Call.Args) != 2 || c07SameLen(call.Call.Args[0]) != c07SameLen(s) {
			return false
		}
		for _, pk := range []string{"strings", "bytes"} {
			for _, nm := range []string{"HasPrefix", "HasSuffix", "Contains"} {
				if callIs(call, pk, "", nm) {
					if c, ok := c07ConstString(c07SameLen(call.Call.Args[1])); ok && strings.Contains(c, sub) {
						return true
					}
				}
			}
		}
		return false
	}
	for changed, it := true, 0; changed && it < 2*len(fn.Blocks)+4; it++ {
		changed = false
		for _, b := range fn.Blocks {
			if len(b.Preds) == 0 {
				continue
			}
			v := true
			for _, pr := range b.Preds {
				if !(in[pr] || edgeTrue(pr, b)) {
					v = false
				}
			}
			if v != in[b] && !v {
				in[b] = false
				changed = true
			}
		}
	}
	return in[at]
}

func (st *c07State) checkN3() {
	p, r := st.p, st.r
	for _, fn := range st.sc.List {
		name := FuncName(p, fn)
		seen := map[string]int{}
		allInstrs(fn, func(in ssa.Instruction) {
			call, ok := in.(*ssa.Call)
			if !ok {
				return
			}
			callee, ok := c07IsIndexCall(call)
			if !ok {
				return
			}
			var uses []c07IdxUse
			c07IndexUses(call, 0, 0, &uses)
			if len(uses) == 0 {
				return
			}
			needle := "…"
			needleConst := ""
			isConstNeedle := false
			if len(call.Call.Args) >= 2 {
				if s, ok := c07ConstString(call.Call.Args[1]); ok {
					needle, needleConst, isConstNeedle = fmt.Sprintf("%q", s), s, true
				} else if c, ok := c07ConstInt(call.Call.Args[1]); ok {
					needle, needleConst, isConstNeedle = fmt.Sprintf("%q", rune(c)), string(rune(c)), true
				}
			}
			base := fmt.Sprintf("%s %s(%s, %s) used as bound", name, callee, c07ShortVal(call.Call.Args[0]), needle)
			seen[base]++
			construct := base
			if seen[base] > 1 {
				construct = fmt.Sprintf("%s #%d", base, seen[base])
			}
			pos := p.Pos(instrPos(call))
			hay := call.Call.Args[0]
			if _, isConst := hay.(*ssa.Const); isConst {
				r.Trivial(c07N3, construct, pos, "constant haystack")
				return
			}
			if isConstNeedle && st.containsAt(fn, hay, needleConst, call.Block()) {
				r.OK(c07N3, construct, pos, "a dominating HasPrefix/HasSuffix/Contains fact guarantees a match, so the result is >= 0")
				return
			}
			var bad []string
			opaque := false
			for _, u := range uses {
				b := st.eng.intAt(call, u.in.Block())
				if b.Lo+u.off >= 0 {
					continue
				}
				if !b.Exact {
					opaque = true
				}
				if og := st.eng.opaqueGuards(fn, u.in.Block(), call, []c07flowKey{{kind: c07Int, v: call}}); len(og) > 0 {
					opaque = true
				}
				bad = append(bad, fmt.Sprintf("%s at %s (value may be %d)", u.role, p.Pos(instrPos(u.in)), -1+u.off))
			}
			switch {
			case len(bad) == 0:
				r.OK(c07N3, construct, pos, fmt.Sprintf("all %d uses as bound/index are dominated by a test that excludes -1", len(uses)))
			case opaque:
				r.Trivial(c07N3, construct, pos, "unclassified: guarded by a condition the engine cannot interpret")
				st.unclassified(c07N3, construct, "guarded by a condition the engine cannot interpret")
			default:
				r.Violation(c07N3, construct, pos,
					fmt.Sprintf("%s returns -1 when %s does not occur; the result is used as %s without a dominating test against -1 / < 0, so such an input makes %s panic (slice bounds out of range) instead of returning an error", callee, needle, strings.Join(bad, "; "), name),
					"input: any value of "+c07ShortVal(hay)+" that passes the earlier checks and does not contain "+needle)
			}
		})
	}
}

// ---------------------------------------------------------------------------
// N4 constant-offset indexing / slicing

type c07Bound struct {
	kind string // "nil" "const" "lenminus" "var"
	c    int64
}

func c07ClassifyBound(v, x ssa.Value) c07Bound {
	if v == nil {
		return c07Bound{kind: "nil"}
	}
	if c, ok := c07ConstInt(v); ok {
		return c07Bound{"const", c}
	}
	if bo, ok := v.(*ssa.BinOp); ok && bo.Op == token.SUB {
		if a, ok := c07LenArg(bo.X); ok && c07SameLen(a) == c07SameLen(x) {
			if c, ok := c07ConstInt(bo.Y); ok {
				return c07Bound{"lenminus", c}
			}
		}
	}
	if a, ok := c07LenArg(v); ok && c07SameLen(a) == c07SameLen(x) {
		return c07Bound{"lenminus", 0}
	}
	return c07Bound{kind: "var"}
}

func (b c07Bound) String() string {
	switch b.kind {
	case "nil":
		return ""
	case "const":
		return fmt.Sprint(b.c)
	case "lenminus":
		if b.c == 0 {
			return "len"
		}
		return fmt.Sprintf("len-%d", b.c)
	}
	return "…"
}

func (st *c07State) describeVal(v ssa.Value, depth int) string {
	if depth > 3 {
		return "value"
	}
	switch x := v.(type) {
	case *ssa.Parameter:
		return x.Name()
	case *ssa.Const:
		return x.String()
	case *ssa.Call:
		if bn := builtinName(x); bn != "" {
			return bn + "(…)"
		}
		if obj := calleeObj(x); obj != nil {
			s := obj.Name()
			if obj.Pkg() != nil && obj.Type().(*types.Signature).Recv() == nil {
				s = obj.Pkg().Name() + "." + s
			}
			var consts []string
			for _, a := range x.Call.Args {
				if c, ok := a.(*ssa.Const); ok && c.Value != nil {
					consts = append(consts, c.Value.String())
				}
			}
			return s + "(" + strings.Join(consts, ",") + ")"
		}
		return "call"
	case *ssa.Extract:
		return fmt.Sprintf("result#%d of %s", x.Index, st.describeVal(x.Tuple, depth+1))
	case *ssa.UnOp:
		if g, ok := x.X.(*ssa.Global); ok {
			return g.Name()
		}
		if fa, ok := x.X.(*ssa.FieldAddr); ok {
			return "field " + fieldIDOfAddr(fa).String()
		}
		return "*" + st.describeVal(x.X, depth+1)
	case *ssa.Convert:
		return types.TypeString(x.Type(), func(*types.Package) string { return "" }) + "(" + st.describeVal(x.X, depth+1) + ")"
	case *ssa.ChangeType:
		return st.describeVal(x.X, depth+1)
	case *ssa.MakeSlice:
		return "make"
	case *ssa.Slice:
		return st.describeVal(x.X, depth+1) + "[:]"
	case *ssa.Phi:
		return "merged value"
	case *ssa.Alloc:
		return "local"
	case *ssa.FreeVar:
		return x.Name()
	}
	return "value"
}

func (st *c07State) checkN4() {
	p, r := st.p, st.r
	for _, fn := range st.sc.List {
		name := FuncName(p, fn)
		seen := map[string]int{}
		allInstrs(fn, func(in ssa.Instruction) {
			var x ssa.Value
			var need int64
			var shape string
			switch s := in.(type) {
			case *ssa.IndexAddr:
				x = s.X
				if !c07IsLenType(x.Type()) {
					return
				}
				b := c07ClassifyBound(s.Index, x)
				need, shape = c07IndexNeed(b)
			case *ssa.Index:
				x = s.X
				if !c07IsLenType(x.Type()) {
					return
				}
				b := c07ClassifyBound(s.Index, x)
				need, shape = c07IndexNeed(b)
			case *ssa.Lookup:
				x = s.X
				if !c07IsLenType(x.Type()) {
					return
				}
				b := c07ClassifyBound(s.Index, x)
				need, shape = c07IndexNeed(b)
			case *ssa.Slice:
				x = s.X
				if !c07IsLenType(x.Type()) {
					return
				}
				lo, hi, mx := c07ClassifyBound(s.Low, x), c07ClassifyBound(s.High, x), c07ClassifyBound(s.Max, x)
				if mx.kind == "nil" && st.checkLenMinusVar(fn, s, x, lo, hi, seen) {
					return
				}
				if lo.kind == "var" || hi.kind == "var" || mx.kind == "var" {
					st.stats["n4_sites_variable"]++
					return
				}
				if mx.kind != "nil" {
					st.stats["n4_sites_variable"]++
					return
				}
				shape = "[" + lo.String() + ":" + hi.String() + "]"
				switch {
				case lo.kind == "const" && lo.c > need:
					need = lo.c
				}
				if hi.kind == "const" && hi.c > need {
					need = hi.c
				}
				if lo.kind == "lenminus" && lo.c > need {
					need = lo.c
				}
				if hi.kind == "lenminus" {
					n := hi.c
					if lo.kind == "const" {
						n += lo.c
					}
					if n > need {
						need = n
					}
				}
			default:
				return
			}
			if shape == "" {
				st.stats["n4_sites_variable"]++
				return
			}
			if need <= 0 {
				st.stats["n4_sites_trivial"]++
				return
			}
			st.stats["n4_sites_checked"]++
			base := fmt.Sprintf("%s %s%s", name, st.describeVal(x, 0), shape)
			seen[base]++
			construct := base
			if seen[base] > 1 {
				construct = fmt.Sprintf("%s #%d", base, seen[base])
			}
			pos := p.Pos(instrPos(in))
			b := st.eng.lenAt(x, in.Block())
			if b.Lo >= need {
				r.OK(c07N4, construct, pos, fmt.Sprintf("length >= %d on every path (%s), needs %d", b.Lo, b.Why, need))
				return
			}
			root := c07SameLen(x)
			subjects := []c07flowKey{{kind: c07Len, v: x}, {kind: c07Len, v: root}}
			og := st.eng.opaqueGuards(fn, in.Block(), root, subjects)
			if !b.Exact || len(og) > 0 {
				why := b.Why
				if len(og) > 0 {
					why = "a condition on the operand the engine cannot interpret (" + strings.Join(og, ", ") + ")"
				}
				r.Trivial(c07N4, construct, pos, "unclassified: "+why)
				st.unclassified(c07N4, construct, fmt.Sprintf("needs length %d, proved %d: %s", need, b.Lo, why))
				return
			}
			r.Violation(c07N4, construct, pos,
				fmt.Sprintf("%s%s needs a length of at least %d but only %d is established on every path to it (%s): a shorter input makes %s panic (index/slice bounds out of range) instead of returning an error", st.describeVal(x, 0), shape, need, b.Lo, b.Why, name),
				fmt.Sprintf("input: %s of length %d", st.describeVal(x, 0), b.Lo))
		})
	}
}

// c07LenMinus: v is len(x') - w with x' length-equal to x and w not a constant.
func c07LenMinus(v, x ssa.Value) (*ssa.BinOp, bool) {
	if v == nil {
		return nil, false
	}
	bo, ok := c07Settle(v).(*ssa.BinOp)
	if !ok || bo.Op != token.SUB {
		return nil, false
	}
	a, ok := c07LenArg(bo.X)
	if !ok || c07SameLen(a) != c07SameLen(x) {
		return nil, false
	}
	if _, isC := c07ConstInt(bo.Y); isC {
		return nil, false
	}
	return bo, true
}

// checkLenMinusVar: x[len(x)-v:] / x[:len(x)-v] / x[c:len(x)-v] with a
// non-constant v (a tag or key size): the offset must be provably >= 0 (>= c)
// and v >= 0. A remainder test on the offset does not bound its sign.
func (st *c07State) checkLenMinusVar(fn *ssa.Function, s *ssa.Slice, x ssa.Value, lo, hi c07Bound, seen map[string]int) bool {
	p, r := st.p, st.r
	var d *ssa.BinOp
	var need int64
	shape := ""
	dl, okL := c07LenMinus(s.Low, x)
	dh, okH := c07LenMinus(s.High, x)
	switch {
	case okL && (hi.kind == "nil" || (hi.kind == "lenminus" && hi.c == 0)):
		d, shape = dl, "[len-v:]"
	case okH && (lo.kind == "nil" || lo.kind == "const"):
		d, shape = dh, "[:len-v]"
		if lo.kind == "const" {
			need = lo.c
			shape = fmt.Sprintf("[%d:len-v]", lo.c)
		}
	default:
		return false
	}
	st.stats["n4_sites_checked"]++
	name := FuncName(p, fn)
	base := fmt.Sprintf("%s %s%s v=%s", name, st.describeVal(x, 0), shape, st.describeVal(d.Y, 0))
	seen[base]++
	construct := base
	if seen[base] > 1 {
		construct = fmt.Sprintf("%s #%d", base, seen[base])
	}
	pos := p.Pos(instrPos(s))
	at := s.Block()
	b := st.eng.intAt(d, at)
	bv := st.eng.intAt(d.Y, at)
	if b.Lo >= need && bv.Lo >= 0 {
		r.OK(c07N4, construct, pos, fmt.Sprintf("the offset len-v is >= %d on every path (%s) and v >= 0", b.Lo, b.Why))
		return true
	}
	unclass := func(why string) {
		r.Trivial(c07N4, construct, pos, "unclassified: "+why)
		st.unclassified(c07N4, construct, why)
	}
	if b.Lo >= need || !b.Exact {
		unclass("offset or size of unknown origin: " + b.Why)
		return true
	}
	st.eng.remLinear = true
	clean := st.eng.ingredientsClean(fn, at, d, 0) && len(st.eng.opaqueGuards(fn, at, d, []c07flowKey{{kind: c07Int, v: d}})) == 0
	st.eng.remLinear = false
	_, hiV, okV := st.eng.intConsts(d.Y, 0)
	if !clean || !okV {
		unclass("guarded by a condition the engine cannot interpret")
		return true
	}
	// remainder tests on the offset: (len-v)%m == 0 admits len = v mod m, which
	// is below v exactly when v >= m
	for _, m := range st.remGuards(fn, at, d) {
		if hiV < m {
			unclass("a remainder test with a modulus larger than the size bounds the length")
			return true
		}
	}
	r.Violation(c07N4, construct, pos,
		fmt.Sprintf("%s%s: the offset len(%s)-v can be negative (down to %d: %s) on a path to it — no test len >= v (or offset >= 0) dominates it, and a remainder test such as (len-v)%%m == 0 does not bound the sign (Go's %% keeps the sign of the dividend): an input shorter than v makes %s panic (slice bounds out of range) instead of returning an error",
			st.describeVal(x, 0), shape, st.describeVal(x, 0), b.Lo, b.Why, name),
		fmt.Sprintf("input: %s shorter than v by a multiple of the modulus (e.g. empty)", st.describeVal(x, 0)))
	return true
}

// remGuards: moduli m of tests (d' % m ==/!= 0) on paths to at, d' equal to d.
func (st *c07State) remGuards(fn *ssa.Function, at *ssa.BasicBlock, d ssa.Value) []int64 {
	var out []int64
	reach := c07ReachesBlock(fn, at)
	for _, b := range fn.Blocks {
		if !reach[b] || len(b.Instrs) == 0 {
			continue
		}
		ifi, ok := b.Instrs[len(b.Instrs)-1].(*ssa.If)
		if !ok {
			continue
		}
		cmp, ok := decodeCond(ifi.Cond, true)
		if !ok {
			continue
		}
		for _, side := range []ssa.Value{cmp.X, cmp.Y} {
			if bo, ok := side.(*ssa.BinOp); ok && bo.Op == token.REM && st.eng.sameInt(bo.X, d, 0) {
				if m, ok := c07ConstInt(bo.Y); ok && m > 0 {
					out = append(out, m)
				} else {
					out = append(out, c07PosInf)
				}
			}
		}
	}
	return out
}

func c07IndexNeed(b c07Bound) (int64, string) {
	switch b.kind {
	case "const":
		return b.c + 1, "[" + b.String() + "]"
	case "lenminus":
		if b.c >= 1 {
			return b.c, "[" + b.String() + "]"
		}
	}
	return 0, ""
}

// ---------------------------------------------------------------------------
// N5 make lengths, Repeat counts, divisors, CBC iv

func (st *c07State) intSite(rule, construct, pos string, fn *ssa.Function, v ssa.Value, at *ssa.BasicBlock, min int64, what, panicMsg string) {
	r := st.r
	b := st.eng.intAt(v, at)
	if b.Lo >= min {
		r.OK(rule, construct, pos, fmt.Sprintf("%s >= %d on every path", what, b.Lo))
		return
	}
	og := st.eng.opaqueGuards(fn, at, v, []c07flowKey{{kind: c07Int, v: v}})
	// also conditions on the ingredients of v
	if !b.Exact || len(og) > 0 || !st.ingredientsClean(fn, at, v, 0) {
		r.Trivial(rule, construct, pos, "unclassified: "+b.Why)
		st.unclassified(rule, construct, fmt.Sprintf("%s: needs >= %d, proved %s", what, min, c07LoStr(b.Lo)))
		return
	}
	r.Violation(rule, construct, pos,
		fmt.Sprintf("%s may be %s (%s) where at least %d is required: %s instead of an error", what, c07LoStr(b.Lo), b.Why, min, panicMsg))
}

func c07LoStr(lo int64) string {
	if lo <= c07NegInf {
		return "any value"
	}
	return fmt.Sprint(lo)
}

func (st *c07State) ingredientsClean(fn *ssa.Function, at *ssa.BasicBlock, v ssa.Value, depth int) bool {
	return st.eng.ingredientsClean(fn, at, v, depth)
}

func (st *c07State) checkN5() {
	p := st.p
	for _, fn := range st.sc.List {
		name := FuncName(p, fn)
		nMake, nRep, nDiv, nIV := 0, 0, 0, 0
		allInstrs(fn, func(in ssa.Instruction) {
			switch x := in.(type) {
			case *ssa.MakeSlice:
				nMake++
				construct := fmt.Sprintf("%s make #%d", name, nMake)
				st.intSite(c07N5, construct, p.Pos(instrPos(x)), fn, x.Len, x.Block(), 0, "the length of make", "makeslice: len out of range panic")
			case *ssa.Call:
				ext := st.extCallees(x)
				if len(x.Call.Args) == 2 && c07AllIn(ext, "bytes.Repeat", "strings.Repeat", "slices.Repeat") {
					nRep++
					construct := fmt.Sprintf("%s Repeat count #%d", name, nRep)
					st.intSite(c07N5, construct, p.Pos(instrPos(x)), fn, x.Call.Args[1], x.Block(), 0, "the Repeat count", "bytes/strings/slices.Repeat panics on a negative count")
				}
				if len(x.Call.Args) == 2 && c07AllIn(ext, "crypto/cipher.NewCBCEncrypter", "crypto/cipher.NewCBCDecrypter") {
					nIV++
					nm := strings.TrimPrefix(ext[0], "crypto/cipher.")
					if len(ext) > 1 {
						nm = "NewCBCEncrypter/NewCBCDecrypter"
					}
					st.checkIV(fn, x, nm, fmt.Sprintf("%s cipher.%s iv #%d", name, nm, nIV))
				}
			case *ssa.BinOp:
				if (x.Op == token.QUO || x.Op == token.REM) && c07isInteger(x.Type()) {
					if _, isConst := x.Y.(*ssa.Const); isConst {
						return
					}
					nDiv++
					construct := fmt.Sprintf("%s divisor #%d", name, nDiv)
					st.intSite(c07N5d, construct, p.Pos(instrPos(x)), fn, x.Y, x.Block(), 1, "the divisor", "integer divide by zero panic (or a negative modulus feeding a length)")
				}
			}
		})
	}
}

func c07AllIn(got []string, want ...string) bool {
	if len(got) == 0 {
		return false
	}
	for _, g := range got {
		ok := false
		for _, w := range want {
			if g == w {
				ok = true
			}
		}
		if !ok {
			return false
		}
	}
	return true
}

// extCallees: the functions outside the module a call may enter, as
// "pkgpath.Name": the static callee, or — for a call through a function value
// (a constructor picked by a flag, kept in a local, a parameter or a table) —
// every function the value may denote. nil when any candidate is unknown.
func (st *c07State) extCallees(c *ssa.Call) []string {
	if c.Call.IsInvoke() {
		return nil
	}
	name := func(f *ssa.Function) string {
		f = origin(f)
		obj, _ := f.Object().(*types.Func)
		if obj == nil || obj.Pkg() == nil || obj.Type().(*types.Signature).Recv() != nil {
			return ""
		}
		return obj.Pkg().Path() + "." + obj.Name()
	}
	var out []string
	seen := map[ssa.Value]bool{}
	var walk func(v ssa.Value, d int) bool
	walk = func(v ssa.Value, d int) bool {
		if d > 6 || v == nil {
			return false
		}
		if seen[v] {
			return true
		}
		seen[v] = true
		switch x := v.(type) {
		case *ssa.Function:
			n := name(x)
			if n == "" {
				return false
			}
			out = append(out, n)
			return true
		case *ssa.Phi:
			for _, e := range x.Edges {
				if !walk(e, d+1) {
					return false
				}
			}
			return true
		case *ssa.ChangeType:
			return walk(x.X, d+1)
		case *ssa.UnOp:
			if x.Op == token.MUL {
				if val, _ := c07CellValue(x); val != nil {
					return walk(val, d+1)
				}
				if g, ok := x.X.(*ssa.Global); ok {
					if val := st.singleStoreGlobal(g); val != nil {
						return walk(val, d+1)
					}
				}
				// func-typed field / table element: everything stored there
				if cell, ok := st.eng.fv.addrCell(x.X); ok {
					return st.walkCell(cell, walk, d)
				}
			}
		case *ssa.Field:
			return st.walkCell(c07Cell{kind: 'F', id: fieldKey(fieldIDOfField(x))}, walk, d)
		case *ssa.Parameter:
			fn := origin(x.Parent())
			if st.eng.inputFunc(fn) {
				return false
			}
			idx := -1
			for i, q := range x.Parent().Params {
				if q == x {
					idx = i
				}
			}
			sites := st.eng.callers[fn]
			if len(sites) == 0 {
				return false
			}
			for _, cs := range sites {
				if a := cs.Arg(idx); a == nil || !walk(a, d+1) {
					return false
				}
			}
			return true
		}
		return false
	}
	if !walk(c.Call.Value, 0) {
		return nil
	}
	sort.Strings(out)
	return c07Uniq(out)
}

func (st *c07State) walkCell(cell c07Cell, walk func(ssa.Value, int) bool, d int) bool {
	fv := st.eng.fv
	vals := fv.stores[fv.find(cell)]
	if len(vals) == 0 || !fv.cellTracked(cell, 0) {
		return false
	}
	for _, v := range vals {
		if !walk(v, d+1) {
			return false
		}
	}
	return true
}

// c07LenEqDominates: a dominating len(v) == c test at block b.
func c07LenEqDominates(v ssa.Value, b *ssa.BasicBlock) (int64, bool) {
	for _, dc := range domConds(b) {
		cmp, ok := decodeCond(dc.If.Cond, dc.Branch)
		if !ok || cmp.Op != token.EQL {
			continue
		}
		x, y := cmp.X, cmp.Y
		if _, ok := c07ConstInt(x); ok {
			x, y = y, x
		}
		if a, ok := c07LenArg(x); ok && c07SameLen(a) == c07SameLen(v) {
			if c, ok := c07ConstInt(y); ok {
				return c, true
			}
		}
	}
	return 0, false
}

// ivFree: "checked" every path to here tested len == 16; "free" some caller
// chain hands in a caller-chosen slice with no such test; "" unknown.
func (st *c07State) ivFree(fn *ssa.Function, v ssa.Value, at *ssa.BasicBlock, depth int) (string, string) {
	return st.lenFree(fn, v, at, depth, 16)
}

// lenFree: ivFree for an arbitrary required length.
func (st *c07State) lenFree(fn *ssa.Function, v ssa.Value, at *ssa.BasicBlock, depth int, want int64) (string, string) {
	if c, ok := c07LenEqDominates(v, at); ok && c == want {
		return "checked", FuncName(st.p, fn)
	}
	par, ok := v.(*ssa.Parameter)
	if !ok || depth > 5 {
		return "", ""
	}
	if len(st.eng.opaqueGuards(fn, at, v, []c07flowKey{{kind: c07Len, v: v}})) > 0 {
		return "", ""
	}
	if st.eng.inputFunc(fn) {
		return "free", FuncName(st.p, fn) + " parameter " + par.Name()
	}
	idx := -1
	for i, q := range fn.Params {
		if q == par {
			idx = i
		}
	}
	sites := st.eng.callers[origin(fn)]
	if idx < 0 || len(sites) == 0 {
		return "", ""
	}
	all := true
	for _, cs := range sites {
		arg := cs.Arg(idx)
		if arg == nil {
			return "", ""
		}
		v2, chain := st.lenFree(cs.Caller, c07SameLen(arg), cs.Instr.Block(), depth+1, want)
		switch v2 {
		case "free":
			return "free", chain + " -> " + FuncName(st.p, fn)
		case "checked":
		default:
			all = false
		}
	}
	if all {
		return "checked", "all callers of " + FuncName(st.p, fn)
	}
	return "", ""
}

// checkIV: the iv argument has a dominating len(iv) == const test.
func (st *c07State) checkIV(fn *ssa.Function, call *ssa.Call, nm, construct string) {
	p, r := st.p, st.r
	iv := call.Call.Args[1]
	pos := p.Pos(instrPos(call))
	for _, dc := range domConds(call.Block()) {
		cmp, ok := decodeCond(dc.If.Cond, dc.Branch)
		if !ok || cmp.Op != token.EQL {
			continue
		}
		x, y := cmp.X, cmp.Y
		if _, ok := c07ConstInt(x); ok {
			x, y = y, x
		}
		if a, ok := c07LenArg(x); ok && c07SameLen(a) == c07SameLen(iv) {
			if c, ok := c07ConstInt(y); ok {
				if c == 16 {
					r.OK(c07N5iv, construct, pos, "len(iv) == 16 holds on every path to the call")
				} else {
					r.Violation(c07N5iv, construct, pos, fmt.Sprintf("the iv is checked against %d bytes but cipher.%s panics unless it is the AES block size (16)", c, nm))
				}
				return
			}
		}
	}
	root := c07SameLen(iv)
	if verdict, chain := st.ivFree(fn, root, call.Block(), 0); verdict == "free" {
		r.Violation(c07N5iv, construct, pos,
			fmt.Sprintf("cipher.%s panics (\"IV length must equal block size\") unless len(iv) == 16, and no len(iv) == 16 test dominates the call in %s nor the calls that lead to it (%s): a nonce of another length crashes the caller instead of producing an error", nm, FuncName(p, fn), chain),
			"input: a nonce/iv of length 12")
		return
	} else if verdict == "checked" {
		r.OK(c07N5iv, construct, pos, "every caller tests len(iv) == 16 before the call ("+chain+")")
		return
	}
	r.Trivial(c07N5iv, construct, pos, "unclassified: iv is not a caller-supplied parameter of this function")
	st.unclassified(c07N5iv, construct, "iv not traceable to a caller-supplied parameter")
}
