package main

// C05 helpers: anchors, value provenance (clock readings, timer channels),
// may-store summaries and branch facts on Cron.running.

import (
	"go/constant"
	"go/token"
	"go/types"

	"golang.org/x/tools/go/ssa"
)

type c05 struct {
	c   *Ctx
	p   *Prog
	r   *Report
	e   *LockEngine
	pkg string // import path of the cron package

	fEntries, fRunning, fJobWaiter          FieldID
	fStop, fAdd, fRemove, fSnapshot         FieldID
	fNext, fPrev, fSchedule, fWrapped, fJob FieldID
	fID                                     FieldID
	fLocation                               FieldID
	lockID                                  string

	sched     *ssa.Function          // the scheduler loop (callee of the go statement in Start)
	schedOnly map[*ssa.Function]bool // sched + helpers only reachable from it
	funcs     []*ssa.Function        // functions of the cron package
	sites     map[*ssa.Function][]ssa.CallInstruction
	addrTaken map[*ssa.Function]bool

	clockMemo   map[ssa.Value]int // 0 unknown, 1 in progress, 2 yes, 3 no
	clockDepth  int
	storeMemo   map[string]map[*ssa.Function]bool
	starters    map[*ssa.Function]int // function -> index of the Job parameter it starts in a goroutine
	actMemo     map[string]uint64
	actActive   map[string]bool
	unknownCond map[*ssa.Function]bool
	sections    map[*ssa.Function]map[ssa.Instruction]uint8
}

func c05FieldExists(n *types.Named, name string) bool {
	st, ok := n.Underlying().(*types.Struct)
	if !ok {
		return false
	}
	for i := 0; i < st.NumFields(); i++ {
		if st.Field(i).Name() == name {
			return true
		}
	}
	return false
}

// newC05Base resolves the type anchors of package rel (import path pkgPath)
// and the call-site tables; it is shared by the repo check and the fixture.
func newC05Base(p *Prog, r *Report, pkgPath, rel string, cronFields []string) *c05 {
	a := &c05{p: p, r: r, pkg: pkgPath,
		clockMemo: map[ssa.Value]int{}, storeMemo: map[string]map[*ssa.Function]bool{},
		starters: map[*ssa.Function]int{}, actMemo: map[string]uint64{}, actActive: map[string]bool{},
		unknownCond: map[*ssa.Function]bool{}, sections: map[*ssa.Function]map[ssa.Instruction]uint8{},
		sites: map[*ssa.Function][]ssa.CallInstruction{}, addrTaken: map[*ssa.Function]bool{}}
	cronT := p.Named(rel, "Cron")
	entryT := p.Named(rel, "Entry")
	ct, et := a.pkg+".Cron", a.pkg+".Entry"
	for _, f := range cronFields {
		if !c05FieldExists(cronT, f) {
			undecided("anchor field cron.Cron.%s no longer resolves", f)
		}
	}
	for _, f := range []string{"ID", "Schedule", "Next", "Prev", "WrappedJob", "Job"} {
		if !c05FieldExists(entryT, f) {
			undecided("anchor field cron.Entry.%s no longer resolves", f)
		}
	}
	a.fEntries, a.fRunning, a.fJobWaiter = FieldID{ct, "entries"}, FieldID{ct, "running"}, FieldID{ct, "jobWaiter"}
	a.fStop, a.fAdd, a.fRemove, a.fSnapshot = FieldID{ct, "stop"}, FieldID{ct, "add"}, FieldID{ct, "remove"}, FieldID{ct, "snapshot"}
	a.fNext, a.fPrev, a.fSchedule, a.fWrapped, a.fJob, a.fID = FieldID{et, "Next"}, FieldID{et, "Prev"}, FieldID{et, "Schedule"}, FieldID{et, "WrappedJob"}, FieldID{et, "Job"}, FieldID{et, "ID"}
	a.lockID = ct + ".runningMu"
	a.fLocation = FieldID{ct, "location"}
	a.funcs = p.FuncsOfPkg(rel)

	// call sites / address-taken (within the whole module)
	for _, fn := range p.Funcs {
		allInstrs(fn, func(in ssa.Instruction) {
			ci, isCall := in.(ssa.CallInstruction)
			if isCall {
				if cal := staticCallee(ci); cal != nil && p.funcSet[cal] {
					a.sites[cal] = append(a.sites[cal], ci)
				}
			}
			for _, op := range in.Operands(nil) {
				if op == nil || *op == nil {
					continue
				}
				var f *ssa.Function
				switch v := (*op).(type) {
				case *ssa.Function:
					if _, isMC := in.(*ssa.MakeClosure); isMC {
						continue
					}
					f = origin(v)
				case *ssa.MakeClosure:
					if isCall && ci.Common().Value == *op {
						continue
					}
					f, _ = v.Fn.(*ssa.Function)
				}
				if f == nil {
					continue
				}
				if isCall && ci.Common().Value == *op && !ci.Common().IsInvoke() {
					continue
				}
				a.addrTaken[f] = true
			}
		})
	}

	return a
}

func newC05(c *Ctx) *c05 {
	p := c.P
	a := newC05Base(p, c.R, p.ModPath+"/cron", "cron", []string{"entries", "running", "runningMu", "jobWaiter", "stop", "add", "remove", "snapshot", "location"})
	a.c = c
	a.e = c.Locks()
	// scheduler function: what Start spawns
	start := p.Func("cron", "Cron.Start")
	allInstrs(start, func(in ssa.Instruction) {
		if g, ok := in.(*ssa.Go); ok {
			if f := staticCallee(g); f != nil && p.funcSet[f] {
				a.sched = f
			}
		}
	})
	if a.sched == nil {
		undecided("cron.Cron.Start no longer spawns a statically resolvable scheduler goroutine (anchor for the scheduler loop lost)")
	}
	if a.addrTaken[a.sched] {
		undecided("the scheduler function %s is used as a value; its invocation sites cannot be enumerated", FuncName(p, a.sched))
	}
	// helpers only reachable from the scheduler
	a.schedOnly = map[*ssa.Function]bool{a.sched: true}
	for changed := true; changed; {
		changed = false
		for _, fn := range a.funcs {
			if a.schedOnly[fn] || isExportedFunc(fn) || a.addrTaken[fn] || len(a.sites[fn]) == 0 {
				continue
			}
			if fn.Parent() != nil && !a.schedOnly[fn.Parent()] {
				continue
			}
			all := true
			for _, s := range a.sites[fn] {
				if !a.schedOnly[s.Parent()] {
					all = false
				}
				if _, isGo := s.(*ssa.Go); isGo {
					all = false // a separate goroutine is not the scheduler
				}
			}
			if all {
				a.schedOnly[fn] = true
				changed = true
			}
		}
	}
	return a
}

func (a *c05) name(fn *ssa.Function) string { return FuncName(a.p, fn) }
func (a *c05) pos(in ssa.Instruction) string {
	return a.p.Pos(instrPos(in))
}

// fieldAddrIs: v is &X.f for field id; returns X.
func c05FieldAddr(v ssa.Value, id FieldID) (ssa.Value, bool) {
	fa, ok := v.(*ssa.FieldAddr)
	if !ok || fieldIDOfAddr(fa) != id {
		return nil, false
	}
	return fa.X, true
}

// c05LoadOf: v is a load *(&X.f) of field id; returns X.
func c05LoadOf(v ssa.Value, id FieldID) (ssa.Value, bool) {
	for {
		if ct, ok := v.(*ssa.ChangeType); ok {
			v = ct.X
			continue
		}
		break
	}
	u, ok := v.(*ssa.UnOp)
	if !ok || u.Op != token.MUL {
		return nil, false
	}
	return c05FieldAddr(u.X, id)
}

// mayStore: functions of the module that (transitively through static calls)
// store to field id.
func (a *c05) mayStore(id FieldID) map[*ssa.Function]bool {
	key := id.Type + "." + id.Field
	if m, ok := a.storeMemo[key]; ok {
		return m
	}
	m := map[*ssa.Function]bool{}
	for _, fn := range a.p.Funcs {
		allInstrs(fn, func(in ssa.Instruction) {
			if st, ok := in.(*ssa.Store); ok {
				if _, ok := c05FieldAddr(st.Addr, id); ok {
					m[fn] = true
				}
			}
		})
	}
	for changed := true; changed; {
		changed = false
		for _, fn := range a.p.Funcs {
			if m[fn] {
				continue
			}
			allInstrs(fn, func(in ssa.Instruction) {
				if ci, ok := in.(ssa.CallInstruction); ok && !m[fn] {
					if cal := staticCallee(ci); cal != nil && m[cal] {
						m[fn] = true
						changed = true
					}
				}
			})
		}
	}
	a.storeMemo[key] = m
	return m
}

// ---- clock readings -------------------------------------------------------

func c05IsTimeMethod(call *ssa.Call, name string) bool {
	return callIs(call, "time", "Time", name)
}

// timerChan: v is a channel only a timer (or nobody) sends on.
func (a *c05) timerChan(v ssa.Value, seen map[ssa.Value]bool) bool {
	if seen[v] {
		return true
	}
	seen[v] = true
	switch x := v.(type) {
	case *ssa.Phi:
		for _, ed := range x.Edges {
			if !a.timerChan(ed, seen) {
				return false
			}
		}
		return true
	case *ssa.ChangeType:
		return a.timerChan(x.X, seen)
	case *ssa.MakeChan:
		// a channel made locally and never sent on by anyone else: never fires
		return true
	case *ssa.Call:
		obj := calleeObj(x)
		if obj == nil || obj.Pkg() == nil {
			return false
		}
		pp := obj.Pkg().Path()
		isFn := obj.Type().(*types.Signature).Recv() == nil
		if (pp == "k8s.io/utils/clock" && !isFn && (obj.Name() == "C" || obj.Name() == "After")) || (pp == "time" && isFn && obj.Name() == "After") {
			return true
		}
	case *ssa.UnOp:
		if x.Op == token.MUL {
			if fa, ok := x.X.(*ssa.FieldAddr); ok {
				id := fieldIDOfAddr(fa)
				return id.Type == "time.Timer" && id.Field == "C"
			}
		}
	}
	return false
}

// clockDerived: v denotes an instant the clock has already reached when v is
// available: a reading of the clock, a value delivered by a timer, or a
// location-only transform / phi of such.
func (a *c05) clockDerived(v ssa.Value) bool {
	if a.clockDepth == 0 {
		// fresh memo per top-level query: the coinductive phi assumption is only valid inside one query
		a.clockMemo = map[ssa.Value]int{}
	}
	a.clockDepth++
	defer func() { a.clockDepth-- }()
	switch a.clockMemo[v] {
	case 1, 2:
		return true // coinductive for phi cycles
	case 3:
		return false
	}
	a.clockMemo[v] = 1
	ok := a.clockDerived1(v)
	if ok {
		a.clockMemo[v] = 2
	} else {
		a.clockMemo[v] = 3
	}
	return ok
}

func (a *c05) clockDerived1(v ssa.Value) bool {
	switch x := v.(type) {
	case *ssa.Phi:
		for _, ed := range x.Edges {
			if !a.clockDerived(ed) {
				return false
			}
		}
		return true
	case *ssa.Extract:
		if sel, ok := x.Tuple.(*ssa.Select); ok && x.Index >= 2 {
			k := 0
			for _, st := range sel.States {
				if st.Dir != types.RecvOnly {
					continue
				}
				if 2+k == x.Index {
					return a.timerChan(st.Chan, map[ssa.Value]bool{})
				}
				k++
			}
		}
		if call, ok := x.Tuple.(*ssa.UnOp); ok && call.Op == token.ARROW && x.Index == 0 {
			return a.timerChan(call.X, map[ssa.Value]bool{})
		}
		return false
	case *ssa.UnOp:
		if x.Op == token.ARROW {
			return a.timerChan(x.X, map[ssa.Value]bool{})
		}
		if x.Op == token.MUL {
			// a local cell: every store is clock-derived
			if cell, ok := x.X.(*ssa.Alloc); ok {
				n := 0
				for _, r := range refs(cell) {
					switch s := r.(type) {
					case *ssa.Store:
						if s.Addr != cell || !a.clockDerived(s.Val) {
							return false
						}
						n++
					case *ssa.UnOp:
					default:
						return false
					}
				}
				return n > 0
			}
		}
		return false
	case *ssa.Call:
		if x.Call.IsInvoke() {
			m := x.Call.Method
			return m != nil && m.Name() == "Now" && m.Pkg() != nil && m.Pkg().Path() == "k8s.io/utils/clock"
		}
		if callIs(x, "time", "", "Now") {
			return true
		}
		for _, n := range []string{"In", "UTC", "Local"} {
			if c05IsTimeMethod(x, n) {
				return a.clockDerived(x.Call.Args[0])
			}
		}
		if cal := staticCallee(x); cal != nil && a.p.funcSet[cal] && cal.Signature.Results().Len() == 1 {
			n, ok := 0, true
			allInstrs(cal, func(in ssa.Instruction) {
				if ret, isRet := in.(*ssa.Return); isRet && len(ret.Results) == 1 {
					n++
					if !a.clockDerived(ret.Results[0]) {
						ok = false
					}
				}
			})
			return ok && n > 0
		}
		return false
	case *ssa.Parameter:
		fn := x.Parent()
		if isExportedFunc(fn) || a.addrTaken[fn] || len(a.sites[fn]) == 0 {
			return false
		}
		idx := -1
		for i, pa := range fn.Params {
			if pa == x {
				idx = i
			}
		}
		if idx < 0 {
			return false
		}
		for _, s := range a.sites[fn] {
			args := s.Common().Args
			if idx >= len(args) || !a.clockDerived(args[idx]) {
				return false
			}
		}
		return true
	}
	return false
}

// c05PositiveShift: v is t.Add(d) with a constant d > 0 (an instant in the future of t).
func (a *c05) positiveShift(v ssa.Value) bool {
	call, ok := v.(*ssa.Call)
	if !ok || !c05IsTimeMethod(call, "Add") || len(call.Call.Args) != 2 {
		return false
	}
	k, ok := call.Call.Args[1].(*ssa.Const)
	if !ok || k.Value == nil {
		return false
	}
	return constant.Sign(k.Value) > 0 && a.clockDerived(call.Call.Args[0])
}

// ---- facts on Cron.running -------------------------------------------------

// runningFact returns +1/-1 when every path to b has observed Cron.running
// true/false on a dominating branch, with the load that was tested.
func (a *c05) runningFact(b *ssa.BasicBlock) (int, ssa.Instruction) {
	for _, dc := range domConds(b) {
		cond, br := dc.If.Cond, dc.Branch
		for {
			if u, ok := cond.(*ssa.UnOp); ok && u.Op == token.NOT {
				cond, br = u.X, !br
				continue
			}
			break
		}
		if bo, ok := cond.(*ssa.BinOp); ok && (bo.Op == token.EQL || bo.Op == token.NEQ) {
			x, y := bo.X, bo.Y
			if _, isC := x.(*ssa.Const); isC {
				x, y = y, x
			}
			if k, ok := y.(*ssa.Const); ok && k.Value != nil && k.Value.Kind() == constant.Bool {
				want := constant.BoolVal(k.Value)
				if bo.Op == token.NEQ {
					want = !want
				}
				if !want {
					br = !br
				}
				cond = x
			}
		}
		if _, ok := c05LoadOf(cond, a.fRunning); ok {
			if br {
				return 1, cond.(ssa.Instruction)
			}
			return -1, cond.(ssa.Instruction)
		}
	}
	return 0, nil
}

func (a *c05) section(fn *ssa.Function) map[ssa.Instruction]uint8 {
	if s, ok := a.sections[fn]; ok {
		return s
	}
	s := sectionIndex(a.e, fn, a.lockID)
	a.sections[fn] = s
	return s
}

// underLockWithRunning: instruction in executes with runningMu held (W), on a
// branch where Cron.running was read as want (+1/-1) inside the same critical section.
func (a *c05) underLockWithRunning(in ssa.Instruction, want int) (bool, string) {
	if a.e.At(in)[a.lockID] != ModeW {
		return false, "Cron.runningMu is not held"
	}
	got, load := a.runningFact(in.Block())
	if got == 0 {
		return false, "no dominating test of Cron.running"
	}
	if got != want {
		if want > 0 {
			return false, "executes on the branch where Cron.running is false"
		}
		return false, "executes on the branch where Cron.running is true"
	}
	if a.e.At(load)[a.lockID] != ModeW {
		return false, "Cron.running was read without Cron.runningMu"
	}
	sec := a.section(in.Parent())
	if sec[load] != sec[in] {
		return false, "Cron.running was read in an earlier critical section (lock released in between)"
	}
	return true, ""
}

// isConstInt reports whether v is an integer constant with value k.
func c05ConstInt(v ssa.Value, k int64) bool {
	c, ok := v.(*ssa.Const)
	if !ok || c.Value == nil || c.Value.Kind() != constant.Int {
		return false
	}
	return c.Int64() == k
}

// sameConst: two values are the same constant.
func c05SameValue(x, y ssa.Value) bool {
	if x == y {
		return true
	}
	cx, ok1 := x.(*ssa.Const)
	cy, ok2 := y.(*ssa.Const)
	if ok1 && ok2 {
		if cx.Value == nil || cy.Value == nil {
			return cx.Value == nil && cy.Value == nil
		}
		return cx.Value.Kind() == cy.Value.Kind() && constant.Compare(cx.Value, token.EQL, cy.Value)
	}
	return false
}
